package main

import (
	"fmt"
	"go/constant"
	"go/token"
	"sort"
	"strings"

	"golang.org/x/tools/go/ssa"
)

func init() {
	register("C01", runC01,
		"typed field-value parsing (float/int/uint/bool spellings, string unescaping inside quotes), newlines inside quoted string values (lines are split before quotes are seen), a tag or field literally named time, cross-record tag/field name collisions, and equality of the stored Parquet with an independent parse; decided are: that no search/split primitive that cannot see escapes is applied to still-escaped line-protocol text with an escapable delimiter, that quote tracking is applied only to the field section, that every timestamp scaling is an exact unit factor guarded against overflow, that handler and parser agree on the accepted precisions, and that the column discovery pass and the fill pass of BatchToColumnar name columns identically")
}

const lpp = "(*internal/ingest.LineProtocolParser)."

func runC01(c *Ctx) {
	c01SameBatch(c)
	c.Rule("C01.SUFFIX", "WHO: the row→column converters (ToFlatRecord, BatchToColumnar, rowsToColumnar) never name a tag-conflicting field's column by the bare concatenation name+`_value`; the name comes from a helper that extends the suffix in a loop while it is still a tag or another field — otherwise a point with tag a and fields a and a_value stores two fields in one column")
	{
		n := 0
		for _, name := range []string{"internal/ingest.ToFlatRecord", "internal/ingest.BatchToColumnar", "(*internal/ingest.ArrowBuffer).rowsToColumnar"} {
			fn := c.P.Func(name)
			if fn == nil {
				c.Unk("C01.SUFFIX", name+"|function", 0, "function not found")
				continue
			}
			bare := 0
			viaHelper := 0
			for _, in := range instrs(fn, true) {
				if bo, ok := in.(*ssa.BinOp); ok && bo.Op == token.ADD {
					if sv, ok := constString(bo.Y); ok && sv == "_value" {
						bare++
					}
				}
				if call, ok := in.(ssa.CallInstruction); ok {
					callee := call.Common().StaticCallee()
					if callee == nil {
						continue
					}
					pk := callee.Pkg
					if o := callee.Origin(); o != nil {
						pk = o.Pkg // an instantiation of a generic helper
					}
					if pk != fn.Pkg {
						continue
					}
					hasSuffix, lookups, loop := false, 0, false
					for _, in2 := range instrs(callee, false) {
						if bo, ok := in2.(*ssa.BinOp); ok && bo.Op == token.ADD {
							if sv, ok := constString(bo.Y); ok && sv == "_value" {
								hasSuffix = true
								if blockInCycle(bo.Block()) {
									loop = true
								}
							}
						}
						if lk, ok := in2.(*ssa.Lookup); ok && lk.CommaOk {
							lookups++
						}
					}
					if hasSuffix && loop && lookups >= 2 {
						viaHelper++
					}
				}
			}
			n++
			c.Check(bare == 0 && viaHelper >= 1, "C01.SUFFIX", fn.Name()+"|conflict-column-name", fn.Pos(), fmt.Sprintf("%d conflict name(s), all from the collision-checking helper", viaHelper), fmt.Sprintf("%s names a tag-conflicting field's column by plain name+\"_value\" (%d site(s)): if the point also has a field of that very name, both fields land in one column — one value overwrites the other (line protocol) or the column gets two entries per row (row format)", fn.Name(), bare))
		}
		_ = n
	}
	validFillRule(c, "C01.MERGE")
	p := c.P
	c.Rule("C01.ESC", "WHO: in the line-protocol parser no byte/string search or split primitive (Index*, Split*, Cut, Fields, Contains*) is called with a delimiter from the escapable set {comma, space, equals, quote, backslash} (read from unescape's own switch) — separators are located only by the escape-aware scanners (splitOnDelimiterQuoted, indexUnescaped), whose delimiter comparison sits on the not-escaped branch of their backslash test")
	c.Rule("C01.QUOTE", "FLOW: the measurement/tag section is split with quote tracking off (a double quote is only special around a string field value); quote tracking is used only for the text after the first unescaped space and for the field list")
	c.Rule("C01.OVF", "EVAL+DOM: for each accepted precision the timestamp is the parsed value times/divided by exactly the unit factor (partial evaluation of parseLineWithPrecision's scaling), and every multiplication is dominated by range tests against MaxInt64/K and MinInt64/K for that same K")
	c.Rule("C01.PREC", "AGREE: the precision strings the write handler accepts are exactly those the parser's scaling distinguishes (its default standing for ns)")
	c.Rule("C01.COL", "AGREE: BatchToColumnar's fill pass writes each tag and field into a column whose name is computed by the same expression, under the same collision test, as in the discovery pass that allocated the columns")

	// ---- ESC
	esc := c01EscapableSet(c)
	parserFns := []*ssa.Function{}
	for _, fn := range p.FuncsIn("internal/ingest") {
		pos := p.Pos(fn.Pos())
		if strings.Contains(pos, "internal/ingest/lineprotocol.go") {
			parserFns = append(parserFns, fn)
		}
	}
	nPrim := 0
	for _, fn := range parserFns {
		if fn.Name() == "unescape" || fn.Name() == "BatchToColumnar" || fn.Name() == "ToFlatRecord" {
			continue
		}
		for _, call := range callsIn(fn, true) {
			n := callName(call)
			if !(strings.HasPrefix(n, "bytes.") || strings.HasPrefix(n, "strings.")) {
				continue
			}
			short := n[strings.Index(n, ".")+1:]
			if !(strings.HasPrefix(short, "Index") || strings.HasPrefix(short, "LastIndex") || strings.HasPrefix(short, "Split") || short == "Cut" || strings.HasPrefix(short, "Fields") || strings.HasPrefix(short, "Contains")) {
				continue
			}
			nPrim++
			// delimiter constants among the arguments
			var delims []string
			for _, a := range call.Common().Args[1:] {
				for _, d := range c01ConstBytes(a) {
					if esc[d] {
						delims = append(delims, fmt.Sprintf("%q", string(rune(d))))
					}
				}
			}
			construct := fmt.Sprintf("%s|%s#%s", fn.Name(), n, siteOrdinal(fn, call))
			c.Check(len(delims) == 0, "C01.ESC", construct, call.Pos(), "delimiter is not escapable", fmt.Sprintf("%s locates %s with %s, which cannot tell an escaped occurrence from a separator: a name containing the escaped character is split in the wrong place", fn.Name(), strings.Join(uniq(delims), ","), n))
		}
	}
	// the escape-aware scanners: every comparison with the delimiter parameter is dominated by the backslash test having failed
	for _, name := range []string{"splitOnDelimiterQuoted", "indexUnescaped"} {
		fn := c.MustFunc("C01.ESC", "internal/ingest."+name)
		if fn == nil {
			continue
		}
		n := 0
		for _, in := range instrs(fn, false) {
			bo, ok := in.(*ssa.BinOp)
			if !ok || bo.Op != token.EQL || !isParam(fn, "delim")(resolveParam(bo.Y)) && !isParam(fn, "delim")(resolveParam(bo.X)) {
				continue
			}
			n++
			okEsc := func(fs []fact) bool {
				for _, f := range fs {
					// data[i] != '\\'  (the escape branch was not taken)
					if f.Kind == factCmp && f.Op == token.NEQ {
						if k, ok := constInt(f.Y); ok && k == '\\' {
							return true
						}
					}
					// or: i+1 >= len(data) — a trailing backslash escapes nothing
					if f.Kind == factCmp && (f.Op == token.GEQ) {
						return true
					}
				}
				return false
			}
			c.Check(okEsc(factsAt(bo)) || holdsOnAllPaths(bo.Block(), okEsc, 6, nil), "C01.ESC", name+"|delimiter-test-not-escaped", bo.Pos(), "the delimiter is compared only for a byte that is not an escape introducer", name+" compares a byte with the delimiter without having excluded that it is (or follows) a backslash escape")
		}
		if n == 0 {
			c.Unk("C01.ESC", name+"|delimiter-test", fn.Pos(), "no delimiter comparison found")
		}
	}
	c.Floor("C01.ESC", 3, "newline split, two scanners")

	// ---- QUOTE
	nq := 0
	for _, fn := range parserFns {
		for _, call := range callsIn(fn, false) {
			n := callName(call)
			quotes := false
			switch n {
			case "internal/ingest.splitOnDelimiterQuoted":
				k, _ := call.Common().Args[2].(*ssa.Const)
				quotes = k == nil || k.Value == nil || constant.BoolVal(k.Value)
			case "internal/ingest.splitOnDelimiter", lpp + "splitOnComma":
				quotes = true
			default:
				continue
			}
			if fn.Name() == "splitOnDelimiter" || fn.Name() == "splitOnComma" {
				continue // thin wrappers; their callers are checked
			}
			nq++
			data := call.Common().Args[0]
			if n == lpp+"splitOnComma" {
				data = call.Common().Args[1]
			}
			construct := fmt.Sprintf("%s|%s#%s", fn.Name(), n[strings.LastIndex(n, ".")+1:], siteOrdinal(fn, call))
			switch fn.Name() {
			case "parseMeasurementTags":
				c.Check(!quotes, "C01.QUOTE", construct, call.Pos(), "tag section split with quotes off", "the measurement/tag section is split with quote tracking on: a literal double quote in a measurement name, tag key or tag value swallows the following separators and the point is dropped")
			case "splitLine":
				// quotes allowed only on the text after the first unescaped space
				after := false
				derives(data, func(v ssa.Value) bool {
					if sl, ok := v.(*ssa.Slice); ok && sl.Low != nil {
						if derives(sl.Low, func(x ssa.Value) bool {
							cl, ok := x.(*ssa.Call)
							return ok && callName(cl) == "internal/ingest.indexUnescaped"
						}, false, 4) {
							after = true
						}
					}
					return false
				}, false, 4)
				c.Check(!quotes || after, "C01.QUOTE", construct, call.Pos(), "quote tracking starts after the first unescaped space", "the whole line is split on spaces with quote tracking on: a literal double quote in the measurement/tag section hides the section boundary and the point is dropped")
			case "parseFields":
				c.Check(quotes, "C01.QUOTE", construct, call.Pos(), "field list split with quotes on", "the field list is split on commas without quote tracking: a comma inside a string field value splits the value")
			default:
				c.Triv("C01.QUOTE", construct, call.Pos(), "not a section splitter")
			}
		}
	}
	if nq < 3 {
		c.Unk("C01.QUOTE", "splitters", 0, "found %d section splitters", nq)
	}

	// ---- OVF / PREC
	pl := c.MustFunc("C01.OVF", lpp+"parseLineWithPrecision")
	if pl != nil {
		// the precisions the parser distinguishes: constants compared with the precision parameter
		parserPrec := map[string]bool{}
		for _, in := range instrs(pl, false) {
			if bo, ok := in.(*ssa.BinOp); ok && bo.Op == token.EQL && isParam(pl, "precision")(resolveParam(bo.X)) {
				if s, ok := constString(bo.Y); ok {
					parserPrec[s] = true
				}
			}
		}
		want := map[string][2]string{"us": {"", ""}, "ms": {"*", "1000"}, "s": {"*", "1000000"}, "ns": {"/", "1000"}}
		for _, in := range instrs(pl, false) {
			bo, ok := in.(*ssa.BinOp)
			if !ok || (bo.Op != token.MUL && bo.Op != token.QUO) {
				continue
			}
			k, isK := constInt(bo.Y)
			if !isK {
				continue
			}
			// operand is the parsed raw timestamp
			if !derives(bo.X, func(v ssa.Value) bool {
				if ex, ok := v.(*ssa.Extract); ok {
					if cl, ok := ex.Tuple.(*ssa.Call); ok && callName(cl) == "strconv.ParseInt" {
						return true
					}
				}
				return false
			}, false, 3) {
				continue
			}
			// which precision leads here
			prec := "ns"
			for _, f := range factsAt(bo) {
				if f.Kind == factCmp && f.Op == token.EQL && isParam(pl, "precision")(resolveParam(f.X)) {
					if s, ok := constString(f.Y); ok {
						prec = s
					}
				}
			}
			op := map[token.Token]string{token.MUL: "*", token.QUO: "/"}[bo.Op]
			w := want[prec]
			okScale := w[0] == op && w[1] == fmt.Sprint(k)
			okGuard := true
			if bo.Op == token.MUL {
				hi, lo := false, false
				for _, f := range factsAt(bo) {
					if f.Kind != factCmp || f.X != bo.X {
						continue
					}
					lim, ok := constInt(f.Y)
					if !ok {
						continue
					}
					if f.Op == token.LEQ && lim == (1<<63-1)/k {
						hi = true
					}
					if f.Op == token.GEQ && lim == (-1<<63)/k {
						lo = true
					}
				}
				okGuard = hi && lo
			}
			c.Check(okScale && okGuard, "C01.OVF", "parseLineWithPrecision|"+prec, bo.Pos(), fmt.Sprintf("precision %s: ts %s %d, guarded", prec, op, k), fmt.Sprintf("precision %q scales the timestamp by %s%d (want %s%s)%s", prec, op, k, w[0], w[1], map[bool]string{true: "", false: " without range tests against MaxInt64/K and MinInt64/K: a large timestamp wraps around"}[okGuard]))
		}
		c.Floor("C01.OVF", 3, "ms, s and ns scalings")
		// PREC
		hw := c.MustFunc("C01.PREC", "(*internal/api.LineProtocolHandler).handleWrite")
		if hw != nil {
			handlerPrec := map[string]bool{}
			for _, in := range instrs(hw, false) {
				if bo, ok := in.(*ssa.BinOp); ok && bo.Op == token.EQL && isParam(hw, "precision")(resolveParam(bo.X)) {
					if s, ok := constString(bo.Y); ok {
						handlerPrec[s] = true
					}
				}
			}
			parserPrec["ns"] = true // the parser's default arm
			var hs, ps []string
			for k := range handlerPrec {
				hs = append(hs, k)
			}
			for k := range parserPrec {
				ps = append(ps, k)
			}
			sort.Strings(hs)
			sort.Strings(ps)
			c.Check(strings.Join(hs, ",") == strings.Join(ps, ","), "C01.PREC", "handleWrite~parseLineWithPrecision|precisions", hw.Pos(), "both sides know "+strings.Join(hs, ","), fmt.Sprintf("the handler accepts precisions [%s] but the parser distinguishes [%s]: a precision known to only one side is read as nanoseconds or refused", strings.Join(hs, ","), strings.Join(ps, ",")))
		}
	}

	// ---- GROUP
	c.Rule("C01.GROUP", "FLOW: every store into BatchToColumnar's measurement grouping map extends the group already stored under that key (the stored value derives from a lookup of the same map), so records of one measurement that are not adjacent in the request are not dropped")
	if bt := c.MustFunc("C01.GROUP", "internal/ingest.BatchToColumnar"); bt != nil {
		n := 0
		for _, in := range instrs(bt, false) {
			mu, ok := in.(*ssa.MapUpdate)
			if !ok || !strings.Contains(mu.Map.Type().String(), "[]*") || !strings.Contains(mu.Map.Type().String(), "models.Record") {
				continue
			}
			n++
			acc := derivesWide(mu.Value, func(v ssa.Value) bool {
				lk, ok := v.(*ssa.Lookup)
				return ok && lk.X == mu.Map
			}, 8)
			c.Check(acc, "C01.GROUP", fmt.Sprintf("BatchToColumnar|group-store#%d", n), mu.Pos(), "the group is extended, not replaced", "a measurement's group is overwritten instead of extended: when points of one measurement are separated by points of another, the earlier ones are dropped")
		}
		if n == 0 {
			c.Unk("C01.GROUP", "BatchToColumnar|group-store", bt.Pos(), "no grouping map store found")
		}
	}

	// ---- COL
	if bt := c.MustFunc("C01.COL", "internal/ingest.BatchToColumnar"); bt != nil {
		// discovery: MapUpdate into map[string]bool; fill: Store into element of a Lookup on map[string][]interface{}
		type ent struct {
			kind string // tag | field | field-collision | time
			key  string
		}
		describe := func(key ssa.Value, at ssa.Instruction) ent {
			if s, ok := constString(key); ok {
				return ent{"const", s}
			}
			suffix := ""
			if bo, ok := key.(*ssa.BinOp); ok && bo.Op == token.ADD {
				if s, ok := constString(bo.Y); ok {
					suffix = s
					key = bo.X
				}
			}
			src := "?"
			derivesWide(key, func(v ssa.Value) bool {
				if sn, f, _, ok := loadedField(v); ok && sn == "Record" {
					src = f
				}
				return false
			}, 6)
			// under which collision test
			coll := ""
			for _, f := range factsAt(at) {
				if ex, ok := f.Val.(*ssa.Extract); ok && ex.Index == 1 {
					if _, isLk := ex.Tuple.(*ssa.Lookup); isLk {
						if f.Kind == factTrue {
							coll = "|collides"
						} else if f.Kind == factFalse {
							coll = "|free"
						}
					}
				}
			}
			return ent{src + coll, suffix}
		}
		disc := map[ent]bool{}
		fill := map[ent]bool{}
		for _, in := range instrs(bt, false) {
			switch x := in.(type) {
			case *ssa.MapUpdate:
				if strings.HasPrefix(x.Map.Type().String(), "map[string]bool") {
					disc[describe(x.Key, x)] = true
				}
			case *ssa.Store:
				if ia, ok := x.Addr.(*ssa.IndexAddr); ok {
					if lk, ok := ia.X.(*ssa.Lookup); ok && strings.HasPrefix(lk.X.Type().String(), "map[string][]interface{}") {
						fill[describe(lk.Index, x)] = true
					}
				}
			}
		}
		var ds, fs []string
		for e := range disc {
			ds = append(ds, e.kind+"+"+e.key)
		}
		for e := range fill {
			fs = append(fs, e.kind+"+"+e.key)
		}
		sort.Strings(ds)
		sort.Strings(fs)
		c.Check(len(ds) >= 4 && strings.Join(ds, ";") == strings.Join(fs, ";"), "C01.COL", "BatchToColumnar|discovery~fill", bt.Pos(), "columns allocated and columns filled are named alike: "+strings.Join(ds, "; "), fmt.Sprintf("BatchToColumnar allocates columns as [%s] but fills them as [%s]: a value is written into a column that was not allocated (nil map entry: index out of range) or into another field's column", strings.Join(ds, "; "), strings.Join(fs, "; ")))
	}
}

// c01EscapableSet reads the escapable characters from unescape's switch.
func c01EscapableSet(c *Ctx) map[int64]bool {
	out := map[int64]bool{}
	fn := c.P.Func(lpp + "unescape")
	if fn == nil {
		return out
	}
	for _, in := range instrs(fn, false) {
		if bo, ok := in.(*ssa.BinOp); ok && bo.Op == token.EQL {
			if k, ok := constInt(bo.Y); ok && k > 0 && k < 128 {
				out[k] = true
			}
		}
	}
	if len(out) < 4 {
		c.Unk("C01.ESC", "unescape|escapable-set", fn.Pos(), "cannot read the escapable set from unescape")
	}
	return out
}

// c01ConstBytes: the constant byte(s) denoted by v: a byte/rune constant, a constant string, or a []byte{...} literal.
func c01ConstBytes(v ssa.Value) []int64 {
	if k, ok := constInt(v); ok {
		return []int64{k}
	}
	if s, ok := constString(v); ok {
		var out []int64
		for _, r := range s {
			out = append(out, int64(r))
		}
		return out
	}
	if sl, ok := v.(*ssa.Slice); ok {
		if arr, ok := sl.X.(*ssa.Alloc); ok {
			var out []int64
			for _, r := range *arr.Referrers() {
				if ia, ok := r.(*ssa.IndexAddr); ok {
					for _, r2 := range *ia.Referrers() {
						if st, ok := r2.(*ssa.Store); ok {
							if k, ok := constInt(st.Val); ok {
								out = append(out, k)
							}
						}
					}
				}
			}
			return out
		}
	}
	if cv, ok := v.(*ssa.Convert); ok {
		return c01ConstBytes(cv.X)
	}
	return nil
}
