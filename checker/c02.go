package main

import (
	"fmt"
	"go/constant"
	"go/token"
	"sort"
	"strings"

	"golang.org/x/tools/go/ssa"
)

func init() {
	register("C02", runC02,
		"element-by-element coercion equivalence over every msgpack encoding (the code-to-Go-type map of the generic path lives in the third-party decoder), equality of accept/reject decisions for malformed payloads, and the stored result; decided are: that both decoders detect the time unit from element 0 with the same threshold-to-factor table, that the typed path is enabled only as the negation of HasDecimalColumns and by one writer, that a typed miss always reaches the generic decoder and the typed path mutates no decoder state besides its counters, that both paths generate missing timestamps, sanitise strings and compute the schema signature through the same functions, and that the record type the typed path returns is stored by the buffer's dispatch")
}

const mpd = "(*internal/ingest.MessagePackDecoder)."

// c02UnitTable extracts {upper bound -> factor} from a function that picks a timestamp multiplier by magnitude:
// for every constant assigned to the multiplier, the tightest "x < K" known on the assigning edge ("inf" when none).
func c02UnitTable(fn *ssa.Function) map[string]string {
	out := map[string]string{}
	record := func(fs []fact, m int64) {
		best := ""
		var bestV float64
		for _, f := range fs {
			if f.Kind != factCmp || f.Op != token.LSS {
				continue
			}
			k, ok := f.Y.(*ssa.Const)
			if !ok || k.Value == nil {
				continue
			}
			v, _ := constant.Float64Val(constant.ToFloat(k.Value))
			if v < 1e9 {
				continue
			}
			if best == "" || v < bestV {
				best, bestV = fmt.Sprintf("%g", v), v
			}
		}
		if best == "" {
			best = "inf"
		}
		out[best] = fmt.Sprint(m)
	}
	for _, in := range instrs(fn, false) {
		phi, ok := in.(*ssa.Phi)
		if !ok || !strings.Contains(phi.Comment, "multiplier") {
			continue
		}
		for i, e := range phi.Edges {
			k, ok := constInt(e)
			if !ok || k == 0 {
				continue
			}
			pred := phi.Block().Preds[i]
			record(append(factsAtBlock(pred), blockEdgeFactsDirect(pred, phi.Block())...), k)
		}
	}
	return out
}

func tableString(m map[string]string) string {
	var ks []string
	for k := range m {
		ks = append(ks, k)
	}
	sort.Strings(ks)
	var out []string
	for _, k := range ks {
		out = append(out, "<"+k+"→"+m[k])
	}
	return strings.Join(out, ", ")
}

func runC02(c *Ctx) {
	c.Rule("C02.SIGN", "SIBLING: the typed and the generic timestamp-unit classifier compare the same quantity with the magnitude thresholds — the signed first element as decoded; neither takes its absolute value or negates it first (if one did, pre-1970 timestamps in ms/µs/ns would be scaled by different factors depending on which path decoded them)")
	{
		usesAbs := func(fn *ssa.Function) (bool, int) {
			if fn == nil {
				return false, 0
			}
			n := 0
			abs := false
			for _, in := range instrs(fn, true) {
				bo, ok := in.(*ssa.BinOp)
				if !ok {
					continue
				}
				k, isC := constInt(bo.Y)
				if !isC || (k != 10000000000 && k != 10000000000000 && k != 10000000000000000) {
					continue
				}
				n++
				if derives(bo.X, func(v ssa.Value) bool {
					switch x := v.(type) {
					case *ssa.UnOp:
						return x.Op == token.SUB
					case *ssa.BinOp:
						if x.Op == token.SUB {
							if z, ok := constInt(x.X); ok && z == 0 {
								return true
							}
						}
					case *ssa.Call:
						return callName(x) == "math.Abs"
					}
					return false
				}, true, 6) {
					abs = true
				}
			}
			return abs, n
		}
		var gen, typ *ssa.Function
		for _, f := range c.P.FuncsIn("internal/ingest") {
			switch f.Name() {
			case "normalizeTimestampColumnsUnit":
				gen = f
			case "decodeTimeColumnTyped":
				typ = f
			}
		}
		a1, n1 := usesAbs(gen)
		a2, n2 := usesAbs(typ)
		if n1 == 0 || n2 == 0 {
			c.Unk("C02.SIGN", "unit-classifiers|threshold-comparisons", 0, "threshold comparisons found: generic %d, typed %d", n1, n2)
		} else {
			c.Check(!a1 && !a2, "C02.SIGN", "normalizeTimestampColumnsUnit~decodeTimeColumnTyped|signed-first-element", gen.Pos(), "both classify the signed element", fmt.Sprintf("the unit classifiers do not compare the same quantity (generic uses |x|: %v, typed uses |x|: %v): for a negative first timestamp of magnitude >= 1e10 one path scales by 1e6 and the other by 1e3/1/÷1e3 — the stored time column depends on whether the typed fast path is on", a1, a2))
		}
	}
	c.Rule("C02.DUPCOL", "DOM: in decodeTypedColumns a column value is skipped (the non-array case the generic path drops) only after the duplicate-name test said `first occurrence` — a repeated column key always sends the typed path to the generic decoder, whose last-key-wins result is what every replay of the raw bytes sees")
	if fn := c.MustFunc("C02.DUPCOL", "(*internal/ingest.MessagePackDecoder).decodeTypedColumns"); fn != nil {
		n := 0
		for _, call := range callsIn(fn, false) {
			if !strings.HasSuffix(callName(call), ".Decoder).Skip") || !blockInCycle(call.Block()) {
				continue
			}
			n++
			ok := false
			for _, f := range factsAt(call.(ssa.Instruction)) {
				if f.Kind != factFalse {
					continue
				}
				if ex, isEx := f.Val.(*ssa.Extract); isEx && ex.Index == 1 {
					if lk, isLk := ex.Tuple.(*ssa.Lookup); isLk && strings.HasPrefix(lk.X.Type().String(), "map[string]") {
						ok = true
					}
				}
			}
			c.Check(ok, "C02.DUPCOL", fmt.Sprintf("decodeTypedColumns|skip#%d-after-duplicate-test", n), call.Pos(), "value skipped only for a first occurrence of the name", "decodeTypedColumns skips a non-array column value before testing whether the name already occurred: `columns: {v:[1,2], v:5}` keeps the array on the typed path while the generic decoder (last key wins) drops the column")
		}
		c.Check(n >= 1, "C02.DUPCOL", "decodeTypedColumns|skip-sites", fn.Pos(), "skip site found", "no Skip call found in the column loop (rule needs review)")
	}
	c.Rule("C02.COERCE", "SIBLING: the typed decoder's float→int64 element coercion (decodeIntElemAsInt64) executes its conversion under exactly the guards the generic path's toInt64 has for float64 (the same comparisons against the same constants, the same NaN test or none) — if one side starts rejecting a value the other still accepts, the two paths differ in whether the write is accepted and in what is stored")
	{
		guardsOf := func(fn *ssa.Function) (map[string]bool, int) {
			out := map[string]bool{}
			n := 0
			if fn == nil {
				return out, 0
			}
			for _, in := range instrs(fn, false) {
				cv, ok := in.(*ssa.Convert)
				if !ok || cv.X.Type().String() != "float64" || cv.Type().String() != "int64" {
					continue
				}
				n++
				for _, f := range factsAt(cv) {
					switch f.Kind {
					case factCmp:
						if f.X == cv.X {
							if k, ok := f.Y.(*ssa.Const); ok && k.Value != nil {
								out[f.Op.String()+" "+k.Value.ExactString()] = true
							}
						}
					case factTrue, factFalse:
						if cl, ok := f.Val.(*ssa.Call); ok && (callName(cl) == "math.IsNaN" || callName(cl) == "math.IsInf") {
							out[fmt.Sprintf("%s=%v", callName(cl), f.Kind == factTrue)] = true
						}
					}
				}
			}
			return out, n
		}
		g1, n1 := guardsOf(c.P.Func("internal/ingest.toInt64"))
		g2, n2 := guardsOf(c.P.Func("internal/ingest.decodeIntElemAsInt64"))
		if n1 == 0 || n2 == 0 {
			c.Unk("C02.COERCE", "toInt64~decodeIntElemAsInt64|float-conversions", 0, "float64→int64 conversions found: generic %d, typed %d", n1, n2)
		} else {
			var diff []string
			for k := range g1 {
				if !g2[k] {
					diff = append(diff, "only generic: "+k)
				}
			}
			for k := range g2 {
				if !g1[k] {
					diff = append(diff, "only typed: "+k)
				}
			}
			sort.Strings(diff)
			c.Check(len(diff) == 0, "C02.COERCE", "toInt64~decodeIntElemAsInt64|float-guards", c.P.Func("internal/ingest.toInt64").Pos(), fmt.Sprintf("both convert float64 under the same %d guard(s)", len(g1)), "the generic and the typed path guard their float64→int64 conversion differently ("+strings.Join(diff, "; ")+"): a float element one side rejects (NaN, exactly 2^63) is accepted and stored by the other, so switching the typed fast path changes whether the write is accepted")
		}
	}
	p := c.P
	c.Rule("C02.UNIT", "AGREE: the magnitude-to-factor table of decodeTimeColumnTyped equals that of normalizeTimestampColumnsUnit (<1e10→×1e6, <1e13→×1e3, <1e16→×1, else ÷1e3), and both decide from element 0")
	c.Rule("C02.GATE", "FLOW+WHO: typedEnabled is written only by SetTypedDecodeEnabled, whose every caller passes the negation of ArrowBuffer.HasDecimalColumns()")
	c.Rule("C02.FALLBACK", "PASS+FIELD: in Decode a failed typed attempt always reaches the generic msgpack.Unmarshal; the typed decoding functions store to no field of the decoder")
	c.Rule("C02.SAME", "WHO: both paths generate a missing time column from the clock, sanitise strings through SanitizeUTF8 and compute the schema signature through getColumnSignature")
	c.Rule("C02.DISPATCH", "COVER: the record type the typed path returns has an arm in ArrowBuffer.Write and in extractMeasurements")

	// ---- UNIT
	tf := c.MustFunc("C02.UNIT", "internal/ingest.decodeTimeColumnTyped")
	gf := c.MustFunc("C02.UNIT", "internal/ingest.normalizeTimestampColumnsUnit")
	if tf != nil && gf != nil {
		tt, gt := c02UnitTable(tf), c02UnitTable(gf)
		want := map[string]string{"1e+10": "1000000", "1e+13": "1000", "1e+16": "1", "inf": "-1000"}
		c.Check(tableString(tt) == tableString(gt) && tableString(tt) == tableString(want), "C02.UNIT", "decodeTimeColumnTyped~normalizeTimestampColumnsUnit|unit-table", tf.Pos(), "both use "+tableString(tt), fmt.Sprintf("the typed path scales timestamps by [%s] but the generic path by [%s]: the same payload is stored with different times depending on which decoder ran", tableString(tt), tableString(gt)))
		// element 0
		typed0 := false
		for _, in := range instrs(tf, false) {
			phi, ok := in.(*ssa.Phi)
			if !ok || !strings.Contains(phi.Comment, "multiplier") {
				continue
			}
			for i, e := range phi.Edges {
				if _, isK := e.(*ssa.Const); !isK {
					continue
				}
				if k, _ := constInt(e); k == 0 {
					continue
				}
				pred := phi.Block().Preds[i]
				for _, f := range append(factsAtBlock(pred), blockEdgeFactsDirect(pred, phi.Block())...) {
					if f.Kind == factCmp && f.Op == token.EQL {
						if z, ok := constInt(f.Y); ok && z == 0 {
							typed0 = true
						}
					}
				}
			}
		}
		gen0 := false
		for _, call := range callsIn(gf, false) {
			if callName(call) == "internal/ingest.toInt64Timestamp" {
				if derives(call.Common().Args[0], func(v ssa.Value) bool {
					if ia, ok := v.(*ssa.IndexAddr); ok {
						if z, ok := constInt(ia.Index); ok && z == 0 {
							return true
						}
					}
					return false
				}, false, 3) {
					gen0 = true
				}
			}
		}
		c.Check(typed0 && gen0, "C02.UNIT", "decodeTimeColumnTyped~normalizeTimestampColumnsUnit|element-0", tf.Pos(), "both detect the unit from the first element", "the two decoders do not both detect the time unit from element 0")
	}

	// ---- GATE
	nW := 0
	for _, fn := range p.FuncsIn("internal/ingest") {
		for _, in := range instrs(fn, true) {
			st, ok := in.(*ssa.Store)
			if !ok {
				continue
			}
			if sn, f, _, ok := fieldOf(st.Addr); ok && sn == "MessagePackDecoder" && f == "typedEnabled" {
				nW++
				c.Check(fn.Name() == "SetTypedDecodeEnabled", "C02.GATE", fn.Name()+"|writes-typedEnabled", st.Pos(), "single writer", fn.Name()+" writes typedEnabled: the typed path can be on although decimal columns are configured")
			}
		}
	}
	nC := 0
	for _, pk := range []string{"internal/api", "cmd/arc", "internal/ingest", "internal/mqtt"} {
		for _, fn := range p.FuncsIn(pk) {
			for _, call := range findCalls(fn, true, mpd+"SetTypedDecodeEnabled") {
				nC++
				arg := call.Common().Args[1]
				ok := false
				if u, isU := arg.(*ssa.UnOp); isU && u.Op == token.NOT {
					if cl, isC := u.X.(*ssa.Call); isC && callName(cl) == abuf+"HasDecimalColumns" {
						ok = true
					}
				}
				if k, isK := arg.(*ssa.Const); isK && k.Value != nil && !constant.BoolVal(k.Value) {
					ok = true // switching it off is always safe
				}
				c.Check(ok, "C02.GATE", fn.Name()+"|SetTypedDecodeEnabled#"+siteOrdinal(fn, call), call.Pos(), "enabled only as !HasDecimalColumns()", fn.Name()+" enables the typed decode path with a value that is not !HasDecimalColumns(): decimal columns decoded by the typed path are stored as floats/ints instead of decimals")
			}
		}
	}
	if nW == 0 || nC == 0 {
		c.Unk("C02.GATE", "writers", 0, "found %d writers and %d callers", nW, nC)
	}

	// ---- FALLBACK
	if dc := c.MustFunc("C02.FALLBACK", mpd+"Decode"); dc != nil {
		var try ssa.CallInstruction
		for _, call := range findCalls(dc, false, mpd+"tryDecodeColumnarTyped") {
			try = call
		}
		if try == nil {
			c.Bad("C02.FALLBACK", "Decode|typed-attempt", dc.Pos(), "Decode does not call tryDecodeColumnarTyped")
		} else {
			okV := resultN(try, 1)
			// on the false edge every path reaches msgpack.Unmarshal before returning
			skipped := false
			for _, b := range dc.Blocks {
				for _, sb := range b.Succs {
					isMiss := false
					for _, f := range blockEdgeFactsDirect(b, sb) {
						if f.Kind == factFalse && f.Val == okV {
							isMiss = true
						}
					}
					if !isMiss {
						continue
					}
					for _, e := range pathsAvoidingTo(dc, nil, sb, func(x ssa.Instruction) bool {
						ci, ok := x.(ssa.CallInstruction)
						return ok && strings.HasSuffix(callName(ci), "msgpack/v6.Unmarshal")
					}, func(ssa.Instruction) bool { return false }) {
						if _, isRet := e.Instr.(*ssa.Return); isRet {
							skipped = true
						}
					}
				}
			}
			c.Check(!skipped, "C02.FALLBACK", "Decode|miss-reaches-generic", try.Pos(), "a typed miss always falls through to the generic decoder", "Decode can return after a failed typed attempt without running the generic decoder: a payload the typed path does not handle is rejected or lost although the generic path accepts it")
		}
	}
	var typedFns []*ssa.Function
	for _, fn := range p.FuncsIn("internal/ingest") {
		if strings.Contains(p.Pos(fn.Pos()), "msgpack_typed.go") {
			typedFns = append(typedFns, fn)
		}
	}
	nSt := 0
	for _, fn := range typedFns {
		for _, in := range instrs(fn, true) {
			if st, ok := in.(*ssa.Store); ok {
				if sn, f, _, ok := fieldOf(st.Addr); ok && sn == "MessagePackDecoder" {
					nSt++
					c.Bad("C02.FALLBACK", fn.Name()+"|writes-decoder."+f, st.Pos(), "%s stores to decoder field %s: a failed typed attempt leaves state behind that the generic path then sees", fn.Name(), f)
				}
			}
		}
	}
	if nSt == 0 {
		c.OK("C02.FALLBACK", "msgpack_typed.go|no-decoder-stores", 0, "%d typed decoding functions store to no decoder field", len(typedFns))
	}

	// ---- SAME
	reach := func(fn *ssa.Function, name string) bool {
		return reaches(fn, func(call ssa.CallInstruction) bool { return strings.HasSuffix(callName(call), name) }, 4, nil)
	}
	try := p.Func(mpd + "tryDecodeColumnarTyped")
	gen := p.Func(mpd + "decodeColumnar")
	if try != nil && gen != nil {
		for _, w := range []struct{ what, callee string }{{"missing-time-from-clock", "time.Now"}, {"string-sanitiser", "SanitizeUTF8"}} {
			a, b := reach(try, w.callee), reach(gen, w.callee)
			c.Check(a && b, "C02.SAME", "typed~generic|"+w.what, try.Pos(), "both paths use "+w.callee, fmt.Sprintf("only one decoder reaches %s (typed: %v, generic: %v): the stored result depends on which path ran", w.callee, a, b))
		}
		sigT := reach(try, "getColumnSignature")
		conv := p.Func(abuf + "convertColumnsToTyped")
		sigG := conv != nil && reach(conv, "getColumnSignature")
		if !sigG {
			if wc := p.Func(abuf + "writeColumnarInternal"); wc != nil {
				sigG = reach(wc, "getColumnSignature")
			}
		}
		c.Check(sigT && sigG, "C02.SAME", "typed~generic|schema-signature", try.Pos(), "both paths compute the signature through getColumnSignature", "the typed and generic paths do not both compute the schema signature through getColumnSignature: equal schemas can get different signatures and split buffers, or different ones share a buffer")
	} else {
		c.Unk("C02.SAME", "typed~generic", 0, "decoder entry points not found")
	}

	// ---- DECIMAL
	c.Rule("C02.DECIMAL", "AGREE: HasDecimalColumns (the gate that switches the typed path off) reads every decimal-configuration field that getDecimalColumns (what the generic converter consults) reads, and answers true whenever one of them is non-empty")
	hd := c.MustFunc("C02.DECIMAL", abuf+"HasDecimalColumns")
	gd := c.MustFunc("C02.DECIMAL", abuf+"getDecimalColumns")
	if hd != nil && gd != nil {
		fieldsRead := func(fn *ssa.Function) map[string]bool {
			out := map[string]bool{}
			for _, in := range instrs(fn, false) {
				if fa, ok := in.(*ssa.FieldAddr); ok {
					if sn, f, _, ok := fieldOf(fa); ok && sn == "ArrowBuffer" {
						out[f] = true
					}
				}
			}
			return out
		}
		hf, gf2 := fieldsRead(hd), fieldsRead(gd)
		var miss []string
		for f := range gf2 {
			if !hf[f] {
				miss = append(miss, f)
			}
		}
		sort.Strings(miss)
		// each field read by the gate is tested only through len(...) > 0 feeding the result directly
		lenOnly := true
		for _, in := range instrs(hd, false) {
			switch x := in.(type) {
			case *ssa.Range, *ssa.Next:
				_ = x
				lenOnly = false // iterating the config to apply further conditions can answer false for a non-empty config
			}
		}
		c.Check(len(miss) == 0 && lenOnly, "C02.DECIMAL", "HasDecimalColumns~getDecimalColumns|same-config", hd.Pos(), "the gate sees every decimal configuration source", fmt.Sprintf("HasDecimalColumns does not cover the configuration getDecimalColumns uses (unread: %s; extra conditions: %v): with such a configuration the typed path stays on and configured decimal columns are stored as float64/int64", strings.Join(miss, ","), !lenOnly))
	}

	// ---- SANITIZE
	c.Rule("C02.SANITIZE", "COVER: the generic path's string sanitiser decides per element: no test of a fixed element (col[0]) can skip a whole column")
	if sf := c.MustFunc("C02.SANITIZE", "internal/ingest.sanitizeColumnarStrings"); sf != nil {
		fixed := false
		for _, in := range instrs(sf, false) {
			switch x := in.(type) {
			case *ssa.IndexAddr:
				if _, ok := constInt(x.Index); ok {
					fixed = true
				}
			case *ssa.Index:
				if _, ok := constInt(x.Index); ok {
					fixed = true
				}
			}
		}
		perElem := false
		for _, call := range findCalls(sf, false, "internal/ingest.SanitizeUTF8") {
			if blockInCycle(call.Block()) {
				perElem = true
			}
		}
		c.Check(perElem && !fixed, "C02.SANITIZE", "sanitizeColumnarStrings|per-element", sf.Pos(), "every element is inspected on its own", "sanitizeColumnarStrings decides from a fixed element whether to look at a column: a column whose first element is nil (or not a string) keeps invalid UTF-8 in later rows, while the typed path sanitises every string element")
	}

	// ---- DISPATCH
	if try != nil {
		rt := ""
		for _, in := range instrs(try, false) {
			if a, ok := in.(*ssa.Alloc); ok && a.Heap && strings.Contains(a.Type().String(), "TypedColumnarRecord") {
				rt = "*internal/ingest.TypedColumnarRecord"
			}
		}
		w := p.Func(abuf + "Write")
		ex := p.Func("(*internal/api.MsgPackHandler).extractMeasurements")
		okW, okE := false, false
		if w != nil {
			_, okW = typeSwitchTypes(w, false)[rt]
		}
		if ex != nil {
			_, okE = typeSwitchTypes(ex, true)[rt]
		}
		c.Check(rt != "" && okW && okE, "C02.DISPATCH", "TypedColumnarRecord|stored-and-checked", try.Pos(), "the typed record is stored by Write and reported by extractMeasurements", "the typed path's record type is not handled by ArrowBuffer.Write and extractMeasurements: typed writes are refused (or bypass validation) while generic ones are stored")
	}
}
