package main

import (
	"fmt"
	"go/token"
	"sort"
	"strings"

	"golang.org/x/tools/go/ssa"
)

func init() {
	register("C03", runC03,
		"conservation of rows under real interleavings, uniqueness of file names (they embed a nanosecond clock), value and null preservation inside the Parquet encoder, and the correctness of the sort algorithms themselves; decided are: that every access to a shard's buffer maps holds that shard's mutex (with the *Locked helpers entered and left with it held), that taking a batch out of the buffers clears all four maps in the same critical section, that every switch over column slice types handles the same set of types, that hour bucketing is a floor division done in one place and the partition path is built from the bucket it belongs to, and that a computed row permutation is applied to every column and validity bitmap")
}

var c03Guarded = map[string]bool{"buffers": true, "bufferStartTimes": true, "bufferRecordCounts": true, "bufferSchemas": true}

func runC03(c *Ctx) {
	validFillRule(c, "C03.VALIDFILL")
	c.Rule("C03.GATHER", "SIBLING: every application of a row permutation / selection (a loop over an index list that fills a freshly made slice) is a gather — result[position] = source[indices[position]] — for data columns and validity bitmaps alike; a scatter (result[indices[position]] = source[position]) applies the inverse permutation, so values and their NULL flags end up on different rows")
	{
		nG := 0
		for _, fn := range c.P.FuncsIn("internal/ingest") {
			if !strings.Contains(c.P.Pos(fn.Pos()), "arrow_writer.go") {
				continue
			}
			for _, in := range instrs(fn, false) {
				st, ok := in.(*ssa.Store)
				if !ok || !blockInCycle(st.Block()) {
					continue
				}
				dst, ok := st.Addr.(*ssa.IndexAddr)
				if !ok {
					continue
				}
				if _, fresh := dst.X.(*ssa.MakeSlice); !fresh {
					continue
				}
				// the stored value is an element of another slice
				ld, ok := st.Val.(*ssa.UnOp)
				if !ok || ld.Op != token.MUL {
					continue
				}
				src, ok := ld.X.(*ssa.IndexAddr)
				if !ok {
					continue
				}
				// is one of the two indexes an element of an []int list, the other the loop position?
				elemOfIntList := func(v ssa.Value) bool {
					l, ok := v.(*ssa.UnOp)
					if !ok || l.Op != token.MUL {
						return false
					}
					ia, ok := l.X.(*ssa.IndexAddr)
					return ok && ia.X.Type().String() == "[]int"
				}
				isPos := func(v ssa.Value) bool {
					if bo, ok := v.(*ssa.BinOp); ok && bo.Op == token.ADD {
						v = bo.X
					}
					ph, ok := v.(*ssa.Phi)
					return ok && ph.Comment == "rangeindex"
				}
				switch {
				case isPos(dst.Index) && elemOfIntList(src.Index):
					nG++
					c.OK("C03.GATHER", fmt.Sprintf("%s|permutation-site#%d", fn.Name(), nG), st.Pos(), "gather: result[position] = source[indices[position]]")
				case elemOfIntList(dst.Index) && isPos(src.Index):
					nG++
					c.Bad("C03.GATHER", fmt.Sprintf("%s|permutation-site#%d", fn.Name(), nG), st.Pos(), "%s scatters (result[indices[i]] = source[i]) where every other permutation site gathers: this slice is reordered by the INVERSE permutation — for a sort that is not its own inverse (three or more rows out of order) a row written with NULL is stored with a zero value and another row's value is stored as NULL", fn.Name())
				}
			}
		}
		c.Floor("C03.GATHER", 8, "applyPermutation's arms and the validity reorderings")
	}
	p := c.P
	c.Rule("C03.LOCK", "LOCK: every read or write of bufferShard.buffers / bufferStartTimes / bufferRecordCounts / bufferSchemas happens with that shard's mu held (must-hold dataflow over the CFG); functions named *Locked are analysed as entered with the lock held, must return with it held on every path, and are called only with it held")
	c.Rule("C03.EXTRACT", "FIELD: wherever a key is deleted from shard.buffers it is deleted from the three companion maps before the lock is released")
	c.Rule("C03.TYPES", "AGREE: every type switch over column data in arrow_writer.go handles the same set of slice types (a type missing from one switch is silently passed through or dropped there, mis-aligning that column against the others)")
	c.Rule("C03.HOUR", "WHO+IDIOM: division by microPerHour happens only in HourBucketID, which decrements the truncating quotient exactly when the time is negative and not a multiple of an hour (floor division); groupByHour buckets through HourBucketID")
	c.Rule("C03.PATH", "FLOW: generateStoragePath is given the flush's database and measurement and a time derived from the bucket being written")
	c.Rule("C03.SORT", "COVER: the function that applies a row permutation to a batch ranges over all data columns and all validity bitmaps")

	// ---- LOCK
	fns := p.FuncsIn("internal/ingest")
	nAcc := 0
	lockedFns := map[*ssa.Function]bool{}
	for _, fn := range fns {
		if strings.HasSuffix(fn.Name(), "Locked") || strings.Contains(fn.Name(), "Locked") {
			lockedFns[fn] = true
		}
	}
	shardParamKey := func(fn *ssa.Function) string {
		for _, prm := range fn.Params {
			if strings.HasSuffix(prm.Type().String(), "bufferShard") {
				return prm.Name()
			}
		}
		return ""
	}
	infos := map[*ssa.Function]*lockInfo{}
	for _, fn := range fns {
		var entry lockState
		if lockedFns[fn] {
			if k := shardParamKey(fn); k != "" {
				entry = lockState{k + ".mu": "W"}
			}
		}
		infos[fn] = analyzeLocks(fn, entry)
	}
	for _, fn := range fns {
		if fn.Name() == "NewArrowBuffer" {
			continue
		}
		perFn := map[string]bool{}
		for _, a := range fieldAccesses(fn, "bufferShard") {
			if !c03Guarded[a.Field] {
				continue
			}
			nAcc++
			held := infos[fn].heldAt(a.In)
			_, ok := held[a.Base+".mu"]
			key := fmt.Sprintf("%s|%s", fn.Name(), a.Field)
			if !ok && !perFn[key] {
				perFn[key] = true
				c.Bad("C03.LOCK", key, a.In.Pos(), "%s accesses shard.%s without holding that shard's mu (held here: %s): a concurrent writer or flusher can lose or duplicate rows", fn.Name(), a.Field, held.String())
			}
		}
		if len(perFn) == 0 {
			n := 0
			for _, a := range fieldAccesses(fn, "bufferShard") {
				if c03Guarded[a.Field] {
					n++
				}
			}
			if n > 0 {
				c.OK("C03.LOCK", fn.Name()+"|guarded-maps", fn.Pos(), "%d accesses, all under the shard's mu", n)
			}
		}
	}
	if nAcc < 30 {
		c.Unk("C03.LOCK", "accesses", 0, "found only %d guarded accesses", nAcc)
	}
	// *Locked: returns with the lock held, and is called with it held
	for fn := range lockedFns {
		k := shardParamKey(fn)
		if k == "" {
			continue
		}
		okRet := true
		for _, in := range instrs(fn, false) {
			if ret, ok := in.(*ssa.Return); ok {
				if _, held := infos[fn].heldAt(ret)[k+".mu"]; !held {
					okRet = false
				}
			}
		}
		c.Check(okRet, "C03.LOCK", fn.Name()+"|returns-with-lock", fn.Pos(), "every return holds the shard's mu again", fn.Name()+" can return without the shard's mu held although its callers go on to touch the buffer maps and then Unlock")
		for _, g := range fns {
			for _, call := range callsIn(g, false) {
				if call.Common().StaticCallee() != fn {
					continue
				}
				// which argument is the shard
				var shardArg ssa.Value
				for i, prm := range fn.Params {
					if prm.Name() == k {
						shardArg = call.Common().Args[i]
					}
				}
				ak := addrKey(shardArg)
				_, held := infos[g].heldAt(call.(ssa.Instruction))[ak+".mu"]
				c.Check(held, "C03.LOCK", fmt.Sprintf("%s->%s#%s", g.Name(), fn.Name(), siteOrdinal(g, call)), call.Pos(), "called with the shard's mu held", g.Name()+" calls "+fn.Name()+" without holding the shard's mu")
			}
		}
	}

	// ---- SCHEMA (shared with C04)
	c04SchemaLoopAs(c, "C03.SCHEMA")

	// ---- EXTRACT
	nDel := 0
	for _, fn := range fns {
		var dels []fieldAccess
		for _, a := range fieldAccesses(fn, "bufferShard") {
			if call, ok := a.In.(*ssa.Call); ok && a.Write {
				if bi, ok := call.Call.Value.(*ssa.Builtin); ok && bi.Name() == "delete" {
					dels = append(dels, a)
				}
			}
		}
		for _, d := range dels {
			if d.Field != "buffers" {
				continue
			}
			nDel++
			// companions deleted before the next Unlock on every path
			missing := []string{}
			for comp := range c03Guarded {
				if comp == "buffers" {
					continue
				}
				reachedUnlock := false
				for _, e := range pathsAvoidingTo(fn, d.In, nil, func(x ssa.Instruction) bool {
					for _, o := range dels {
						if o.In == x && o.Field == comp && o.Base == d.Base {
							return true
						}
					}
					return false
				}, func(x ssa.Instruction) bool {
					ci, ok := x.(ssa.CallInstruction)
					return ok && (callName(ci) == "(*sync.Mutex).Unlock" || callName(ci) == "(*sync.RWMutex).Unlock")
				}) {
					if e.Instr != nil {
						if _, isRet := e.Instr.(*ssa.Return); !isRet {
							reachedUnlock = true
						} else {
							reachedUnlock = true
						}
					}
				}
				if reachedUnlock {
					missing = append(missing, comp)
				}
			}
			sort.Strings(missing)
			c.Check(len(missing) == 0, "C03.EXTRACT", fmt.Sprintf("%s|delete-buffers#%d", fn.Name(), nDel), d.In.Pos(), "the three companion maps are cleared in the same critical section", fn.Name()+" removes a key from shard.buffers but can release the lock (or return) without clearing "+strings.Join(missing, ", ")+": the next write for that key inherits a stale count, start time or schema (early or missing flush, or a spurious schema split)")
		}
	}
	if nDel < 3 {
		c.Unk("C03.EXTRACT", "extractions", 0, "found only %d buffer extractions", nDel)
	}

	// ---- TYPES
	type sw struct {
		fn    *ssa.Function
		on    ssa.Value
		types []string
	}
	var sws []sw
	for _, fn := range fns {
		if !strings.Contains(p.Pos(fn.Pos()), "arrow_writer.go") {
			continue
		}
		groups := map[ssa.Value][]string{}
		var order []ssa.Value
		for _, in := range instrs(fn, true) {
			ta, ok := in.(*ssa.TypeAssert)
			if !ok || !ta.CommaOk {
				continue
			}
			t := ta.AssertedType.String()
			if !strings.HasPrefix(t, "[]") || strings.Contains(t, "interface") {
				continue
			}
			if _, seen := groups[ta.X]; !seen {
				order = append(order, ta.X)
			}
			groups[ta.X] = append(groups[ta.X], t[strings.LastIndex(t, "/")+1:])
		}
		for _, x := range order {
			ts := uniq(groups[x])
			if len(ts) < 3 {
				continue // not a column switch (single comma-ok probes)
			}
			sort.Strings(ts)
			sws = append(sws, sw{fn, x, ts})
		}
	}
	// reference set: the union
	union := map[string]bool{}
	for _, s := range sws {
		for _, t := range s.types {
			union[t] = true
		}
	}
	var all []string
	for t := range union {
		all = append(all, t)
	}
	sort.Strings(all)
	perFnN := map[string]int{}
	for _, s := range sws {
		perFnN[s.fn.Name()]++
		var miss []string
		have := map[string]bool{}
		for _, t := range s.types {
			have[t] = true
		}
		for _, t := range all {
			if !have[t] {
				miss = append(miss, t)
			}
		}
		construct := fmt.Sprintf("%s|column-switch#%d", s.fn.Name(), perFnN[s.fn.Name()])
		if why, ok := c03TypeExceptions[construct]; ok && len(miss) > 0 {
			c.Triv("C03.TYPES", construct, s.fn.Pos(), "%s (missing %s)", why, strings.Join(miss, ","))
			continue
		}
		c.Check(len(miss) == 0, "C03.TYPES", construct, s.fn.Pos(), "handles "+strings.Join(s.types, ","), fmt.Sprintf("%s switches over column data without an arm for %s, which other switches in the flush path handle: such a column is passed through unpermuted/unsliced or left out here while the other columns are reordered", s.fn.Name(), strings.Join(miss, ",")))
	}
	if len(sws) < 9 {
		c.Unk("C03.TYPES", "switches", 0, "found only %d column type switches", len(sws))
	}

	// ---- HOUR
	mph := c05ConstByte(p, "internal/ingest", "microPerHour")
	nDiv := 0
	for _, fn := range fns {
		for _, in := range instrs(fn, true) {
			bo, ok := in.(*ssa.BinOp)
			if !ok || (bo.Op != token.QUO && bo.Op != token.REM) {
				continue
			}
			if k, ok := constInt(bo.Y); !ok || k != mph || mph <= 0 {
				continue
			}
			nDiv++
			c.Check(fn.Name() == "HourBucketID", "C03.HOUR", fmt.Sprintf("%s|div-by-hour#%d", fn.Name(), nDiv), bo.Pos(), "hour arithmetic lives in HourBucketID", fn.Name()+" divides by microPerHour itself: Go's division truncates toward zero, so pre-1970 rows land in the hour after the one that contains them")
		}
	}
	if hb := c.MustFunc("C03.HOUR", "internal/ingest.HourBucketID"); hb != nil {
		// idiom: q := t / K ; if t < 0 && t % K != 0 { q-- } ; return q
		var quo *ssa.BinOp
		for _, in := range instrs(hb, false) {
			if bo, ok := in.(*ssa.BinOp); ok && bo.Op == token.QUO {
				quo = bo
			}
		}
		okIdiom := false
		if quo != nil {
			for _, in := range instrs(hb, false) {
				ret, ok := in.(*ssa.Return)
				if !ok {
					continue
				}
				phi, ok := ret.Results[0].(*ssa.Phi)
				if !ok {
					continue
				}
				dec, plain := false, false
				for i, e := range phi.Edges {
					if e == ssa.Value(quo) {
						plain = true
						continue
					}
					if bo, ok := e.(*ssa.BinOp); ok && bo.Op == token.SUB && bo.X == ssa.Value(quo) {
						if k, ok := constInt(bo.Y); ok && k == 1 {
							// edge taken only where t < 0 and t % K != 0
							pred := phi.Block().Preds[i]
							neg, rem := false, false
							for _, f := range append(factsAtBlock(pred), blockEdgeFactsDirect(pred, phi.Block())...) {
								if f.Kind != factCmp {
									continue
								}
								if f.Op == token.LSS && isParam(hb, hb.Params[0].Name())(f.X) {
									if z, ok := constInt(f.Y); ok && z == 0 {
										neg = true
									}
								}
								if f.Op == token.NEQ {
									if r, ok := f.X.(*ssa.BinOp); ok && r.Op == token.REM {
										if z, ok := constInt(f.Y); ok && z == 0 {
											rem = true
										}
									}
								}
							}
							dec = neg && rem
						}
					}
				}
				okIdiom = dec && plain
			}
		}
		c.Check(okIdiom, "C03.HOUR", "HourBucketID|floor-division", hb.Pos(), "quotient decremented exactly for negative non-multiples", "HourBucketID is not a floor division (truncating quotient, minus one when the time is negative and not on an hour boundary): pre-1970 rows are filed under the wrong hour")
	}
	if gh := c.MustFunc("C03.HOUR", "internal/ingest.groupByHour"); gh != nil {
		uses := len(findCalls(gh, false, "internal/ingest.HourBucketID")) > 0
		c.Check(uses, "C03.HOUR", "groupByHour|uses-HourBucketID", gh.Pos(), "rows are bucketed through HourBucketID", "groupByHour does not bucket through HourBucketID")
	}

	// ---- PATH
	nPath := 0
	for _, fn := range fns {
		for _, call := range findCalls(fn, true, abuf+"generateStoragePath") {
			nPath++
			a := call.Common().Args // recv, database, measurement, time
			okNames := true
			for i, want := range []string{"database", "measurement"} {
				v := resolveParam(a[1+i])
				prm, isP := v.(*ssa.Parameter)
				if !(isP && prm.Name() == want) {
					if fv, isFV := v.(*ssa.FreeVar); !(isFV && fv.Name() == want) {
						okNames = false
					}
				}
			}
			// time derives from a bucket (hourID / bucket.minTime) or the batch minimum
			okTime := derivesWide(a[3], func(v ssa.Value) bool {
				if sn, f, _, ok := loadedField(v); ok && sn == "hourBucket" && (f == "hourID" || f == "minTime") {
					return true
				}
				if cl, ok := v.(*ssa.Call); ok && (strings.HasSuffix(callName(cl), "hourIDToTime") || strings.HasSuffix(callName(cl), "groupByHour")) {
					return true
				}
				if ex, ok := v.(*ssa.Extract); ok {
					if cl, ok := ex.Tuple.(*ssa.Call); ok && strings.HasSuffix(callName(cl), "groupByHour") {
						return true
					}
				}
				// the batch's own time column (single-hour fast path: min == max hour)
				if lk, ok := v.(*ssa.Lookup); ok {
					if s, ok := constString(lk.Index); ok && s == "time" {
						return true
					}
				}
				return false
			}, 30)
			c.Check(okNames && okTime, "C03.PATH", fmt.Sprintf("%s|path#%d", fn.Name(), nPath), call.Pos(), "path built from the flush's names and the bucket's own hour", "a partition path is built from something other than the flush's database/measurement and the time of the bucket being written: rows land in another directory than the hour that contains them")
		}
	}
	if nPath < 2 {
		c.Unk("C03.PATH", "paths", 0, "found %d path constructions", nPath)
	}

	// ---- SORT
	nPerm := 0
	for _, ap := range []struct {
		name        string
		data, valid bool
	}{
		{"sortColumnsByKeysWithPermutation", true, false},
		{"sortTypedColumnBatchByKeys", false, true},
		{"sliceColumnsByIndices", true, false},
		{"sliceTypedColumnBatchByIndices", false, true},
	} {
		fn := p.Func("internal/ingest." + ap.name)
		if fn == nil {
			c.Unk("C03.SORT", ap.name+"|all-columns", 0, "function not found")
			continue
		}
		rangesData, rangesValid := false, false
		for _, in := range instrs(fn, true) {
			if rg, ok := in.(*ssa.Range); ok {
				t := rg.X.Type().Underlying().String()
				if strings.HasPrefix(t, "map[string]interface{}") || strings.HasPrefix(t, "map[string]any") {
					rangesData = true
				}
				if strings.HasPrefix(t, "map[string][]bool") {
					rangesValid = true
				}
			}
		}
		nPerm++
		ok := (!ap.data || rangesData) && (!ap.valid || rangesValid)
		// the typed wrappers must hand the data to their data counterpart
		if ap.valid {
			delegates := false
			for _, call := range callsIn(fn, false) {
				n := callName(call)
				if n == "internal/ingest.sortColumnsByKeysWithPermutation" || n == "internal/ingest.sliceColumnsByIndices" {
					delegates = true
				}
			}
			ok = ok && delegates
		}
		c.Check(ok, "C03.SORT", ap.name+"|all-columns", fn.Pos(), "reorders every column of its map", ap.name+" does not range over every data column / validity bitmap it is responsible for: a column that is not reordered with the rest is mis-aligned against the sorted rows")
	}
	if nPerm < 2 {
		c.Unk("C03.SORT", "permuters", 0, "found %d permutation appliers", nPerm)
	}
}

// c03TypeExceptions: switches that deliberately handle fewer types, with the reason.
var c03TypeExceptions = map[string]string{}

// validFillRule: see the rule text; shared by C03 (nulls preserved through the flush) and C01 (values stored as written).
func validFillRule(c *Ctx, rule string) {
	c.Rule(rule, "PATH: in mergeBatches, once the destination window of a column's merged validity bitmap has been taken for a batch, every path to the next iteration writes it — copies the batch's bitmap or fills it with true; a path that leaves it untouched leaves the zero value, i.e. every value of that column in that batch becomes NULL in the stored file")
	if fn := c.MustFunc(rule, "(*internal/ingest.ArrowBuffer).mergeBatches"); fn != nil {
		n := 0
		for _, in := range instrs(fn, false) {
			dest, ok := in.(*ssa.Slice)
			if !ok || dest.Type().String() != "[]bool" || !blockInCycle(dest.Block()) {
				continue
			}
			// the window must be cut out of a map-held bitmap
			if _, isLookup := dest.X.(*ssa.Lookup); !isLookup {
				if ld, ok := dest.X.(*ssa.UnOp); !ok || ld.Op != token.MUL {
					continue
				} else if _, ok := ld.X.(*ssa.IndexAddr); ok {
					continue
				}
			}
			n++
			writes := map[*ssa.BasicBlock]bool{}
			for _, r := range *dest.Referrers() {
				cl, ok := r.(*ssa.Call)
				if !ok {
					continue
				}
				if b, ok := cl.Call.Value.(*ssa.Builtin); ok {
					if (b.Name() == "copy" && cl.Call.Args[0] == ssa.Value(dest)) || b.Name() == "len" {
						writes[cl.Block()] = true
					}
				}
			}
			// nearest enclosing loop header
			var header *ssa.BasicBlock
			for b := dest.Block(); b != nil && header == nil; b = b.Idom() {
				for _, pr := range b.Preds {
					if b.Dominates(pr) {
						header = b
					}
				}
			}
			skips := false
			if header != nil {
				seen := map[*ssa.BasicBlock]bool{}
				var dfs func(b *ssa.BasicBlock)
				dfs = func(b *ssa.BasicBlock) {
					if seen[b] || writes[b] {
						return
					}
					seen[b] = true
					if b == header {
						skips = true
						return
					}
					for _, sc := range b.Succs {
						dfs(sc)
					}
				}
				if !writes[dest.Block()] {
					for _, sc := range dest.Block().Succs {
						dfs(sc)
					}
				}
			}
			c.Check(header != nil && !skips, rule, fmt.Sprintf("mergeBatches|validity-window#%d", n), dest.Pos(), "every path writes the window (copy or fill)", "a path through mergeBatches takes a column's validity window for a batch and reaches the next iteration without writing it: for a batch that tracks validity for other columns only, this column's rows stay marked NULL and their values are lost from the stored file")
		}
		c.Check(n >= 1, rule, "mergeBatches|windows", fn.Pos(), fmt.Sprintf("%d validity window(s) inspected", n), "no validity window found in mergeBatches (rule needs review)")
	}
}
