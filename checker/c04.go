package main

import (
	"fmt"
	"go/token"
	"go/types"
	"sort"
	"strings"

	"golang.org/x/tools/go/ssa"
)

func init() {
	register("C04", runC04,
		"panic freedom in general (runtime-valued indices and slice bounds, nil-map writes, allocation size, panics inside third-party decoders and DuckDB), and that a rejected request stores nothing (C31/C32 decide their parts); decided are the named panic sources of the ingest flush path, which runs on goroutines without recover: that no single-result type assertion is applied to a column value taken out of a column map without a dominating type test of that value, that no constant-index access to a column name is reached without a length test, that the schema signature which splits buffers covers every column the merge touches, that empty column names are refused on write, and that request bodies are decompressed only through the size-capped helpers")
}

func runC04(c *Ctx) {
	c.Rule("C04.SCHEMAKEY", "FLOW: the schema cache key of getSchema pairs every column with its own type: next to the list of column names it carries a list built by one append per element of that very list, in its order, and neither list is re-sorted afterwards — a key that only counts types lets two batches whose columns trade types share a cached schema, and the second batch's flush fails after it was acknowledged")
	if fn := c.P.Func("(*internal/ingest.ArrowWriter).getSchema"); fn != nil {
		var keyCall ssa.CallInstruction
		for _, call := range findCalls(fn, false, "fmt.Sprintf") {
			// the key is what schemaCache.get receives
			for _, g := range callsIn(fn, false) {
				if strings.HasSuffix(callName(g), "schemaCache).get") || strings.HasSuffix(callName(g), ".get") {
					if len(g.Common().Args) >= 2 && g.Common().Args[1] == callValue(call) {
						keyCall = call
					}
				}
			}
		}
		if keyCall == nil {
			c.Triv("C04.SCHEMAKEY", "getSchema|key-shape", fn.Pos(), "the key is not a Sprintf over lists; shape not judged")
		} else {
			args := bindArgs(keyCall)
			// candidate lists: []string phis
			var lists []ssa.Value
			for _, a := range args {
				if a != nil && a.Type().String() == "[]string" {
					if _, isParam := resolveParam(a).(*ssa.Parameter); !isParam {
						lists = append(lists, a)
					}
				}
			}
			// for each list, over which slice is the loop that appends to it?
			loopOver := func(list ssa.Value) ssa.Value {
				var over ssa.Value
				seen := map[ssa.Value]bool{}
				var rec func(v ssa.Value)
				rec = func(v ssa.Value) {
					if v == nil || seen[v] {
						return
					}
					seen[v] = true
					switch x := v.(type) {
					case *ssa.Phi:
						for _, e := range x.Edges {
							rec(e)
						}
					case *ssa.Call:
						if b, ok := x.Call.Value.(*ssa.Builtin); ok && b.Name() == "append" {
							// the enclosing loop's bound
							for blk := x.Block(); blk != nil; blk = blk.Idom() {
								for _, in2 := range blk.Instrs {
									if bo, ok := in2.(*ssa.BinOp); ok && bo.Op == token.LSS {
										if ln, ok := bo.Y.(*ssa.Call); ok {
											if lb, ok := ln.Call.Value.(*ssa.Builtin); ok && lb.Name() == "len" && over == nil && blockInCycle(blk) {
												over = ln.Call.Args[0]
											}
										}
									}
								}
							}
							rec(x.Call.Args[0])
						}
					}
				}
				rec(list)
				return over
			}
			paired := false
			for _, t := range lists {
				ov := loopOver(t)
				for _, a := range lists {
					if a != t && ov != nil && ov == a {
						paired = true
					}
				}
			}
			sorted := false
			for _, call := range callsIn(fn, false) {
				if nm := callName(call); strings.HasPrefix(nm, "sort.") || strings.HasPrefix(nm, "slices.Sort") {
					sorted = true
				}
			}
			c.Check(len(lists) >= 2 && paired && !sorted, "C04.SCHEMAKEY", "getSchema|names-paired-with-types", keyCall.Pos(), "the key carries the name list and a type list appended per name, unsorted", "the schema cache key does not pair each column with its own type (no list appended once per element of the name list, or a list is re-sorted after pairing): `{a:int,b:float}` and `{a:float,b:int}` get the same key, the second batch is flushed with the first one's schema, fails (`column a: expected []int64, got []float64`) and its acknowledged rows never reach storage")
		}
	}
	p := c.P
	c.Rule("C04.ASSERT", "DOM: in internal/ingest every single-result type assertion whose operand is read out of a column map (map[string]interface{}) is dominated by a successful comma-ok assertion or type-switch test of that same value to that same type — a disagreement returns an error instead of panicking the flush worker")
	c.Rule("C04.INDEX", "DOM: every constant-index access s[k] to a string that is a column-map key is reached only where len(s) > k was established on every path")
	c.Rule("C04.SIG", "AGREE: mergeBatches collects and copies exactly the columns getColumnSignature encodes (the same tests on the column name guard both), because only a signature change splits a buffer")
	c.Rule("C04.EMPTY", "DOM: both internal write entries (writeColumnarInternal, writeTypedColumnarRaw) return an error, before anything is buffered or logged, when the column map has an empty key")
	c.Rule("C04.BOMB", "WHO+DOM: in internal/api gzip/zstd readers are created only inside the pooled decompress helpers, and what is read from them passes io.LimitReader / a bounded copy")
	c.Rule("C04.GO", "COVER: the goroutines of internal/ingest that touch request-derived data are enumerated (no deferred recover: a panic there kills the process), so the panic-source rules above are known to apply to them")

	// ---- ASSERT
	nA := 0
	for _, fn := range p.FuncsIn("internal/ingest") {
		if !strings.Contains(p.Pos(fn.Pos()), "arrow_writer.go") {
			continue
		}
		for _, sub := range append([]*ssa.Function{fn}, allAnon(fn)...) {
			for _, in := range instrs(sub, false) {
				ta, ok := in.(*ssa.TypeAssert)
				if !ok || ta.CommaOk {
					continue
				}
				// operand read out of a column map?
				fromMap := false
				derives(ta.X, func(v ssa.Value) bool {
					if lk, ok := v.(*ssa.Lookup); ok && strings.HasPrefix(lk.X.Type().Underlying().String(), "map[string]interface{}") {
						fromMap = true
					}
					if lk, ok := v.(*ssa.Lookup); ok && strings.HasPrefix(lk.X.Type().Underlying().String(), "map[string]any") {
						fromMap = true
					}
					return false
				}, false, 3)
				if !fromMap {
					continue
				}
				nA++
				guarded := false
				for _, f := range factsAt(ta) {
					if f.Kind == factTrue {
						if ex, ok := f.Val.(*ssa.Extract); ok && ex.Index == 1 {
							if g, ok := ex.Tuple.(*ssa.TypeAssert); ok && (g.X == ta.X || sameVal(g.X, ta.X)) && types.Identical(g.AssertedType, ta.AssertedType) {
								guarded = true
							}
						}
					}
				}
				c.Check(guarded, "C04.ASSERT", fmt.Sprintf("%s|%s#%d", sub.Name(), types.TypeString(ta.AssertedType, nil), nA), ta.Pos(), "asserted type was tested", fmt.Sprintf("%s asserts a column value to %s without a type test: two buffered batches that disagree on a column's type panic here, on a flush goroutine without recover — the process dies after the requests were acknowledged", sub.Name(), types.TypeString(ta.AssertedType, nil)))
			}
		}
	}
	if nA == 0 {
		c.Triv("C04.ASSERT", "internal/ingest|column-assertions", 0, "no single-result assertion is applied to a column-map value")
	}
	// the merge: every copy into the merged column is preceded by a comma-ok assertion of the destination
	if fn := c.MustFunc("C04.ASSERT", abuf+"mergeBatches"); fn != nil {
		n, bad := 0, 0
		for _, call := range callsIn(fn, false) {
			if call.Common().Value.Name() != "copy" {
				continue
			}
			dst := call.Common().Args[0]
			isCol := false
			var ta *ssa.TypeAssert
			derives(dst, func(v ssa.Value) bool {
				if x, ok := v.(*ssa.TypeAssert); ok {
					ta = x
					isCol = true
				}
				return false
			}, false, 4)
			if !isCol {
				continue
			}
			n++
			if !ta.CommaOk {
				bad++
			}
		}
		c.Check(n >= 5 && bad == 0, "C04.ASSERT", "mergeBatches|checked-destinations", fn.Pos(), fmt.Sprintf("all %d column copies use a checked destination", n), fmt.Sprintf("%d of %d column copies in mergeBatches assert the destination's type unchecked", bad, n))
	}

	// ---- INDEX
	nI := 0
	for _, pk := range []string{"internal/ingest"} {
		for _, fn := range p.FuncsIn(pk) {
			for _, in := range instrs(fn, true) {
				var x, idx ssa.Value
				switch v := in.(type) {
				case *ssa.Index:
					x, idx = v.X, v.Index
				case *ssa.Lookup:
					if b, ok := v.X.Type().Underlying().(*types.Basic); ok && b.Info()&types.IsString != 0 {
						x, idx = v.X, v.Index
					}
				}
				if x == nil {
					continue
				}
				k, isK := constInt(idx)
				if !isK {
					continue
				}
				// a map range key of a column map
				isKey := false
				if ex, ok := x.(*ssa.Extract); ok && ex.Index == 1 {
					if nx, ok := ex.Tuple.(*ssa.Next); ok {
						if rg, ok := nx.Iter.(*ssa.Range); ok && strings.HasPrefix(rg.X.Type().Underlying().String(), "map[string]") {
							isKey = true
						}
					}
				}
				if !isKey {
					continue
				}
				nI++
				okF := func(fs []fact) bool {
					for _, f := range fs {
						if f.Kind != factCmp {
							continue
						}
						cl, ok := f.X.(*ssa.Call)
						if !ok || cl.Call.Value.Name() != "len" || cl.Call.Args[0] != x {
							continue
						}
						lim, ok := constInt(f.Y)
						if !ok {
							continue
						}
						if (f.Op == token.NEQ && lim == 0 && k == 0) || (f.Op == token.GTR && lim >= k) || (f.Op == token.GEQ && lim > k) {
							return true
						}
					}
					return false
				}
				at := in.(ssa.Instruction)
				c.Check(okF(factsAt(at)) || holdsOnAllPaths(at.Block(), okF, 6, nil), "C04.INDEX", fmt.Sprintf("%s|key[%d]#%d", in.Parent().Name(), k, nI), in.Pos(), "index reached only for a long enough name", fmt.Sprintf("%s indexes a column name at [%d] without a length test: a column with the empty name panics the flush path", in.Parent().Name(), k))
			}
		}
	}
	c.Floor("C04.INDEX", 3, "getSchema, inferSchema, getColumnSignature (and the merge)")

	// ---- SLICE: constant bounds on payload text in the text parsers
	c.Rule("C04.SLICE", "DOM: in the payload text parsers (TLE, line protocol) every slice or index of a string / byte slice with a constant bound is reached only where a length test of that same value covers the bound (len(s) >= hi, or the `len(s) < n → reject` form)")
	nS := 0
	for _, fn := range p.FuncsIn("internal/ingest") {
		pos := p.Pos(fn.Pos())
		if !strings.Contains(pos, "ingest/tle.go") && !strings.Contains(pos, "ingest/lineprotocol.go") {
			continue
		}
		for _, in := range instrs(fn, true) {
			var x ssa.Value
			var need int64 = -1
			switch v := in.(type) {
			case *ssa.Slice:
				if _, isArr := v.X.Type().Underlying().(*types.Pointer); isArr {
					continue // slicing a fixed-size array
				}
				if v.High != nil {
					if k, ok := constInt(v.High); ok {
						x, need = v.X, k
					}
				}
				if v.Low != nil {
					if k, ok := constInt(v.Low); ok && k > need && k > 0 {
						x, need = v.X, k
					}
				}
			}
			if x == nil || need <= 0 {
				continue
			}
			if _, isConst := x.(*ssa.Const); isConst {
				continue
			}
			// slices the function made itself with a constant size are fine
			if mk, ok := x.(*ssa.MakeSlice); ok {
				if n, ok := constInt(mk.Len); ok && n >= need {
					continue
				}
			}
			if sl, ok := x.(*ssa.Slice); ok {
				if _, isArr := sl.X.Type().Underlying().(*types.Pointer); isArr {
					continue
				}
			}
			nS++
			at := in
			okF := func(fs []fact) bool {
				for _, f := range fs {
					if f.Kind != factCmp {
						continue
					}
					cl, ok := f.X.(*ssa.Call)
					if !ok {
						continue
					}
					if b, ok := cl.Call.Value.(*ssa.Builtin); !ok || b.Name() != "len" || !(cl.Call.Args[0] == x || c04SameElem(cl.Call.Args[0], x)) {
						continue
					}
					lim, ok := constInt(f.Y)
					if !ok {
						continue
					}
					if (f.Op == token.GEQ && lim >= need) || (f.Op == token.GTR && lim >= need-1) || (f.Op == token.EQL && lim >= need) || (f.Op == token.NEQ && lim == 0 && need == 1) {
						return true
					}
				}
				return false
			}
			good := okF(factsAt(at)) || holdsOnAllPaths(at.Block(), okF, 8, nil)
			if !good {
				// an unexported helper's parameter: every caller must have established the bound for the argument it passes
				if prm, ok := x.(*ssa.Parameter); ok && !token.IsExported(in.Parent().Name()) {
					idx := -1
					for i, q := range in.Parent().Params {
						if q == prm {
							idx = i
						}
					}
					nCallers, allOK := 0, true
					for _, g := range p.FuncsIn("internal/ingest") {
						for _, call := range callsIn(g, true) {
							if call.Common().StaticCallee() != in.Parent() || idx < 0 {
								continue
							}
							nCallers++
							arg := call.Common().Args[idx]
							argOK := func(fs []fact) bool {
								for _, f := range fs {
									if f.Kind != factCmp {
										continue
									}
									cl, ok := f.X.(*ssa.Call)
									if !ok {
										continue
									}
									if b, ok := cl.Call.Value.(*ssa.Builtin); !ok || b.Name() != "len" || cl.Call.Args[0] != arg {
										continue
									}
									if lim, ok := constInt(f.Y); ok && ((f.Op == token.GEQ && lim >= need) || (f.Op == token.GTR && lim >= need-1)) {
										return true
									}
								}
								return false
							}
							if !(argOK(factsAt(call.(ssa.Instruction))) || holdsOnAllPaths(call.Block(), argOK, 8, nil)) {
								allOK = false
							}
						}
					}
					good = nCallers > 0 && allOK
				}
			}
			c.Check(good, "C04.SLICE", fmt.Sprintf("%s|bound-%d#%d", in.Parent().Name(), need, nS), in.Pos(), fmt.Sprintf("bound %d covered by a length test", need), fmt.Sprintf("%s slices/indexes payload text up to byte %d without a length test of that value covering it: a short line panics the handler (`slice bounds out of range`)", in.Parent().Name(), need))
		}
	}

	// ---- SIG
	// the name tests under which a column takes part: canonical strings such as "len!=0", "[0]!=95"
	nameTests := func(at ssa.Instruction, name ssa.Value) string {
		set := map[string]bool{}
		for _, f := range factsAt(at) {
			if f.Kind != factCmp {
				continue
			}
			k, ok := constInt(f.Y)
			if !ok {
				continue
			}
			switch x := f.X.(type) {
			case *ssa.Call:
				if x.Call.Value.Name() == "len" && x.Call.Args[0] == name {
					set[fmt.Sprintf("len%s%d", f.Op, k)] = true
				}
			case *ssa.Index:
				if x.X == name {
					if i, ok := constInt(x.Index); ok {
						set[fmt.Sprintf("[%d]%s%d", i, f.Op, k)] = true
					}
				}
			case *ssa.Lookup:
				if x.X == name {
					if i, ok := constInt(x.Index); ok {
						set[fmt.Sprintf("[%d]%s%d", i, f.Op, k)] = true
					}
				}
			}
		}
		var out []string
		for k := range set {
			out = append(out, k)
		}
		sort.Strings(out)
		return strings.Join(out, " && ")
	}
	rangeKey := func(v ssa.Value) ssa.Value {
		var key ssa.Value
		derives(v, func(x ssa.Value) bool {
			if ex, ok := x.(*ssa.Extract); ok && ex.Index == 1 {
				if _, ok := ex.Tuple.(*ssa.Next); ok {
					key = ex
				}
			}
			return false
		}, false, 4)
		return key
	}
	sigTests, mergeTests := "?", map[string]bool{}
	if fn := c.MustFunc("C04.SIG", "internal/ingest.getColumnSignature"); fn != nil {
		for _, in := range instrs(fn, false) {
			if cl, ok := in.(*ssa.Call); ok && cl.Call.Value.Name() == "append" {
				for _, a := range cl.Call.Args {
					if k := rangeKey(a); k != nil {
						sigTests = nameTests(cl, k)
					}
				}
			}
		}
	}
	if fn := c.MustFunc("C04.SIG", abuf+"mergeBatches"); fn != nil {
		for _, in := range instrs(fn, false) {
			switch x := in.(type) {
			case *ssa.MapUpdate:
				// colTypes[name] = ...
				if k := rangeKey(x.Key); k != nil && strings.Contains(x.Map.Type().String(), "colInfo") {
					mergeTests["types: "+nameTests(x, k)] = true
				}
			case *ssa.Call:
				if x.Call.Value.Name() == "copy" {
					var key ssa.Value
					derives(x.Call.Args[0], func(v ssa.Value) bool {
						if lk, ok := v.(*ssa.Lookup); ok {
							if k := rangeKey(lk.Index); k != nil {
								key = k
							}
						}
						return false
					}, false, 6)
					if key != nil {
						mergeTests["copy: "+nameTests(x, key)] = true
					}
				}
			}
		}
		var bad []string
		for k := range mergeTests {
			if !strings.HasSuffix(k, ": "+sigTests) {
				bad = append(bad, k)
			}
		}
		sort.Strings(bad)
		c.Check(sigTests != "?" && sigTests != "" && len(mergeTests) >= 2 && len(bad) == 0, "C04.SIG", "getColumnSignature~mergeBatches|same-columns", fn.Pos(), "signature and merge take the same columns: "+sigTests, fmt.Sprintf("getColumnSignature takes the columns with [%s] but mergeBatches merges [%s]: a column the signature does not see can change type between two batches of one buffer, and merging them fails (unchecked: panics)", sigTests, strings.Join(bad, "; ")))
	}

	// ---- EMPTY
	for _, name := range []string{"writeColumnarInternal", "writeTypedColumnarRaw"} {
		fn := c.MustFunc("C04.EMPTY", abuf+name)
		if fn == nil {
			continue
		}
		// a lookup of the constant "" in a column map whose presence leads to an error return, before any WAL append / buffer store
		var lk *ssa.Lookup
		for _, in := range instrs(fn, false) {
			if l, ok := in.(*ssa.Lookup); ok && l.CommaOk {
				if s, ok := constString(l.Index); ok && s == "" {
					lk = l
				}
			}
		}
		if lk == nil {
			c.Bad("C04.EMPTY", name+"|refuses-empty-column-name", fn.Pos(), "%s accepts a column with the empty name: it cannot be stored and is silently dropped (or indexed as name[0])", name)
			continue
		}
		// everything that appends to the WAL or stores into the shard buffers is reached only where the lookup missed
		bad := 0
		nSide := 0
		for _, in := range instrs(fn, false) {
			side := false
			if call, ok := in.(ssa.CallInstruction); ok {
				cc := call.Common()
				if cc.IsInvoke() && strings.HasPrefix(cc.Method.Name(), "Append") {
					side = true
				}
			}
			if mu, ok := in.(*ssa.MapUpdate); ok && fieldSourcesHasSuffix(mu.Map, ".buffers") {
				side = true
			}
			if !side {
				continue
			}
			nSide++
			ok := false
			for _, f := range factsAt(in) {
				if f.Kind == factFalse {
					if ex, isEx := f.Val.(*ssa.Extract); isEx && ex.Tuple == ssa.Value(lk) {
						ok = true
					}
				}
			}
			if !ok {
				bad++
			}
		}
		c.Check(nSide > 0 && bad == 0, "C04.EMPTY", name+"|refuses-empty-column-name", lk.Pos(), "nothing is logged or buffered unless the column map has no empty key", name+" can log or buffer a write that carries an empty column name")
	}

	// ---- BOMB
	nNew := 0
	for _, fn := range p.FuncsIn("internal/api") {
		for _, call := range callsIn(fn, true) {
			n := callName(call)
			isNew := n == "compress/gzip.NewReader" || strings.HasSuffix(n, "zstd.NewReader") || n == "(*compress/gzip.Reader).Reset" || strings.HasSuffix(n, "zstd.Decoder).Reset")
			if !isNew {
				continue
			}
			nNew++
			okOwner := strings.HasPrefix(fn.Name(), "decompress") || strings.Contains(fn.Name(), "Pool") || strings.HasPrefix(fn.Name(), "init")
			c.Check(okOwner, "C04.BOMB", fmt.Sprintf("%s|%s", fn.Name(), n[strings.LastIndex(n, "/")+1:]), call.Pos(), "decompressor owned by a size-capped helper", fn.Name()+" creates a decompressor outside the size-capped helpers: a small compressed body can expand without bound")
		}
	}
	for _, name := range []string{"decompressGzipPooled", "decompressZstdPooled"} {
		fn := c.MustFunc("C04.BOMB", "internal/api."+name)
		if fn == nil {
			continue
		}
		lim := len(findCalls(fn, true, "io.LimitReader")) > 0
		c.Check(lim, "C04.BOMB", name+"|limited-read", fn.Pos(), "output is read through io.LimitReader", name+" reads the decompressed stream without io.LimitReader")
	}
	// ingest handlers read the raw body
	for _, hn := range []string{"(*internal/api.MsgPackHandler).writeMsgPack", "(*internal/api.LineProtocolHandler).handleWrite", "(*internal/api.TLEHandler).handleWrite"} {
		fn := c.MustFunc("C04.BOMB", hn)
		if fn == nil {
			continue
		}
		auto := len(findCalls(fn, false, "(*github.com/gofiber/fiber/v2.Ctx).Body")) > 0
		c.Check(!auto, "C04.BOMB", fn.Name()+"|raw-body", fn.Pos(), "reads c.Request().Body() (no transparent inflate)", fn.Name()+" reads c.Body(), which transparently inflates a compressed request without a size cap")
	}

	// ---- POOL
	c.Rule("C04.POOL", "DOM: a decompressor is put back into its pool only where, on every path, it is known non-nil (tested, or its constructor/reset returned a nil error) — a typed-nil reader in the pool panics the next request that takes it")
	nPool := 0
	for _, name := range []string{"decompressGzipPooled", "decompressZstdPooled"} {
		fn := p.Func("internal/api." + name)
		if fn == nil {
			continue
		}
		for _, sub := range append([]*ssa.Function{fn}, allAnon(fn)...) {
			for _, call := range findCalls(sub, false, "(*sync.Pool).Put") {
				arg := call.Common().Args[1]
				if mi, ok := arg.(*ssa.MakeInterface); ok {
					arg = mi.X
				}
				if _, isPtr := arg.Type().Underlying().(*types.Pointer); !isPtr {
					continue
				}
				nPool++
				okF := func(fs []fact) bool {
					for _, f := range fs {
						if f.Kind == factNotNil && (f.Val == arg || sameVal(f.Val, arg)) {
							return true
						}
						if f.Kind == factNil && isErrorType(f.Val.Type()) {
							// the error of the construction/reset that produced the reader
							if derives(f.Val, func(v ssa.Value) bool {
								cl, ok := v.(*ssa.Call)
								if !ok {
									return false
								}
								n := callName(cl)
								return strings.HasSuffix(n, ".NewReader") || strings.HasSuffix(n, ").Reset")
							}, false, 4) {
								return true
							}
						}
					}
					return false
				}
				at := call.(ssa.Instruction)
				c.Check(okF(factsAt(at)) || holdsOnAllPaths(at.Block(), okF, 8, nil), "C04.POOL", fmt.Sprintf("%s|Put#%d", name, nPool), call.Pos(), "only a non-nil reader is pooled", name+" can put a nil decompressor into the pool (e.g. after a failed header read): the next compressed request takes it and panics on Reset")
			}
		}
	}
	if nPool == 0 {
		c.Unk("C04.POOL", "pool-puts", 0, "no pooled decompressor returns found")
	}

	// ---- SCHEMA
	c04SchemaLoopAs(c, "C04.SCHEMA")

	// ---- GO
	var gos []string
	for _, fn := range p.FuncsIn("internal/ingest") {
		for _, in := range instrs(fn, true) {
			g, ok := in.(*ssa.Go)
			if !ok {
				continue
			}
			callee := g.Call.StaticCallee()
			name := "<dynamic>"
			if callee != nil {
				name = callee.Name()
			}
			gos = append(gos, name)
		}
	}
	known := map[string]bool{"flushWorker": true, "periodicFlush": true}
	for _, g := range uniq(gos) {
		if strings.Contains(g, "$") {
			continue // closures: named by their parent below
		}
		c.Check(known[g], "C04.GO", "internal/ingest|go "+g, 0, "goroutine root is on the checker's list", "internal/ingest starts a goroutine ("+g+") that the panic-source rules were not reviewed for")
	}
	c.Floor("C04.GO", 2, "flush workers and the periodic flusher")
}

// c04SchemaLoopAs: the schema-evolution loop's exit condition, reported under the given rule id (C04 and C03 share it).
func c04SchemaLoopAs(c *Ctx, rule string) {
	c.Rule(rule, "DOM: flushOnSchemaChangeLocked returns nil only where, on every path, the buffer has no schema entry or its entry equals the new signature — so batches of different column types never share a buffer")
	if fn := c.MustFunc(rule, abuf+"flushOnSchemaChangeLocked"); fn != nil {
		n := 0
		for _, in := range instrs(fn, false) {
			ret, ok := in.(*ssa.Return)
			if !ok {
				continue
			}
			k, isK := ret.Results[0].(*ssa.Const)
			if !isK || !k.IsNil() {
				continue
			}
			n++
			okF := func(fs []fact) bool {
				for _, f := range fs {
					if f.Kind == factFalse {
						if ex, ok := f.Val.(*ssa.Extract); ok && ex.Index == 1 {
							if lk, ok := ex.Tuple.(*ssa.Lookup); ok && fieldSourcesHasSuffix(lk.X, ".bufferSchemas") {
								return true
							}
						}
					}
					if f.Kind == factCmp && f.Op == token.EQL && (isParam(fn, "newSignature")(resolveParam(f.Y)) || isParam(fn, "newSignature")(resolveParam(f.X))) {
						return true
					}
				}
				return false
			}
			c.Check(okF(factsAt(ret)) || holdsOnAllPaths(ret.Block(), okF, 8, nil), rule, fmt.Sprintf("flushOnSchemaChangeLocked|nil-return#%d", n), ret.Pos(), "success only with no entry or an equal signature", "flushOnSchemaChangeLocked can report success although the buffer may hold batches of another schema (a concurrent writer can install one while the flush released the lock): the mixed buffer fails to merge at the next flush")
		}
		if n == 0 {
			c.Unk(rule, "flushOnSchemaChangeLocked|nil-return", fn.Pos(), "no nil return found")
		}
	}

}

// c04SameElem: two loads of the same slice element (same base, same index value) — `len(lines[i]) >= 2` then `line := lines[i]`.
func c04SameElem(a, b ssa.Value) bool {
	la, ok1 := a.(*ssa.UnOp)
	lb, ok2 := b.(*ssa.UnOp)
	if !ok1 || !ok2 || la.Op != token.MUL || lb.Op != token.MUL {
		return false
	}
	ia, ok1 := la.X.(*ssa.IndexAddr)
	ib, ok2 := lb.X.(*ssa.IndexAddr)
	return ok1 && ok2 && ia.X == ib.X && ia.Index == ib.Index
}
