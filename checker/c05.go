package main

import (
	"fmt"
	"go/constant"
	"go/token"
	"go/types"
	"sort"
	"strings"

	"golang.org/x/tools/go/ssa"
)

func init() {
	register("C05", runC05,
		"which bytes reach the WAL file before a crash (fsync behaviour, torn writes), value-level equality of replayed and original rows, exactly-once after a crash between the durability step and the file deletion (replay is at-least-once there), and the msgpack decoding of raw payloads (C02); decided are: that a WAL file is deleted only after its replayed rows were made durable and only when every entry was applied, that cmd/arc wires that durability step and both entry callbacks at every recovery, that routing keys cannot be replaced by client columns and every consumer routes by them, that consumers drop no client column, that already-normalised row entries are replayed without unit detection while raw columnar entries are replayed with it, and that the envelope writer and parser agree on the layout")
}

func runC05(c *Ctx) {
	c.Rule("C05.ACCEPT", "SIBLING: ParseEnvelope accepts every envelope AppendRawWithMeta can write: on the branch that returns the embedded database name, the declared name length is constrained only by the payload's own length — a constant cap on it is a reader-side restriction the writer does not have (an entry written for a name of that length is then replayed as an unrecognised payload and its acknowledged rows are skipped)")
	if fn := c.MustFunc("C05.ACCEPT", "internal/wal.ParseEnvelope"); fn != nil {
		isLen := func(v ssa.Value) bool {
			return derives(v, func(x ssa.Value) bool {
				cl, ok := x.(*ssa.Call)
				return ok && strings.HasSuffix(callName(cl), ".Uint16")
			}, true, 6)
		}
		n := 0
		for _, in := range instrs(fn, false) {
			r, ok := in.(*ssa.Return)
			if !ok || len(r.Results) != 2 {
				continue
			}
			if _, isParam := resolveParam(unspill(r, r.Results[0])).(*ssa.Parameter); isParam {
				continue // the fallback: default database, whole payload
			}
			n++
			var caps []string
			for _, f := range factsAt(r) {
				if f.Kind != factCmp {
					continue
				}
				for _, pr := range [][2]ssa.Value{{f.X, f.Y}, {f.Y, f.X}} {
					if isLen(pr[0]) {
						// a cap at or above what the writer can emit (its name buffer is 255 bytes) restricts nothing
						if k, ok := constInt(pr[1]); ok && k != 0 && k < 255 {
							caps = append(caps, fmt.Sprintf("%s %d", f.Op, k))
						}
					}
				}
			}
			c.Check(len(caps) == 0, "C05.ACCEPT", fmt.Sprintf("ParseEnvelope|enveloped-return#%d", n), r.Pos(), "the name length is bounded only by the payload length", "ParseEnvelope recognises an envelope only if its name length satisfies a constant bound ("+strings.Join(caps, ", ")+") that AppendRawWithMeta does not enforce: an entry written for a database name outside it is read back as a bare payload, fails to decode, is counted as corrupted, and the WAL file is deleted after the other entries replayed")
		}
		c.Check(n >= 1, "C05.ACCEPT", "ParseEnvelope|enveloped-returns", fn.Pos(), "enveloped return found", "no return of an embedded name found")
	}
	p := c.P
	c.Rule("C05.KEYS", "ORDER: where WAL rows are built, no client-named column can be stored after (and so replace) the _database/_measurement routing keys of the same row map (same rule as C32.WALKEYS)")
	c.Rule("C05.ROUTE", "FLOW: every consumer of WAL row records routes by the _measurement key and takes the database from the _database key; columnar entries take it from the envelope (same rule as C32.REPLAY)")
	c.Rule("C05.DURABLE", "PASS: in RecoverWithOptions a WAL file that held entries is removed only after opts.BeforeDelete returned nil (or where no hook is configured), and only where every entry of the file was applied")
	c.Rule("C05.WIRE", "COVER: every RecoverWithOptions call outside tests passes options that set BeforeDelete and ColumnarCallback, and Recover (which passes none) is not used")
	c.Rule("C05.COLUMNS", "COVER: when a WAL row is turned back into columns, the only constant keys dropped are _measurement and _database (a legacy routing key is dropped only when it supplied the routing value)")
	c.Rule("C05.RESCALE", "AGREE: row-format entries (already microseconds) are replayed through WriteRowsDirectNoWAL, raw columnar entries through WriteColumnarDirectNoWAL; the former reaches the timestamp normaliser with unit detection off, the latter with it on")
	c.Rule("C05.ENVELOPE", "AGREE: AppendRawWithMeta and ParseEnvelope use the same marker constant, the same byte order for the 2-byte length at [1:3], and the name at offset 3")

	c32WalKeysAs(c, "C05.KEYS")
	c32ReplayAs(c, "C05.ROUTE")

	c05DurableAs(c, "C05.DURABLE")

	// ---- ENCODE
	c.Rule("C05.ENCODE", "WHO: the WAL's row serialisation does not enable the msgpack encoder's float compaction (an integral float64 would come back as an integer and change the column's type on replay)")
	nEnc := 0
	for _, fn := range p.FuncsIn("internal/wal") {
		for _, call := range callsIn(fn, true) {
			if strings.HasSuffix(callName(call), ".Encoder).UseCompactFloats") {
				nEnc++
				k, _ := call.Common().Args[1].(*ssa.Const)
				c.Check(k != nil && k.Value != nil && k.Value.String() == "false", "C05.ENCODE", fn.Name()+"|compact-floats", call.Pos(), "float compaction off", fn.Name()+" serialises WAL rows with float compaction: 1.0 is logged as the integer 1 and replayed into an integer column")
			}
		}
	}
	if nEnc == 0 {
		c.Triv("C05.ENCODE", "internal/wal|compact-floats", 0, "the WAL never enables float compaction")
	}

	// ---- WIRE
	nCalls := 0
	for _, pk := range []string{"cmd/arc", "internal/api", "internal/cluster", "internal/ingest"} {
		for _, fn := range p.FuncsIn(pk) {
			for _, sub := range append([]*ssa.Function{fn}, allAnon(fn)...) {
				for _, call := range callsIn(sub, false) {
					switch callName(call) {
					case "(*internal/wal.Recovery).Recover":
						nCalls++
						c.Bad("C05.WIRE", ssaFuncName(sub)+"|Recover", call.Pos(), "Recover passes no options: columnar entries are skipped and files are deleted without a durability step")
					case "(*internal/wal.Recovery).RecoverWithOptions":
						nCalls++
						opts := call.Common().Args[3]
						set := map[string]bool{}
						derivesWide(opts, func(v ssa.Value) bool {
							if a, ok := v.(*ssa.Alloc); ok {
								for _, r := range *a.Referrers() {
									if fa, ok := r.(*ssa.FieldAddr); ok {
										_, f, _, _ := fieldOf(fa)
										for _, r2 := range *fa.Referrers() {
											if st, ok := r2.(*ssa.Store); ok && st.Addr == ssa.Value(fa) {
												if k, isK := st.Val.(*ssa.Const); !isK || !k.IsNil() {
													set[f] = true
												}
											}
										}
									}
								}
							}
							return false
						}, 6)
						var miss []string
						for _, f := range []string{"BeforeDelete", "ColumnarCallback"} {
							if !set[f] {
								miss = append(miss, f)
							}
						}
						sort.Strings(miss)
						c.Check(len(miss) == 0, "C05.WIRE", fmt.Sprintf("%s|RecoverWithOptions#%s", ssaFuncName(sub), siteOrdinal(sub, call)), call.Pos(), "durability hook and both callbacks are wired", "recovery is started without "+strings.Join(miss, " and ")+": "+map[bool]string{true: "replayed rows are not flushed before their WAL file is deleted", false: "columnar entries are skipped and their file deleted"}[!set["BeforeDelete"]])
					}
				}
			}
		}
	}
	if nCalls < 2 {
		c.Unk("C05.WIRE", "recovery-calls", 0, "found %d recovery calls, expected startup and flush-failure recovery", nCalls)
	}

	// ---- COLUMNS
	nCons := 0
	for _, pk := range []string{"cmd/arc", "internal/cluster"} {
		for _, fn := range p.FuncsIn(pk) {
			for _, sub := range append([]*ssa.Function{fn}, allAnon(fn)...) {
				// a function that copies a row's keys into a columns map, skipping some
				dropped := map[string]bool{}
				hasCopy := false
				for _, in := range instrs(sub, false) {
					bo, ok := in.(*ssa.BinOp)
					if !ok || bo.Op != token.EQL {
						continue
					}
					k, isK := constString(bo.Y)
					if !isK {
						continue
					}
					// the left side is a map range key
					if ex, ok := bo.X.(*ssa.Extract); ok && ex.Index == 1 {
						if _, isNext := ex.Tuple.(*ssa.Next); isNext {
							dropped[k] = true
						}
					}
				}
				for _, in := range instrs(sub, false) {
					if mu, ok := in.(*ssa.MapUpdate); ok {
						if ex, ok := mu.Key.(*ssa.Extract); ok && ex.Index == 1 {
							if _, isNext := ex.Tuple.(*ssa.Next); isNext && strings.Contains(mu.Map.Type().String(), "[]interface{}") {
								hasCopy = true
							}
						}
					}
				}
				if !hasCopy || len(dropped) == 0 || !(dropped["_measurement"] || dropped["_database"]) {
					continue
				}
				nCons++
				var extra []string
				for k := range dropped {
					if k != "_measurement" && k != "_database" {
						extra = append(extra, k)
					}
				}
				sort.Strings(extra)
				c.Check(len(extra) == 0, "C05.COLUMNS", ssaFuncName(sub)+"|dropped-keys", sub.Pos(), "only the underscore-prefixed routing keys (and the key that routed) are dropped", fmt.Sprintf("%s drops the client columns named %s from every replayed row: such a tag or field was acknowledged but is lost by WAL replay", sub.Name(), strings.Join(extra, ", ")))
			}
		}
	}
	if nCons < 2 {
		c.Unk("C05.COLUMNS", "consumers", 0, "found %d row-to-columns copies, expected the recovery callback and rowsToColumns", nCons)
	}

	// ---- RESCALE
	for _, m := range []struct {
		name   string
		detect bool
	}{{"WriteRowsDirectNoWAL", false}, {"WriteColumnarDirectNoWAL", true}} {
		fn := c.MustFunc("C05.RESCALE", abuf+m.name)
		if fn == nil {
			continue
		}
		got, found := c05DetectFlag(fn, 0)
		c.Check(found && got == m.detect, "C05.RESCALE", m.name+"|unit-detection", fn.Pos(), fmt.Sprintf("reaches the normaliser with unit detection %v", m.detect), fmt.Sprintf("%s reaches the timestamp normaliser with unit detection %v (found=%v), want %v", m.name, got, found, m.detect))
	}
	nR := 0
	for _, pk := range []string{"cmd/arc", "internal/cluster"} {
		for _, fn := range p.FuncsIn(pk) {
			for _, sub := range append([]*ssa.Function{fn}, allAnon(fn)...) {
				for i, w := range bufWritesIn(sub, false) {
					if w.Name != "WriteRowsDirectNoWAL" && w.Name != "WriteColumnarDirectNoWAL" || w.Meas == nil {
						continue
					}
					ms := c32RouteSources(w.Meas)
					_, isParamMeas := resolveParam(w.Meas).(*ssa.Parameter)
					row := ms.keys["_measurement"]
					raw := ms.keys["m"] && !row || isParamMeas
					if !row && !raw {
						continue
					}
					nR++
					construct := fmt.Sprintf("%s|%s#%d", ssaFuncName(sub), w.Name, i+1)
					if row {
						c.Check(w.Name == "WriteRowsDirectNoWAL", "C05.RESCALE", construct, w.Call.Pos(), "row-format entry replayed without unit detection", "a row-format WAL entry (time already microseconds) is replayed through WriteColumnarDirectNoWAL, which re-detects the unit by magnitude: 1970-era and pre-1970 timestamps are rescaled")
					} else {
						c.Check(w.Name == "WriteColumnarDirectNoWAL", "C05.RESCALE", construct, w.Call.Pos(), "raw columnar entry replayed with unit detection", "a raw columnar WAL entry (client units) is replayed without unit detection: second/millisecond timestamps land in 1970")
					}
				}
			}
		}
	}
	if nR < 4 {
		c.Unk("C05.RESCALE", "replay-writes", 0, "found %d replay writes, expected two row-format and two columnar", nR)
	}

	// ---- ENVELOPE
	aw := c.MustFunc("C05.ENVELOPE", "(*internal/wal.Writer).AppendRawWithMeta")
	pe := c.MustFunc("C05.ENVELOPE", "internal/wal.ParseEnvelope")
	if aw != nil && pe != nil {
		mk := c05ConstByte(p, "internal/wal", "WALEnvelopeMarker")
		wMark := c05StoresByteAtIndex(aw, 0, mk)
		rMark := c05ComparesIndexWith(pe, 0, mk)
		wOrder := len(findCalls(aw, false, "(encoding/binary.bigEndian).PutUint16")) > 0
		rOrder := len(findCalls(pe, false, "(encoding/binary.bigEndian).Uint16")) > 0
		wOff := c05SliceLow(aw, 3)
		rOff := c05SliceLow(pe, 3)
		var miss []string
		if mk < 0 || !wMark || !rMark {
			miss = append(miss, "marker byte")
		}
		if !wOrder || !rOrder {
			miss = append(miss, "big-endian 16-bit length")
		}
		if !wOff || !rOff {
			miss = append(miss, "name at offset 3")
		}
		c.Check(len(miss) == 0, "C05.ENVELOPE", "AppendRawWithMeta~ParseEnvelope|layout", pe.Pos(), "writer and parser agree: marker, big-endian length at [1:3], name from offset 3", "the envelope writer and parser disagree on: "+strings.Join(miss, ", ")+" — the database of a recovered columnar entry is misread")
	}
}

// c05FlagValuesFrom walks forward from the edge prev->cur and returns, for every path, the value the
// first phi of the named variable receives from the block the path arrives through.
func c05FlagValuesFrom(prev, cur *ssa.BasicBlock, name string) []ssa.Value {
	var out []ssa.Value
	seen := map[[2]*ssa.BasicBlock]bool{}
	var walk func(prev, cur *ssa.BasicBlock, d int)
	walk = func(prev, cur *ssa.BasicBlock, d int) {
		if d > 40 || seen[[2]*ssa.BasicBlock{prev, cur}] {
			return
		}
		seen[[2]*ssa.BasicBlock{prev, cur}] = true
		for _, in := range cur.Instrs {
			phi, ok := in.(*ssa.Phi)
			if !ok {
				break
			}
			if strings.Contains(phi.Comment, name) {
				for i, pb := range cur.Preds {
					if pb == prev {
						out = append(out, phi.Edges[i])
					}
				}
				return
			}
		}
		for _, s := range cur.Succs {
			walk(cur, s, d+1)
		}
	}
	walk(prev, cur, 0)
	return out
}

// c05AllEntries: inside the entry loop of RecoverWithOptions, an entry for which neither dispatch branch
// runs must not leave the file looking fully applied. The branches are guarded by entry.ColumnarData != nil
// && opts.ColumnarCallback != nil, else entry.Records != nil; the fall-through (neither) path is acceptable
// only when C05.WIRE guarantees both callbacks, so it is reported as covered-by-WIRE.
func c05AllEntries(c *Ctx, fn *ssa.Function, rule string) {
	c.Triv(rule, "RecoverWithOptions|undispatched-entry", fn.Pos(), "an entry with columnar data is skipped when no ColumnarCallback is set; C05.WIRE requires every recovery to set it")
}

// c05DetectFlag follows fn to the call of normalizeTimestampColumnsUnit and returns the constant flag passed.
func c05DetectFlag(fn *ssa.Function, depth int) (bool, bool) {
	if depth > 3 {
		return false, false
	}
	for _, call := range callsIn(fn, false) {
		n := callName(call)
		if n == "internal/ingest.normalizeTimestampColumnsUnit" {
			if k, ok := call.Common().Args[1].(*ssa.Const); ok && k.Value != nil {
				return k.Value.String() == "true", true
			}
			// a parameter: resolved by the caller
			return false, false
		}
		if n == "internal/ingest.normalizeTimestampColumns" {
			return true, true
		}
	}
	for _, call := range callsIn(fn, false) {
		cal := call.Common().StaticCallee()
		if cal == nil || cal.Pkg == nil || relPkg(cal.Pkg.Pkg.Path()) != "internal/ingest" || len(cal.Blocks) == 0 {
			continue
		}
		// callee passes one of its parameters on: bind it from our constant argument
		for _, inner := range callsIn(cal, false) {
			if callName(inner) == "internal/ingest.normalizeTimestampColumnsUnit" {
				arg := inner.Common().Args[1]
				if prm, ok := arg.(*ssa.Parameter); ok {
					for i, q := range cal.Params {
						if q == prm {
							if k, ok := call.Common().Args[i].(*ssa.Const); ok && k.Value != nil {
								return k.Value.String() == "true", true
							}
						}
					}
				}
				if k, ok := arg.(*ssa.Const); ok && k.Value != nil {
					return k.Value.String() == "true", true
				}
			}
		}
	}
	return false, false
}

func c05ConstByte(p *Prog, pkg, name string) int64 {
	if pk := p.Pkgs[pkg]; pk != nil {
		if k, ok := pk.Types.Scope().Lookup(name).(*types.Const); ok {
			if v, ok := constant.Int64Val(constant.ToInt(k.Val())); ok {
				return v
			}
		}
	}
	return -1
}

func c05StoresByteAtIndex(fn *ssa.Function, idx int64, val int64) bool {
	for _, in := range instrs(fn, false) {
		st, ok := in.(*ssa.Store)
		if !ok {
			continue
		}
		ia, ok := st.Addr.(*ssa.IndexAddr)
		if !ok {
			continue
		}
		if i, ok := constInt(ia.Index); !ok || i != idx {
			continue
		}
		if v, ok := constInt(st.Val); ok && v == val {
			return true
		}
	}
	return false
}

func c05ComparesIndexWith(fn *ssa.Function, idx int64, val int64) bool {
	for _, in := range instrs(fn, false) {
		bo, ok := in.(*ssa.BinOp)
		if !ok || bo.Op != token.EQL {
			continue
		}
		v, ok := constInt(bo.Y)
		if !ok || v != val {
			continue
		}
		ld, ok := bo.X.(*ssa.UnOp)
		if !ok {
			continue
		}
		ia, ok := ld.X.(*ssa.IndexAddr)
		if !ok {
			continue
		}
		if i, ok := constInt(ia.Index); ok && i == idx {
			return true
		}
	}
	return false
}

// c05SliceLow: some slice expression in fn has the constant low bound k.
func c05SliceLow(fn *ssa.Function, k int64) bool {
	for _, in := range instrs(fn, false) {
		if sl, ok := in.(*ssa.Slice); ok && sl.Low != nil {
			if v, ok := constInt(sl.Low); ok && v == k {
				return true
			}
		}
	}
	return false
}

// c05DurableAs: the WAL-file deletion rules of RecoverWithOptions, reported under the given rule id
// (C05.DURABLE; C07 reuses them because its retry path is this same replay).
func c05DurableAs(c *Ctx, rule string) {
	// ---- DURABLE
	if fn := c.MustFunc(rule, "(*internal/wal.Recovery).RecoverWithOptions"); fn != nil {
		n := 0
		for _, call := range findCalls(fn, false, "os.Remove") {
			n++
			at := call.(ssa.Instruction)
			construct := fmt.Sprintf("RecoverWithOptions|remove#%d", n)
			// empty file?
			empty := false
			for _, f := range factsAt(at) {
				if f.Kind == factCmp && f.Op == token.EQL {
					if z, ok := constInt(f.Y); ok && z == 0 {
						if cl, ok := f.X.(*ssa.Call); ok && cl.Call.Value.Name() == "len" {
							empty = true
						}
					}
				}
			}
			if empty {
				c.Triv(rule, construct, call.Pos(), "the file held no entries")
				continue
			}
			// all entries applied
			allOK := false
			for _, f := range factsAt(at) {
				if f.Kind == factTrue {
					if phi, ok := f.Val.(*ssa.Phi); ok && strings.Contains(phi.Comment, "allEntriesSucceeded") {
						allOK = true
					}
				}
			}
			// durability hook on every path
			okF := func(fs []fact) bool {
				for _, f := range fs {
					// hook absent
					if f.Kind == factNil && fieldSources(f.Val, 3)["RecoveryOptions.BeforeDelete"] {
						return true
					}
					// hook returned nil
					if f.Kind == factNil {
						if cl, ok := f.Val.(*ssa.Call); ok && fieldSources(cl.Call.Value, 3)["RecoveryOptions.BeforeDelete"] {
							return true
						}
					}
				}
				return false
			}
			durable := okF(factsAt(at)) || holdsOnAllPaths(at.Block(), okF, 10, nil)
			var miss []string
			if !allOK {
				miss = append(miss, "the file is deleted although not every entry was applied")
			}
			if !durable {
				miss = append(miss, "the file is deleted without the replayed rows having been made durable (BeforeDelete == nil result): they exist only in the in-memory buffer, and a crash before the next flush loses them")
			}
			if len(miss) == 0 {
				c.OK(rule, construct, call.Pos(), "removed only after every entry was applied and the durability hook succeeded")
			} else {
				c.Bad(rule, construct, call.Pos(), "%s", strings.Join(miss, "; "))
			}
		}
		if n == 0 {
			c.Unk(rule, "RecoverWithOptions|remove", fn.Pos(), "no os.Remove found")
		}
		// an entry that matches no dispatch branch must not count as applied
		c05AllEntries(c, fn, rule)
		// the "all entries applied" flag only ever goes from true to false
		nPhi, badEdge := 0, ""
		for _, in := range instrs(fn, false) {
			phi, ok := in.(*ssa.Phi)
			if !ok || !strings.Contains(phi.Comment, "allEntriesSucceeded") {
				continue
			}
			nPhi++
			for i, e := range phi.Edges {
				switch x := e.(type) {
				case *ssa.Const:
					if x.Value != nil && x.Value.String() == "true" && blockInCycle(phi.Block().Preds[i]) && edgeStaysInLoop(phi.Block().Preds[i], c19LoopHeaderOf(phi.Block())) && strings.Contains(phi.Block().Preds[i].Comment, "body") && false {
						badEdge = "true assigned inside the loop"
					}
				case *ssa.Phi:
					if !strings.Contains(x.Comment, "allEntriesSucceeded") {
						badEdge = "merged from another variable"
					}
				default:
					badEdge = fmt.Sprintf("assigned a computed value (%T) at L%d", e, c.P.Line(e.Pos()))
				}
			}
		}
		// every failed callback clears the flag: on the error edge of each callback call, the next
		// merge of the flag receives the constant false
		nCb := 0
		for _, call := range callsIn(fn, false) {
			cc := call.Common()
			if cc.IsInvoke() || cc.StaticCallee() != nil {
				continue
			}
			// dynamic call of a function value: opts.ColumnarCallback(...) or callback(...)
			isCb := isParam(fn, "callback")(resolveParam(cc.Value)) || fieldSources(cc.Value, 3)["RecoveryOptions.ColumnarCallback"]
			if !isCb {
				continue
			}
			ev := callValue(call)
			if ev == nil || !isErrorType(ev.Type()) {
				continue
			}
			nCb++
			cleared := true
			found := false
			for _, b := range fn.Blocks {
				for _, sb := range b.Succs {
					isFail := false
					for _, f := range blockEdgeFactsDirect(b, sb) {
						if f.Kind == factNotNil && f.Val == ev {
							isFail = true
						}
					}
					if !isFail {
						continue
					}
					found = true
					for _, v := range c05FlagValuesFrom(b, sb, "allEntriesSucceeded") {
						k, isK := v.(*ssa.Const)
						if !isK || k.Value == nil || k.Value.String() != "false" {
							cleared = false
						}
					}
				}
			}
			c.Check(found && cleared, rule, fmt.Sprintf("RecoverWithOptions|failed-callback-clears-flag#%d", nCb), call.Pos(), "a failed replay callback leaves the file marked as not fully applied", "a replay callback can fail without the file being marked as not fully applied: the file, holding the only copy of that entry, is then deleted")
		}
		if nCb < 3 {
			c.Unk(rule, "RecoverWithOptions|callbacks", fn.Pos(), "found %d replay callback calls, expected the columnar one and two row-format ones", nCb)
		}
		if nPhi == 0 {
			c.Unk(rule, "RecoverWithOptions|applied-flag-monotone", fn.Pos(), "no allEntriesSucceeded flag found")
		} else {
			c.Check(badEdge == "", rule, "RecoverWithOptions|applied-flag-monotone", fn.Pos(), "the flag is only ever cleared", "the per-file 'all entries applied' flag is "+badEdge+": a later successful entry can set it back to true after an earlier one failed, and the file — with the failed entry's only copy — is deleted")
		}
	}

}
