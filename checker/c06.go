package main

import (
	"fmt"
	"go/token"
	"go/types"
	"sort"
	"strings"

	"golang.org/x/tools/go/ssa"
)

func init() {
	register("C06", runC06,
		"behaviour after a corrupted length field (the reader resumes at a misaligned offset; whether a fabricated entry can then pass the CRC depends on the bytes), CRC32 collision probability, and msgpack decoding of the payload; only that writer and reader agree on the framing/envelope/file-header layout, hash the same byte range, gate every successful read on the checksum comparison and the size cap, stop at a torn header, and keep FIFO order through a single producer/consumer path")
}

// byteField is one fixed-offset field access through encoding/binary.
type byteField struct {
	Role  string // len | ts | crc | other
	Lo    int64
	Hi    int64
	Width int
	Pos   token.Pos
	Val   ssa.Value // value written (writers) or the call (readers)
	Buf   ssa.Value
}

func (b byteField) String() string {
	return fmt.Sprintf("%s@[%d:%d]u%d", b.Role, b.Lo, b.Hi, b.Width*8)
}

var binPut = map[string]int{
	"(encoding/binary.bigEndian).PutUint16": 2, "(encoding/binary.bigEndian).PutUint32": 4, "(encoding/binary.bigEndian).PutUint64": 8,
}
var binGet = map[string]int{
	"(encoding/binary.bigEndian).Uint16": 2, "(encoding/binary.bigEndian).Uint32": 4, "(encoding/binary.bigEndian).Uint64": 8,
}

func sliceBounds(v ssa.Value) (buf ssa.Value, lo, hi int64, ok bool) {
	sl, isSl := v.(*ssa.Slice)
	if !isSl {
		return nil, 0, 0, false
	}
	lo, hi = 0, -1
	if sl.Low != nil {
		k, isC := constInt(sl.Low)
		if !isC {
			return sl.X, 0, 0, false
		}
		lo = k
	}
	if sl.High != nil {
		k, isC := constInt(sl.High)
		if !isC {
			return sl.X, lo, -1, true
		}
		hi = k
	}
	return sl.X, lo, hi, true
}

func binaryFields(fn *ssa.Function, table map[string]int) []byteField {
	var out []byteField
	for _, call := range callsIn(fn, false) {
		w, ok := table[callName(call)]
		if !ok {
			continue
		}
		args := call.Common().Args
		buf, lo, hi, ok := sliceBounds(args[1])
		if !ok {
			out = append(out, byteField{Role: "dynamic", Lo: -1, Hi: -1, Width: w, Pos: call.Pos()})
			continue
		}
		bf := byteField{Lo: lo, Hi: hi, Width: w, Pos: call.Pos(), Buf: buf}
		if len(args) > 2 {
			bf.Val = args[2]
		} else if v := callValue(call); v != nil {
			bf.Val = v
		}
		out = append(out, bf)
	}
	return out
}

func runC06(c *Ctx) {
	if fn := c.P.Func("(*internal/wal.Writer).rotate"); fn != nil {
		excl, nano := false, false
		for _, call := range callsIn(fn, false) {
			switch callName(call) {
			case "os.OpenFile":
				if k, ok := constInt(call.Common().Args[1]); ok && k&0x80 != 0 { // O_EXCL on linux
					excl = true
				}
			case "(time.Time).Format":
				if sv, ok := constString(call.Common().Args[1]); ok && (strings.Contains(sv, ".000000000") || strings.Contains(sv, ".999999999")) {
					nano = true
				}
			case "(time.Time).UnixNano":
				nano = true
			}
		}
		c.Check(excl || nano, "C06.ROTATE", "rotate|new-file-is-new", fn.Pos(), "exclusive create or nanosecond-resolution name", "rotate names the new file from a clock layout coarser than a nanosecond and opens it with O_CREATE|O_APPEND but without O_EXCL: two rotations within one tick re-open the file being written and append a second `ARCW` header in its middle — the reader takes it for an over-long payload, resumes misaligned, and every complete entry after it is hidden")
	} else {
		c.Unk("C06.ROTATE", "rotate|function", 0, "function not found")
	}
	c.Rule("C06.LAYOUT", "AGREE: the entry framing (length, timestamp, CRC offsets/widths and payload offset) written by AppendRaw and AppendRawWithMeta equals what readEntry reads; likewise the envelope (marker, name length, name offset) between AppendRawWithMeta and ParseEnvelope, and the file header between rotate and ReadAll")
	c.Rule("C06.CRC", "FLOW+DOM: the bytes each writer feeds to the CRC are exactly the bytes it copies after the entry header; the reader hashes the whole buffer it read (not a derived slice); every nil-error return of readEntry is dominated by computed == stored checksum")
	c.Rule("C06.BOUND", "DOM: the reader's payload allocation and both writers' entry construction execute only under length <= MaxWALPayloadSize")
	c.Rule("C06.EOF", "DOM: a short entry-header read makes readEntry return io.EOF, io.EOF ends ReadAll's loop, and ReadAll appends entries at the tail in read order at a single site")
	c.Rule("C06.TAIL", "EXITS: once the file header was accepted, every exit of ReadAll returns the entries read so far with a nil error — a torn or corrupt tail is counted and skipped, never turned into an error (RecoverWithOptions skips a file whose ReadAll failed, which would hide the complete entries before the tear)")
	c.Rule("C06.ROTATE", "CONST: a rotation cannot re-open the file currently being written and append a second file header into it: rotate opens the new file with O_EXCL, or names it from a nanosecond-resolution clock layout (two rotations then cannot share a name)")
	c.Rule("C06.FIFO", "WHO: entries reach the file in append order: only tryEnqueue sends on entryChan, only writerLoop receives from it, and writeEntry writes the dequeued bytes itself (no re-enqueue)")

	ar := c.MustFunc("C06.LAYOUT", "(*internal/wal.Writer).AppendRaw")
	am := c.MustFunc("C06.LAYOUT", "(*internal/wal.Writer).AppendRawWithMeta")
	re := c.MustFunc("C06.LAYOUT", "(*internal/wal.Reader).readEntry")
	pe := c.MustFunc("C06.LAYOUT", "internal/wal.ParseEnvelope")
	ra := c.MustFunc("C06.LAYOUT", "(*internal/wal.Reader).ReadAll")
	rot := c.MustFunc("C06.LAYOUT", "(*internal/wal.Writer).rotate")
	if ar == nil || am == nil || re == nil || pe == nil || ra == nil || rot == nil {
		return
	}
	p := c.P

	// ---- reader framing table with roles
	readerRole := func(bf *byteField) {
		call := bf.Val
		if call == nil {
			return
		}
		for _, r := range *call.Referrers() {
			switch x := r.(type) {
			case *ssa.BinOp:
				other := x.X
				if other == call {
					other = x.Y
				}
				if derives(other, isResultOf("hash/crc32.ChecksumIEEE", "(hash.Hash32).Sum32", "hash/crc32.Checksum"), true, 4) {
					bf.Role = "crc"
				}
				if k, isC := constInt(other); isC && k == 100*1024*1024 && bf.Role == "" {
					bf.Role = "len"
				}
			case *ssa.MakeSlice:
				bf.Role = "len"
			case *ssa.Convert:
				for _, r2 := range *x.Referrers() {
					if _, ok := r2.(*ssa.MakeSlice); ok {
						bf.Role = "len"
					}
				}
			case *ssa.Store:
				if _, f, _, ok := fieldOf(x.Addr); ok && strings.Contains(strings.ToLower(f), "timestamp") {
					bf.Role = "ts"
				}
			}
		}
		if bf.Role == "" {
			bf.Role = "other"
		}
	}
	writerRole := func(bf *byteField) {
		v := bf.Val
		switch {
		case derives(v, isResultOf("hash/crc32.ChecksumIEEE", "(hash.Hash32).Sum32", "hash/crc32.Checksum"), true, 5):
			bf.Role = "crc"
		case derives(v, isResultOf("time.Now"), true, 6):
			bf.Role = "ts"
		case derives(v, func(x ssa.Value) bool {
			if call, ok := x.(*ssa.Call); ok {
				if b, ok := call.Call.Value.(*ssa.Builtin); ok && b.Name() == "len" {
					return true
				}
			}
			return false
		}, true, 8):
			bf.Role = "len"
		default:
			bf.Role = "other"
		}
	}
	canon := func(fs []byteField) string {
		var s []string
		for _, f := range fs {
			s = append(s, f.String())
		}
		sort.Strings(s)
		return strings.Join(s, " ")
	}
	rf := binaryFields(re, binGet)
	for i := range rf {
		readerRole(&rf[i])
	}
	rtab := canon(rf)
	for _, w := range []*ssa.Function{ar, am} {
		var wf []byteField
		for _, f := range binaryFields(w, binPut) {
			// only fields of the entry buffer (a make([]byte,…)), not the envelope scratch array
			if _, isMk := f.Buf.(*ssa.MakeSlice); !isMk {
				continue
			}
			writerRole(&f)
			wf = append(wf, f)
		}
		wtab := canon(wf)
		c.Check(wtab == rtab && len(wf) >= 3, "C06.LAYOUT", w.Name()+"|entry-header", w.Pos(),
			"writer table {"+wtab+"} equals reader table", "entry header written by "+w.Name()+" is {"+wtab+"} but readEntry reads {"+rtab+"}")
		// payload offset: copy(entryData[K:], …) with smallest K == reader header size
		minOff := int64(-1)
		for _, call := range callsIn(w, false) {
			if b, ok := call.Common().Value.(*ssa.Builtin); ok && b.Name() == "copy" {
				if buf, lo, _, ok := sliceBounds(call.Common().Args[0]); ok {
					if _, isMk := buf.(*ssa.MakeSlice); isMk && (minOff < 0 || lo < minOff) {
						minOff = lo
					}
				}
			}
		}
		hdr := c06HeaderArrayLen(re)
		c.Check(minOff == hdr && hdr > 0, "C06.LAYOUT", w.Name()+"|payload-offset", w.Pos(),
			fmt.Sprintf("payload copied at offset %d == reader header size %d", minOff, hdr),
			fmt.Sprintf("payload is copied at offset %d but readEntry consumes a %d-byte header before the payload", minOff, hdr))
	}

	// ---- envelope
	c06Envelope(c, am, pe)
	// ---- file header
	c06FileHeader(c, rot, ra)

	// ---- CRC ranges
	// AppendRaw: ChecksumIEEE(x) and copy(entry[16:], x) with the same x
	{
		var sums, copies []ssa.Value
		for _, call := range callsIn(ar, false) {
			if callName(call) == "hash/crc32.ChecksumIEEE" {
				sums = append(sums, call.Common().Args[0])
			}
			if b, ok := call.Common().Value.(*ssa.Builtin); ok && b.Name() == "copy" {
				if buf, _, _, ok := sliceBounds(call.Common().Args[0]); ok {
					if _, isMk := buf.(*ssa.MakeSlice); isMk {
						copies = append(copies, call.Common().Args[1])
					}
				}
			}
		}
		ok := len(sums) == 1 && len(copies) == 1 && sums[0] == copies[0]
		c.Check(ok, "C06.CRC", "AppendRaw|hashed==copied", ar.Pos(), "the checksummed slice is the slice copied after the header", "AppendRaw checksums a different byte range than it stores after the header")
	}
	// AppendRawWithMeta: multiset of crc.Write args == multiset of copy sources into the entry buffer
	{
		key := func(v ssa.Value) string {
			if buf, lo, hi, ok := sliceBounds(v); ok {
				h := "dyn"
				if sl := v.(*ssa.Slice); sl.High != nil {
					h = sl.High.Name()
					if k, isC := constInt(sl.High); isC {
						h = fmt.Sprint(k)
					}
				}
				_ = hi
				return fmt.Sprintf("%s[%d:%s]", buf.Name(), lo, h)
			}
			return v.Name()
		}
		var hashed, copied []string
		for _, call := range callsIn(am, false) {
			n := callName(call)
			if n == "(hash.Hash32).Write" || n == "(io.Writer).Write" || n == "(hash.Hash).Write" {
				hashed = append(hashed, key(call.Common().Args[0]))
			}
			if n == "hash/crc32.ChecksumIEEE" {
				hashed = append(hashed, key(call.Common().Args[0]))
			}
			if b, ok := call.Common().Value.(*ssa.Builtin); ok && b.Name() == "copy" {
				if sl, ok := call.Common().Args[0].(*ssa.Slice); ok {
					if _, isMk := sl.X.(*ssa.MakeSlice); isMk {
						// exclude the replication payload buffer: only the buffer that is enqueued
						if derivesToEnqueue(am, sl.X) {
							copied = append(copied, key(call.Common().Args[1]))
						}
					}
				}
			}
		}
		sort.Strings(hashed)
		sort.Strings(copied)
		ok := len(hashed) > 0 && strings.Join(hashed, ",") == strings.Join(copied, ",")
		c.Check(ok, "C06.CRC", "AppendRawWithMeta|hashed==copied", am.Pos(),
			"CRC input {"+strings.Join(hashed, ",")+"} equals the bytes stored after the header",
			"AppendRawWithMeta feeds {"+strings.Join(hashed, ",")+"} to the CRC but stores {"+strings.Join(copied, ",")+"} after the header: part of the stored entry is not covered by the checksum")
	}
	// reader: hashed buffer is the ReadFull target made with payloadLen
	var rsum *ssa.Call
	for _, call := range findCalls(re, false, "hash/crc32.ChecksumIEEE") {
		rsum = call.(*ssa.Call)
	}
	if rsum == nil {
		c.Bad("C06.CRC", "readEntry|checksum", re.Pos(), "readEntry computes no CRC32 over the payload")
	} else {
		arg := rsum.Call.Args[0]
		_, isMk := arg.(*ssa.MakeSlice)
		filled := false
		for _, call := range findCalls(re, false, "io.ReadFull") {
			if call.Common().Args[1] == arg {
				filled = true
			}
		}
		c.Check(isMk && filled, "C06.CRC", "readEntry|hashes-whole-payload", rsum.Pos(), "CRC is computed over the whole buffer filled by io.ReadFull", "readEntry hashes something other than the whole payload buffer it read (a derived slice leaves framing/envelope bytes unprotected)")
		// every success return dominated by equality
		stored := ssa.Value(nil)
		for _, f := range rf {
			if f.Role == "crc" {
				stored = f.Val
			}
		}
		n := 0
		for _, in := range instrs(re, false) {
			r, ok := in.(*ssa.Return)
			if !ok {
				continue
			}
			if classifyErr(returnErrOperand(r), r, nil, 0) == errNonNil {
				continue
			}
			n++
			okEq := false
			for _, f := range factsAt(r) {
				if f.Kind == factCmp && f.Op == token.EQL {
					if (f.X == ssa.Value(rsum) && f.Y == stored) || (f.Y == ssa.Value(rsum) && f.X == stored) {
						okEq = true
					}
				}
			}
			c.Check(okEq && stored != nil, "C06.CRC", fmt.Sprintf("readEntry|success-return#%d", n), r.Pos(),
				"return of an entry is dominated by computed == stored checksum", "an entry can be returned without the computed checksum having been found equal to the stored one")
		}
		if n == 0 {
			c.Unk("C06.CRC", "readEntry|success-return", re.Pos(), "no success return found")
		}
	}

	// ---- BOUND
	maxC := int64(100 * 1024 * 1024)
	boundAt := func(in ssa.Instruction) bool {
		for _, f := range factsAt(in) {
			if f.Kind != factCmp {
				continue
			}
			if k, isC := constInt(f.Y); isC && k == maxC && (f.Op == token.LEQ || f.Op == token.LSS) {
				return true
			}
			if k, isC := constInt(f.X); isC && k == maxC && (f.Op == token.GEQ || f.Op == token.GTR) {
				return true
			}
		}
		return false
	}
	for _, fn := range []*ssa.Function{re, ar, am} {
		n := 0
		for _, in := range instrs(fn, false) {
			mk, ok := in.(*ssa.MakeSlice)
			if !ok {
				continue
			}
			if bt, ok := mk.Type().Underlying().(*types.Slice); !ok || !types.Identical(bt.Elem(), types.Typ[types.Byte]) {
				continue
			}
			n++
			c.Check(boundAt(mk), "C06.BOUND", fmt.Sprintf("%s|make#%d", fn.Name(), n), mk.Pos(),
				"allocation happens only under length <= MaxWALPayloadSize", "byte buffer sized from a length that was not compared with MaxWALPayloadSize")
		}
	}
	c.Floor("C06.BOUND", 3, "reader payload + two writers")

	// ---- EOF
	c06EOF(c, re, ra)
	// ---- FIFO
	c06FIFO(c)
	_ = p
}

// derivesToEnqueue: buf is the value passed to tryEnqueue.
func derivesToEnqueue(fn *ssa.Function, buf ssa.Value) bool {
	for _, call := range findCalls(fn, false, "(*internal/wal.Writer).tryEnqueue") {
		if call.Common().Args[1] == buf {
			return true
		}
	}
	return false
}

func c06HeaderArrayLen(re *ssa.Function) int64 {
	// the array handed (sliced) to the first io.ReadFull
	for _, call := range findCalls(re, false, "io.ReadFull") {
		if sl, ok := call.Common().Args[1].(*ssa.Slice); ok {
			if pt, ok := sl.X.Type().Underlying().(*types.Pointer); ok {
				if at, ok := pt.Elem().Underlying().(*types.Array); ok {
					return at.Len()
				}
			}
		}
	}
	return -1
}

func c06Envelope(c *Ctx, am, pe *ssa.Function) {
	// writer: store of marker at index 0 of an array, PutUint16 at [1:3], copy at [3:]
	wMarker, wLen, wName := int64(-1), "", int64(-1)
	var scratch ssa.Value
	for _, f := range binaryFields(am, binPut) {
		if _, isMk := f.Buf.(*ssa.MakeSlice); !isMk && f.Width == 2 {
			wLen = fmt.Sprintf("[%d:%d]", f.Lo, f.Hi)
			scratch = f.Buf
		}
	}
	for _, in := range instrs(am, false) {
		if st, ok := in.(*ssa.Store); ok {
			if ia, ok := st.Addr.(*ssa.IndexAddr); ok && ia.X == scratch {
				if k, isC := constInt(ia.Index); isC {
					if mv, isC := constInt(st.Val); isC && mv == 1 {
						wMarker = k
					}
				}
			}
		}
		if call, ok := in.(*ssa.Call); ok {
			if b, ok := call.Call.Value.(*ssa.Builtin); ok && b.Name() == "copy" {
				if buf, lo, _, ok := sliceBounds(call.Call.Args[0]); ok && buf == scratch {
					wName = lo
				}
			}
		}
	}
	// reader: payload[0] == marker; Uint16(payload[1:3]); payload[3 : 3+dbLen]
	rMarker, rLen, rName := int64(-1), "", int64(-1)
	for _, f := range binaryFields(pe, binGet) {
		if f.Width == 2 {
			rLen = fmt.Sprintf("[%d:%d]", f.Lo, f.Hi)
		}
	}
	for _, in := range instrs(pe, false) {
		switch x := in.(type) {
		case *ssa.BinOp:
			if x.Op == token.EQL || x.Op == token.NEQ {
				if k, isC := constInt(x.Y); isC && k == 1 {
					if ld, ok := x.X.(*ssa.UnOp); ok {
						if ia, ok := ld.X.(*ssa.IndexAddr); ok {
							if idx, isC := constInt(ia.Index); isC {
								rMarker = idx
							}
						}
					}
				}
			}
		case *ssa.Slice:
			if x.Low != nil {
				if k, isC := constInt(x.Low); isC && x.High != nil {
					if _, isC2 := constInt(x.High); !isC2 {
						rName = k
					}
				}
			}
		}
	}
	w := fmt.Sprintf("marker@%d len@%s name@%d", wMarker, wLen, wName)
	r := fmt.Sprintf("marker@%d len@%s name@%d", rMarker, rLen, rName)
	c.Check(w == r && wMarker >= 0 && wLen != "" && wName >= 0, "C06.LAYOUT", "envelope", am.Pos(),
		"envelope layout agrees: "+w, "AppendRawWithMeta writes the envelope as {"+w+"} but ParseEnvelope reads {"+r+"}")
}

func c06FileHeader(c *Ctx, rot, ra *ssa.Function) {
	shape := func(fn *ssa.Function, table map[string]int) string {
		var s []string
		for _, f := range binaryFields(fn, table) {
			s = append(s, fmt.Sprintf("u%d@[%d:%d]", f.Width*8, f.Lo, f.Hi))
		}
		// magic: a Slice [0:4] of the header array used with copy / bytes.Equal
		for _, call := range callsIn(fn, false) {
			n := callName(call)
			isCopy := false
			if b, ok := call.Common().Value.(*ssa.Builtin); ok && b.Name() == "copy" {
				isCopy = true
			}
			if isCopy || n == "bytes.Equal" {
				if _, lo, hi, ok := sliceBounds(call.Common().Args[0]); ok && hi > 0 {
					s = append(s, fmt.Sprintf("magic@[%d:%d]", lo, hi))
				}
			}
		}
		sort.Strings(s)
		return strings.Join(s, " ")
	}
	w, r := shape(rot, binPut), shape(ra, binGet)
	c.Check(w == r && w != "", "C06.LAYOUT", "file-header", rot.Pos(), "file header layout agrees: "+w, "rotate writes the file header as {"+w+"} but ReadAll reads {"+r+"}")
}

func c06EOF(c *Ctx, re, ra *ssa.Function) {
	// first ReadFull in readEntry: its error branch with err == io.EOF/ErrUnexpectedEOF returns io.EOF
	calls := findCalls(re, false, "io.ReadFull")
	if len(calls) < 2 {
		c.Unk("C06.EOF", "readEntry|reads", re.Pos(), "expected a header read and a payload read")
		return
	}
	hdr := calls[0]
	e := errResult(hdr)
	isEOFGlobal := func(v ssa.Value, name string) bool {
		ld, ok := v.(*ssa.UnOp)
		if !ok {
			return false
		}
		g, ok := ld.X.(*ssa.Global)
		return ok && g.Pkg.Pkg.Path() == "io" && g.Name() == name
	}
	okUnexp, okEOF := false, false
	for _, in := range instrs(re, false) {
		r, ok := in.(*ssa.Return)
		if !ok {
			continue
		}
		op := returnErrOperand(r)
		if op == nil {
			continue
		}
		// unwrap defer spill not needed (no defers)
		if !isEOFGlobal(op, "EOF") {
			continue
		}
		// which comparison led here? look at direct edge facts of all preds
		for _, pred := range r.Block().Preds {
			for _, f := range blockEdgeFactsDirect(pred, r.Block()) {
				if f.Kind == factCmp && f.Op == token.EQL && (sameVal(f.X, e) || sameVal(f.Y, e)) {
					if isEOFGlobal(f.X, "ErrUnexpectedEOF") || isEOFGlobal(f.Y, "ErrUnexpectedEOF") {
						okUnexp = true
					}
					if isEOFGlobal(f.X, "EOF") || isEOFGlobal(f.Y, "EOF") {
						okEOF = true
					}
				}
			}
		}
	}
	c.Check(okEOF && okUnexp, "C06.EOF", "readEntry|torn-header", hdr.Pos(),
		"io.EOF and io.ErrUnexpectedEOF from the header read both return io.EOF", "a short header read (clean EOF handled="+fmt.Sprint(okEOF)+", torn header handled="+fmt.Sprint(okUnexp)+") does not return io.EOF: ReadAll would keep reading from a misaligned offset")
	// ReadAll: loop exit on err == io.EOF of readEntry
	var rcall ssa.CallInstruction
	for _, call := range findCalls(ra, false, "(*internal/wal.Reader).readEntry") {
		rcall = call
	}
	if rcall == nil {
		c.Bad("C06.EOF", "ReadAll|loop", ra.Pos(), "ReadAll does not call readEntry")
		return
	}
	re2 := errResult(rcall)
	exitOnEOF := false
	for _, in := range instrs(ra, false) {
		ifi, ok := in.(*ssa.If)
		if !ok {
			continue
		}
		if bo, ok := ifi.Cond.(*ssa.BinOp); ok && bo.Op == token.EQL && (sameVal(bo.X, re2) || sameVal(bo.Y, re2)) && (isEOFGlobal(bo.X, "EOF") || isEOFGlobal(bo.Y, "EOF")) {
			// true successor must not reach readEntry again
			reach := pathsAvoidingTo(ra, nil, ifi.Block().Succs[0], func(ssa.Instruction) bool { return false }, func(x ssa.Instruction) bool { return x == rcall.(ssa.Instruction) })
			again := false
			for _, ex := range reach {
				if ex.Instr == rcall.(ssa.Instruction) {
					again = true
				}
			}
			if !again {
				exitOnEOF = true
			}
		}
	}
	c.Check(exitOnEOF, "C06.EOF", "ReadAll|eof-ends-loop", rcall.Pos(), "err == io.EOF leaves the read loop", "io.EOF from readEntry does not terminate ReadAll's loop")
	// once the file header was accepted, ReadAll returns its entries with a nil error
	nAfter := 0
	okAfter := true
	for _, in := range instrs(ra, false) {
		r, ok := in.(*ssa.Return)
		if !ok || len(r.Results) != 2 {
			continue
		}
		// returns that lie in, or after, the read loop: reachable from the readEntry call
		if !(rcall.Block().Dominates(r.Block()) || instrDominates(rcall.(ssa.Instruction), r)) {
			continue
		}
		nAfter++
		if !isNilConst(unspill(r, r.Results[1])) {
			okAfter = false
		}
	}
	c.Check(okAfter && nAfter >= 1, "C06.TAIL", "ReadAll|torn-tail-is-not-an-error", rcall.Pos(), "every exit after the first readEntry returns the entries with a nil error", "ReadAll returns an error from inside the read loop: recovery skips a file whose ReadAll failed, so a tail torn inside a payload hides every entry completely written before it")
	// single append, at the tail, of the entry just read
	nApp := 0
	okTail := false
	for _, call := range callsIn(ra, false) {
		if b, ok := call.Common().Value.(*ssa.Builtin); ok && b.Name() == "append" {
			if strings.HasSuffix(call.Common().Args[0].Type().String(), "wal.Entry") {
				nApp++
				// base is the accumulated slice (phi), elements derive from readEntry's result
				if derives(call.Common().Args[1], func(v ssa.Value) bool { return v == resultN(rcall, 0) }, false, 8) {
					if _, isPhi := call.Common().Args[0].(*ssa.Phi); isPhi {
						okTail = true
					}
				}
			}
		}
	}
	c.Check(nApp == 1 && okTail, "C06.EOF", "ReadAll|append-order", ra.Pos(), "one append site: entries = append(entries, <entry just read>)", fmt.Sprintf("ReadAll has %d append sites on the entry list or does not append the entry just read at the tail", nApp))
}

func c06FIFO(c *Ctx) {
	p := c.P
	isChan := func(v ssa.Value) bool {
		if ld, ok := v.(*ssa.UnOp); ok {
			if sn, f, _, ok := fieldOf(ld.X); ok && sn == "Writer" && f == "entryChan" {
				return true
			}
		}
		return false
	}
	senders, receivers := map[string]bool{}, map[string]bool{}
	for _, fn := range p.FuncsIn("internal/wal") {
		for _, in := range instrs(fn, true) {
			switch x := in.(type) {
			case *ssa.Send:
				if isChan(x.Chan) {
					senders[ssaFuncName(fn)] = true
				}
			case *ssa.Select:
				for _, st := range x.States {
					if isChan(st.Chan) {
						if st.Dir == types.SendOnly {
							senders[ssaFuncName(fn)] = true
						} else {
							receivers[ssaFuncName(fn)] = true
						}
					}
				}
			case *ssa.UnOp:
				if x.Op == token.ARROW && isChan(x.X) {
					receivers[ssaFuncName(fn)] = true
				}
			}
		}
	}
	keys := func(m map[string]bool) string {
		var s []string
		for k := range m {
			s = append(s, k)
		}
		sort.Strings(s)
		return strings.Join(s, ",")
	}
	c.Check(keys(senders) == "(*internal/wal.Writer).tryEnqueue", "C06.FIFO", "entryChan|senders", 0,
		"only tryEnqueue sends on entryChan", "entryChan is sent to by {"+keys(senders)+"}; a send from the consumer side (re-enqueue) reorders entries behind later appends")
	c.Check(keys(receivers) == "(*internal/wal.Writer).writerLoop", "C06.FIFO", "entryChan|receivers", 0,
		"only writerLoop receives from entryChan", "entryChan is received by {"+keys(receivers)+"}: two consumers interleave file writes")
	we := c.MustFunc("C06.FIFO", "(*internal/wal.Writer).writeEntry")
	if we != nil {
		n := 0
		ok := true
		for _, call := range findCalls(we, false, "(*os.File).Write") {
			n++
			if !fieldSources(call.Common().Args[1], 4)["walEntry.data"] {
				ok = false
			}
		}
		c.Check(n >= 1 && ok, "C06.FIFO", "writeEntry|writes-dequeued-bytes", we.Pos(), "every file write in writeEntry writes the dequeued entry's bytes", "writeEntry does not write the dequeued entry's bytes itself")
	}
}
