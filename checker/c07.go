package main

import (
	"fmt"
	"go/token"
	"strings"

	"golang.org/x/tools/go/ssa"
)

func init() {
	register("C07", runC07,
		"that storage eventually works again and replay then succeeds, duplicates after a partially successful multi-partition flush or after replaying a WAL file some of whose rows had already been flushed, timing of the maintenance loop, and the WAL writer's own backpressure drops (reported to the caller as ErrWALDropped); decided are: that a batch taken out of the buffers always ends with a queued task, a flush attempt or the flush-failure flag, that failed flushes set the flag, that with the WAL disabled a full queue blocks instead of dropping and shutdown leftovers are flushed inline, that Close accounts for tasks left in the queue, that WAL purges are guarded by the flag being clear, that the flag is only reset after a recovery that returned no error, and the shutdown order buffer < wal-purge < WAL")
}

func runC07(c *Ctx) {
	p := c.P
	c.Rule("C07.DROP", "PASS: in tryEnqueueFlush every return of an outcome other than flushQueued passes through batchNotQueued; batchNotQueued sets the flush-failure flag when a WAL exists and otherwise flushes the batch itself; Close hands every task left in the queue to batchNotQueued")
	c.Rule("C07.FAIL", "PASS: in flushRecordsAsync and flushBufferLocked every path on which merging or the partitioned flush returned an error passes through markFlushFailure")
	c.Rule("C07.NOWAL", "DOM: where b.wal == nil the enqueue select has no default arm (a full queue blocks the writer instead of dropping acknowledged rows)")
	c.Rule("C07.FLAG", "WHO: the flush-failure flag is set only by markFlushFailure and cleared only by ResetFlushFailure")
	c.Rule("C07.PURGE", "DOM: every call of PurgeAll / PurgeOlderThan / PurgeInactive outside the WAL package is reached only where HasFlushFailure() returned false")
	c.Rule("C07.RESET", "DOM: ResetFlushFailure is called only where the recovery call returned a nil error")
	c.Rule("C07.STICKY", "FLOW: the error FlushAll returns is sticky: every value that can reach the return is either the initial nil or was assigned where that value was known non-nil, so a buffer that flushes fine after one that failed cannot overwrite the failure (FlushAll is the BeforeDelete hook of WAL recovery: a nil result deletes the WAL file)")
	if fn := c.MustFunc("C07.STICKY", "(*internal/ingest.ArrowBuffer).FlushAll"); fn != nil {
		n := 0
		for _, in := range instrs(fn, false) {
			r, ok := in.(*ssa.Return)
			if !ok || len(r.Results) != 1 {
				continue
			}
			n++
			var bad []string
			seen := map[ssa.Value]bool{}
			var rec func(v ssa.Value, at *ssa.BasicBlock)
			rec = func(v ssa.Value, at *ssa.BasicBlock) {
				if v == nil {
					return
				}
				if ph, ok := v.(*ssa.Phi); ok {
					if seen[v] {
						return
					}
					seen[v] = true
					for k, e := range ph.Edges {
						rec(e, ph.Block().Preds[k])
					}
					return
				}
				if isNilConst(v) {
					return
				}
				// a concrete value: known non-nil where it flows in?
				okv := false
				for _, f := range append(factsAtBlock(at), blockEdgeFactsDirect(at.Idom(), at)...) {
					// the value itself is known non-nil, or it is assigned on the failure side of some error test
					// (lastErr = errors.Join(lastErr, err) under err != nil)
					if f.Kind == factNotNil && (f.Val == v || isErrorType(f.Val.Type())) {
						okv = true
					}
				}
				if at != nil {
					if li, ok := lastIf(at); ok {
						_ = li
					}
				}
				if !okv {
					bad = append(bad, fmt.Sprintf("%s (line %d)", v.Name(), c.P.Line(v.Pos())))
				}
			}
			res := unspill(r, r.Results[0])
			// a named result spilled to a cell: every store into it
			if ld, ok := res.(*ssa.UnOp); ok && ld.Op == token.MUL {
				if a, ok := ld.X.(*ssa.Alloc); ok {
					for _, ref := range *a.Referrers() {
						if st, ok := ref.(*ssa.Store); ok && st.Addr == ssa.Value(a) {
							if isNilConst(st.Val) {
								continue
							}
							if !guardedNotNilAt(st, st.Val) {
								bad = append(bad, fmt.Sprintf("store at line %d", c.P.Line(st.Pos())))
							}
						}
					}
					res = nil
				}
			}
			if res != nil {
				rec(res, r.Block())
			}
			c.Check(len(bad) == 0, "C07.STICKY", fmt.Sprintf("FlushAll|return#%d", n), r.Pos(), "the returned error only ever takes values known to be non-nil (or the initial nil)", "FlushAll's result can be overwritten by a later buffer's outcome ("+strings.Join(bad, ", ")+"): one refused write followed by a successful one returns nil — WAL recovery then deletes the file although the failed buffer's rows were dropped from memory")
		}
		c.Check(n >= 1, "C07.STICKY", "FlushAll|returns", fn.Pos(), "return found", "no return found")
	}
	c.Rule("C07.PRIO", "CONST: shutdown priorities order buffer flush < wal-purge hook < WAL close")

	// ---- DROP
	if fn := c.MustFunc("C07.DROP", abuf+"tryEnqueueFlush"); fn != nil {
		queued := c07Const(p, "internal/ingest", "flushQueued")
		n := 0
		for _, in := range instrs(fn, false) {
			ret, ok := in.(*ssa.Return)
			if !ok {
				continue
			}
			k, ok := constInt(ret.Results[0])
			if !ok {
				c.Unk("C07.DROP", "tryEnqueueFlush|outcome", ret.Pos(), "non-constant outcome")
				continue
			}
			if k == queued {
				// must follow a send on the queue
				sent := false
				for _, f := range factsAt(ret) {
					_ = f
				}
				for _, in2 := range instrs(fn, false) {
					if sel, ok := in2.(*ssa.Select); ok && instrDominates(sel, ret) {
						for _, st := range sel.States {
							if st.Send != nil {
								sent = true
							}
						}
					}
				}
				c.Check(sent, "C07.DROP", fmt.Sprintf("tryEnqueueFlush|queued@L%d", c.P.Line(ret.Pos())-c.P.Line(fn.Pos())), ret.Pos(), "flushQueued is reported after a send on the queue", "flushQueued is reported without a send on the flush queue")
				continue
			}
			n++
			// every path entry -> this return passes batchNotQueued
			skipped := false
			for _, e := range pathsAvoidingTo(fn, nil, fn.Blocks[0], func(x ssa.Instruction) bool {
				ci, ok := x.(ssa.CallInstruction)
				return ok && (callName(ci) == abuf+"batchNotQueued" || callName(ci) == abuf+"markFlushFailure")
			}, func(x ssa.Instruction) bool { return x == ssa.Instruction(ret) }) {
				if e.Instr == ssa.Instruction(ret) {
					skipped = true
				}
			}
			c.Check(!skipped, "C07.DROP", fmt.Sprintf("tryEnqueueFlush|outcome=%d", k), ret.Pos(), "the batch is accounted for before the non-queued outcome is returned", "tryEnqueueFlush returns a non-queued outcome without accounting for the batch: its rows were acknowledged, left the buffer, and are neither flushed nor flagged for WAL replay")
		}
		if n < 3 {
			c.Unk("C07.DROP", "tryEnqueueFlush|outcomes", fn.Pos(), "found %d non-queued returns, expected closing / ctx-cancelled / queue-full", n)
		}
	}
	if fn := c.MustFunc("C07.DROP", abuf+"batchNotQueued"); fn != nil {
		var mark, flush ssa.CallInstruction
		for _, call := range callsIn(fn, false) {
			switch callName(call) {
			case abuf + "markFlushFailure":
				mark = call
			case abuf + "flushRecordsAsync":
				flush = call
			}
		}
		okMark := mark != nil && hasFieldFact(mark.(ssa.Instruction), factNotNil, "ArrowBuffer.wal")
		okFlush := flush != nil && hasFieldFact(flush.(ssa.Instruction), factNil, "ArrowBuffer.wal")
		c.Check(okMark, "C07.DROP", "batchNotQueued|wal-flags-failure", fn.Pos(), "with a WAL the flush failure is flagged", "batchNotQueued does not flag the flush failure when a WAL exists: the dropped rows are never replayed")
		c.Check(okFlush, "C07.DROP", "batchNotQueued|nowal-flushes", fn.Pos(), "without a WAL the batch is flushed in place", "batchNotQueued does not flush the batch when there is no WAL: the acknowledged rows are lost")
		// every exit passes one of them
		lost := false
		for _, e := range pathsAvoiding(fn, nil, func(x ssa.Instruction) bool {
			ci, ok := x.(ssa.CallInstruction)
			return ok && (callName(ci) == abuf+"markFlushFailure" || callName(ci) == abuf+"flushRecordsAsync")
		}) {
			if _, ok := e.Instr.(*ssa.Return); ok {
				lost = true
			}
		}
		c.Check(!lost, "C07.DROP", "batchNotQueued|every-path", fn.Pos(), "every path flags or flushes", "a path through batchNotQueued neither flags the failure nor flushes the batch")
	}
	if fn := c.MustFunc("C07.DROP", abuf+"Close"); fn != nil {
		// a receive from b.flushQueue after wg.Wait whose value reaches batchNotQueued
		ok := false
		var wait ssa.CallInstruction
		for _, call := range callsIn(fn, false) {
			if callName(call) == "(*sync.WaitGroup).Wait" {
				wait = call
			}
		}
		for _, call := range findCalls(fn, false, abuf+"batchNotQueued") {
			fromQueue := derivesWide(call.Common().Args[1], func(v ssa.Value) bool {
				if sel, isSel := v.(*ssa.Select); isSel {
					for _, st := range sel.States {
						if st.Send == nil && fieldSources(st.Chan, 3)["ArrowBuffer.flushQueue"] {
							return true
						}
					}
				}
				if u, isU := v.(*ssa.UnOp); isU && fieldSources(u.X, 3)["ArrowBuffer.flushQueue"] {
					return true
				}
				return false
			}, 8)
			if fromQueue && wait != nil && instrDominates(wait.(ssa.Instruction), call.(ssa.Instruction)) {
				ok = true
			}
		}
		c.Check(ok, "C07.DROP", "Close|queued-tasks-accounted", fn.Pos(), "tasks left in the queue after the workers stopped are flagged or flushed", "Close abandons the tasks still in the flush queue: their rows were acknowledged and, with the WAL purged at shutdown, are lost")
	}

	// ---- KEEP (the retry path is WAL replay: a file may go only once its entries were applied and made durable)
	c.Rule("C07.KEEP", "PASS: RecoverWithOptions deletes a WAL file only when every entry was applied (each failed callback clears the per-file flag, which is never set back) and the durability hook succeeded (same rules as C05.DURABLE)")
	c05DurableAs(c, "C07.KEEP")

	// ---- FAIL
	for _, name := range []string{"flushRecordsAsync", "flushBufferLocked"} {
		fn := c.MustFunc("C07.FAIL", abuf+name)
		if fn == nil {
			continue
		}
		n := 0
		for _, call := range callsIn(fn, false) {
			cn := callName(call)
			if cn != abuf+"mergeBatches" && cn != abuf+"flushWithDataTimePartitioning" && cn != abuf+"flushBufferLockedDataTime" && cn != abuf+"flushPartitionedData" {
				continue
			}
			ev := errResult(call)
			if ev == nil {
				continue
			}
			n++
			// from the failure edge, every exit passes markFlushFailure
			lost := false
			for _, b := range fn.Blocks {
				for _, s := range b.Succs {
					isFail := false
					for _, f := range blockEdgeFactsDirect(b, s) {
						if f.Kind == factNotNil && f.Val == ev {
							isFail = true
						}
					}
					if !isFail {
						continue
					}
					for _, e := range pathsAvoidingTo(fn, nil, s, func(x ssa.Instruction) bool {
						ci, ok := x.(ssa.CallInstruction)
						return ok && callName(ci) == abuf+"markFlushFailure"
					}, func(ssa.Instruction) bool { return false }) {
						if _, ok := e.Instr.(*ssa.Return); ok {
							lost = true
						}
					}
				}
			}
			c.Check(!lost, "C07.FAIL", fmt.Sprintf("%s|%s-error", name, cn[strings.LastIndex(cn, ".")+1:]), call.Pos(), "a failed step flags the flush failure", name+" can return after "+cn[strings.LastIndex(cn, ".")+1:]+" failed without markFlushFailure: the rows (gone from the buffer) are never replayed from the WAL")
		}
		if n < 2 {
			c.Unk("C07.FAIL", name+"|steps", fn.Pos(), "found %d fallible flush steps", n)
		}
	}

	// ---- NOWAL
	if fn := c.MustFunc("C07.NOWAL", abuf+"tryEnqueueFlush"); fn != nil {
		n, bad := 0, 0
		for _, in := range instrs(fn, false) {
			sel, ok := in.(*ssa.Select)
			if !ok {
				continue
			}
			hasSend := false
			for _, st := range sel.States {
				if st.Send != nil {
					hasSend = true
				}
			}
			if !hasSend {
				continue
			}
			n++
			walNil := hasFieldFact(sel, factNil, "ArrowBuffer.wal")
			walSet := hasFieldFact(sel, factNotNil, "ArrowBuffer.wal")
			if !sel.Blocking && !walSet {
				bad++
			}
			_ = walNil
		}
		c.Check(n > 0 && bad == 0, "C07.NOWAL", "tryEnqueueFlush|blocking-without-wal", fn.Pos(), "the non-blocking (droppable) enqueue is used only where a WAL exists", "the flush enqueue can take its default (drop) arm although no WAL exists: the write is acknowledged and its rows are gone")
	}

	// ---- FLAG
	for _, fn := range p.FuncsIn("internal/ingest") {
		for _, call := range callsIn(fn, true) {
			n := callName(call)
			if n != "(*sync/atomic.Bool).Store" {
				continue
			}
			if !fieldSources(call.Common().Args[0], 3)["ArrowBuffer.hasFlushFailure"] {
				continue
			}
			k, _ := call.Common().Args[1].(*ssa.Const)
			val := k != nil && k.Value != nil && k.Value.String() == "true"
			owner := map[bool]string{true: "markFlushFailure", false: "ResetFlushFailure"}[val]
			c.Check(fn.Name() == owner, "C07.FLAG", fmt.Sprintf("%s|store-%v", fn.Name(), val), call.Pos(), "flag written by its owner", fmt.Sprintf("the flush-failure flag is set to %v in %s (only %s may)", val, fn.Name(), owner))
		}
	}
	c.Floor("C07.FLAG", 2, "set and reset")

	// ---- PURGE / RESET
	nP := 0
	for _, pk := range []string{"cmd/arc", "internal/api", "internal/ingest", "internal/cluster"} {
		for _, fn := range p.FuncsIn(pk) {
			for _, sub := range append([]*ssa.Function{fn}, allAnon(fn)...) {
				for _, call := range callsIn(sub, false) {
					n := callName(call)
					switch n {
					case "(*internal/wal.Writer).PurgeAll", "(*internal/wal.Writer).PurgeOlderThan", "(*internal/wal.Writer).PurgeInactive":
						nP++
						guarded := false
						for _, f := range factsAt(call.(ssa.Instruction)) {
							if f.Kind == factFalse {
								if cl, ok := f.Val.(*ssa.Call); ok && callName(cl) == abuf+"HasFlushFailure" {
									guarded = true
								}
							}
						}
						short := n[strings.LastIndex(n, ".")+1:]
						c.Check(guarded, "C07.PURGE", fmt.Sprintf("%s|%s#%s", ssaFuncName(sub), short, siteOrdinal(sub, call)), call.Pos(), "purge only while no flush failure is flagged", ssaFuncName(sub)+" calls "+short+" without HasFlushFailure() == false: WAL files that are the only copy of rows whose flush failed can be deleted")
					case abuf + "ResetFlushFailure":
						okR := false
						for _, f := range factsAt(call.(ssa.Instruction)) {
							if f.Kind == factNil {
								if ex, ok := f.Val.(*ssa.Extract); ok {
									if cl, ok := ex.Tuple.(*ssa.Call); ok && callName(cl) == "(*internal/wal.Recovery).RecoverWithOptions" {
										okR = true
									}
								}
							}
						}
						c.Check(okR, "C07.RESET", ssaFuncName(sub)+"|ResetFlushFailure", call.Pos(), "reset only after recovery returned nil", "the flush-failure flag is cleared without a recovery having returned nil: the rows that failed to flush are never replayed")
					}
				}
			}
		}
	}
	if nP < 3 {
		c.Unk("C07.PURGE", "purge-calls", 0, "found %d purge calls, expected the shutdown hook and two maintenance purges", nP)
	}

	// ---- PRIO
	bufP := c07Const(p, "internal/shutdown", "PriorityBuffer")
	walP := c07Const(p, "internal/shutdown", "PriorityWAL")
	hook := int64(-1)
	for _, fn := range p.FuncsIn("cmd/arc") {
		for _, call := range callsIn(fn, false) {
			if strings.HasSuffix(callName(call), "shutdown.Coordinator).RegisterHook") {
				if s, ok := constString(call.Common().Args[1]); ok && s == "wal-purge" {
					if k, ok := constInt(call.Common().Args[3]); ok {
						hook = k
					}
				}
			}
		}
	}
	c.Check(bufP >= 0 && bufP < hook && hook < walP, "C07.PRIO", "shutdown|buffer<wal-purge<wal", 0, fmt.Sprintf("priorities %d < %d < %d", bufP, hook, walP), fmt.Sprintf("shutdown priorities buffer=%d, wal-purge=%d, wal=%d are not strictly ordered: the WAL is purged before the buffer flushed, or after the WAL closed", bufP, hook, walP))
}

func c07Const(p *Prog, pkg, name string) int64 { return c05ConstByte(p, pkg, name) }

// guardedNotNilAt: instruction in executes only where v != nil.
func guardedNotNilAt(in ssa.Instruction, v ssa.Value) bool {
	return hasFact(factsAt(in), factNotNil, v)
}
