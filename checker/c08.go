package main

import (
	"fmt"
	"go/token"
	"go/types"
	"strings"

	"golang.org/x/tools/go/ssa"
)

func init() {
	register("C08", runC08,
		"that sanitizePath+Rel reject every hostile string on every platform (symlinks, separators), durability across power loss (no fsync is checked), and the S3/Azure backends; only that every file-system call of the local backend uses a validated path, that validatePath's success return is guarded by a sound containment test, that the final path is only ever a rename destination reached after successful write+close, and that manifest and edge-sync paths are validated before use")
}

// file-system sinks: callee -> indices (into Args) of path arguments
var fsSinks = map[string][]int{
	"os.Open": {0}, "os.OpenFile": {0}, "os.Create": {0}, "os.CreateTemp": {0}, "os.Stat": {0}, "os.Lstat": {0},
	"os.Remove": {0}, "os.RemoveAll": {0}, "os.Rename": {0, 1}, "os.ReadFile": {0}, "os.WriteFile": {0},
	"os.ReadDir": {0}, "os.MkdirAll": {0}, "os.Mkdir": {0}, "os.Chmod": {0}, "os.Truncate": {0}, "os.Link": {0, 1}, "os.Symlink": {0, 1},
	"path/filepath.WalkDir": {0}, "path/filepath.Walk": {0}, "os.MkdirTemp": {0}, "os.Chtimes": {0},
}

const validatePathName = "(*internal/storage.LocalBackend).validatePath"

// validatedOrigin traces a path value back to the validatePath call it derives
// from, through the accepted wrappers. It returns nil when some contributing
// value is not derived from a validated path (reason explains).
func (c *Ctx) validatedOrigin(v ssa.Value, depth int, seen map[ssa.Value]bool) (origins []*ssa.Call, why string) {
	if depth > 10 {
		return nil, "derivation too deep"
	}
	if seen[v] {
		return nil, ""
	}
	seen[v] = true
	switch x := v.(type) {
	case *ssa.Extract:
		if call, ok := x.Tuple.(*ssa.Call); ok {
			if (callName(call) == validatePathName || isValidatorWrapper(call.Call.StaticCallee())) && x.Index == 0 {
				return []*ssa.Call{call}, ""
			}
			if callName(call) == "os.CreateTemp" && x.Index == 0 {
				return c.validatedOrigin(call.Call.Args[0], depth+1, seen)
			}
		}
		return nil, "result of " + describe(x.Tuple)
	case *ssa.Call:
		switch callName(x) {
		case "path/filepath.Dir", "internal/storage.partPath", "path/filepath.Clean":
			return c.validatedOrigin(x.Call.Args[0], depth+1, seen)
		case "(*os.File).Name":
			return c.validatedOrigin(x.Call.Args[0], depth+1, seen)
		}
		return nil, "result of call to " + callName(x)
	case *ssa.BinOp:
		if x.Op == token.ADD {
			// concatenation with constants only
			if _, ok := x.Y.(*ssa.Const); ok {
				return c.validatedOrigin(x.X, depth+1, seen)
			}
			if _, ok := x.X.(*ssa.Const); ok {
				return c.validatedOrigin(x.Y, depth+1, seen)
			}
		}
		return nil, "non-constant string operation"
	case *ssa.Phi:
		var all []*ssa.Call
		for _, e := range x.Edges {
			o, w := c.validatedOrigin(e, depth+1, seen)
			if o == nil && w != "" {
				return nil, w
			}
			all = append(all, o...)
		}
		return all, ""
	case *ssa.UnOp:
		if x.Op == token.MUL {
			if a, ok := x.X.(*ssa.Alloc); ok {
				var all []*ssa.Call
				n := 0
				for _, r := range *a.Referrers() {
					if st, ok := r.(*ssa.Store); ok && st.Addr == a {
						n++
						o, w := c.validatedOrigin(st.Val, depth+1, seen)
						if o == nil && w != "" {
							return nil, w
						}
						all = append(all, o...)
					}
				}
				if n > 0 {
					return all, ""
				}
			}
			if fv, ok := x.X.(*ssa.FreeVar); ok {
				return c.validatedOrigin(fv, depth+1, seen)
			}
		}
		return nil, "load of " + describe(x.X)
	case *ssa.FreeVar:
		// binding in the enclosing function
		fn := x.Parent()
		idx := -1
		for i, f := range fn.FreeVars {
			if f == x {
				idx = i
			}
		}
		if fn.Parent() != nil && idx >= 0 {
			for _, in := range instrs(fn.Parent(), true) {
				if mc, ok := in.(*ssa.MakeClosure); ok && mc.Fn == fn {
					return c.validatedOrigin(mc.Bindings[idx], depth+1, seen)
				}
			}
		}
		return nil, "free variable " + x.Name()
	case *ssa.Alloc:
		// address of a captured variable: look at stores
		var all []*ssa.Call
		n := 0
		for _, r := range *x.Referrers() {
			if st, ok := r.(*ssa.Store); ok && st.Addr == x {
				n++
				o, w := c.validatedOrigin(st.Val, depth+1, seen)
				if o == nil && w != "" {
					return nil, w
				}
				all = append(all, o...)
			}
		}
		if n > 0 {
			return all, ""
		}
		return nil, "uninitialised local"
	case *ssa.Parameter:
		fn := x.Parent()
		// WalkDir/Walk callback: the first parameter is a path under the walked root
		if fn.Parent() != nil {
			for _, in := range instrs(fn.Parent(), true) {
				call, ok := in.(*ssa.Call)
				if !ok {
					continue
				}
				n := callName(call)
				if n != "path/filepath.WalkDir" && n != "path/filepath.Walk" {
					continue
				}
				if mc, ok := call.Call.Args[1].(*ssa.MakeClosure); ok && mc.Fn == fn && len(fn.Params) > 0 && fn.Params[0] == x {
					return c.validatedOrigin(call.Call.Args[0], depth+1, seen)
				}
			}
		}
		// unexported helper: every static caller in the package must pass a validated value
		if fn.Object() != nil && !fn.Object().Exported() && fn.Pkg != nil {
			idx := -1
			for i, q := range fn.Params {
				if q == x {
					idx = i
				}
			}
			var all []*ssa.Call
			ncalls := 0
			for _, g := range c.P.FuncsIn(relPkg(fn.Pkg.Pkg.Path())) {
				for _, call := range callsIn(g, true) {
					if call.Common().StaticCallee() == fn && idx < len(call.Common().Args) {
						ncalls++
						o, w := c.validatedOrigin(call.Common().Args[idx], depth+1, seen)
						if o == nil && w != "" {
							return nil, "caller " + ssaFuncName(g) + ": " + w
						}
						all = append(all, o...)
					}
				}
			}
			if ncalls > 0 {
				return all, ""
			}
		}
		return nil, "raw parameter " + x.Name() + " of " + ssaFuncName(fn)
	}
	return nil, "value " + describe(v)
}

func describe(v ssa.Value) string {
	if v == nil {
		return "nil"
	}
	s := v.String()
	if len(s) > 60 {
		s = s[:60]
	}
	return fmt.Sprintf("%T %s", v, s)
}

func runC08(c *Ctx) {
	p := c.P
	c.Rule("C08.SAN", "FLOW+DOM: in every (*LocalBackend) method, each path argument of a file-system call derives from result #0 of validatePath (through filepath.Dir, partPath, constant suffixes, temp-file names, WalkDir callbacks, validated helper parameters) and executes only where that call's error was nil")
	c.Rule("C08.PARTREAD", "WHO: only the resumable-transfer methods (ReadToAt, StatFile, AppendReader and the two writers) ever form a `.part` staging path; the plain readers Read, ReadTo, Exists, List, ListObjects and their same-package callees never do — a reader that falls back to the staging file serves a partially written object under its final key")
	{
		plain := []string{"Read", "ReadTo", "Exists", "List", "ListObjects", "ListDirectories"}
		n := 0
		for _, name := range plain {
			fn := c.P.Func("(*internal/storage.LocalBackend)." + name)
			if fn == nil {
				continue
			}
			n++
			// same-package closure, depth 3
			seen := map[*ssa.Function]bool{}
			var offending []string
			var walk func(f *ssa.Function, d int, via string)
			walk = func(f *ssa.Function, d int, via string) {
				if f == nil || seen[f] || d > 3 {
					return
				}
				seen[f] = true
				for _, sub := range append([]*ssa.Function{f}, allAnon(f)...) {
					for _, in := range instrs(sub, false) {
						if call, ok := in.(ssa.CallInstruction); ok {
							if callName(call) == "internal/storage.partPath" {
								offending = append(offending, via+f.Name()+" calls partPath")
							}
							if callee := call.Common().StaticCallee(); callee != nil && callee.Pkg == fn.Pkg {
								walk(callee, d+1, via+f.Name()+" → ")
							}
						}
						if bo, ok := in.(*ssa.BinOp); ok && bo.Op == token.ADD {
							if sv, ok := constString(bo.Y); ok && sv == ".part" {
								offending = append(offending, via+f.Name()+" appends \".part\"")
							}
						}
					}
				}
			}
			walk(fn, 0, "")
			c.Check(len(offending) == 0, "C08.PARTREAD", name+"|never-reads-staging", fn.Pos(), "no staging path is formed on this read path", "the plain reader "+name+" can open the `.part` staging file ("+strings.Join(offending, "; ")+"): after an interrupted WriteReader/AppendReader it returns the staged prefix as if it were the object stored under the final key, and consumers that copy through it (tiering, backup, compaction) publish the truncated bytes")
		}
		c.Check(n >= 4, "C08.PARTREAD", "LocalBackend|plain-readers", 0, fmt.Sprintf("%d plain readers inspected", n), "plain reader methods not found")
	}
	c.Rule("C08.ROOTKEY", "FLOW+DOM: the methods that name an object (Write, WriteReader, AppendReader, StatFile, ReadToAt — the ones that form or probe `<path>.part`) take their path from a validator that also refuses a key resolving to the storage root itself: for the root, the staging path `<root>.part` is a sibling of the root directory, outside it")
	{
		refusesRoot := func(w *ssa.Function) bool {
			if w == nil {
				return false
			}
			for _, in := range instrs(w, false) {
				bo, ok := in.(*ssa.BinOp)
				if !ok || bo.Op != token.EQL {
					continue
				}
				isBase := func(v ssa.Value) bool {
					sn, fld, _, ok := loadedField(v)
					return ok && sn == "LocalBackend" && fld == "basePath"
				}
				if !(isBase(bo.X) || isBase(bo.Y)) {
					continue
				}
				// the equal side must return an error
				if ifi, ok := lastIf(bo.Block()); ok && ifi.Cond == ssa.Value(bo) {
					for _, in2 := range ifi.Block().Succs[0].Instrs {
						if r, ok := in2.(*ssa.Return); ok && len(r.Results) == 2 && !isNilConst(r.Results[1]) {
							return true
						}
					}
				}
			}
			return false
		}
		for _, name := range []string{"Write", "WriteReader", "AppendReader", "StatFile", "ReadToAt"} {
			fn := c.P.Func("(*internal/storage.LocalBackend)." + name)
			if fn == nil {
				c.Unk("C08.ROOTKEY", name+"|function", 0, "method not found")
				continue
			}
			ok := false
			direct := len(findCalls(fn, false, validatePathName)) > 0
			for _, call := range validatorWrapperCalls(fn) {
				if refusesRoot(call.Common().StaticCallee()) {
					ok = true
				}
			}
			c.Check(ok && !direct, "C08.ROOTKEY", name+"|object-key-not-root", fn.Pos(), "path comes from a validator that refuses the root itself", name+" validates its key with plain validatePath, which accepts \"\", \".\" and \"/\" (they resolve to the root, as listing needs): the staging file of such a key is `<root>.part`, outside the storage root")
		}
	}
	c.Rule("C08.CONF", "DOM: every nil-error return of validatePath is guarded by a sound containment test of the absolute path against basePath (filepath.Rel + '..' prefix test, filepath.IsLocal, or a prefix test that includes the separator), and returns the tested value")
	c.Rule("C08.ATOMIC", "WHO+DOM: in Write/WriteReader/AppendReader the final path is only ever the destination of os.Rename (data goes to a temp/.part file), and each such rename is reached only after every dominating write/copy and the file Close returned nil (AppendReader: also written == appendSize)")
	c.Rule("C08.MANIFEST", "PASS: every store into the FSM's files map is preceded on every path by ValidateManifestPath of the stored path returning nil")
	c.Rule("C08.EDGE", "DOM: in edgesync (*Receiver).Receive every storage-backend call is dominated by validateSpokeID and validateSyncPath returning nil, and uses only paths built by NamespacedPath/stagingPathFor from the validated values")

	// ---- SAN
	nSinks := 0
	for _, fn := range p.MethodsOf("internal/storage", "LocalBackend") {
		for _, call := range callsIn(fn, true) {
			idxs, ok := fsSinks[callName(call)]
			if !ok {
				continue
			}
			for _, ai := range idxs {
				arg := call.Common().Args[ai]
				if b, ok := arg.Type().Underlying().(*types.Basic); !ok || b.Kind() != types.String {
					continue
				}
				nSinks++
				construct := fmt.Sprintf("%s|%s#arg%d@%s", ssaFuncName(fn), callName(call), ai, siteOrdinal(fn, call))
				origins, why := c.validatedOrigin(arg, 0, map[ssa.Value]bool{})
				if len(origins) == 0 {
					if why == "" {
						why = "no validatePath origin"
					}
					c.Bad("C08.SAN", construct, call.Pos(), "path argument does not derive from validatePath: %s", why)
					continue
				}
				// the sink must execute under err == nil of each origin (same function only)
				ok := true
				for _, o := range origins {
					if o.Parent() != call.Parent() {
						continue // helper/closure: the origin's guard is checked at the origin's own sinks
					}
					if !callSucceededBefore(o, call.(ssa.Instruction)) {
						ok = false
					}
				}
				if ok {
					c.OK("C08.SAN", construct, call.Pos(), "derives from validatePath at L%d under err == nil", p.Line(origins[0].Pos()))
				} else {
					c.Bad("C08.SAN", construct, call.Pos(), "path derives from validatePath but the call is not confined to the err == nil branch")
				}
			}
		}
	}
	c.Floor("C08.SAN", 20, "file-system call sites in local.go confirmed by reading")

	c08Conf(c)
	c08Atomic(c)
	c08Manifest(c)
	c08Edge(c)
}

// siteOrdinal gives a stable per-function ordinal of a call among calls to the same callee.
func siteOrdinal(fn *ssa.Function, call ssa.CallInstruction) string {
	n := 0
	for _, cc := range callsIn(fn, true) {
		if callName(cc) == callName(call) {
			n++
			if cc == call {
				return fmt.Sprintf("%d", n)
			}
		}
	}
	return "?"
}

func c08Conf(c *Ctx) {
	fn := c.MustFunc("C08.CONF", validatePathName)
	if fn == nil {
		return
	}
	n := 0
	for _, in := range instrs(fn, false) {
		r, ok := in.(*ssa.Return)
		if !ok {
			continue
		}
		op := returnErrOperand(r)
		if classifyErr(op, r, nil, 0) == errNonNil {
			continue
		}
		n++
		construct := fmt.Sprintf("validatePath|success-return#%d", n)
		ret := r.Results[0]
		facts := factsAt(r)
		sound := ""
		for _, f := range facts {
			// idiom 1: !strings.HasPrefix(rel, "..") with rel = filepath.Rel(base, ret)
			var call *ssa.Call
			want := factFalse
			if cc, ok := f.Val.(*ssa.Call); ok {
				call = cc
			}
			if call == nil {
				continue
			}
			switch callName(call) {
			case "strings.HasPrefix":
				s, isC := constString(call.Call.Args[1])
				if f.Kind == want && isC && s == ".." {
					if rel := relCallOf(call.Call.Args[0]); rel != nil && sameVal(rel.Call.Args[1], ret) && fromBasePath(rel.Call.Args[0]) {
						// Rel's error must be nil here too
						if e := errResult(rel); e != nil && hasFact(facts, factNil, e) {
							sound = "filepath.Rel(basePath, p) without '..' prefix"
						}
					}
				}
				// idiom 2: strings.HasPrefix(ret, base + sep) is true
				if f.Kind == factTrue && sameVal(call.Call.Args[0], ret) {
					if bo, ok := call.Call.Args[1].(*ssa.BinOp); ok && bo.Op == token.ADD && fromBasePath(bo.X) {
						sound = "prefix test including the separator"
					}
				}
			case "path/filepath.IsLocal":
				if f.Kind == factTrue {
					sound = "filepath.IsLocal"
				}
			}
		}
		if sound != "" {
			c.OK("C08.CONF", construct, r.Pos(), "guarded by %s", sound)
		} else {
			c.Bad("C08.CONF", construct, r.Pos(), "nil-error return of validatePath is not guarded by a sound containment test of the returned path against basePath (accepted: filepath.Rel + '..' test with Rel's error nil, filepath.IsLocal, prefix test including the separator)")
		}
	}
	if n == 0 {
		c.Unk("C08.CONF", "validatePath|success-return", fn.Pos(), "no success return found")
	}
	// sanitize is applied before joining
	found := false
	for _, call := range findCalls(fn, false, "path/filepath.Join") {
		for _, a := range call.Common().Args {
			if derives(a, isResultOf("internal/storage.sanitizePath"), true, 6) {
				found = true
			}
		}
		// variadic: args packed in a slice
		if derives(call.Common().Args[0], isResultOf("internal/storage.sanitizePath"), true, 8) {
			found = true
		}
	}
	c.Check(found, "C08.CONF", "validatePath|sanitize-before-join", fn.Pos(), "the joined key passes sanitizePath first", "validatePath joins the raw key without sanitizePath")
}

func relCallOf(v ssa.Value) *ssa.Call {
	if e, ok := v.(*ssa.Extract); ok {
		if call, ok := e.Tuple.(*ssa.Call); ok && callName(call) == "path/filepath.Rel" && e.Index == 0 {
			return call
		}
	}
	return nil
}

func fromBasePath(v ssa.Value) bool {
	return fieldSources(v, 4)["LocalBackend.basePath"]
}

func c08Atomic(c *Ctx) {
	p := c.P
	writers := names("(*os.File).Write", "(*os.File).WriteString", "io.Copy", "io.CopyN", "io.CopyBuffer", "(*os.File).ReadFrom", "(*os.File).WriteAt", "(*os.File).Sync")
	for _, name := range []string{"Write", "WriteReader", "AppendReader"} {
		full := "(*internal/storage.LocalBackend)." + name
		fn := c.MustFunc("C08.ATOMIC", full)
		if fn == nil {
			continue
		}
		// the final path value(s): result #0 of validatePath
		var finals []ssa.Value
		for _, call := range append(findCalls(fn, false, validatePathName), validatorWrapperCalls(fn)...) {
			if v := resultN(call, 0); v != nil {
				finals = append(finals, v)
			}
		}
		if len(finals) == 0 {
			c.Unk("C08.ATOMIC", name+"|final-path", fn.Pos(), "no validatePath call")
			continue
		}
		isFinal := func(v ssa.Value) bool {
			for _, f := range finals {
				if v == f {
					return true
				}
			}
			return false
		}
		renames := 0
		for _, call := range callsIn(fn, true) {
			idxs, ok := fsSinks[callName(call)]
			if !ok {
				continue
			}
			for _, ai := range idxs {
				if !isFinal(call.Common().Args[ai]) {
					continue
				}
				construct := fmt.Sprintf("%s|%s#arg%d@%s", name, callName(call), ai, siteOrdinal(fn, call))
				if callName(call) == "os.Rename" && ai == 1 {
					renames++
					// every dominating writer/close must have returned nil here
					var missing []string
					closed := false
					for _, w := range callsIn(fn, false) {
						wi := w.(ssa.Instruction)
						if _, isDefer := wi.(*ssa.Defer); isDefer {
							continue
						}
						nm := callName(w)
						isW, isC := writers[nm], nm == "(*os.File).Close"
						if !isW && !isC {
							continue
						}
						if !instrDominates(wi, call.(ssa.Instruction)) {
							continue
						}
						if isC {
							closed = true
						}
						e := errResult(w)
						if e == nil || !guardedNil(call.(ssa.Instruction), e) {
							missing = append(missing, fmt.Sprintf("%s at L%d", nm, p.Line(w.Pos())))
						}
					}
					if !closed {
						missing = append(missing, "no Close of the staging file dominates the rename")
					}
					if name == "AppendReader" {
						okLen := false
						for _, f := range factsAt(call.(ssa.Instruction)) {
							if f.Kind == factCmp && f.Op == token.EQL {
								a, b := f.X, f.Y
								if (isCopyCount(a) && isParam(fn, "appendSize")(b)) || (isCopyCount(b) && isParam(fn, "appendSize")(a)) {
									okLen = true
								}
							}
						}
						if !okLen {
							missing = append(missing, "written == appendSize")
						}
					}
					if len(missing) == 0 {
						c.OK("C08.ATOMIC", construct, call.Pos(), "rename to the final path is reached only after write/copy and Close returned nil")
					} else {
						c.Bad("C08.ATOMIC", construct, call.Pos(), "rename to the final path is not conditional on: %s — a short or failed write could be promoted", strings.Join(missing, "; "))
					}
					continue
				}
				c.Bad("C08.ATOMIC", construct, call.Pos(), "the final path is used directly by %s (argument %d): data must go to the temp/.part file and reach the final name only by rename", callName(call), ai)
			}
		}
		if renames == 0 {
			c.Bad("C08.ATOMIC", name+"|rename", fn.Pos(), "no os.Rename onto the final path: the file does not appear atomically")
		}
	}
	c.Floor("C08.ATOMIC", 3, "one rename per writer")
}

func isCopyCount(v ssa.Value) bool {
	if e, ok := v.(*ssa.Extract); ok && e.Index == 0 {
		if call, ok := e.Tuple.(*ssa.Call); ok {
			n := callName(call)
			return n == "io.Copy" || n == "io.CopyN" || n == "io.CopyBuffer"
		}
	}
	return false
}

func c08Manifest(c *Ctx) {
	p := c.P
	n := 0
	for _, fn := range p.MethodsOf("internal/cluster/raft", "ClusterFSM") {
		for _, in := range instrs(fn, false) {
			mu, ok := in.(*ssa.MapUpdate)
			if !ok {
				continue
			}
			ld, ok := mu.Map.(*ssa.UnOp)
			if !ok {
				continue
			}
			if sn, f, _, ok := fieldOf(ld.X); !ok || f != "files" || sn != "ClusterFSM" {
				continue
			}
			n++
			construct := fmt.Sprintf("%s|files-insert@%d", ssaFuncName(fn), n)
			// some ValidateManifestPath call with err==nil dominating, whose argument is the key
			ok2 := false
			for _, call := range findCalls(fn, false, "internal/cluster/raft.ValidateManifestPath") {
				if !callSucceededBefore(call, mu) {
					continue
				}
				if samePathValue(call.Common().Args[0], mu.Key) {
					ok2 = true
				}
				// the key is the Path field of a copy of the validated payload entry
				ks, as := fieldSources(mu.Key, 6), fieldSources(call.Common().Args[0], 6)
				for k := range ks {
					if strings.HasSuffix(k, ".Path") && as[k] {
						ok2 = true
					}
				}
			}
			if ok2 {
				c.OK("C08.MANIFEST", construct, mu.Pos(), "insert dominated by ValidateManifestPath(key) == nil")
				continue
			}
			// batch apply: validated in a pre-pass loop over the same ops, then applied via *Struct helpers
			c.Bad("C08.MANIFEST", construct, mu.Pos(), "store into f.files is not dominated by ValidateManifestPath of the stored key returning nil")
		}
	}
	// whole-map replacement (Restore): f.files = <local map>; every insert into that local map is checked
	for _, fn := range p.MethodsOf("internal/cluster/raft", "ClusterFSM") {
		for _, in := range instrs(fn, false) {
			st, ok := in.(*ssa.Store)
			if !ok {
				continue
			}
			if sn, f, _, ok := fieldOf(st.Addr); !ok || f != "files" || sn != "ClusterFSM" {
				continue
			}
			mm, ok := st.Val.(*ssa.MakeMap)
			if !ok {
				c.Unk("C08.MANIFEST", ssaFuncName(fn)+"|files-replace", st.Pos(), "f.files is replaced by a value that is not a locally built map")
				continue
			}
			inserts := 0
			for _, r := range *mm.Referrers() {
				mu, ok := r.(*ssa.MapUpdate)
				if !ok || mu.Map != mm {
					continue
				}
				inserts++
				n++
				construct := fmt.Sprintf("%s|files-replace-insert@%d", ssaFuncName(fn), inserts)
				ok2 := false
				for _, call := range findCalls(fn, false, "internal/cluster/raft.ValidateManifestPath") {
					if callSucceededBefore(call, mu) && samePathValue(call.Common().Args[0], mu.Key) {
						ok2 = true
					}
				}
				c.Check(ok2, "C08.MANIFEST", construct, mu.Pos(), "insert into the replacement map is dominated by ValidateManifestPath(key) == nil",
					"insert into the map that replaces f.files is not dominated by ValidateManifestPath(key) == nil")
			}
			if inserts == 0 {
				c.Triv("C08.MANIFEST", ssaFuncName(fn)+"|files-replace-empty", st.Pos(), "f.files replaced by an empty map")
			}
		}
	}
	c.Floor("C08.MANIFEST", 3, "register/update/restore insert sites")
}

// samePathValue: a and b are the same value, or loads of the same field of the same base.
func samePathValue(a, b ssa.Value) bool {
	if sameVal(a, b) {
		return true
	}
	la, ok1 := a.(*ssa.UnOp)
	lb, ok2 := b.(*ssa.UnOp)
	if ok1 && ok2 {
		fa, ok3 := la.X.(*ssa.FieldAddr)
		fb, ok4 := lb.X.(*ssa.FieldAddr)
		if ok3 && ok4 && fa.Field == fb.Field {
			return samePathValue(fa.X, fb.X) || fa.X == fb.X
		}
	}
	fa, ok1 := a.(*ssa.FieldAddr)
	fb, ok2 := b.(*ssa.FieldAddr)
	if ok1 && ok2 && fa.Field == fb.Field {
		return fa.X == fb.X || samePathValue(fa.X, fb.X)
	}
	return false
}

func c08Edge(c *Ctx) {
	fn := c.MustFunc("C08.EDGE", "(*internal/edgesync.Receiver).Receive")
	if fn == nil {
		return
	}
	p := c.P
	vs := findCalls(fn, false, "internal/edgesync.validateSpokeID")
	vp := findCalls(fn, false, "internal/edgesync.validateSyncPath")
	if len(vs) == 0 || len(vp) == 0 {
		c.Bad("C08.EDGE", "Receive|validators", fn.Pos(), "Receive does not call validateSpokeID and validateSyncPath")
		return
	}
	n := 0
	for _, call := range callsIn(fn, true) {
		cc := call.Common()
		if !cc.IsInvoke() {
			continue
		}
		recvT := cc.Value.Type().String()
		if !strings.Contains(recvT, "internal/storage.") {
			continue
		}
		n++
		construct := fmt.Sprintf("Receive|%s@%s", cc.Method.Name(), siteOrdinal(fn, call))
		in := call.(ssa.Instruction)
		dom := false
		if in.Parent() == fn {
			dom = callSucceededBefore(vs[0], in) && callSucceededBefore(vp[0], in)
		} else {
			// closure: its MakeClosure site must be dominated
			for _, x := range instrs(fn, true) {
				if mc, ok := x.(*ssa.MakeClosure); ok && mc.Fn == in.Parent() && mc.Parent() == fn {
					dom = callSucceededBefore(vs[0], mc) && callSucceededBefore(vp[0], mc)
				}
			}
		}
		// path args derive from NamespacedPath/stagingPathFor only
		okPath := true
		for _, a := range cc.Args {
			if b, ok := a.Type().Underlying().(*types.Basic); ok && b.Kind() == types.String {
				base := a
				// partSuffix(x) names the staging file of x
				for {
					if pc, ok := base.(*ssa.Call); ok && callName(pc) == "internal/edgesync.partSuffix" {
						base = pc.Call.Args[0]
						continue
					}
					break
				}
				if !derives(base, isResultOf("internal/edgesync.NamespacedPath", "internal/edgesync.stagingPathFor"), false, 8) {
					// allow free variables bound to such results
					if !c08EdgeDerivedViaFreeVar(fn, base) {
						okPath = false
					}
				}
			}
		}
		switch {
		case !dom:
			c.Bad("C08.EDGE", construct, call.Pos(), "backend call is not dominated by validateSpokeID and validateSyncPath both returning nil")
		case !okPath:
			c.Bad("C08.EDGE", construct, call.Pos(), "backend path argument does not derive from NamespacedPath/stagingPathFor of the validated spoke id and path")
		default:
			c.OK("C08.EDGE", construct, call.Pos(), "dominated by both validators (L%d, L%d); path built by NamespacedPath/stagingPathFor", p.Line(vs[0].Pos()), p.Line(vp[0].Pos()))
		}
	}
	if n == 0 {
		// backend calls are made in helpers (stage/promote/resolveExisting): check the helper call sites instead
		for _, call := range callsIn(fn, false) {
			callee := call.Common().StaticCallee()
			if callee == nil || callee.Pkg == nil || relPkg(callee.Pkg.Pkg.Path()) != "internal/edgesync" {
				continue
			}
			if recvTypeName(callee) != "Receiver" {
				continue
			}
			n++
			in := call.(ssa.Instruction)
			construct := fmt.Sprintf("Receive|helper:%s@%s", callee.Name(), siteOrdinal(fn, call))
			dom := callSucceededBefore(vs[0], in) && callSucceededBefore(vp[0], in)
			c.Check(dom, "C08.EDGE", construct, call.Pos(), "helper that touches storage is called only after both validators returned nil", "helper "+callee.Name()+" is reachable without validateSpokeID/validateSyncPath having returned nil")
		}
	}
	c.Floor("C08.EDGE", 2, "storage-touching calls in Receive")
}

func c08EdgeDerivedViaFreeVar(fn *ssa.Function, v ssa.Value) bool {
	return derives(v, func(x ssa.Value) bool {
		fv, ok := x.(*ssa.FreeVar)
		if !ok {
			return false
		}
		inner := fv.Parent()
		idx := -1
		for i, f := range inner.FreeVars {
			if f == fv {
				idx = i
			}
		}
		for _, in := range instrs(fn, true) {
			if mc, ok := in.(*ssa.MakeClosure); ok && mc.Fn == inner && idx >= 0 {
				return derives(mc.Bindings[idx], isResultOf("internal/edgesync.NamespacedPath", "internal/edgesync.stagingPathFor"), false, 8)
			}
		}
		return false
	}, false, 8)
}

// isValidatorWrapper: a LocalBackend method (path string) (string, error) every nil-error return of which hands back
// result #0 of a validatePath call made on its own parameter, on that call's err == nil side — a stricter validator.
var validatorWrapperMemo = map[*ssa.Function]bool{}

func isValidatorWrapper(fn *ssa.Function) bool {
	if fn == nil || fn.Signature.Results().Len() != 2 || ssaFuncName(fn) == validatePathName {
		return false
	}
	if v, ok := validatorWrapperMemo[fn]; ok {
		return v
	}
	validatorWrapperMemo[fn] = false
	if recvTypeName(fn) != "LocalBackend" {
		return false
	}
	n := 0
	for _, in := range instrs(fn, false) {
		r, ok := in.(*ssa.Return)
		if !ok || len(r.Results) != 2 {
			continue
		}
		if !isNilConst(unspill(r, r.Results[1])) {
			continue
		}
		n++
		ex, ok := unspill(r, r.Results[0]).(*ssa.Extract)
		if !ok || ex.Index != 0 {
			return false
		}
		call, ok := ex.Tuple.(*ssa.Call)
		if !ok || callName(call) != validatePathName || !callSucceededBefore(call, r) {
			return false
		}
		if _, isParam := resolveParam(call.Call.Args[1]).(*ssa.Parameter); !isParam {
			return false
		}
	}
	validatorWrapperMemo[fn] = n > 0
	return n > 0
}

func validatorWrapperCalls(fn *ssa.Function) []ssa.CallInstruction {
	var out []ssa.CallInstruction
	for _, call := range callsIn(fn, false) {
		if isValidatorWrapper(call.Common().StaticCallee()) {
			out = append(out, call)
		}
	}
	return out
}
