package main

import (
	"fmt"
	"go/token"
	"sort"
	"strings"

	"golang.org/x/tools/go/ssa"
)

func init() {
	register("C09", runC09,
		"row conservation and dedup semantics of the DuckDB COPY statement, crash enumeration, and the subprocess/watcher protocol; only the manifest / upload / delete ordering in Job.Run, the guards of manifest recovery, which functions may delete compaction inputs, that only validated inputs are recorded for deletion, unique output naming, and that manifest-tracked files are filtered from candidates")
}

const (
	jobRun          = "(*internal/compaction.Job).Run"
	writeManifest   = "(*internal/compaction.ManifestManager).WriteManifest"
	deleteManifest  = "(*internal/compaction.ManifestManager).DeleteManifest"
	uploadFileName  = "(*internal/compaction.Job).uploadFile"
	deleteOldName   = "(*internal/compaction.Job).deleteOldFiles"
	outputWrittenMF = "(*internal/compaction.Job).writeOutputWrittenManifest"
)

// edgeHasFact reports whether the CFG edge from->to carries a fact satisfying pred.
func edgeHasFact(from, to *ssa.BasicBlock, pred func(fact) bool) bool {
	for _, f := range blockEdgeFactsDirect(from, to) {
		if pred(f) {
			return true
		}
	}
	return false
}

func runC09(c *Ctx) {
	c.Rule("C09.TAGS", "FLOW: the tag columns that key the dedup (PARTITION BY) are the union over ALL input files of the job: the loop in readTagColumnsFromParquetFiles ranges over its whole files parameter, not over a sub-slice or a capped prefix — a tag present only in files left out drops out of the key and rows differing only in it are collapsed as duplicates")
	{
		var fn *ssa.Function
		for _, f := range c.P.FuncsIn("internal/compaction") {
			if f.Name() == "readTagColumnsFromParquetFiles" {
				fn = f
			}
		}
		if fn == nil {
			c.Unk("C09.TAGS", "readTagColumnsFromParquetFiles|function", 0, "function not found")
		} else {
			var files *ssa.Parameter
			for _, q := range fn.Params {
				if strings.HasPrefix(q.Type().String(), "[]string") {
					files = q
				}
			}
			sliced := false
			ranged := false
			for _, in := range instrs(fn, true) {
				if sl, ok := in.(*ssa.Slice); ok && files != nil && resolveParam(sl.X) == ssa.Value(files) && (sl.Low != nil || sl.High != nil) {
					sliced = true
				}
				if cl, ok := in.(*ssa.Call); ok {
					if b, ok := cl.Call.Value.(*ssa.Builtin); ok && b.Name() == "len" && files != nil && resolveParam(cl.Call.Args[0]) == ssa.Value(files) {
						ranged = true
					}
				}
			}
			c.Check(files != nil && ranged && !sliced, "C09.TAGS", "readTagColumnsFromParquetFiles|all-files", fn.Pos(), "every input file's tag footer is read", "readTagColumnsFromParquetFiles reads the tag footer of only part of its files (the parameter is sub-sliced): a tag that appears only in the files left out is missing from the dedup key, rows that differ only in that tag are collapsed, and the job then deletes its inputs")
		}
	}
	p := c.P
	c.Rule("C09.RUN", "ORDER: in Job.Run, whenever a manifest manager exists no path reaches uploadFile without WriteManifest having returned nil; deleteOldFiles executes only after uploadFile returned nil (in cluster mode: and the output_written completion manifest was written); the success-path DeleteManifest executes only after deleteOldFiles returned nil")
	c.Rule("C09.RECOVER", "DOM: in recoverManifest every delete of a manifest input is guarded by Exists(output) == true, and the final DeleteManifest by zero delete errors and the consumed-inputs callback returning nil")
	c.Rule("C09.WHO", "WHO: inside internal/compaction only deleteOldFiles and recoverManifest delete paths that derive from job inputs / manifest input lists")
	c.Rule("C09.SUBSET", "FLOW+AGREE: Job.compactedFiles (the set later deleted and recorded as the manifest's InputFiles) is assigned only from the list appended in the same basic block as the list of local files handed to the COPY query, so an input skipped as corrupt is never deleted")
	c.Rule("C09.NAME", "FLOW: the compacted output's file name derives from a sub-second clock value or another per-job unique token, and from no input file name")
	c.Rule("C09.FILTER", "PASS: batches handed to compaction derive from filterCandidateFiles' result under shouldProcess == true, and filterCandidateFiles keeps a file only where it was looked up in GetFilesInManifests and not found")

	run := c.MustFunc("C09.RUN", jobRun)
	if run != nil {
		var wm, up, del, owm ssa.CallInstruction
		var delMans []ssa.CallInstruction
		for _, call := range callsIn(run, false) {
			switch callName(call) {
			case writeManifest:
				wm = call
			case uploadFileName:
				up = call
			case deleteOldName:
				del = call
			case outputWrittenMF:
				owm = call
			case deleteManifest:
				delMans = append(delMans, call)
			}
		}
		if wm == nil || up == nil || del == nil {
			c.Bad("C09.RUN", "Run|anchors", run.Pos(), "Job.Run no longer calls WriteManifest, uploadFile and deleteOldFiles")
		} else {
			isMgrNil := func(f fact) bool {
				if f.Kind != factNil {
					return false
				}
				return fieldSources(f.Val, 3)["Job.manifestManager"]
			}
			// (a) manifest before upload
			stopWM := func(in ssa.Instruction) bool {
				if in != wm.(ssa.Instruction) {
					return false
				}
				return true
			}
			reach := pathsAvoidingEdges(run, nil, nil, stopWM, func(in ssa.Instruction) bool { return in == up.(ssa.Instruction) },
				func(from, to *ssa.BasicBlock) bool { return edgeHasFact(from, to, isMgrNil) })
			bad := false
			for _, e := range reach {
				if e.Instr == up.(ssa.Instruction) {
					bad = true
				}
			}
			// and the WriteManifest error must be nil at upload whenever WriteManifest dominates... check err branch returns
			errOK := true
			if e := errResult(wm); e != nil {
				// no path from WriteManifest's failure edge to upload
				for _, in := range instrs(run, false) {
					ifi, ok := in.(*ssa.If)
					if !ok {
						continue
					}
					for si, succ := range ifi.Block().Succs {
						if edgeHasFact(ifi.Block(), succ, func(f fact) bool { return f.Kind == factNotNil && sameVal(f.Val, e) }) {
							_ = si
							r2 := pathsAvoidingTo(run, nil, succ, func(ssa.Instruction) bool { return false }, func(x ssa.Instruction) bool { return x == up.(ssa.Instruction) })
							for _, ex := range r2 {
								if ex.Instr == up.(ssa.Instruction) {
									errOK = false
								}
							}
						}
					}
				}
			} else {
				errOK = false
			}
			switch {
			case bad:
				c.Bad("C09.RUN", "Run|manifest-before-upload", up.Pos(), "uploadFile at L%d is reachable with a manifest manager present but without WriteManifest having run: a crash after the upload leaves output and inputs side by side with nothing for recovery to act on (rows doubled)", p.Line(up.Pos()))
			case !errOK:
				c.Bad("C09.RUN", "Run|manifest-before-upload", up.Pos(), "uploadFile is reachable after WriteManifest failed")
			default:
				c.OK("C09.RUN", "Run|manifest-before-upload", up.Pos(), "every manager-present path to uploadFile (L%d) passes WriteManifest (L%d) == nil", p.Line(up.Pos()), p.Line(wm.Pos()))
			}
			// (b) delete after upload (+ cluster completion manifest)
			okUp := callSucceededBefore(up, del.(ssa.Instruction))
			okCl := true
			if owm != nil {
				isCluster := func(f fact) bool {
					if f.Kind != factFalse {
						return false
					}
					cl, ok := f.Val.(*ssa.Call)
					return ok && callName(cl) == "(*internal/compaction.Job).clusterMode"
				}
				r3 := pathsAvoidingEdges(run, up.(ssa.Instruction), nil, func(in ssa.Instruction) bool { return in == owm.(ssa.Instruction) },
					func(in ssa.Instruction) bool { return in == del.(ssa.Instruction) },
					func(from, to *ssa.BasicBlock) bool { return edgeHasFact(from, to, isCluster) })
				for _, e := range r3 {
					if e.Instr == del.(ssa.Instruction) {
						okCl = false
					}
				}
				if okCl {
					// failure of the completion manifest must not reach delete
					if e := errResult(owm); e == nil || !(callSucceededBefore(owm, del.(ssa.Instruction)) || !instrDominates(owm.(ssa.Instruction), del.(ssa.Instruction))) {
						okCl = e != nil
					}
				}
			}
			var miss []string
			if !okUp {
				miss = append(miss, "uploadFile having returned nil")
			}
			if !okCl {
				miss = append(miss, "the cluster output_written manifest having been written")
			}
			if len(miss) == 0 {
				c.OK("C09.RUN", "Run|delete-after-upload", del.Pos(), "deleteOldFiles dominated by uploadFile == nil (and, in cluster mode, the completion manifest)")
			} else {
				c.Bad("C09.RUN", "Run|delete-after-upload", del.Pos(), "input files are deleted without %s: inputs can disappear before their rows exist in a complete output", strings.Join(miss, " and "))
			}
			// (c) DeleteManifest after successful delete
			n := 0
			for _, dm := range delMans {
				if !instrDominates(del.(ssa.Instruction), dm.(ssa.Instruction)) {
					continue // the upload-failure cleanup
				}
				n++
				c.Check(callSucceededBefore(del, dm.(ssa.Instruction)), "C09.RUN", fmt.Sprintf("Run|manifest-delete-after-inputs#%d", n), dm.Pos(),
					"DeleteManifest executes only after deleteOldFiles returned nil", "the manifest is deleted although deleteOldFiles may have failed: the remaining inputs are then re-compacted with the output (rows doubled)")
			}
			if n == 0 {
				c.Unk("C09.RUN", "Run|manifest-delete-after-inputs", run.Pos(), "no DeleteManifest after deleteOldFiles found")
			}
			// upload-failure branch deletes the manifest
			okFail := false
			for _, dm := range delMans {
				e := errResult(up)
				if e != nil && hasFact(factsAt(dm.(ssa.Instruction)), factNotNil, e) {
					okFail = true
				}
			}
			c.Check(okFail, "C09.RUN", "Run|upload-failure-drops-manifest", up.Pos(), "the upload-failure branch deletes the manifest (no manifest without output is left for this job)", "upload failure leaves the pending manifest behind")
		}
	}

	c09Recover(c)
	c09Who(c)
	c09Subset(c)
	c09Name(c)
	c09Filter(c)
}

func c09Recover(c *Ctx) {
	fn := c.MustFunc("C09.RECOVER", "(*internal/compaction.ManifestManager).recoverManifest")
	if fn == nil {
		return
	}
	p := c.P
	// exists(output)
	var existsOut ssa.Value
	var existsCall ssa.CallInstruction
	for _, call := range callsIn(fn, false) {
		cc := call.Common()
		if cc.IsInvoke() && cc.Method.Name() == "Exists" && fieldSources(cc.Args[1], 5)["Manifest.OutputPath"] {
			existsOut = resultN(call, 0)
			existsCall = call
		}
	}
	nDel := 0
	for _, call := range callsIn(fn, false) {
		cc := call.Common()
		if !cc.IsInvoke() || (cc.Method.Name() != "Delete" && cc.Method.Name() != "DeleteBatch") {
			continue
		}
		if !fieldSources(cc.Args[1], 8)["Manifest.InputFiles"] {
			continue
		}
		nDel++
		in := call.(ssa.Instruction)
		ok := existsOut != nil && guardedTrue(in, existsOut) && callSucceededBefore(existsCall, in)
		c.Check(ok, "C09.RECOVER", fmt.Sprintf("recoverManifest|input-delete#%d", nDel), call.Pos(),
			"input delete guarded by Exists(output) == true with a nil error", "a manifest input is deleted without the output having been found to exist: a crash before upload completed loses the rows")
	}
	if nDel == 0 {
		c.Unk("C09.RECOVER", "recoverManifest|input-delete", fn.Pos(), "no delete of manifest inputs found")
	}
	// final DeleteManifest: the one dominated by the input-delete loop
	var last ssa.CallInstruction
	for _, call := range findCalls(fn, false, deleteManifest) {
		if last == nil || call.Pos() > last.Pos() {
			last = call
		}
	}
	if last == nil {
		c.Unk("C09.RECOVER", "recoverManifest|final-manifest-delete", fn.Pos(), "no DeleteManifest found")
		return
	}
	zeroErr := false
	for _, f := range factsAt(last.(ssa.Instruction)) {
		if f.Kind == factCmp {
			if k, isC := constInt(f.Y); isC && k == 0 && (f.Op == token.LEQ || f.Op == token.EQL) {
				if _, isPhi := f.X.(*ssa.Phi); isPhi {
					zeroErr = true
				}
			}
		}
	}
	cbOK := true
	for _, in := range instrs(fn, false) {
		call, ok := in.(*ssa.Call)
		if !ok {
			continue
		}
		if prm, ok := call.Call.Value.(*ssa.Parameter); ok && prm.Name() == "onConsumedInputs" {
			// on the path where the callback ran, its error must be nil at the final delete
			e := errResult(call)
			if e == nil {
				cbOK = false
				continue
			}
			r := pathsAvoidingTo(fn, call, nil, func(ssa.Instruction) bool { return false }, func(x ssa.Instruction) bool { return x == last.(ssa.Instruction) })
			_ = r
			// failure edge must not reach the final delete
			for _, in2 := range instrs(fn, false) {
				ifi, ok := in2.(*ssa.If)
				if !ok {
					continue
				}
				for _, succ := range ifi.Block().Succs {
					if edgeHasFact(ifi.Block(), succ, func(f fact) bool { return f.Kind == factNotNil && sameVal(f.Val, e) }) {
						for _, ex := range pathsAvoidingTo(fn, nil, succ, func(ssa.Instruction) bool { return false }, func(x ssa.Instruction) bool { return x == last.(ssa.Instruction) }) {
							if ex.Instr == last.(ssa.Instruction) {
								cbOK = false
							}
						}
					}
				}
			}
		}
	}
	var miss []string
	if !zeroErr {
		miss = append(miss, "deleteErrors == 0")
	}
	if !cbOK {
		miss = append(miss, "the consumed-inputs callback having returned nil")
	}
	if len(miss) == 0 {
		c.OK("C09.RECOVER", "recoverManifest|final-manifest-delete", last.Pos(), "final DeleteManifest (L%d) guarded by zero delete errors and a nil callback error", p.Line(last.Pos()))
	} else {
		c.Bad("C09.RECOVER", "recoverManifest|final-manifest-delete", last.Pos(), "the manifest is removed without %s: remaining inputs would be compacted again together with the output", strings.Join(miss, " and "))
	}
}

func c09Who(c *Ctx) {
	p := c.P
	allowed := map[string]string{
		"(*internal/compaction.Job).deleteOldFiles":              "deletes j.compactedFiles after the upload",
		"(*internal/compaction.ManifestManager).recoverManifest": "completes an interrupted job's input deletion",
	}
	inputFields := []string{"Job.Files", "Job.compactedFiles", "Manifest.InputFiles", "Candidate.Files", "CompletionManifest.DeletedSources", "CompletionManifest.Sources"}
	n := 0
	for _, fn := range p.FuncsIn("internal/compaction") {
		for _, call := range callsIn(fn, true) {
			cc := call.Common()
			if !cc.IsInvoke() || (cc.Method.Name() != "Delete" && cc.Method.Name() != "DeleteBatch") {
				continue
			}
			if !strings.Contains(cc.Value.Type().String(), "internal/storage.") {
				continue
			}
			srcs := fieldSources(cc.Args[1], 10)
			hit := ""
			for _, f := range inputFields {
				if srcs[f] {
					hit = f
				}
			}
			if hit == "" {
				continue
			}
			n++
			name := ssaFuncName(fn)
			construct := fmt.Sprintf("%s|%s(%s)", name, cc.Method.Name(), hit)
			if why, ok := allowed[name]; ok {
				c.OK("C09.WHO", construct, call.Pos(), "allowed input deleter: %s", why)
			} else {
				c.Bad("C09.WHO", construct, call.Pos(), "%s deletes paths taken from %s; only deleteOldFiles (after upload) and recoverManifest (after the output was verified) may delete compaction inputs", name, hit)
			}
		}
	}
	c.Floor("C09.WHO", 2, "deleteOldFiles and recoverManifest")
}

func c09Subset(c *Ctx) {
	p := c.P
	cf := c.MustFunc("C09.SUBSET", "(*internal/compaction.Job).compactFiles")
	if cf == nil {
		return
	}
	// every store to Job.compactedFiles in the package
	nStores := 0
	for _, fn := range p.FuncsIn("internal/compaction") {
		for _, in := range instrs(fn, true) {
			st, ok := in.(*ssa.Store)
			if !ok {
				continue
			}
			if sn, f, _, ok := fieldOf(st.Addr); !ok || sn != "Job" || f != "compactedFiles" {
				continue
			}
			nStores++
			name := ssaFuncName(fn)
			if isNilConst(st.Val) {
				c.Triv("C09.SUBSET", name+"|compactedFiles=nil", st.Pos(), "reset to nil")
				continue
			}
			if fn != cf {
				c.Bad("C09.SUBSET", name+"|compactedFiles-store", st.Pos(), "Job.compactedFiles (the delete list) is assigned outside compactFiles")
				continue
			}
			// appends feeding the stored value
			var keyAppends []*ssa.Call
			backSlice(st.Val, 12, func(v ssa.Value) bool {
				if call, ok := v.(*ssa.Call); ok {
					if b, ok := call.Call.Value.(*ssa.Builtin); ok && b.Name() == "append" {
						keyAppends = append(keyAppends, call)
					}
				}
				return true
			})
			// appends feeding the SQL file list: those whose result reaches buildCompactionQuery / a Sprintf list
			var sqlAppends []*ssa.Call
			for _, call := range callsIn(cf, false) {
				if callName(call) == "internal/compaction.buildCompactionQuery" {
					backSlice(call.Common().Args[0], 14, func(v ssa.Value) bool {
						if ac, ok := v.(*ssa.Call); ok {
							if b, ok := ac.Call.Value.(*ssa.Builtin); ok && b.Name() == "append" {
								sqlAppends = append(sqlAppends, ac)
							}
						}
						return true
					})
				}
			}
			if len(keyAppends) == 0 {
				c.Unk("C09.SUBSET", name+"|compactedFiles-store", st.Pos(), "delete list is not built by append")
				continue
			}
			ok2 := true
			for _, ka := range keyAppends {
				// must share its block with an append feeding the validated-local-path list that is in sqlAppends'
				// provenance: the SQL list is built from validLocalPaths in a later loop, so look for an append in the
				// same block whose result flows (transitively) into an sqlAppend's arguments or the query argument.
				same := false
				for _, in := range ka.Block().Instrs {
					oc, ok := in.(*ssa.Call)
					if !ok || oc == ka {
						continue
					}
					if b, ok := oc.Call.Value.(*ssa.Builtin); !ok || b.Name() != "append" {
						continue
					}
					// does oc's result reach the query?
					reaches := false
					for _, call := range callsIn(cf, false) {
						if callName(call) == "internal/compaction.buildCompactionQuery" {
							if derives(call.Common().Args[0], func(v ssa.Value) bool { return v == ssa.Value(oc) }, true, 16) {
								reaches = true
							}
						}
					}
					if reaches {
						same = true
					}
				}
				if !same {
					ok2 = false
				}
			}
			_ = sqlAppends
			c.Check(ok2, "C09.SUBSET", name+"|compactedFiles-store", st.Pos(),
				"the delete list is appended in lock-step (same basic block) with the list of files given to the COPY query",
				"the delete list is not built in lock-step with the list of files actually read by the COPY query: a file skipped as corrupt (or otherwise not compacted) can be deleted")
		}
	}
	if nStores == 0 {
		c.Unk("C09.SUBSET", "compactedFiles-store", cf.Pos(), "no assignment of Job.compactedFiles found")
	}
	// manifest InputFiles == compactedFiles
	run := c.P.Func(jobRun)
	if run != nil {
		found := false
		for _, in := range instrs(run, false) {
			if st, ok := in.(*ssa.Store); ok {
				if sn, f, _, ok := fieldOf(st.Addr); ok && sn == "Manifest" && f == "InputFiles" {
					found = true
					c.Check(fieldSources(st.Val, 4)["Job.compactedFiles"], "C09.SUBSET", "Run|manifest-inputs", st.Pos(),
						"manifest InputFiles is Job.compactedFiles", "the manifest's InputFiles is not the list of files that were actually compacted")
				}
			}
		}
		if !found {
			c.Unk("C09.SUBSET", "Run|manifest-inputs", run.Pos(), "no Manifest.InputFiles assignment in Run")
		}
	}
	// deleteOldFiles deletes exactly compactedFiles
	dof := c.P.Func(deleteOldName)
	if dof != nil {
		for _, call := range callsIn(dof, false) {
			cc := call.Common()
			if cc.IsInvoke() && (cc.Method.Name() == "Delete" || cc.Method.Name() == "DeleteBatch") {
				c.Check(fieldSources(cc.Args[1], 8)["Job.compactedFiles"], "C09.SUBSET", "deleteOldFiles|"+cc.Method.Name(), call.Pos(),
					"deletes paths from Job.compactedFiles", "deleteOldFiles deletes paths that do not come from Job.compactedFiles")
			}
		}
	}
}

func c09Name(c *Ctx) {
	cf := c.P.Func("(*internal/compaction.Job).compactFiles")
	run := c.P.Func(jobRun)
	if cf == nil || run == nil {
		return
	}
	// the returned output path
	var outVal ssa.Value
	for _, in := range instrs(cf, false) {
		if r, ok := in.(*ssa.Return); ok && len(r.Results) == 2 {
			if s, isC := constString(r.Results[0]); isC && s == "" {
				continue
			}
			v := r.Results[0]
			if ld, ok := v.(*ssa.UnOp); ok {
				if a, ok := ld.X.(*ssa.Alloc); ok {
					blk := ld.Block()
					for i := instrIndex(ld) - 1; i >= 0; i-- {
						if st, ok := blk.Instrs[i].(*ssa.Store); ok && st.Addr == a {
							v = st.Val
							break
						}
					}
				}
			}
			outVal = v
		}
	}
	if outVal == nil {
		c.Unk("C09.NAME", "compactFiles|output-name", cf.Pos(), "cannot find the returned output path")
		return
	}
	unique := []string{}
	fromInput := false
	backSlice(outVal, 14, func(v ssa.Value) bool {
		if call, ok := v.(*ssa.Call); ok {
			switch n := callName(call); n {
			case "(time.Time).UnixNano", "(time.Time).UnixMicro", "github.com/google/uuid.New", "github.com/google/uuid.NewString", "crypto/rand.Read":
				unique = append(unique, n)
			}
		}
		if sn, f, _, ok := fieldOf(v); ok {
			if sn == "Job" && f == "JobID" {
				unique = append(unique, "Job.JobID")
			}
			if sn == "downloadedFile" || (sn == "Job" && (f == "Files" || f == "compactedFiles")) {
				fromInput = true
			}
		}
		return true
	})
	sort.Strings(unique)
	switch {
	case fromInput:
		c.Bad("C09.NAME", "compactFiles|output-name", outVal.Pos(), "the output file name derives from an input file's name: the upload can overwrite an input")
	case len(unique) == 0:
		c.Bad("C09.NAME", "compactFiles|output-name", outVal.Pos(), "the output file name contains no sub-second clock value or per-job unique token: two jobs of one partition started within the same second (e.g. the two halves of an adaptive retry, which share BatchNumber) write to the same key and the second overwrites the first after its inputs were deleted")
	default:
		c.OK("C09.NAME", "compactFiles|output-name", outVal.Pos(), "output name derives from %s and from no input name", strings.Join(unique, ","))
	}
}

func c09Filter(c *Ctx) {
	p := c.P
	ff := c.MustFunc("C09.FILTER", "(*internal/compaction.Manager).filterCandidateFiles")
	if ff != nil {
		var lookupOK ssa.Value
		for _, in := range instrs(ff, false) {
			if lk, ok := in.(*ssa.Lookup); ok && lk.CommaOk {
				if derives(lk.X, isResultOf("(*internal/compaction.ManifestManager).GetFilesInManifests"), false, 6) {
					for _, r := range *lk.Referrers() {
						if e, ok := r.(*ssa.Extract); ok && e.Index == 1 {
							lookupOK = e
						}
					}
				}
			}
		}
		n := 0
		for _, call := range callsIn(ff, false) {
			if b, ok := call.Common().Value.(*ssa.Builtin); ok && b.Name() == "append" {
				n++
				ok2 := lookupOK != nil && guardedFalse(call.(ssa.Instruction), lookupOK)
				c.Check(ok2, "C09.FILTER", fmt.Sprintf("filterCandidateFiles|keep#%d", n), call.Pos(),
					"a file is kept only where the manifest-set lookup reported absent", "a candidate file is kept without having been looked up in (and found absent from) GetFilesInManifests: inputs of an in-flight job can be compacted twice")
			}
		}
		if n == 0 {
			c.Unk("C09.FILTER", "filterCandidateFiles|keep", ff.Pos(), "no append found")
		}
		// error from GetFilesInManifests => not processed
		for _, call := range findCalls(ff, false, "(*internal/compaction.ManifestManager).GetFilesInManifests") {
			e := errResult(call)
			okErr := false
			for _, in := range instrs(ff, false) {
				if r, ok := in.(*ssa.Return); ok && e != nil && hasFact(factsAt(r), factNotNil, e) {
					if k, ok := r.Results[1].(*ssa.Const); ok && k.Value != nil && k.Value.String() == "false" {
						okErr = true
					}
				}
			}
			c.Check(okErr, "C09.FILTER", "filterCandidateFiles|manifest-read-error", call.Pos(), "a failed manifest read skips the partition", "when the manifest set cannot be read the candidate is still processed")
		}
	}
	// call sites: SplitCandidateIntoBatches argument derives from filterCandidateFiles
	n := 0
	for _, fn := range p.MethodsOf("internal/compaction", "Manager") {
		for _, call := range callsIn(fn, true) {
			if callName(call) != "internal/compaction.SplitCandidateIntoBatches" {
				continue
			}
			n++
			in := call.(ssa.Instruction)
			var fcall ssa.CallInstruction
			for _, fc := range callsIn(in.Parent(), false) {
				if callName(fc) == "(*internal/compaction.Manager).filterCandidateFiles" {
					fcall = fc
				}
			}
			ok := false
			if fcall != nil {
				arg := call.Common().Args[0]
				fromFilter := derives(arg, func(v ssa.Value) bool { return v == resultN(fcall, 0) }, false, 8)
				should := resultN(fcall, 1)
				ok = fromFilter && should != nil && guardedTrue(in, should)
			}
			c.Check(ok, "C09.FILTER", fmt.Sprintf("%s|batches-from-filtered", ssaFuncName(in.Parent())), call.Pos(),
				"batches are split from the filtered candidate under shouldProcess == true", "batches are not derived from filterCandidateFiles' result (under shouldProcess == true)")
		}
	}
	if n == 0 {
		c.Unk("C09.FILTER", "batches-from-filtered", 0, "no SplitCandidateIntoBatches call in Manager")
	}
}
