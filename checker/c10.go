package main

import (
	"fmt"
	"regexp"
	"strings"

	"golang.org/x/tools/go/ssa"
)

func init() {
	register("C10", runC10,
		"evaluation of the predicate itself by DuckDB, schema evolution across files, and concurrent writes during a delete; decided are: NULL-safe and precedence-safe negation of the predicate in every keep/count template, that one validated predicate value feeds the search, the count and the rewrite, that nothing mutates on a dry run or before the confirmation gates, that the original file is replaced only after the filtered copy succeeded, and that affected files are identified by their full path")
}

var (
	reNegBare    = regexp.MustCompile(`(?is)\bNOT\s*\(\s*%s\s*\)`)
	reIsNotTrue  = regexp.MustCompile(`(?is)\(\s*%s\s*\)\s+IS\s+NOT\s+TRUE`)
	reIsDistinct = regexp.MustCompile(`(?is)\(\s*%s\s*\)\s+IS\s+DISTINCT\s+FROM\s+TRUE`)
	reCoalesce   = regexp.MustCompile(`(?is)NOT\s+COALESCE\s*\(\s*\(?\s*%s\s*\)?\s*,\s*FALSE\s*\)`)
	reBareIsNot  = regexp.MustCompile(`(?is)[^)\s]\s*%s\s+IS\s+(NOT\s+TRUE|DISTINCT\s+FROM\s+TRUE)|^\s*%s\s+IS\s+(NOT\s+TRUE|DISTINCT)`)
)

// hasFieldFact: some branch fact of the given kind is about a load of Struct.Field.
func hasFieldFact(in ssa.Instruction, kind factKind, key string) bool {
	for _, f := range factsAt(in) {
		if f.Kind == kind && f.Val != nil && fieldSources(f.Val, 3)[key] {
			return true
		}
	}
	return false
}

func runC10(c *Ctx) {
	p := c.P
	c.Rule("C10.NULL", "SQLT: in every delete.go statement template where the user predicate placeholder is negated (the rows to KEEP), the negation is NULL-safe and parenthesised: (%s) IS NOT TRUE, (%s) IS DISTINCT FROM TRUE or NOT COALESCE((%s), FALSE); bare NOT (%s) drops NULL-predicate rows, an unparenthesised %s IS NOT TRUE mis-binds compound predicates")
	c.Rule("C10.SAME", "FLOW+DOM: the predicate handed to findAffectedFiles and to rewriteFileWithoutDeletedRows is the request's where field, and validateWhereClause returned nil before either")
	c.Rule("C10.DRY", "DOM: every file rewrite in handleDelete executes only where dry_run is false, the enabled/confirmation/limit gates were passed")
	c.Rule("C10.SWAP", "ORDER: rewriteLocalFile/rewriteS3File replace or upload over the original only after the filtered COPY returned nil")
	c.Rule("C10.MAP", "FLOW: the map that resolves DuckDB's per-file match counts to storage paths is keyed by the full query path, not by a base name (two partitions can hold files with the same base name)")

	// ---- NULL
	nNeg := 0
	for _, fn := range p.MethodsOf("internal/api", "DeleteHandler") {
		for _, call := range callsIn(fn, false) {
			if callName(call) != "fmt.Sprintf" {
				continue
			}
			tmpls, ok := resolveStrings(call.Common().Args[0], 0)
			if !ok {
				continue
			}
			// which verbs are bound to the predicate parameter?
			binds := bindArgs(call)
			for _, t := range tmpls {
				low := strings.ToLower(t)
				if !strings.Contains(low, "read_parquet") {
					continue
				}
				verbs := regexp.MustCompile(`%[sdvq]`).FindAllStringIndex(t, -1)
				for vi, loc := range verbs {
					if vi >= len(binds) || binds[vi] == nil {
						continue
					}
					isPred := false
					if prm, ok := binds[vi].(*ssa.Parameter); ok && strings.Contains(strings.ToLower(prm.Name()), "where") {
						isPred = true
					}
					if fieldSources(binds[vi], 4)["DeleteRequest.Where"] {
						isPred = true
					}
					if !isPred {
						continue
					}
					// context: 40 chars either side with this verb normalised to %s and others blanked
					lo, hi := loc[0]-40, loc[1]+40
					if lo < 0 {
						lo = 0
					}
					if hi > len(t) {
						hi = len(t)
					}
					ctxs := t[lo:loc[0]] + "%s" + strings.ReplaceAll(t[loc[1]:hi], "%s", "?")
					ctxs = strings.ReplaceAll(ctxs[:len(t[lo:loc[0]])], "%s", "?") + ctxs[len(t[lo:loc[0]]):]
					construct := fmt.Sprintf("%s|predicate#%d@%s", fn.Name(), vi+1, siteOrdinal(fn, call))
					negated := regexp.MustCompile(`(?is)\bNOT\b[^%]{0,12}%s|%s[^%]{0,6}\bIS\s+(NOT|DISTINCT)`).MatchString(ctxs)
					if !negated {
						c.Triv("C10.NULL", construct, call.Pos(), "predicate used positively (selects the rows to delete)")
						continue
					}
					nNeg++
					switch {
					case reIsNotTrue.MatchString(ctxs), reIsDistinct.MatchString(ctxs), reCoalesce.MatchString(ctxs):
						c.OK("C10.NULL", construct, call.Pos(), "kept rows are selected NULL-safely: %s", strings.Join(strings.Fields(ctxs), " "))
					case reNegBare.MatchString(ctxs):
						c.Bad("C10.NULL", construct, call.Pos(), "kept rows are selected with NOT (<predicate>): where the predicate is NULL this is NULL, so those rows are dropped from the rewritten file and counted as deleted")
					default:
						c.Bad("C10.NULL", construct, call.Pos(), "the predicate is negated without parentheses around it (%q): IS NOT TRUE binds tighter than AND/OR, so a compound predicate keeps and deletes the wrong rows", strings.Join(strings.Fields(ctxs), " "))
					}
				}
			}
		}
	}
	c.Floor("C10.NULL", 3, "count-remaining template and the two COPY templates")

	// ---- SAME + DRY
	hd := c.MustFunc("C10.SAME", "(*internal/api.DeleteHandler).handleDelete")
	if hd != nil {
		var validate ssa.CallInstruction
		for _, call := range findCalls(hd, false, "(*internal/api.DeleteHandler).validateWhereClause") {
			validate = call
		}
		for _, name := range []string{"findAffectedFiles", "rewriteFileWithoutDeletedRows"} {
			for i, call := range findCalls(hd, false, "(*internal/api.DeleteHandler)."+name) {
				args := call.Common().Args
				pred := args[len(args)-1]
				// the very field value, not an expression computed from it: search,
				// count and rewrite must see the identical predicate text
				fromReq := fieldSources(pred, 4)["DeleteRequest.Where"]
				if validate != nil {
					va := validate.Common().Args
					// identical value (same SSA value, or loads of the same field of the same struct)
					fromReq = fromReq && samePathValue(va[len(va)-1], pred)
				}
				valid := validate != nil && callSucceededBefore(validate, call.(ssa.Instruction))
				construct := fmt.Sprintf("handleDelete|%s#%d", name, i+1)
				switch {
				case !fromReq:
					c.Bad("C10.SAME", construct, call.Pos(), "%s is not given the same predicate value that validateWhereClause checked (search, count and rewrite must evaluate the identical, validated predicate text)", name)
				case !valid:
					c.Bad("C10.SAME", construct, call.Pos(), "%s runs without validateWhereClause having returned nil for the predicate", name)
				default:
					c.OK("C10.SAME", construct, call.Pos(), "receives req.Where after validateWhereClause == nil")
				}
				if name == "rewriteFileWithoutDeletedRows" {
					in := call.(ssa.Instruction)
					var miss []string
					if !hasFieldFact(in, factFalse, "DeleteRequest.DryRun") {
						miss = append(miss, "dry_run == false")
					}
					if !hasFieldFact(in, factTrue, "DeleteConfig.Enabled") {
						miss = append(miss, "delete.enabled")
					}
					c.Check(len(miss) == 0, "C10.DRY", construct, call.Pos(), "rewrite executes only with delete enabled and dry_run false", "a file rewrite is reachable without "+strings.Join(miss, " and "))
				}
			}
		}
		c.Floor("C10.SAME", 2, "search and rewrite")
	}

	// ---- SWAP
	lf := c.MustFunc("C10.SWAP", "(*internal/api.DeleteHandler).rewriteLocalFile")
	if lf != nil {
		var cp ssa.CallInstruction
		for _, call := range callsIn(lf, false) {
			if strings.Contains(callName(call), "ExecPreservingInsertionOrder") || sqlExecNames[callName(call)] {
				cp = call
			}
		}
		n := 0
		for _, call := range findCalls(lf, false, "os.Rename") {
			n++
			c.Check(cp != nil && callSucceededBefore(cp, call.(ssa.Instruction)), "C10.SWAP", "rewriteLocalFile|rename-after-copy", call.Pos(), "the original is replaced only after the filtered COPY returned nil", "the original file is replaced although the filtered COPY may have failed")
		}
		if n == 0 {
			c.Unk("C10.SWAP", "rewriteLocalFile|rename-after-copy", lf.Pos(), "no rename found")
		}
	}
	sf := c.MustFunc("C10.SWAP", "(*internal/api.DeleteHandler).rewriteS3File")
	if sf != nil {
		var cp ssa.CallInstruction
		for _, call := range callsIn(sf, false) {
			if strings.Contains(callName(call), "ExecPreservingInsertionOrder") || sqlExecNames[callName(call)] {
				cp = call
			}
		}
		n := 0
		for _, call := range callsIn(sf, false) {
			cc := call.Common()
			if cc.IsInvoke() && (cc.Method.Name() == "Write" || cc.Method.Name() == "WriteReader") {
				n++
				c.Check(cp != nil && callSucceededBefore(cp, call.(ssa.Instruction)), "C10.SWAP", "rewriteS3File|upload-after-copy", call.Pos(), "the object is overwritten only after the filtered COPY returned nil", "the object is overwritten although the filtered COPY may have failed")
			}
		}
		if n == 0 {
			c.Unk("C10.SWAP", "rewriteS3File|upload-after-copy", sf.Pos(), "no upload found")
		}
	}

	// ---- MAP
	cm := c.MustFunc("C10.MAP", "(*internal/api.DeleteHandler).countMatchingRowsInFiles")
	if cm != nil {
		n := 0
		for _, in := range instrs(cm, false) {
			mu, ok := in.(*ssa.MapUpdate)
			if !ok {
				continue
			}
			if !fieldSources(mu.Value, 4)["fileInfo.relativePath"] {
				continue
			}
			n++
			viaBase := false
			backSlice(mu.Key, 6, func(v ssa.Value) bool {
				if call, ok := v.(*ssa.Call); ok && (callName(call) == "path/filepath.Base" || callName(call) == "path.Base") {
					viaBase = true
				}
				return true
			})
			full := fieldSources(mu.Key, 4)["fileInfo.queryPath"]
			switch {
			case viaBase:
				c.Bad("C10.MAP", "countMatchingRowsInFiles|path-map-key", mu.Pos(), "the match-count -> storage-path map is keyed by a base name: two files with the same name in different partitions collapse to one entry and the delete rewrites or removes the wrong file")
			case full:
				c.OK("C10.MAP", "countMatchingRowsInFiles|path-map-key", mu.Pos(), "keyed by the full query path")
			default:
				c.Unk("C10.MAP", "countMatchingRowsInFiles|path-map-key", mu.Pos(), "cannot tell what the path map is keyed by")
			}
		}
		if n == 0 {
			c.Unk("C10.MAP", "countMatchingRowsInFiles|path-map-key", cm.Pos(), "no path map found")
		}
	}
}
