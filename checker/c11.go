package main

import (
	"fmt"
	"go/token"
	"strings"

	"golang.org/x/tools/go/ssa"
)

func init() {
	register("C11", runC11,
		"that MAX(time) read through DuckDB is the true maximum of the file, time-zone handling, the interplay with concurrent compaction, and completeness of measurement discovery beyond the prefix rule; only the shape of the eligibility guard, the dry-run gate, prefix separators and the cutoff derivation")
}

const retDelete = "(*internal/api.RetentionHandler).deleteOldFiles"

// timeGuard classifies the branch facts at in: does a strict "max < cutoff"
// test hold, where max derives from getFileMaxTimeAndRowCount and cutoff from
// the function's cutoff parameter? Returns "strict", "nonstrict" or "".
func c11TimeGuard(fn *ssa.Function, in ssa.Instruction, cutoffParam string) (kind string, detail string) {
	// the compared value must come from the file's MAX(time) on EVERY path: a phi (or a cell) one of whose
	// inputs is computed some other way — a partition end derived from the path, say — is not the file's maximum
	var isMax func(v ssa.Value) bool
	seenMax := map[ssa.Value]bool{}
	isMax = func(v ssa.Value) bool {
		switch x := v.(type) {
		case *ssa.Phi:
			if seenMax[v] {
				return true
			}
			seenMax[v] = true
			for _, e := range x.Edges {
				if !isMax(e) {
					return false
				}
			}
			return true
		case *ssa.UnOp:
			if a, ok := x.X.(*ssa.Alloc); ok && x.Op == token.MUL {
				n := 0
				for _, r := range *a.Referrers() {
					if st, ok := r.(*ssa.Store); ok && st.Addr == ssa.Value(a) {
						n++
						if !isMax(st.Val) {
							return false
						}
					}
				}
				return n > 0
			}
		}
		return derives(v, isResultOf("(*internal/api.RetentionHandler).getFileMaxTimeAndRowCount"), true, 6)
	}
	isCut := func(v ssa.Value) bool {
		return derives(v, isParam(fn, cutoffParam), true, 6)
	}
	for _, f := range factsAt(in) {
		call, ok := f.Val.(*ssa.Call)
		if ok && (f.Kind == factTrue || f.Kind == factFalse) {
			n := callName(call)
			if n != "(time.Time).Before" && n != "(time.Time).After" && n != "(time.Time).Equal" {
				continue
			}
			a, b := call.Call.Args[0], call.Call.Args[1]
			var rel string // relation that holds between max and cutoff
			switch {
			case isMax(a) && isCut(b):
				if n == "(time.Time).Before" {
					rel = map[bool]string{true: "max<cut", false: "max>=cut"}[f.Kind == factTrue]
				} else if n == "(time.Time).After" {
					rel = map[bool]string{true: "max>cut", false: "max<=cut"}[f.Kind == factTrue]
				}
			case isCut(a) && isMax(b):
				if n == "(time.Time).Before" {
					rel = map[bool]string{true: "max>cut", false: "max<=cut"}[f.Kind == factTrue]
				} else if n == "(time.Time).After" {
					rel = map[bool]string{true: "max<cut", false: "max>=cut"}[f.Kind == factTrue]
				}
			}
			switch rel {
			case "max<cut":
				return "strict", n
			case "max<=cut":
				kind, detail = "nonstrict", n+" negated"
			}
		}
		if f.Kind == factCmp {
			// max.Compare(cut) < 0  /  cut.Compare(max) > 0 / UnixNano comparisons
			x, y := f.X, f.Y
			if cc, ok := x.(*ssa.Call); ok && callName(cc) == "(time.Time).Compare" {
				if k, isC := constInt(y); isC && k == 0 {
					a, b := cc.Call.Args[0], cc.Call.Args[1]
					if isMax(a) && isCut(b) {
						switch f.Op {
						case token.LSS:
							return "strict", "Compare<0"
						case token.LEQ:
							kind, detail = "nonstrict", "Compare<=0"
						}
					}
					if isCut(a) && isMax(b) {
						switch f.Op {
						case token.GTR:
							return "strict", "Compare>0"
						case token.GEQ:
							kind, detail = "nonstrict", "Compare>=0"
						}
					}
				}
			}
			if isMax(x) && isCut(y) {
				switch f.Op {
				case token.LSS:
					return "strict", "max<cut (integers)"
				case token.LEQ:
					kind, detail = "nonstrict", "max<=cut (integers)"
				}
			}
			if isCut(x) && isMax(y) {
				switch f.Op {
				case token.GTR:
					return "strict", "cut>max (integers)"
				case token.GEQ:
					kind, detail = "nonstrict", "cut>=max (integers)"
				}
			}
		}
	}
	return kind, detail
}

func runC11(c *Ctx) {
	p := c.P
	c.Rule("C11.GUARD", "FLOW+DOM: every value reaching storage.Delete / the manifest delete payload in deleteOldFiles comes from the listing only through an append that executes under a STRICT 'file max time < cutoff' test (max from getFileMaxTimeAndRowCount, cutoff from the parameter); a non-strict test is a violation, any other shape undecided")
	c.Rule("C11.DRY", "DOM: every mutating call in deleteOldFiles (storage delete, manifest batch op, directory cleanup) executes only where dryRun is false; callers pass the request's dry_run flag / constant false")
	c.Rule("C11.PREFIX", "CONST: every listing prefix and every prefix test applied to listed paths in the retention code ends with the path separator, so 'cpu' never selects or hides 'cpu_total'")
	c.Rule("C11.CUTOFF", "FLOW: in each executor the cutoff passed to deleteOldFiles derives from both RetentionDays and BufferDays of the policy and from the clock, is the same value for every measurement, and is not computed through an unguarded nanosecond-scale multiplication of the day count (int64 overflow puts the cutoff in the future)")

	fn := c.MustFunc("C11.GUARD", retDelete)
	if fn == nil {
		return
	}
	listRes := isResultOf("(internal/storage.Backend).List")
	// sinks
	type sink struct {
		in   ssa.Instruction
		arg  ssa.Value
		name string
	}
	var sinks []sink
	for _, call := range callsIn(fn, true) {
		switch callName(call) {
		case "(internal/storage.Backend).Delete":
			sinks = append(sinks, sink{call.(ssa.Instruction), call.Common().Args[1], "storage.Delete"})
		}
	}
	// manifest payload: DeleteFilePayload{Path: p}
	for _, in := range instrs(fn, true) {
		if st, ok := in.(*ssa.Store); ok {
			if sn, f, _, ok := fieldOf(st.Addr); ok && sn == "DeleteFilePayload" && f == "Path" {
				sinks = append(sinks, sink{st, st.Val, "manifest DeleteFilePayload.Path"})
			}
		}
	}
	for i, s := range sinks {
		construct := fmt.Sprintf("deleteOldFiles|%s#%d", s.name, i+1)
		// backward walk over slice-building operations
		seen := map[ssa.Value]bool{}
		var bad []string
		guarded := 0
		var walk func(v ssa.Value, d int)
		walk = func(v ssa.Value, d int) {
			if v == nil || seen[v] || d > 40 {
				return
			}
			seen[v] = true
			if listRes(v) {
				bad = append(bad, fmt.Sprintf("listing result at L%d reached without an eligibility-guarded append", p.Line(v.Pos())))
				return
			}
			switch x := v.(type) {
			case *ssa.Call:
				if b, ok := x.Call.Value.(*ssa.Builtin); ok && b.Name() == "append" {
					kind, det := c11TimeGuard(fn, x, "cutoffDate")
					switch kind {
					case "strict":
						guarded++
						return // discharged: everything appended here passed the strict test
					case "nonstrict":
						bad = append(bad, fmt.Sprintf("append at L%d is guarded by a NON-strict comparison (%s): a file whose newest row is exactly at the cutoff is deleted", p.Line(x.Pos()), det))
						return
					}
					for _, a := range x.Call.Args {
						walk(a, d+1)
					}
					return
				}
				if cn := callName(x); cn == "strings.ToLower" || cn == "path/filepath.Base" {
					walk(x.Call.Args[0], d+1)
					return
				}
				// other calls: arguments (e.g. buildParquetPath(rel))
				for _, a := range x.Call.Args {
					walk(a, d+1)
				}
			case *ssa.Phi:
				for _, e := range x.Edges {
					walk(e, d+1)
				}
			case *ssa.Slice:
				walk(x.X, d+1)
			case *ssa.IndexAddr:
				walk(x.X, d+1)
			case *ssa.Index:
				walk(x.X, d+1)
			case *ssa.UnOp:
				walk(x.X, d+1)
				if a, ok := x.X.(*ssa.Alloc); ok {
					for _, r := range *a.Referrers() {
						if st, ok := r.(*ssa.Store); ok && st.Addr == a {
							walk(st.Val, d+1)
						}
					}
				}
			case *ssa.Alloc:
				for _, r := range *x.Referrers() {
					switch rr := r.(type) {
					case *ssa.Store:
						if rr.Addr == x {
							walk(rr.Val, d+1)
						}
					case *ssa.IndexAddr:
						for _, r2 := range *rr.Referrers() {
							if st, ok := r2.(*ssa.Store); ok && st.Addr == rr {
								walk(st.Val, d+1)
							}
						}
					}
				}
			case *ssa.Extract:
				walk(x.Tuple, d+1)
			case *ssa.Next:
				walk(x.Iter, d+1)
			case *ssa.Range:
				walk(x.X, d+1)
			case *ssa.MakeSlice, *ssa.Const:
			case *ssa.FreeVar:
				bad = append(bad, "value captured by a closure (not tracked)")
			case *ssa.Parameter:
				bad = append(bad, "raw parameter "+x.Name())
			case *ssa.Convert:
				walk(x.X, d+1)
			case *ssa.BinOp:
				walk(x.X, d+1)
				walk(x.Y, d+1)
			}
		}
		walk(s.arg, 0)
		switch {
		case len(bad) > 0:
			c.Bad("C11.GUARD", construct, s.in.Pos(), "%s", strings.Join(bad, "; "))
		case guarded == 0:
			c.Unk("C11.GUARD", construct, s.in.Pos(), "could not trace the deleted path back to an eligibility-guarded append")
		default:
			c.OK("C11.GUARD", construct, s.in.Pos(), "deleted path flows only from append(s) under the strict test max.Before(cutoff)")
		}
	}
	c.Floor("C11.GUARD", 2, "storage delete and manifest payload")

	// ---- DRY
	mut := names("(internal/storage.Backend).Delete", "(internal/api.RetentionCoordinator).BatchFileOpsInManifest",
		"(*internal/api.RetentionHandler).cleanupEmptyDirectories", "(*internal/api.RetentionHandler).removeDirectoryTree",
		"(internal/storage.DirectoryRemover).RemoveDirectory", "(internal/storage.Backend).Write", "(internal/storage.BatchDeleter).DeleteBatch")
	var dry *ssa.Parameter
	for _, q := range fn.Params {
		if q.Name() == "dryRun" {
			dry = q
		}
	}
	if dry == nil {
		c.Unk("C11.DRY", "deleteOldFiles|param", fn.Pos(), "no dryRun parameter")
	}
	for _, call := range callsIn(fn, true) {
		if !mut[callName(call)] || dry == nil {
			continue
		}
		in := call.(ssa.Instruction)
		construct := fmt.Sprintf("deleteOldFiles|%s@%s", callName(call), siteOrdinal(fn, call))
		ok := in.Parent() == fn && guardedFalse(in, dry)
		c.Check(ok, "C11.DRY", construct, call.Pos(), "executes only where dryRun == false", "mutating call is reachable with dryRun == true: a dry run deletes data")
	}
	c.Floor("C11.DRY", 3, "storage delete, manifest op, directory cleanup")

	// callers of deleteOldFiles: dry-run argument and cutoff
	for _, callerName := range []string{"(*internal/api.RetentionHandler).ExecutePolicy", "(*internal/api.RetentionHandler).handleExecute"} {
		cf := c.MustFunc("C11.CUTOFF", callerName)
		if cf == nil {
			continue
		}
		short := cf.Name()
		var cutoffs []ssa.Value
		for _, call := range findCalls(cf, true, retDelete) {
			args := call.Common().Args // recv, ctx, database, measurement, cutoff, dryRun, reason
			if len(args) < 7 {
				c.Unk("C11.CUTOFF", short+"|call-shape", call.Pos(), "unexpected deleteOldFiles signature")
				continue
			}
			cutoffs = append(cutoffs, args[4])
			// dry-run argument
			dv := args[5]
			okDry := false
			why := ""
			if k, isC := dv.(*ssa.Const); isC {
				okDry = true
				why = "constant " + k.Value.String()
			} else if fieldSources(dv, 5)["ExecuteRetentionRequest.DryRun"] {
				okDry = true
				why = "request field DryRun"
			}
			c.Check(okDry, "C11.DRY", short+"|dryRun-arg", call.Pos(), "dry-run argument is "+why, "dry-run argument of deleteOldFiles does not come from the request's DryRun field or a constant")
			// database prefix arg and measurement come from the policy / discovery
		}
		if len(cutoffs) == 0 {
			c.Unk("C11.CUTOFF", short+"|cutoff", cf.Pos(), "no deleteOldFiles call found")
			continue
		}
		same := true
		for _, v := range cutoffs[1:] {
			if v != cutoffs[0] {
				same = false
			}
		}
		cut := cutoffs[0]
		srcs := map[string]bool{}
		clock := false
		var mulBad []string
		backSlice(cut, 12, func(v ssa.Value) bool {
			if sn, f, _, ok := fieldOf(v); ok {
				srcs[sn+"."+f] = true
			}
			if call, ok := v.(*ssa.Call); ok && callName(call) == "time.Now" {
				clock = true
			}
			if bo, ok := v.(*ssa.BinOp); ok && bo.Op == token.MUL {
				for _, side := range []ssa.Value{bo.X, bo.Y} {
					if k, isC := constInt(side); isC && (k >= 1_000_000_000 || k <= -1_000_000_000) {
						other := bo.X
						if side == bo.X {
							other = bo.Y
						}
						fs := fieldSources(other, 8)
						if fs["RetentionPolicy.RetentionDays"] || fs["RetentionPolicy.BufferDays"] {
							if !c11Bounded(bo, other) {
								mulBad = append(mulBad, fmt.Sprintf("L%d multiplies the policy's day count by %d without an upper-bound test", p.Line(bo.Pos()), k))
							}
						}
					}
				}
			}
			return true
		})
		var problems []string
		if !same {
			problems = append(problems, "different cutoff values are passed to different deleteOldFiles calls")
		}
		if !srcs["RetentionPolicy.RetentionDays"] {
			problems = append(problems, "cutoff does not derive from RetentionDays")
		}
		if !srcs["RetentionPolicy.BufferDays"] {
			problems = append(problems, "cutoff does not derive from BufferDays")
		}
		if !clock {
			problems = append(problems, "cutoff does not derive from time.Now()")
		}
		problems = append(problems, mulBad...)
		if len(problems) == 0 {
			c.OK("C11.CUTOFF", short+"|cutoff", cut.Pos(), "one cutoff value, from time.Now and RetentionDays+BufferDays, no unguarded nanosecond multiplication")
		} else {
			c.Bad("C11.CUTOFF", short+"|cutoff", cut.Pos(), "%s", strings.Join(problems, "; "))
		}
	}

	// ---- PREFIX
	c11Prefix(c)
}

// c11Bounded: the multiplication executes under an upper-bound comparison of its variable operand.
func c11Bounded(mul *ssa.BinOp, operand ssa.Value) bool {
	for _, f := range factsAt(mul) {
		if f.Kind != factCmp {
			continue
		}
		if (f.Op == token.LSS || f.Op == token.LEQ) && derives(f.X, func(v ssa.Value) bool { return v == operand }, false, 4) {
			return true
		}
		if (f.Op == token.GTR || f.Op == token.GEQ) && derives(f.Y, func(v ssa.Value) bool { return v == operand }, false, 4) {
			return true
		}
	}
	return false
}

func c11Prefix(c *Ctx) {
	p := c.P
	listRes := isResultOf("(internal/storage.Backend).List")
	n := 0
	for _, name := range []string{retDelete, "(*internal/api.RetentionHandler).getMeasurementsToProcess"} {
		fn := c.MustFunc("C11.PREFIX", name)
		if fn == nil {
			continue
		}
		for _, call := range callsIn(fn, true) {
			var prefixArg ssa.Value
			what := ""
			switch callName(call) {
			case "(internal/storage.Backend).List":
				prefixArg, what = call.Common().Args[1], "listing prefix"
			case "strings.HasPrefix", "strings.TrimPrefix", "strings.CutPrefix":
				if derives(call.Common().Args[0], listRes, true, 10) {
					prefixArg, what = call.Common().Args[1], callName(call)+" on a listed path"
				}
			}
			if prefixArg == nil {
				continue
			}
			n++
			construct := fmt.Sprintf("%s|%s@%s", fn.Name(), callName(call), siteOrdinal(fn, call))
			tmpls, _ := resolveStrings(prefixArg, 0)
			ok := len(tmpls) > 0
			var badT []string
			for _, t := range tmpls {
				pure := !strings.Contains(t, "\x00")
				if strings.HasSuffix(t, "/") || (pure && strings.HasPrefix(t, ".")) {
					continue
				}
				ok = false
				badT = append(badT, strings.ReplaceAll(t, "\x00", "<dyn>"))
			}
			if ok {
				c.OK("C11.PREFIX", construct, call.Pos(), "%s ends with the separator (%s)", what, strings.ReplaceAll(strings.Join(tmpls, " | "), "\x00", "<dyn>"))
			} else {
				c.Bad("C11.PREFIX", construct, call.Pos(), "%s is %q — not terminated by '/': a measurement or database whose name merely starts with the same characters is selected or skipped with it (L%d)", what, strings.Join(badT, " | "), p.Line(call.Pos()))
			}
		}
	}
	_ = n
	c.Floor("C11.PREFIX", 3, "two List calls and the TrimPrefix on listed paths")
}
