package main

import (
	"fmt"
	"go/constant"
	"go/token"
	"strings"

	"golang.org/x/tools/go/ssa"
)

func init() {
	register("C12", runC12,
		"the query-side window in which both tiers hold the file, that the destination really holds `size` bytes (the local WriteReader ignores its size argument), and crash enumeration; only the copy / metadata / delete ordering, that the streaming copy waits for both halves, that reconciliation deletes only cold-tracked paths from the hot tier, and that the tier cache is invalidated from a lookup that can still see the row")
}

func runC12(c *Ctx) {
	p := c.P
	c.Rule("C12.ORDER", "ORDER: in MigrateFile the source-tier Delete executes only after copyFileStreaming returned nil and then UpdateTier returned nil; the destination-tier Delete (rollback) executes only on UpdateTier's failure branch")
	c.Rule("C12.BOTH", "DOM: copyFileStreaming returns nil only after receiving as many results as it started transfer goroutines, all nil")
	c.Rule("C12.RECON", "FLOW+DOM: ReconcileOrphanedFiles deletes from the hot backend only paths of metadata rows queried with tier == cold, and only where Exists reported true")
	c.Rule("C12.CACHE", "ORDER+SQLT: in every MetadataStore method that mutates tier_files and invalidates the tier cache, the (database, measurement) lookup feeding the invalidation either precedes the mutation or selects by path alone; a DELETE's lookup must precede it")

	mf := c.MustFunc("C12.ORDER", "(*internal/tiering.Migrator).MigrateFile")
	if mf != nil {
		var cp, ut ssa.CallInstruction
		for _, call := range callsIn(mf, false) {
			switch callName(call) {
			case "(*internal/tiering.Migrator).copyFileStreaming", "(*internal/tiering.Migrator).copyFile":
				cp = call
			case "(*internal/tiering.MetadataStore).UpdateTier":
				ut = call
			}
		}
		if cp == nil || ut == nil {
			c.Bad("C12.ORDER", "MigrateFile|anchors", mf.Pos(), "MigrateFile no longer calls copyFileStreaming and UpdateTier")
		} else {
			nSrc := 0
			for _, call := range callsIn(mf, false) {
				cc := call.Common()
				if !cc.IsInvoke() || cc.Method.Name() != "Delete" {
					continue
				}
				srcs := map[string]bool{}
				backSlice(cc.Value, 8, func(v ssa.Value) bool {
					if cl, ok := v.(*ssa.Call); ok && callName(cl) == "(*internal/tiering.Manager).GetBackendForTier" {
						for _, a := range cl.Call.Args {
							for k := range fieldSources(a, 6) {
								srcs[k] = true
							}
						}
						return false
					}
					return true
				})
				in := call.(ssa.Instruction)
				switch {
				case srcs["MigrationCandidate.CurrentTier"]:
					nSrc++
					okC := callSucceededBefore(cp, in)
					okU := callSucceededBefore(ut, in)
					var miss []string
					if !okC {
						miss = append(miss, "the copy having returned nil")
					}
					if !okU {
						miss = append(miss, "UpdateTier having returned nil")
					}
					if len(miss) == 0 {
						c.OK("C12.ORDER", "MigrateFile|source-delete", call.Pos(), "source delete dominated by copy == nil (L%d) and UpdateTier == nil (L%d)", p.Line(cp.Pos()), p.Line(ut.Pos()))
					} else {
						c.Bad("C12.ORDER", "MigrateFile|source-delete", call.Pos(), "the source-tier copy is deleted without %s: a failure or crash after this point leaves the file in neither tier, or cold-only with metadata saying hot", strings.Join(miss, " and "))
					}
				case srcs["MigrationCandidate.TargetTier"]:
					e := errResult(ut)
					ok := e != nil && hasFact(factsAt(in), factNotNil, e) && instrDominates(ut.(ssa.Instruction), in)
					c.Check(ok, "C12.ORDER", "MigrateFile|rollback-delete", call.Pos(),
						"destination delete happens only on UpdateTier's failure branch", "the destination copy is deleted outside UpdateTier's failure branch")
				default:
					c.Unk("C12.ORDER", "MigrateFile|delete@"+siteOrdinal(mf, call), call.Pos(), "Delete on a backend whose tier cannot be identified")
				}
			}
			if nSrc == 0 {
				c.Unk("C12.ORDER", "MigrateFile|source-delete", mf.Pos(), "no delete on the source backend found")
			}
			// UpdateTier itself only after a successful copy
			c.Check(callSucceededBefore(cp, ut.(ssa.Instruction)), "C12.ORDER", "MigrateFile|update-after-copy", ut.Pos(),
				"UpdateTier dominated by copy == nil", "tier metadata is switched before the copy is known to have succeeded")
		}
	}

	// ---- BOTH
	cs := c.MustFunc("C12.BOTH", "(*internal/tiering.Migrator).copyFileStreaming")
	if cs != nil {
		var ch ssa.Value
		var chCell ssa.Value // the variable holding the channel when closures capture it
		for _, in := range instrs(cs, false) {
			if mk, ok := in.(*ssa.MakeChan); ok {
				ch = mk
				for _, r := range *mk.Referrers() {
					if st, ok := r.(*ssa.Store); ok && st.Val == ssa.Value(mk) {
						chCell = st.Addr
					}
				}
			}
		}
		isCh := func(v ssa.Value) bool {
			if v == ch {
				return true
			}
			if ld, ok := v.(*ssa.UnOp); ok && ld.Op == token.MUL && chCell != nil && ld.X == chCell {
				return true
			}
			return false
		}
		nGo := 0
		for _, in := range instrs(cs, false) {
			g, ok := in.(*ssa.Go)
			if !ok {
				continue
			}
			if mc, ok := g.Call.Value.(*ssa.MakeClosure); ok {
				fnc := mc.Fn.(*ssa.Function)
				sends := false
				for _, x := range instrs(fnc, true) {
					if _, ok := x.(*ssa.Send); ok {
						sends = true
					}
				}
				if sends {
					nGo++
				}
			}
		}
		// receive loop bound
		bound := int64(-1)
		var recv *ssa.UnOp
		for _, in := range instrs(cs, false) {
			if u, ok := in.(*ssa.UnOp); ok && u.Op == token.ARROW && isCh(u.X) {
				recv = u
			}
		}
		if recv != nil {
			for _, f := range factsAt(recv) {
				if f.Kind == factCmp && f.Op == token.LSS {
					if k, isC := constInt(f.Y); isC {
						bound = k
					}
				}
			}
		}
		nRecvStraight := 0
		if bound < 0 {
			for _, in := range instrs(cs, false) {
				if u, ok := in.(*ssa.UnOp); ok && u.Op == token.ARROW && isCh(u.X) {
					nRecvStraight++
				}
			}
			bound = int64(nRecvStraight)
		}
		c.Check(ch != nil && nGo > 0 && bound == int64(nGo), "C12.BOTH", "copyFileStreaming|waits-for-all", cs.Pos(),
			fmt.Sprintf("%d transfer goroutines, %d results received", nGo, bound),
			fmt.Sprintf("%d transfer goroutines are started but %d results are awaited: the copy can report success before the writer (or reader) half has finished", nGo, bound))
		// nil return guarded by firstErr == nil
		n := 0
		for _, in := range instrs(cs, false) {
			r, ok := in.(*ssa.Return)
			if !ok || classifyErr(returnErrOperand(r), r, nil, 0) == errNonNil {
				continue
			}
			n++
			ok2 := false
			for _, f := range factsAt(r) {
				if f.Kind == factNil {
					if derives(f.Val, func(v ssa.Value) bool { return v == ssa.Value(recv) }, false, 6) || c12PhiFromRecv(f.Val, recv) {
						ok2 = true
					}
				}
			}
			c.Check(ok2, "C12.BOTH", fmt.Sprintf("copyFileStreaming|nil-return#%d", n), r.Pos(), "nil return guarded by the accumulated error being nil", "copyFileStreaming can return nil without having checked the results it received")
		}
	}

	// ---- RECON
	ro := c.MustFunc("C12.RECON", "(*internal/tiering.Migrator).ReconcileOrphanedFiles")
	if ro != nil {
		var listCall ssa.CallInstruction
		for _, call := range callsIn(ro, false) {
			if strings.HasPrefix(callName(call), "(*internal/tiering.MetadataStore).Get") {
				listCall = call
			}
		}
		coldOK := false
		if listCall != nil {
			for _, a := range listCall.Common().Args {
				if k, ok := a.(*ssa.Const); ok && k.Value != nil && k.Value.Kind() == constant.String && constant.StringVal(k.Value) == "cold" {
					coldOK = true
				}
			}
		}
		c.Check(coldOK, "C12.RECON", "Reconcile|cold-rows", ro.Pos(), "candidate rows are queried with tier == cold", "reconciliation candidates are not restricted to rows whose tier is cold")
		nDel := 0
		for _, call := range callsIn(ro, false) {
			cc := call.Common()
			if !cc.IsInvoke() || (cc.Method.Name() != "Delete" && cc.Method.Name() != "DeleteBatch") {
				continue
			}
			nDel++
			in := call.(ssa.Instruction)
			hot := false
			backSlice(cc.Value, 8, func(v ssa.Value) bool {
				if cl, ok := v.(*ssa.Call); ok && callName(cl) == "(*internal/tiering.Manager).GetBackendForTier" {
					for _, a := range cl.Call.Args {
						if k, ok := a.(*ssa.Const); ok && k.Value != nil && k.Value.Kind() == constant.String && constant.StringVal(k.Value) == "hot" {
							hot = true
						}
					}
				}
				return true
			})
			fromRows := listCall != nil && derives(cc.Args[1], func(v ssa.Value) bool { return v == resultN(listCall, 0) }, false, 10)
			exists := false
			for _, f := range factsAt(in) {
				if f.Kind == factTrue {
					if e, ok := f.Val.(*ssa.Extract); ok {
						if cl, ok := e.Tuple.(*ssa.Call); ok && cl.Call.IsInvoke() && cl.Call.Method.Name() == "Exists" {
							exists = true
						}
					}
				}
			}
			var miss []string
			if !hot {
				miss = append(miss, "backend is not GetBackendForTier(hot)")
			}
			if !fromRows {
				miss = append(miss, "path does not come from the cold metadata rows")
			}
			if !exists {
				miss = append(miss, "not conditional on Exists == true")
			}
			if len(miss) == 0 {
				c.OK("C12.RECON", "Reconcile|delete@"+siteOrdinal(ro, call), call.Pos(), "hot delete of a cold-tracked path under Exists == true")
			} else {
				c.Bad("C12.RECON", "Reconcile|delete@"+siteOrdinal(ro, call), call.Pos(), "%s", strings.Join(miss, "; "))
			}
		}
		if nDel == 0 {
			c.Unk("C12.RECON", "Reconcile|delete", ro.Pos(), "no delete found")
		}
	}

	// ---- CACHE
	n := 0
	for _, fn := range p.MethodsOf("internal/tiering", "MetadataStore") {
		inv := findCalls(fn, false, "(*internal/tiering.MetadataStore).invalidateTierCache")
		if len(inv) == 0 {
			continue
		}
		var mut ssa.CallInstruction
		verb := ""
		var lookups []sqlSite
		for _, s := range sqlSites(fn) {
			for _, t := range s.Tmpls {
				if v, table, ok := sqlMutation(t); ok && table == "tier_files" && s.IsExec {
					mut, verb = s.Call, v
				}
				low := strings.ToLower(strings.Join(strings.Fields(t), " "))
				if !s.IsExec && strings.HasPrefix(low, "select") && strings.Contains(low, "from tier_files") {
					lookups = append(lookups, s)
				}
			}
		}
		if mut == nil || verb == "INSERT" {
			continue
		}
		n++
		construct := fn.Name() + "|lookup-vs-" + verb
		if len(lookups) == 0 {
			c.Unk("C12.CACHE", construct, fn.Pos(), "no lookup of (database, measurement) found")
			continue
		}
		ok := false
		why := ""
		for _, l := range lookups {
			before := instrDominates(l.Call.(ssa.Instruction), mut.(ssa.Instruction))
			low := strings.ToLower(strings.Join(strings.Fields(l.Tmpls[0]), " "))
			where := ""
			if i := strings.Index(low, " where "); i >= 0 {
				where = strings.TrimSpace(low[i+7:])
			}
			pathOnly := where == "path = ?"
			switch {
			case before:
				ok = true
			case verb == "UPDATE" && pathOnly:
				ok = true
			default:
				why = fmt.Sprintf("lookup at L%d runs after the %s with predicate %q", p.Line(l.Call.Pos()), verb, where)
			}
		}
		if ok {
			c.OK("C12.CACHE", construct, mut.Pos(), "the lookup feeding invalidateTierCache can see the row")
		} else {
			c.Bad("C12.CACHE", construct, mut.Pos(), "%s: it cannot see the row it is meant to describe, so the tier cache is silently not invalidated and queries keep using the stale tier set", why)
		}
		// the invalidation arguments come from the lookup's Scan targets (locals), and the invalidate follows the mutation
		for _, ic := range inv {
			c.Check(instrDominates(mut.(ssa.Instruction), ic.(ssa.Instruction)), "C12.CACHE", fn.Name()+"|invalidate-after-"+verb, ic.Pos(),
				"cache invalidation follows the mutation", "cache is invalidated before the mutation: a concurrent query re-populates it with the old tier set")
		}
	}
	c.Floor("C12.CACHE", 4, "UpdateTier and DeleteFile, two obligations each")
}

func c12PhiFromRecv(v ssa.Value, recv *ssa.UnOp) bool {
	if recv == nil {
		return false
	}
	seen := map[ssa.Value]bool{}
	var rec func(ssa.Value) bool
	rec = func(x ssa.Value) bool {
		if seen[x] {
			return false
		}
		seen[x] = true
		if x == ssa.Value(recv) {
			return true
		}
		if ph, ok := x.(*ssa.Phi); ok {
			for _, e := range ph.Edges {
				if rec(e) {
					return true
				}
			}
		}
		return false
	}
	return rec(v)
}
