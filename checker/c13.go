package main

import (
	"fmt"
	"strings"

	"golang.org/x/tools/go/ssa"
)

func init() {
	register("C13", runC13,
		"byte-for-byte equality of restored files, SQLite/config restore internals, and object-store backends; decided are: that per-file transfer errors in restore and backup are propagated or accounted, that a restore is marked completed only if every enabled step returned nil, that every success path of the per-file transfer actually wrote the destination, and that the manifest's skipped count is taken after the last copy group")
}

// errorEdges returns the successor blocks entered when error value e is non-nil.
func errorEdges(fn *ssa.Function, e ssa.Value) []*ssa.BasicBlock {
	var out []*ssa.BasicBlock
	for _, b := range fn.Blocks {
		if len(b.Instrs) == 0 {
			continue
		}
		ifi, ok := b.Instrs[len(b.Instrs)-1].(*ssa.If)
		if !ok {
			continue
		}
		for _, s := range b.Succs {
			if edgeHasFact(b, s, func(f fact) bool { return f.Kind == factNotNil && sameVal(f.Val, e) }) {
				out = append(out, s)
			}
		}
		_ = ifi
	}
	return out
}

// accountedError: on the error edge of call, every reachable may-be-nil return
// is guarded by a comparison on a counter that is incremented on that edge, or
// the edge's increment flows into a *SkippedFiles* / *Failed* field.
func (c *Ctx) errorAccounted(fn *ssa.Function, call ssa.CallInstruction) (ok bool, why string) {
	e := errResult(call)
	if e == nil {
		return false, "the error result is discarded"
	}
	edges := errorEdges(fn, e)
	if len(edges) == 0 {
		return false, "the error is never tested"
	}
	for _, succ := range edges {
		// values incremented on the way
		var incs []ssa.Value
		visited := map[*ssa.BasicBlock]bool{}
		var collect func(b *ssa.BasicBlock, d int)
		collect = func(b *ssa.BasicBlock, d int) {
			if visited[b] || d > 6 {
				return
			}
			visited[b] = true
			for _, in := range b.Instrs {
				if bo, ok := in.(*ssa.BinOp); ok && bo.Op.String() == "+" {
					incs = append(incs, bo)
				}
			}
			// stay inside the error-handling region: blocks dominated by succ
			for _, s := range b.Succs {
				if succ.Dominates(s) {
					collect(s, d+1)
				}
			}
		}
		collect(succ, 0)
		exits := successExits(pathsAvoidingTo(fn, nil, succ, func(ssa.Instruction) bool { return false }, nil))
		for _, ex := range exits {
			r := ex.Instr.(*ssa.Return)
			guarded := false
			for _, f := range factsAt(r) {
				if f.Kind != factCmp {
					continue
				}
				for _, side := range []ssa.Value{f.X, f.Y} {
					for _, inc := range incs {
						if derives(side, func(v ssa.Value) bool { return v == inc }, false, 8) {
							guarded = true
						}
					}
				}
			}
			if guarded {
				continue
			}
			// accounted into a skipped/failed field?
			acc := false
			for _, in := range instrs(fn, false) {
				switch x := in.(type) {
				case *ssa.Call:
					if strings.HasPrefix(callName(x), "sync/atomic.Add") && len(x.Call.Args) == 2 {
						if _, f, _, ok := fieldOf(x.Call.Args[0]); ok && (strings.Contains(f, "Skipped") || strings.Contains(f, "Failed")) {
							for _, inc := range incs {
								if derives(x.Call.Args[1], func(v ssa.Value) bool { return v == inc }, false, 8) {
									acc = true
								}
							}
						}
					}
				case *ssa.Store:
					if _, f, _, ok := fieldOf(x.Addr); ok && (strings.Contains(f, "Skipped") || strings.Contains(f, "Failed")) {
						for _, inc := range incs {
							if derives(x.Val, func(v ssa.Value) bool { return v == inc }, false, 8) {
								acc = true
							}
						}
					}
				}
			}
			if !acc {
				return false, fmt.Sprintf("after the failure at L%d the function can still return a nil error at L%d, and nothing counted on the failure path guards that return or reaches a skipped/failed counter", c.P.Line(call.Pos()), c.P.Line(r.Pos()))
			}
		}
	}
	return true, ""
}

func runC13(c *Ctx) {
	p := c.P
	c.Rule("C13.ERR", "ERR: an error from the per-file transfer (streamRestoreFile / streamBackupFile) either makes the enclosing function return an error, or is counted in a variable that guards the nil return or reaches the SkippedFiles accounting — never log-and-continue into 'success'")
	c.Rule("C13.STATUS", "DOM: RestoreBackup stores status \"completed\" only on paths where every restore step that ran returned nil")
	c.Rule("C13.WROTE", "PASS: every nil-error return of streamRestoreFile / streamBackupFile passes a destination write (WriteReader/Write) that returned nil")
	c.Rule("C13.INCOMPLETE", "ORDER: the manifest's SkippedFiles is read from the progress counter after the last copyDataFiles call, so skips in any file group mark the backup incomplete; checkSkipRatio is evaluated before the manifest is written")

	type site struct{ fn, callee string }
	for _, s := range []site{
		{"(*internal/backup.Manager).restoreDataFiles", "(*internal/backup.Manager).streamRestoreFile"},
		{"(*internal/backup.Manager).copyDataFiles", "(*internal/backup.Manager).streamBackupFile"},
	} {
		fn := c.MustFunc("C13.ERR", s.fn)
		if fn == nil {
			continue
		}
		calls := findCalls(fn, false, s.callee)
		if len(calls) == 0 {
			c.Unk("C13.ERR", fn.Name()+"|transfer", fn.Pos(), "no call to %s", s.callee)
		}
		for i, call := range calls {
			ok, why := c.errorAccounted(fn, call)
			construct := fmt.Sprintf("%s|transfer-error#%d", fn.Name(), i+1)
			if ok {
				c.OK("C13.ERR", construct, call.Pos(), "a failed file transfer is propagated or counted")
			} else {
				c.Bad("C13.ERR", construct, call.Pos(), "%s: files can be missing while the operation reports success", why)
			}
		}
	}

	// ---- STATUS
	rb := c.MustFunc("C13.STATUS", "(*internal/backup.Manager).RestoreBackup")
	if rb != nil {
		var done *ssa.Store
		for _, in := range instrs(rb, false) {
			if st, ok := in.(*ssa.Store); ok {
				if _, f, _, ok := fieldOf(st.Addr); ok && f == "Status" {
					if s, isC := constString(st.Val); isC && s == "completed" {
						done = st
					}
				}
			}
		}
		if done == nil {
			c.Unk("C13.STATUS", "RestoreBackup|completed", rb.Pos(), "no store of status \"completed\"")
		} else {
			n := 0
			for _, call := range callsIn(rb, false) {
				cal := call.Common().StaticCallee()
				if cal == nil || !strings.HasPrefix(cal.Name(), "restore") && cal.Name() != "GetBackup" {
					continue
				}
				e := errResult(call)
				if e == nil {
					c.Bad("C13.STATUS", "RestoreBackup|"+cal.Name(), call.Pos(), "the error of %s is discarded", cal.Name())
					continue
				}
				n++
				bad := false
				for _, succ := range errorEdges(rb, e) {
					for _, ex := range pathsAvoidingTo(rb, nil, succ, func(ssa.Instruction) bool { return false }, func(x ssa.Instruction) bool { return x == ssa.Instruction(done) }) {
						if ex.Instr == ssa.Instruction(done) {
							bad = true
						}
					}
				}
				c.Check(!bad, "C13.STATUS", "RestoreBackup|"+cal.Name(), call.Pos(), "a failure of "+cal.Name()+" cannot reach status \"completed\"", "after "+cal.Name()+" failed the restore can still be marked completed")
			}
			if n == 0 {
				c.Unk("C13.STATUS", "RestoreBackup|steps", rb.Pos(), "no restore step found")
			}
		}
	}

	// ---- WROTE
	for _, name := range []string{"streamRestoreFile", "streamBackupFile"} {
		fn := c.MustFunc("C13.WROTE", "(*internal/backup.Manager)."+name)
		if fn == nil {
			continue
		}
		isWrite := func(in ssa.Instruction) bool {
			call, ok := in.(*ssa.Call)
			if !ok || !call.Call.IsInvoke() {
				return false
			}
			m := call.Call.Method.Name()
			return m == "WriteReader" || m == "Write"
		}
		exits := successExits(pathsAvoiding(fn, nil, isWrite))
		if len(exits) == 0 {
			c.OK("C13.WROTE", name+"|writes-before-success", fn.Pos(), "every nil-error return passes a destination write")
		} else {
			c.Bad("C13.WROTE", name+"|writes-before-success", exits[0].Instr.Pos(), "%s can return success at L%d without having written the destination: the file is counted as transferred but does not exist there", name, p.Line(exits[0].Instr.Pos()))
		}
		// and the write's error is checked: success return is dominated by write err == nil
		for _, call := range callsIn(fn, false) {
			if !isWrite(call.(ssa.Instruction)) {
				continue
			}
			okAll := true
			for _, in := range instrs(fn, false) {
				r, ok := in.(*ssa.Return)
				if !ok || r.Block() == fn.Recover || classifyErr(returnErrOperand(r), r, nil, 0) == errNonNil {
					continue
				}
				if instrDominates(call.(ssa.Instruction), r) && !callSucceededBefore(call, r) {
					okAll = false
				}
			}
			c.Check(okAll, "C13.WROTE", name+"|write-error-checked", call.Pos(), "success requires the destination write to have returned nil", "a failed destination write does not prevent the success return")
		}
	}

	// ---- INCOMPLETE
	cb := c.MustFunc("C13.INCOMPLETE", "(*internal/backup.Manager).CreateBackup")
	if cb != nil {
		var skStore *ssa.Store
		for _, in := range instrs(cb, false) {
			if st, ok := in.(*ssa.Store); ok {
				if sn, f, _, ok := fieldOf(st.Addr); ok && sn == "Manifest" && f == "SkippedFiles" {
					skStore = st
				}
			}
		}
		if skStore == nil {
			c.Bad("C13.INCOMPLETE", "CreateBackup|manifest-skipped", cb.Pos(), "the manifest never records skipped files")
		} else {
			fromProgress := fieldSources(skStore.Val, 6)["Progress.SkippedFiles"]
			late := true
			copies := findCalls(cb, false, "(*internal/backup.Manager).copyDataFiles")
			for _, cp := range copies {
				for _, ex := range pathsAvoidingTo(cb, skStore, nil, func(ssa.Instruction) bool { return false }, func(x ssa.Instruction) bool { return x == cp.(ssa.Instruction) }) {
					if ex.Instr == cp.(ssa.Instruction) {
						late = false
					}
				}
			}
			switch {
			case !fromProgress:
				c.Bad("C13.INCOMPLETE", "CreateBackup|manifest-skipped", skStore.Pos(), "manifest.SkippedFiles is not taken from the progress counter that copyDataFiles accumulates")
			case !late:
				c.Bad("C13.INCOMPLETE", "CreateBackup|manifest-skipped", skStore.Pos(), "manifest.SkippedFiles is read at L%d, before a later copyDataFiles call: files skipped in that later group are not recorded and the backup claims to be complete", p.Line(skStore.Pos()))
			case len(copies) == 0:
				c.Unk("C13.INCOMPLETE", "CreateBackup|manifest-skipped", skStore.Pos(), "no copyDataFiles call found")
			default:
				c.OK("C13.INCOMPLETE", "CreateBackup|manifest-skipped", skStore.Pos(), "manifest.SkippedFiles is read from the progress counter after all %d copy groups", len(copies))
			}
		}
		// skip ratio evaluated, and its failure aborts
		ratio := findCalls(cb, false, "(*internal/backup.Manager).checkSkipRatio")
		if len(ratio) == 0 {
			c.Bad("C13.INCOMPLETE", "CreateBackup|skip-ratio", cb.Pos(), "CreateBackup never evaluates checkSkipRatio")
		} else {
			e := errResult(ratio[0])
			bad := e == nil
			if e != nil {
				for _, succ := range errorEdges(cb, e) {
					if len(successExits(pathsAvoidingTo(cb, nil, succ, func(ssa.Instruction) bool { return false }, nil))) > 0 {
						bad = true
					}
				}
			}
			c.Check(!bad, "C13.INCOMPLETE", "CreateBackup|skip-ratio", ratio[0].Pos(), "a skip-ratio failure fails the backup", "a failed skip-ratio check does not fail the backup")
		}
	}
}
