package main

import (
	"fmt"
	"go/token"
	"regexp"
	"sort"
	"strings"

	"golang.org/x/tools/go/ssa"
)

func init() {
	register("C14", runC14,
		"lexical adequacy of the masking and comment stripping against DuckDB's lexer (C15), completeness of the oracle tables for the pinned DuckDB (they list the keyword and function spellings confirmed against the embedded engine, not a proof over its grammar), and the RBAC decision itself (C20); decided are: that every endpoint hands SQL to the transform/executor only after validation, header validation, the cross-database rule, SHOW gating and the permission check on that same SQL value, that what is executed derives from the transform's result, that the table-position scanner is armed after every keyword that takes a table reference, that the deny patterns reject every file-reading / SQL-running function and state-changing statement of the oracle tables, that the permission extractor and the rewriter normalise alike and share the identifier table, that header-default substitution is applied on both sides, and that the DuckDB handle is locked down before it is returned")
}

const qh = "(*internal/api.QueryHandler)."

func runC14(c *Ctx) {
	c.Rule("C14.TWOFORMS", "FLOW: in ValidateSQLRequest the I/O-function deny-list and the string-literal-in-table-position test are each applied (also) to text that comes from MaskStringLiterals in that function — whose quote pairing is DuckDB's — and not only to ioDenylistNormalise's output, which deletes double quotes before pairing single ones and is thrown off by a legal identifier such as \"a'b\"")
	if fn := c.MustFunc("C14.TWOFORMS", "internal/api.ValidateSQLRequest"); fn != nil {
		fromMask := func(v ssa.Value) bool {
			return derivesWide(v, isResultOf("internal/sql.MaskStringLiterals"), 30)
		}
		deny, pos := false, false
		nDeny, nPos := 0, 0
		for _, call := range callsIn(fn, false) {
			nm := callName(call)
			if strings.HasPrefix(nm, "(*regexp.Regexp).") {
				if ld, ok := call.Common().Args[0].(*ssa.UnOp); ok {
					if g, ok := ld.X.(*ssa.Global); ok && g.Name() == "ioTableFunctionPattern" {
						nDeny++
						if fromMask(call.Common().Args[1]) {
							deny = true
						}
					}
				}
			}
			if nm == "internal/api.stringLiteralInTablePosition" {
				nPos++
				if fromMask(call.Common().Args[0]) {
					pos = true
				}
			}
		}
		c.Check(deny && nDeny >= 1, "C14.TWOFORMS", "ValidateSQLRequest|denylist-on-correct-mask", fn.Pos(), fmt.Sprintf("%d deny-list match(es), at least one on MaskStringLiterals-derived text", nDeny), "the I/O deny-list is matched only against ioDenylistNormalise's text: `SELECT s.host AS \"a'b\" FROM tenant.cpu, read_parquet('<other db>') s` hides the call inside a mis-paired literal and a tenant-only caller reads another database's files")
		c.Check(pos && nPos >= 1, "C14.TWOFORMS", "ValidateSQLRequest|replacement-scan-on-correct-mask", fn.Pos(), fmt.Sprintf("%d table-position test(s), at least one on MaskStringLiterals-derived text", nPos), "the replacement-scan test runs only on ioDenylistNormalise's text: after `AS \"a'b\"` a '…' path in table position stands outside any placeholder and is executed by DuckDB as a file read")
	}
	transformCacheKeyAll(c, "C14.CACHEKEY")
	c.Rule("C14.GATE", "DOM: in every request handler, each call of getTransformedSQL/getTransformedSQLForParallel is dominated by ValidateSQLRequest(sql)==nil and by checkQueryPermissions(that same sql value, read)==nil; a non-constant header database was validated, and on every path either the header is empty or hasCrossDatabaseSyntax(sql) was false")
	c.Rule("C14.SHOW", "DOM: the transform is reached only where the SHOW patterns did not match the comment-stripped form of that same sql (SHOW statements are answered by the RBAC-gated listing handlers)")
	c.Rule("C14.EXEC", "FLOW: every SQL string handed to the DuckDB query API by the query handlers derives from a transform result (directly, or through a parameter whose every caller passes one)")
	c.Rule("C14.ARM", "AGREE vs oracle: the keywords after which maskedTokenInTablePosition treats the next atom as being in table position include every keyword after which DuckDB accepts a table reference (and therefore a replacement scan)")
	c.Rule("C14.DENY", "PROBE: the deny patterns, extracted from the source and compiled by the checker, reject every file-reading / SQL-running table function and every state-changing or environment-changing statement of the oracle tables")
	c.Rule("C14.LEX", "COVER: the literal masker on which the table-position test and the permission extraction rely recognises DuckDB's dollar-quoted strings with digits in the tag ($t1$…$t1$) — an unrecognised literal in table position is neither refused nor permission-checked, and DuckDB reads the file it names")
	c.Rule("C14.PIPE", "AGREE: the normalisation steps applied before extracting table references for the permission check are the ones applied before rewriting table references, and the identifier table of the mask flows to both")
	c.Rule("C14.HEADER", "FLOW: with a header database, the permission check substitutes it for the default database and the rewriter resolves unqualified tables under it")
	c.Rule("C14.SANDBOX", "PASS: database.New returns a handle only after lockdownExternalAccess returned nil")
	// ---- PREMASK: rewrites that run on the raw text, before literals are masked
	c.Rule("C14.PREMASK", "PROBE: every pattern of the rewrites that run on the raw statement before masking (time_bucket, date_trunc, URL-domain, LIKE reordering) — compiled from the source — only ever matches text in which single quotes are balanced; a match with an odd number of quotes means the replacement adds or drops a quote, and text that validation and the permission check saw as the inside of a literal becomes live SQL")
	{
		type rx struct {
			name string
			re   *regexp.Regexp
			pos  token.Pos
		}
		var rxs []rx
		for _, r := range c18InitRegexes(c.P, "internal/api") {
			switch r.name {
			case "patternTimeBucket2Args", "patternTimeBucket3Args", "patternDateTrunc", "patternEmptyCheckAfterLike", "patternEndEmptyCheck":
				rxs = append(rxs, rx{r.name, r.re, r.call.Pos()})
			}
		}
		for _, fname := range []string{"rewriteURLDomainExtraction", "rewriteURLDomainExtractionExtract"} {
			if fn := c.P.Func("internal/api." + fname); fn != nil {
				for i, call := range findCalls(fn, false, "regexp.MustCompile") {
					if src, ok := constEvalString(call.Common().Args[0], 0); ok {
						if re, err := regexp.Compile(src); err == nil {
							rxs = append(rxs, rx{fmt.Sprintf("%s#%d", fname, i+1), re, call.Pos()})
						}
					}
				}
			}
		}
		bases := []string{
			"SELECT host, time_bucket(INTERVAL '1 hour', time) AS b FROM secretdb.cpu -- ' FROM tenant.cpu",
			"SELECT host, time_bucket('15 minutes', time) AS b FROM secretdb.cpu /* ' */ FROM tenant.cpu",
			"SELECT time_bucket(INTERVAL '1 day', time, TIMESTAMP '2024-01-01 00:00:00') FROM t -- '",
			"SELECT date_trunc('hour', time) FROM t -- '",
			"SELECT REGEXP_EXTRACT(Referer, '^https?://(?:www\\.)?([^/]+)', 1) FROM t -- '",
			"SELECT REGEXP_REPLACE(Referer, '^https?://(?:www\\.)?([^/]+)/.*$', '\\1') FROM t -- '",
			"SELECT * FROM t WHERE url LIKE '%google%' AND title <> '' -- '",
			"SELECT * FROM t WHERE title <> '' AND url LIKE '%google%' -- '",
			"SELECT * FROM t WHERE url LIKE '%google%' AND n = 1 AND title <> '' ORDER BY n",
			"SELECT count(*) FROM t WHERE host LIKE '%a%' AND region = 'x AND v <> '' ORDER BY v'",
			"SELECT * FROM t WHERE url LIKE '%a%' AND x <> '''abc'",
		}
		var corpus []string
		for _, b := range bases {
			corpus = append(corpus, b)
			for i := 0; i < len(b); i++ {
				if b[i] == '\'' {
					corpus = append(corpus, b[:i]+b[i+1:])
				}
			}
		}
		for _, r := range rxs {
			var odd string
			nMatch := 0
			for _, txt := range corpus {
				for _, m := range r.re.FindAllString(txt, -1) {
					nMatch++
					if strings.Count(m, "'")%2 == 1 && odd == "" {
						odd = fmt.Sprintf("%q in %q", m, txt)
					}
				}
			}
			if nMatch == 0 {
				c.Unk("C14.PREMASK", r.name+"|probed", r.pos, "the pattern matches nothing in the probe corpus; the corpus does not cover it")
				continue
			}
			if odd != "" {
				// the pattern alone can straddle a literal; accepted only if the code that applies it tests the quote parity of what it matched
				guarded := false
				for _, fn := range c.P.FuncsIn("internal/api") {
					uses := false
					for _, in := range instrs(fn, true) {
						if ld, ok := in.(*ssa.UnOp); ok {
							if g, ok := ld.X.(*ssa.Global); ok && g.Name() == r.name {
								uses = true
							}
						}
					}
					if !uses {
						continue
					}
					for _, call := range callsIn(fn, true) {
						if callName(call) == "strings.Count" {
							if sv, ok := constString(call.Common().Args[1]); ok && sv == "\x27" {
								for _, ref := range *callValue(call).Referrers() {
									if bo, ok := ref.(*ssa.BinOp); ok && bo.Op == token.REM {
										guarded = true
									}
								}
							}
						}
					}
				}
				if guarded {
					c.OK("C14.PREMASK", r.name+"|balanced-quotes", r.pos, "the pattern can straddle a literal (%s), but the code applying it tests the quote parity of the matched text before rewriting", odd)
					continue
				}
			}
			c.Check(odd == "", "C14.PREMASK", r.name+"|balanced-quotes", r.pos, fmt.Sprintf("%d matches over the corpus, all with balanced quotes", nMatch), "the pre-mask pattern "+r.name+" matches "+odd+" — an odd number of quotes: the rewrite changes where a literal ends, so the statement that is executed is not the one that was validated and permission-checked (`time_bucket('1 hour, time) … FROM secretdb.cpu -- ' FROM tenant.cpu` is checked as tenant.cpu and reads secretdb)")
		}
		c.Floor("C14.PREMASK", 7, "three time patterns, two LIKE patterns, two URL call patterns")
	}

	if dq := c.MustFunc("C14.LEX", "internal/sql.dollarQuoteTag"); dq != nil {
		lo, hi := dollarTagDigitRange(dq)
		c.Check(lo && hi, "C14.LEX", "dollarQuoteTag|digits-after-first", dq.Pos(), "dollar-quote tags may contain digits", "dollarQuoteTag rejects digits inside a tag: `SELECT * FROM $t1$/data/otherdb/m/**/*.parquet$t1$` is a string literal in table position to DuckDB (a replacement scan of that path) but unmasked text here — stringLiteralInTablePosition does not refuse it and the permission extraction finds no table reference")
	}

	c14Gate(c)
	c14Exec(c)
	c14Arm(c)
	c14Deny(c)
	c14Pipe(c)
	c14Sandbox(c)
}

func isTransform(n string) bool {
	return n == qh+"getTransformedSQL" || n == qh+"getTransformedSQLForParallel"
}

func hasFiberCtx(fn *ssa.Function) bool {
	for _, prm := range fn.Params {
		if strings.HasSuffix(prm.Type().String(), "fiber/v2.Ctx") {
			return true
		}
	}
	return false
}

// nilResultFact: at `at`, the error result of some call satisfying pick is known nil.
func nilCallFacts(at ssa.Instruction, pick func(*ssa.Call) bool) []*ssa.Call {
	var out []*ssa.Call
	for _, f := range factsAt(at) {
		if f.Kind != factNil {
			continue
		}
		if cl, ok := f.Val.(*ssa.Call); ok && pick(cl) {
			out = append(out, cl)
		}
		if ex, ok := f.Val.(*ssa.Extract); ok {
			if cl, ok := ex.Tuple.(*ssa.Call); ok && pick(cl) {
				out = append(out, cl)
			}
		}
	}
	return out
}

func sameSQL(a, b ssa.Value) bool { return a == b || samePathValue(a, b) }

func c14Gate(c *Ctx) {
	p := c.P
	n := 0
	for _, fn := range p.FuncsIn("internal/api") {
		if !hasFiberCtx(fn) {
			continue
		}
		for _, call := range callsIn(fn, false) {
			if !isTransform(callName(call)) {
				continue
			}
			n++
			at := call.(ssa.Instruction)
			args := call.Common().Args // recv, ctx, sql, headerDB
			S, H := args[2], args[3]
			construct := fmt.Sprintf("%s.%s|transform#%s", recvTypeName(fn), fn.Name(), siteOrdinal(fn, call))
			var miss []string
			// validation
			if len(nilCallFacts(at, func(cl *ssa.Call) bool {
				return callName(cl) == "internal/api.ValidateSQLRequest" && sameSQL(cl.Call.Args[0], S)
			})) == 0 {
				miss = append(miss, "ValidateSQLRequest(<this sql>) == nil")
			}
			// permission
			isHeaderGet := func(v ssa.Value) bool {
				return derives(v, func(x ssa.Value) bool {
					cl, ok := x.(*ssa.Call)
					if !ok || !strings.HasSuffix(callName(cl), "fiber/v2.Ctx).Get") {
						return false
					}
					k, ok := constString(cl.Call.Args[1])
					return ok && strings.EqualFold(k, "x-arc-database")
				}, true, 6)
			}
			hdrMismatch := ""
			permOK := len(nilCallFacts(at, func(cl *ssa.Call) bool {
				switch callName(cl) {
				case qh + "checkQueryPermissions":
					perm, _ := constString(cl.Call.Args[3])
					if !(sameSQL(cl.Call.Args[2], S) && perm == "read") {
						return false
					}
					// this form resolves unqualified names in the request's x-arc-database header: the transform must get that header too
					if !isHeaderGet(H) {
						hdrMismatch = "the permission check resolves unqualified names in the x-arc-database header's database, but the transform is called with another header value"
					}
					return true
				case qh + "checkQueryPermissionsFor":
					perm, _ := constString(cl.Call.Args[3])
					if !(sameSQL(cl.Call.Args[2], S) && perm == "read") {
						return false
					}
					ch := cl.Call.Args[4]
					s1, c1 := constString(ch)
					s2, c2 := constString(H)
					if !(ch == H || (c1 && c2 && s1 == s2)) {
						hdrMismatch = "the header database given to the permission check is not the one given to the transform"
					}
					return true
				}
				return false
			})) > 0
			if permOK && hdrMismatch != "" {
				miss = append(miss, "agreement on the header database ("+hdrMismatch+": unqualified table names are checked in one database and read from another)")
			}
			if !permOK {
				miss = append(miss, "checkQueryPermissions(<this sql>, \"read\") == nil (every table the statement reads must be permission-checked; a check on path parameters does not cover subqueries in caller-supplied fragments)")
			}
			// header
			if k, isConst := H.(*ssa.Const); !isConst || k.Value == nil {
				if len(nilCallFacts(at, func(cl *ssa.Call) bool {
					return callName(cl) == "internal/api.validateHeaderDatabase" && cl.Call.Args[0] == H
				})) == 0 {
					miss = append(miss, "validateHeaderDatabase(<header>) == nil")
				}
				okCross := func(fs []fact) bool {
					for _, f := range fs {
						if f.Kind == factCmp && f.Op == token.EQL && f.X == H {
							if s, ok := constString(f.Y); ok && s == "" {
								return true
							}
						}
						if f.Kind == factFalse {
							if cl, ok := f.Val.(*ssa.Call); ok && callName(cl) == "internal/api.hasCrossDatabaseSyntax" && sameSQL(cl.Call.Args[0], S) {
								return true
							}
						}
					}
					return false
				}
				if !okCross(factsAt(at)) && !holdsOnAllPaths(at.Block(), okCross, 40, nil) {
					miss = append(miss, "the rule 'header set => no db.table syntax in this sql'")
				}
			}
			if len(miss) == 0 {
				c.OK("C14.GATE", construct, call.Pos(), "validated, permission-checked and header-checked sql reaches the transform")
			} else {
				c.Bad("C14.GATE", construct, call.Pos(), "%s hands sql to the transform/executor without %s", fn.Name(), strings.Join(miss, "; "))
			}
			// SHOW
			if derives(S, func(x ssa.Value) bool {
				if cl, ok := x.(*ssa.Call); ok && callName(cl) == "fmt.Sprintf" {
					if f, ok := constString(cl.Call.Args[0]); ok && strings.HasPrefix(strings.ToUpper(f), "SELECT ") {
						return true
					}
				}
				return false
			}, false, 8) {
				c.Triv("C14.SHOW", construct, call.Pos(), "sql is built by the handler and starts with SELECT")
				continue
			}
			showOK := 0
			for _, f := range factsAt(at) {
				var cl *ssa.Call
				switch f.Kind {
				case factFalse:
					cl, _ = f.Val.(*ssa.Call)
				case factNil:
					cl, _ = f.Val.(*ssa.Call)
				}
				if cl == nil {
					continue
				}
				nm := callName(cl)
				if nm != "(*regexp.Regexp).MatchString" && nm != "(*regexp.Regexp).FindStringSubmatch" {
					continue
				}
				g := ""
				if ld, ok := cl.Call.Args[0].(*ssa.UnOp); ok {
					if gl, ok := ld.X.(*ssa.Global); ok {
						g = gl.Name()
					}
				}
				if g != "showDatabasesPattern" && g != "showTablesPattern" {
					continue
				}
				// matched text derives from normalizeSQLForShow(S)
				if derives(cl.Call.Args[1], func(x ssa.Value) bool {
					nc, ok := x.(*ssa.Call)
					return ok && callName(nc) == "internal/api.normalizeSQLForShow" && sameSQL(nc.Call.Args[0], S)
				}, false, 4) {
					showOK++
				}
			}
			c.Check(showOK >= 2, "C14.SHOW", construct, call.Pos(), "neither SHOW pattern matched the comment-stripped sql", "the transform is reachable with a SHOW DATABASES / SHOW TABLES statement (tested on the comment-stripped form of this sql): it would run in DuckDB with no table references to permission-check")
		}
	}
	if c.P.Config == "prod" {
		c.Floor("C14.GATE", 4, "query, estimate, measurement and arrow endpoints")
	} else {
		c.Floor("C14.GATE", 3, "query, estimate and measurement endpoints (the arrow endpoint needs the duckdb_arrow tag)")
	}
}

// ---------------------------------------------------------------- EXEC

var duckQueryAPI = regexp.MustCompile(`^\(\*internal/database\.DuckDB\)\.(Query|QueryContext|QueryWithProfileContext|ArrowQueryContext|ArrowQueryWithProfileContext|QueryRow|QueryRowContext|Exec|ExecContext)$`)

func c14Exec(c *Ctx) {
	p := c.P
	fromTransform := func(v ssa.Value) bool {
		return derivesWide(v, func(x ssa.Value) bool {
			if ex, ok := x.(*ssa.Extract); ok {
				if cl, ok := ex.Tuple.(*ssa.Call); ok && isTransform(callName(cl)) && ex.Index == 0 {
					return true
				}
			}
			return false
		}, 12)
	}
	var check func(fn *ssa.Function, v ssa.Value, depth int) (bool, string)
	check = func(fn *ssa.Function, v ssa.Value, depth int) (bool, string) {
		if fromTransform(v) {
			return true, ""
		}
		// a parameter (possibly spilled) of fn: every caller must pass a transform result
		pi := c32ParamIndex(fn, v)
		if pi < 0 {
			// derives from a parameter through concatenation?
			var prm *ssa.Parameter
			derivesWide(v, func(x ssa.Value) bool {
				if q, ok := resolveParam(x).(*ssa.Parameter); ok && q.Parent() == fn && strings.Contains(strings.ToLower(q.Name()), "sql") {
					prm = q
				}
				return false
			}, 8)
			if prm == nil {
				return false, "the executed text does not derive from a transform result"
			}
			for i, q := range fn.Params {
				if q == prm {
					pi = i
				}
			}
		}
		if depth <= 0 {
			return false, "caller chain too deep"
		}
		nCallers := 0
		for _, g := range p.FuncsIn("internal/api") {
			for _, sub := range append([]*ssa.Function{g}, allAnon(g)...) {
				for _, call := range callsIn(sub, false) {
					if call.Common().StaticCallee() != fn {
						continue
					}
					nCallers++
					if ok, why := check(sub, call.Common().Args[pi], depth-1); !ok {
						return false, fmt.Sprintf("caller %s: %s", sub.Name(), why)
					}
				}
			}
		}
		if nCallers == 0 {
			return false, "no caller found for " + fn.Name()
		}
		return true, ""
	}
	n := 0
	for _, fn := range p.FuncsIn("internal/api") {
		if recvTypeName(fn) != "QueryHandler" {
			continue
		}
		for _, sub := range append([]*ssa.Function{fn}, allAnon(fn)...) {
			for _, call := range callsIn(sub, false) {
				if !duckQueryAPI.MatchString(callName(call)) {
					continue
				}
				args := call.Common().Args
				var sqlArg ssa.Value
				for _, a := range args[1:] {
					if a.Type().String() == "string" {
						sqlArg = a
						break
					}
				}
				if sqlArg == nil {
					continue
				}
				if _, isConst := sqlArg.(*ssa.Const); isConst {
					continue
				}
				n++
				ok, why := check(sub, sqlArg, 3)
				c.Check(ok, "C14.EXEC", fmt.Sprintf("%s|%s#%s", fn.Name(), callName(call)[strings.LastIndex(callName(call), ".")+1:], siteOrdinal(sub, call)), call.Pos(), "executed text derives from the transform of the gated sql", "DuckDB is handed sql that is not the transform of the gated request sql: "+why)
			}
		}
	}
	if c.P.Config == "prod" {
		c.Floor("C14.EXEC", 5, "JSON, msgpack, arrow, estimate and measurement execution sites")
	} else {
		c.Floor("C14.EXEC", 4, "execution sites without the duckdb_arrow tag")
	}
}

// ---------------------------------------------------------------- ARM

// c14TableRefKeywords: keywords after which DuckDB accepts a table reference — and so resolves a quoted
// string / path-shaped quoted identifier as a replacement scan. Each row was confirmed against the
// embedded engine through the real query endpoint (findings/C14/c14_demo_test.go).
var c14TableRefKeywords = map[string]string{
	"from":      "FROM <tableref> (also FROM-first SELECT)",
	"join":      "every JOIN flavour ends in the JOIN keyword",
	"table":     "TABLE <tableref> statement, (TABLE x) subquery, DESCRIBE/SUMMARIZE TABLE x, UNION ... TABLE x",
	"describe":  "DESCRIBE <tableref>",
	"desc":      "DESC is DESCRIBE's abbreviation",
	"summarize": "SUMMARIZE <tableref>",
	"show":      "SHOW <tableref> is DESCRIBE",
	"pivot":     "PIVOT <tableref> ON ...",
	"unpivot":   "UNPIVOT <tableref> ON ...",
}

func c14Arm(c *Ctx) {
	fn := c.MustFunc("C14.ARM", "internal/api.maskedTokenInTablePosition")
	if fn == nil {
		return
	}
	armed := c14ArmedKeywords(fn)
	var ks []string
	for k := range c14TableRefKeywords {
		ks = append(ks, k)
	}
	sort.Strings(ks)
	for _, k := range ks {
		c.Check(armed[k], "C14.ARM", "maskedTokenInTablePosition|"+k, fn.Pos(), "next atom after "+strings.ToUpper(k)+" is in table position", fmt.Sprintf("the table-position scanner is not armed after %s (%s): a quoted path there is a replacement scan that neither the replacement-scan check, the I/O denylist nor the permission extractor sees — any other database's files can be read", strings.ToUpper(k), c14TableRefKeywords[k]))
	}
	if len(armed) == 0 {
		c.Unk("C14.ARM", "maskedTokenInTablePosition|arming-set", fn.Pos(), "cannot extract the arming keywords")
	}
}

// c14ArmedKeywords: constants K such that, when the lower-cased token equals K, the loop-carried
// flag afterFromJoin is true at the next iteration.
func c14ArmedKeywords(fn *ssa.Function) map[string]bool {
	out := map[string]bool{}
	// the flag's loop phi: a bool phi in a loop header with a constant-true incoming edge, named afterFromJoin
	var flagPhis []*ssa.Phi
	for _, in := range instrs(fn, false) {
		if phi, ok := in.(*ssa.Phi); ok && phi.Comment == "afterFromJoin" {
			flagPhis = append(flagPhis, phi)
		}
	}
	if len(flagPhis) == 0 {
		return out
	}
	isFlagPhi := func(v ssa.Value) *ssa.Phi {
		for _, p := range flagPhis {
			if v == ssa.Value(p) {
				return p
			}
		}
		return nil
	}
	// header phi = the one whose block is a loop header (has a back edge)
	var header *ssa.Phi
	for _, p := range flagPhis {
		if blockInCycle(p.Block()) && (header == nil || len(p.Edges) > len(header.Edges)) {
			header = p
		}
	}
	if header == nil {
		return out
	}
	for _, in := range instrs(fn, false) {
		bo, ok := in.(*ssa.BinOp)
		if !ok || bo.Op != token.EQL {
			continue
		}
		k, ok := constString(bo.Y)
		if !ok {
			continue
		}
		if cl, ok := bo.X.(*ssa.Call); !ok || callName(cl) != "strings.ToLower" {
			continue
		}
		var ifi *ssa.If
		for _, r := range *bo.Referrers() {
			if x, ok := r.(*ssa.If); ok {
				ifi = x
			}
		}
		if ifi == nil {
			continue
		}
		// walk from the true successor to the header; resolve the flag value on arrival
		prev, cur := ifi.Block(), ifi.Block().Succs[0]
		steps := 0
		val := ssa.Value(nil)
		for cur != header.Block() && steps < 50 {
			steps++
			// a phi of the flag in this block picks the edge we came through
			for _, in2 := range cur.Instrs {
				if p2, ok := in2.(*ssa.Phi); ok && isFlagPhi(p2) != nil {
					for i, pb := range cur.Preds {
						if pb == prev {
							val = p2.Edges[i]
						}
					}
				}
			}
			if len(cur.Succs) != 1 {
				// a branch on the way (e.g. fromClauseTerminator in the default arm): not an arming arm
				val = nil
				break
			}
			prev, cur = cur, cur.Succs[0]
		}
		if cur != header.Block() {
			continue
		}
		for i, pb := range header.Block().Preds {
			if pb == prev {
				v := header.Edges[i]
				if p2 := isFlagPhi(v); p2 != nil && val != nil {
					v = val
				}
				if kc, ok := v.(*ssa.Const); ok && kc.Value != nil && kc.Value.String() == "true" {
					out[k] = true
				}
			}
		}
	}
	return out
}

// ---------------------------------------------------------------- DENY

// c14FileFunctions: DuckDB table functions that read a file named by an argument or run SQL text.
var c14FileFunctions = []string{
	"read_parquet", "parquet_scan", "parquet_metadata", "parquet_schema", "parquet_file_metadata", "parquet_kv_metadata",
	"parquet_bloom_probe", "parquet_full_metadata", "read_csv", "read_csv_auto", "sniff_csv", "read_json", "read_json_auto",
	"read_json_objects", "read_json_objects_auto", "read_ndjson", "read_ndjson_auto", "read_ndjson_objects", "read_text",
	"read_blob", "glob", "query", "query_table",
}

// c14Statements: statements that change engine state, the environment or the file system.
var c14Statements = []string{
	"DROP TABLE t", "DROP VIEW v", "DELETE FROM t", "TRUNCATE TABLE t", "ALTER TABLE t ADD COLUMN c INT", "CREATE TABLE t (a INT)",
	"INSERT INTO t VALUES (1)", "UPDATE t SET a = 1", "ATTACH 'x.db' AS x", "DETACH x", "COPY t TO 'f.csv'", "COPY (SELECT 1) TO 'f.csv'",
	"EXPORT DATABASE 'd'", "IMPORT DATABASE 'd'", "PRAGMA database_list", "SET memory_limit='1GB'", "SET VARIABLE x = 1", "RESET memory_limit",
	"LOAD httpfs", "INSTALL httpfs", "CALL pragma_version()", "CALL(x)", "CREATE SECRET s (TYPE S3)", "CREATE OR REPLACE SECRET s (TYPE S3)", "DROP SECRET s",
}

func c14Deny(c *Ctx) {
	p := c.P
	pats := map[string]*regexp.Regexp{}
	for _, g := range []string{"dangerousSQLPattern", "ioTableFunctionPattern"} {
		src, ok := c14GlobalRegexSource(p, "internal/api", g)
		if !ok {
			c.Unk("C14.DENY", g+"|source", 0, "cannot reconstruct the pattern text of %s from the package initialiser", g)
			continue
		}
		re, err := regexp.Compile(src)
		if err != nil {
			c.Unk("C14.DENY", g+"|source", 0, "pattern of %s does not compile in the checker: %v", g, err)
			continue
		}
		pats[g] = re
	}
	if len(pats) < 2 {
		return
	}
	for _, f := range c14FileFunctions {
		probes := []string{"select * from " + f + "('x')", "SELECT * FROM " + strings.ToUpper(f) + " ('x')", "select * from t, " + f + "(\n'x')"}
		ok := true
		for _, pr := range probes {
			if !pats["ioTableFunctionPattern"].MatchString(pr) && !pats["dangerousSQLPattern"].MatchString(pr) {
				ok = false
			}
		}
		c.Check(ok, "C14.DENY", "function|"+f, 0, "rejected in every spelling probed", "the deny patterns do not reject the table function "+f+"(): user SQL can read a file (or run SQL text) named in a string literal, outside every permission check")
	}
	for _, s := range c14Statements {
		ok := pats["dangerousSQLPattern"].MatchString(s) && pats["dangerousSQLPattern"].MatchString(strings.ToLower(s))
		c.Check(ok, "C14.DENY", "statement|"+s, 0, "rejected", "the deny pattern does not reject the statement: "+s)
	}
}

// c14GlobalRegexSource reconstructs the constant string passed to regexp.MustCompile for a package-level pattern.
func c14GlobalRegexSource(p *Prog, pkg, global string) (string, bool) {
	sp := p.SSAPkgs[pkg]
	if sp == nil {
		return "", false
	}
	init := sp.Func("init")
	if init == nil {
		return "", false
	}
	for _, in := range instrs(init, false) {
		st, ok := in.(*ssa.Store)
		if !ok {
			continue
		}
		g, ok := st.Addr.(*ssa.Global)
		if !ok || g.Name() != global {
			continue
		}
		cl, ok := st.Val.(*ssa.Call)
		if !ok || callName(cl) != "regexp.MustCompile" {
			continue
		}
		return constEvalString(cl.Call.Args[0], 0)
	}
	return "", false
}

// constEvalString evaluates a string expression made of constants, concatenation and strings.Join over a slice literal.
func constEvalString(v ssa.Value, d int) (string, bool) {
	if d > 40 {
		return "", false
	}
	switch x := v.(type) {
	case *ssa.Const:
		return constString(x)
	case *ssa.BinOp:
		if x.Op != token.ADD {
			return "", false
		}
		a, ok1 := constEvalString(x.X, d+1)
		b, ok2 := constEvalString(x.Y, d+1)
		return a + b, ok1 && ok2
	case *ssa.Call:
		if callName(x) == "strings.Join" {
			sep, ok := constString(x.Call.Args[1])
			if !ok {
				return "", false
			}
			elems, ok := sliceLiteralStrings(x.Call.Args[0])
			if !ok {
				return "", false
			}
			return strings.Join(elems, sep), true
		}
	}
	return "", false
}

func sliceLiteralStrings(v ssa.Value) ([]string, bool) {
	sl, ok := v.(*ssa.Slice)
	if !ok {
		return nil, false
	}
	arr, ok := sl.X.(*ssa.Alloc)
	if !ok {
		return nil, false
	}
	m := map[int64]string{}
	max := int64(-1)
	for _, r := range *arr.Referrers() {
		ia, ok := r.(*ssa.IndexAddr)
		if !ok {
			continue
		}
		idx, ok := constInt(ia.Index)
		if !ok {
			return nil, false
		}
		for _, r2 := range *ia.Referrers() {
			if st, ok := r2.(*ssa.Store); ok && st.Addr == ssa.Value(ia) {
				s, ok := constString(st.Val)
				if !ok {
					return nil, false
				}
				m[idx] = s
				if idx > max {
					max = idx
				}
			}
		}
	}
	out := make([]string, 0, max+1)
	for i := int64(0); i <= max; i++ {
		s, ok := m[i]
		if !ok {
			return nil, false
		}
		out = append(out, s)
	}
	return out, len(out) > 0
}

// ---------------------------------------------------------------- PIPE + HEADER

var c14Normalisers = []string{
	"internal/sql.MaskStringLiterals", "internal/sql.MaskFromKeywordsInFunctionBodies", "internal/api.stripSQLComments",
}

func c14Pipe(c *Ctx) {
	// permission side
	cp := c.MustFunc("C14.PIPE", qh+"checkQueryPermissionsFor")
	if cp == nil {
		return
	}
	orderOf := map[*ssa.Function]string{}
	chain := func(fn *ssa.Function, sink func(ssa.CallInstruction) (ssa.Value, bool)) (map[string]bool, bool, bool) {
		steps := map[string]bool{}
		found, ident := false, false
		for _, call := range callsIn(fn, true) {
			v, ok := sink(call)
			if !ok {
				continue
			}
			if !found {
				// order of the normaliser calls that dominate the first sink
				var seq []ssa.CallInstruction
				for _, nc := range callsIn(fn, false) {
					for _, n := range c14Normalisers {
						if callName(nc) == n && nc.Parent() == call.Parent() && instrDominates(nc.(ssa.Instruction), call.(ssa.Instruction)) {
							seq = append(seq, nc)
						}
					}
				}
				sort.SliceStable(seq, func(i, j int) bool { return instrDominates(seq[i].(ssa.Instruction), seq[j].(ssa.Instruction)) })
				var names []string
				for _, nc := range seq {
					n := callName(nc)
					names = append(names, n[strings.LastIndex(n, ".")+1:])
				}
				orderOf[fn] = strings.Join(names, " -> ")
			}
			found = true
			derivesWide(v, func(x ssa.Value) bool {
				if cl, ok := x.(*ssa.Call); ok {
					for _, n := range c14Normalisers {
						if callName(cl) == n {
							steps[n] = true
						}
					}
				}
				return false
			}, 80)
		}
		for _, call := range callsIn(fn, true) {
			if callName(call) == "internal/sql.IdentifierNames" {
				// fed by the masks of the same MaskStringLiterals call
				if derivesWide(call.Common().Args[0], func(x ssa.Value) bool {
					cl, ok := x.(*ssa.Call)
					return ok && callName(cl) == "internal/sql.MaskStringLiterals"
				}, 6) {
					ident = true
				}
			}
		}
		return steps, found, ident
	}
	permSteps, okP, identP := chain(cp, func(call ssa.CallInstruction) (ssa.Value, bool) {
		if callName(call) == "internal/api.extractTableReferences" {
			return call.Common().Args[0], true
		}
		return nil, false
	})
	if !okP {
		c.Bad("C14.PIPE", "checkQueryPermissions|extractor", cp.Pos(), "checkQueryPermissions does not call extractTableReferences")
		return
	}
	for _, n := range c14Normalisers {
		c.Check(permSteps[n], "C14.PIPE", "checkQueryPermissions|"+n[strings.LastIndex(n, ".")+1:], cp.Pos(), "applied before extracting table references", "the permission check extracts table references from sql that did not pass "+n+": a reference hidden from the extractor (in a comment, a literal, a function body) is still rewritten and executed")
	}
	c.Check(identP, "C14.PIPE", "checkQueryPermissions|identifier-table", cp.Pos(), "quoted names are resolved through the mask's identifier table", "the permission check does not resolve quoted identifiers through the mask's identifier table")
	// rewrite side
	for _, name := range []string{"convertSQLToStoragePaths", "convertSQLToStoragePathsWithHeaderDB"} {
		fn := c.MustFunc("C14.PIPE", qh+name)
		if fn == nil {
			continue
		}
		steps, ok, ident := chain(fn, func(call ssa.CallInstruction) (ssa.Value, bool) {
			n := callName(call)
			if n == "(*regexp.Regexp).ReplaceAllStringFunc" || n == "internal/api.replaceTableRefs" {
				// the text being rewritten
				args := call.Common().Args
				if n == "internal/api.replaceTableRefs" {
					return args[0], true
				}
				return args[1], true
			}
			return nil, false
		})
		if !ok {
			c.Unk("C14.PIPE", name+"|rewrite", fn.Pos(), "no table-reference rewrite found in %s", name)
			continue
		}
		for _, n := range c14Normalisers {
			c.Check(steps[n] == permSteps[n], "C14.PIPE", name+"|"+n[strings.LastIndex(n, ".")+1:], fn.Pos(), "same step on the permission side and the rewrite side", fmt.Sprintf("%s is applied on one side only (permission check: %v, %s: %v): the two can disagree on which tables a statement references", n, permSteps[n], name, steps[n]))
		}
		c.Check(ident == identP, "C14.PIPE", name+"|identifier-table", fn.Pos(), "identifier table used on both sides", "quoted identifiers are resolved on one side only")
		c.Check(orderOf[fn] == orderOf[cp] && orderOf[fn] != "", "C14.PIPE", name+"|step-order", fn.Pos(), "both sides normalise in the order "+orderOf[fn], fmt.Sprintf("the permission check normalises in the order [%s] but %s in the order [%s]: text that one order masks and the other strips (a quote inside a comment, a comment marker inside a literal) makes the two sides see different table references", orderOf[cp], name, orderOf[fn]))
	}

	// HEADER: permission side substitutes header for "default"
	hdr := false
	for _, in := range instrs(cp, false) {
		st, ok := in.(*ssa.Store)
		if !ok {
			continue
		}
		if sn, f, _, ok := fieldOf(st.Addr); ok && sn == "TableReference" && f == "Database" {
			// the header reaches the check as its headerDB parameter; the implicit form passes c.Get("x-arc-database")
			fromHeader := derives(st.Val, func(x ssa.Value) bool {
				if prm, ok := resolveParam(x).(*ssa.Parameter); ok && prm.Name() == "headerDB" {
					return true
				}
				cl, ok := x.(*ssa.Call)
				if !ok || callName(cl) != "(*github.com/gofiber/fiber/v2.Ctx).Get" {
					return false
				}
				s, _ := constString(cl.Call.Args[1])
				return strings.EqualFold(s, "x-arc-database")
			}, false, 6)
			guarded := false
			for _, f := range factsAt(st) {
				if f.Kind == factCmp && f.Op == token.EQL {
					if s, ok := constString(f.Y); ok && s == "default" {
						guarded = true
					}
				}
			}
			if fromHeader && guarded {
				hdr = true
			}
		}
	}
	if impl := c.P.Func(qh + "checkQueryPermissions"); impl != nil {
		deleg := false
		for _, call := range findCalls(impl, false, qh+"checkQueryPermissionsFor") {
			a := call.Common().Args
			if len(a) == 5 {
				if cl, ok := a[4].(*ssa.Call); ok && strings.HasSuffix(callName(cl), "fiber/v2.Ctx).Get") {
					if k, ok := constString(cl.Call.Args[1]); ok && strings.EqualFold(k, "x-arc-database") {
						deleg = true
					}
				}
			}
		}
		c.Check(deleg, "C14.HEADER", "checkQueryPermissions|delegates-with-request-header", impl.Pos(), "the implicit form passes the request's x-arc-database header", "checkQueryPermissions does not hand the request's x-arc-database header to checkQueryPermissionsFor")
	}
	c.Check(hdr, "C14.HEADER", "checkQueryPermissions|default-becomes-header", cp.Pos(), "references to the default database are checked under the header database", "the permission check does not substitute the x-arc-database header for the default database although the rewriter resolves unqualified tables under the header: a caller allowed to read default.<m> reads <header>.<m>")
	if wh := c.MustFunc("C14.HEADER", qh+"convertSQLToStoragePathsWithHeaderDB"); wh != nil {
		uses := false
		for _, sub := range append([]*ssa.Function{wh}, allAnon(wh)...) {
			for _, call := range callsIn(sub, false) {
				n := callName(call)
				if n == qh+"getStoragePath" || n == qh+"buildReadParquetExprForMeasurement" {
					for _, a := range call.Common().Args[1:] {
						if derivesWide(a, func(x ssa.Value) bool {
							if fv, ok := x.(*ssa.FreeVar); ok && fv.Name() == "database" {
								return true
							}
							return isParam(wh, "database")(resolveParam(x))
						}, 6) {
							uses = true
						}
					}
				}
			}
		}
		c.Check(uses, "C14.HEADER", "convertSQLToStoragePathsWithHeaderDB|paths-under-header", wh.Pos(), "unqualified tables resolve under the header database", "the header-database rewriter does not build paths from its database parameter")
	}
}

// ---------------------------------------------------------------- SANDBOX

func c14Sandbox(c *Ctx) {
	// New -> configureDatabase -> lockdownExternalAccess: at each level every non-error return follows a nil result of the next
	chain := [][2]string{
		{"internal/database.New", "internal/database.configureDatabase"},
		{"internal/database.configureDatabase", "internal/database.lockdownExternalAccess"},
	}
	for _, lk := range chain {
		fn := c.MustFunc("C14.SANDBOX", lk[0])
		if fn == nil {
			continue
		}
		short := lk[0][strings.LastIndex(lk[0], ".")+1:]
		callee := lk[1][strings.LastIndex(lk[1], ".")+1:]
		var inner ssa.CallInstruction
		for _, call := range findCalls(fn, false, lk[1]) {
			inner = call
		}
		if inner == nil {
			c.Bad("C14.SANDBOX", short+"|calls-"+callee, fn.Pos(), "%s never calls %s: the DuckDB handle is handed out without the file-access lockdown", short, callee)
			continue
		}
		n, bad := 0, 0
		for _, in := range instrs(fn, false) {
			ret, ok := in.(*ssa.Return)
			if !ok || ret.Block() == fn.Recover || len(ret.Results) < 1 {
				continue
			}
			if classifyErr(unspill(ret, ret.Results[len(ret.Results)-1]), ret, nil, 0) == errNonNil {
				continue
			}
			n++
			if !callSucceededBefore(inner, ret) {
				bad++
			}
		}
		c.Check(n > 0 && bad == 0, "C14.SANDBOX", short+"|"+callee+"-before-success", inner.Pos(), "every successful return follows a nil result of "+callee, short+" can return success without "+callee+" having succeeded: user SQL then runs against a DuckDB that can read any file the process can")
	}
}
