package main

import (
	"fmt"
	"go/token"
	"sort"
	"strings"

	"golang.org/x/tools/go/ssa"
)

func init() {
	register("C15", runC15,
		"agreement with DuckDB's lexer over all inputs (nested block comments, carriage-return line ends, quotes inside comments, Unicode), and round-trip equality on concrete queries — these are statements about two lexers on every string; decided are lexical facts of the masker and the comment stripper that the DuckDB lexer fixes and whose violation was shown to change what executes: that a backslash is no escape in a standard literal or quoted identifier, that E-string scanning consumes escape pairs, that dollar-quote tags admit digits after the first character, that every mask records the exact source slice and quoted identifiers are deduplicated by that exact text, that placeholder-shaped input text is masked, that unmasking uses the recorded originals, and that the block-comment scanner starts its search after the opener and drops the tail only when the comment is unterminated")
}

func runC15(c *Ctx) {
	c.Rule("C15.SHAPE", "SIBLING: placeholder-shaped input is neutralised wherever it occurs, because unmasking replaces placeholders as substrings: placeholderShapedAt looks only forward from the position it is given — it never inspects the byte before it and never asks whether a neighbour is an identifier byte")
	if fn := c.MustFunc("C15.SHAPE", "internal/sql.placeholderShapedAt"); fn != nil {
		var bad []string
		for _, in := range instrs(fn, false) {
			if call, ok := in.(ssa.CallInstruction); ok {
				nm := callName(call)
				if callee := call.Common().StaticCallee(); callee != nil && callee.Pkg == fn.Pkg {
					// any same-package helper: the function needs none to test the forward shape
					bad = append(bad, "calls "+callee.Name())
				} else if strings.HasPrefix(nm, "unicode.Is") {
					bad = append(bad, "calls "+nm)
				}
			}
			var idx ssa.Value
			switch x := in.(type) {
			case *ssa.Lookup:
				idx = x.Index
			case *ssa.Index:
				idx = x.Index
			}
			if bo, ok := idx.(*ssa.BinOp); ok && bo.Op == token.SUB {
				if _, isParam := bo.X.(*ssa.Parameter); isParam {
					bad = append(bad, "reads the byte before the position")
				}
			}
		}
		sort.Strings(bad)
		c.Check(len(bad) == 0, "C15.SHAPE", "placeholderShapedAt|substring-semantics", fn.Pos(), "shape test is position-local and forward-only", "placeholderShapedAt makes the match depend on its neighbours ("+strings.Join(bad, "; ")+"): a look-alike glued to an identifier (`x__STR_0__`) stays in the masked text, and UnmaskStringLiterals — which replaces substrings — splices a real literal into it (`SELECT x'v' …`): the statement executed is not the one validated")
	}
	p := c.P
	c.Rule("C15.BACKSLASH", "WHO: MaskStringLiterals compares no byte with a backslash (the doubled quote is the only escape in '…' and \"…\"), and nowhere in internal/sql is a quote's predecessor byte (index i-1) compared with a backslash — escapes are consumed as pairs going forward")
	c.Rule("C15.DOLLAR", "COVER: dollarQuoteTag admits digits in a tag, except as its first character")
	c.Rule("C15.EXACT", "FLOW: every StringMask.Original is a slice of the sql parameter, and the de-duplication map of quoted identifiers is keyed by that same value")
	c.Rule("C15.PLACEHOLDER", "FLOW: placeholders are formatted from a counter that is incremented with every mask appended, and input text that already has placeholder shape is itself masked")
	c.Rule("C15.UNMASK", "FLOW: UnmaskStringLiterals replaces each mask's Placeholder by that same mask's Original, in a single pass that never rescans restored text")
	c.Rule("C15.COMMENT", "ORDER: in stripSQLComments the search for the closing */ starts two bytes after the opener, and the rest of the input is dropped only where no closing marker was found")

	mk := c.MustFunc("C15.BACKSLASH", "internal/sql.MaskStringLiterals")
	if mk == nil {
		return
	}
	// ---- BACKSLASH
	nb := 0
	for _, in := range instrs(mk, false) {
		if bo, ok := in.(*ssa.BinOp); ok && (bo.Op == token.EQL || bo.Op == token.NEQ) {
			if k, ok := constInt(bo.Y); ok && k == '\\' {
				nb++
			}
		}
	}
	c.Check(nb == 0, "C15.BACKSLASH", "MaskStringLiterals|no-backslash-escape", mk.Pos(), "the quote scanner knows only the doubled-quote escape", fmt.Sprintf("MaskStringLiterals tests for a backslash (%d comparison(s)): DuckDB ends 'a\\' at that quote, so treating \\' as escaped hides the following SQL — which DuckDB executes — inside a placeholder no check inspects", nb))
	nLook := 0
	for _, fn := range p.FuncsIn("internal/sql") {
		for _, in := range instrs(fn, true) {
			bo, ok := in.(*ssa.BinOp)
			if !ok || (bo.Op != token.EQL && bo.Op != token.NEQ) {
				continue
			}
			if k, ok := constInt(bo.Y); !ok || k != '\\' {
				continue
			}
			// operand: s[i-1] ?
			var idx ssa.Value
			switch x := bo.X.(type) {
			case *ssa.Lookup:
				idx = x.Index
			case *ssa.Index:
				idx = x.Index
			case *ssa.UnOp:
				if ia, ok := x.X.(*ssa.IndexAddr); ok {
					idx = ia.Index
				}
			}
			if sub, ok := idx.(*ssa.BinOp); ok && sub.Op == token.SUB {
				if one, ok := constInt(sub.Y); ok && one == 1 {
					nLook++
					c.Bad("C15.BACKSLASH", fn.Name()+"|look-back-escape", bo.Pos(), "%s decides whether a quote is escaped by looking at the byte before it: an escaped backslash before the closing quote (E'a\\\\') is misread and the literal runs on past its end", fn.Name())
				}
			}
		}
	}
	if nLook == 0 {
		c.OK("C15.BACKSLASH", "internal/sql|no-look-back-escape", 0, "no scanner decides escaping by looking back one byte")
	}
	if sq := c.MustFunc("C15.BACKSLASH", "internal/sql.scanQuoted"); sq != nil {
		// the backslash arm advances by two
		ok := false
		for _, in := range instrs(sq, false) {
			bo, isB := in.(*ssa.BinOp)
			if !isB || bo.Op != token.ADD {
				continue
			}
			if k, isK := constInt(bo.Y); isK && k == 2 {
				for _, f := range factsAt(bo) {
					if f.Kind == factCmp && f.Op == token.EQL {
						if ch, isC := constInt(f.Y); isC && ch == '\\' {
							ok = true
						}
					}
				}
			}
		}
		c.Check(ok, "C15.BACKSLASH", "scanQuoted|escape-pair-consumed", sq.Pos(), "in an E-string a backslash and the byte after it are skipped together", "scanQuoted does not consume a backslash together with the byte it escapes")
	}

	// ---- SCAN: the feature scan is stateless
	c.Rule("C15.SCAN", "FLOW: scanSQLFeatures — which decides whether masking and comment stripping run at all — is stateless: every branch condition depends only on the bytes at the current position, the length, the position itself and the flags already set, never on a loop-carried scanner state (a second, cheaper lexer that tries to skip quoted text must agree with the masker on E-strings and dollar quotes, and where it does not a comment DuckDB sees is never stripped); and the marker bytes ', \", $, -, /, * are all among the constants it compares with")
	if fn := c.MustFunc("C15.SCAN", "internal/api.scanSQLFeatures"); fn != nil {
		isHeaderPhi := func(ph *ssa.Phi) bool {
			for _, pr := range ph.Block().Preds {
				if ph.Block().Dominates(pr) {
					return true
				}
			}
			return false
		}
		isIndexPhi := func(ph *ssa.Phi) bool {
			for _, e := range ph.Edges {
				if bo, ok := e.(*ssa.BinOp); ok && bo.Op == token.ADD && bo.X == ssa.Value(ph) {
					if _, ok := constInt(bo.Y); ok {
						return true
					}
				}
			}
			return false
		}
		var stateful []string
		nIf := 0
		consts := map[int64]bool{}
		for _, in := range instrs(fn, false) {
			if bo, ok := in.(*ssa.BinOp); ok {
				if k, ok := constInt(bo.Y); ok {
					consts[k] = true
				}
			}
			ifi, ok := in.(*ssa.If)
			if !ok {
				continue
			}
			nIf++
			seen := map[ssa.Value]bool{}
			var rec func(v ssa.Value, d int)
			rec = func(v ssa.Value, d int) {
				if v == nil || seen[v] || d > 30 {
					return
				}
				seen[v] = true
				switch x := v.(type) {
				case *ssa.Phi:
					if isHeaderPhi(x) && !isIndexPhi(x) {
						name := x.Comment
						if name == "" {
							name = x.Name()
						}
						stateful = append(stateful, fmt.Sprintf("%s (line %d)", name, p.Line(ifi.Cond.Pos())))
						return
					}
					for _, e := range x.Edges {
						rec(e, d+1)
					}
				case *ssa.BinOp:
					rec(x.X, d+1)
					rec(x.Y, d+1)
				case *ssa.UnOp:
					if x.Op == token.MUL {
						// a load: of a flag field of the local result struct is fine; of any other cell is state
						if fa, ok := x.X.(*ssa.FieldAddr); ok {
							if _, ok := fa.X.(*ssa.Alloc); ok && strings.HasSuffix(fa.X.Type().String(), "sqlFeatures") {
								return
							}
						}
						if a, ok := x.X.(*ssa.Alloc); ok {
							stateful = append(stateful, fmt.Sprintf("cell %s (line %d)", a.Comment, p.Line(ifi.Cond.Pos())))
							return
						}
					}
					rec(x.X, d+1)
				case *ssa.Lookup:
					rec(x.X, d+1)
					rec(x.Index, d+1)
				case *ssa.Index:
					rec(x.X, d+1)
					rec(x.Index, d+1)
				case *ssa.Convert:
					rec(x.X, d+1)
				case *ssa.Call:
					for _, a := range x.Call.Args {
						rec(a, d+1)
					}
				}
			}
			rec(ifi.Cond, 0)
		}
		sort.Strings(stateful)
		c.Check(len(stateful) == 0 && nIf >= 3, "C15.SCAN", "scanSQLFeatures|stateless", fn.Pos(), fmt.Sprintf("%d branch conditions, all functions of the current bytes, position and flags", nIf), "scanSQLFeatures branches on scanner state carried between positions ("+strings.Join(stateful, ", ")+"): it skips text it believes to be quoted, but the masker ends E'…\\'…' and $tag$…'…$tag$ elsewhere — after such a literal the scan never sees a following comment, reports `no comments`, and the comment DuckDB ignores stays in the text that validation, the permission check and the rewriter read")
		var missing []string
		for _, k := range []int64{'\'', '"', '$', '-', '/', '*'} {
			if !consts[k] {
				missing = append(missing, fmt.Sprintf("%q", rune(k)))
			}
		}
		c.Check(len(missing) == 0, "C15.SCAN", "scanSQLFeatures|marker-bytes", fn.Pos(), "all six marker bytes are compared", "scanSQLFeatures never compares with "+strings.Join(missing, ", ")+": text opened by that byte is not masked / not stripped")
	}

	// ---- DOLLAR
	if dq := c.MustFunc("C15.DOLLAR", "internal/sql.dollarQuoteTag"); dq != nil {
		lo, hi := dollarTagDigitRange(dq)
		c.Check(lo && hi, "C15.DOLLAR", "dollarQuoteTag|digits-after-first", dq.Pos(), "tags may contain digits", "dollarQuoteTag rejects digits inside a tag: $a1$…$a1$ is a string to DuckDB but stays unmasked here, so its body is scanned (and rewritten) as SQL while a path inside it is a replacement scan to DuckDB")
	}

	// ---- EXACT
	nOrig, badOrig := 0, 0
	var identKeyOK, identSeen bool
	for _, in := range instrs(mk, false) {
		st, ok := in.(*ssa.Store)
		if !ok {
			continue
		}
		if sn, f, _, ok := fieldOf(st.Addr); ok && sn == "StringMask" && f == "Original" {
			nOrig++
			if sl, ok := st.Val.(*ssa.Slice); !ok || !isParam(mk, "sql")(resolveParam(sl.X)) {
				badOrig++
			}
		}
	}
	for _, in := range instrs(mk, false) {
		var key ssa.Value
		switch x := in.(type) {
		case *ssa.MapUpdate:
			if strings.HasPrefix(x.Map.Type().String(), "map[string]string") {
				key = x.Key
			}
		case *ssa.Lookup:
			if strings.HasPrefix(x.X.Type().Underlying().String(), "map[string]string") {
				key = x.Index
			}
		}
		if key == nil {
			continue
		}
		identSeen = true
		if sl, ok := key.(*ssa.Slice); ok && isParam(mk, "sql")(resolveParam(sl.X)) {
			identKeyOK = true
		} else {
			identKeyOK = false
			c.Bad("C15.EXACT", "MaskStringLiterals|ident-dedup-key", in.Pos(), "quoted identifiers are de-duplicated under a key that is not their exact source text: two spellings that differ (for instance only in case) share one placeholder and unmasking restores both as the first spelling")
			break
		}
	}
	c.Check(nOrig >= 4 && badOrig == 0, "C15.EXACT", "MaskStringLiterals|original-is-source-slice", mk.Pos(), fmt.Sprintf("all %d masks record sql[start:end]", nOrig), fmt.Sprintf("%d of %d masks record something other than the exact source slice as Original: masking followed by unmasking does not return the original text", badOrig, nOrig))
	if identSeen && identKeyOK {
		c.OK("C15.EXACT", "MaskStringLiterals|ident-dedup-key", mk.Pos(), "identifier placeholders are shared only between byte-identical quoted tokens")
	} else if !identSeen {
		c.Unk("C15.EXACT", "MaskStringLiterals|ident-dedup-key", mk.Pos(), "no identifier de-duplication map found")
	}

	// ---- PLACEHOLDER
	shaped := reaches(mk, func(call ssa.CallInstruction) bool {
		if callName(call) != "strings.HasPrefix" && callName(call) != "strings.Contains" && callName(call) != "strings.Index" {
			return false
		}
		for _, a := range call.Common().Args {
			if s, ok := constString(a); ok && strings.HasPrefix(s, "__STR_") {
				return true
			}
		}
		return false
	}, 2, nil)
	if !shaped {
		// the prefixes may sit in an array literal ranged over
		for _, fn := range p.FuncsIn("internal/sql") {
			if fn.Name() != "placeholderShapedAt" {
				continue
			}
			for _, in := range instrs(fn, false) {
				if st, ok := in.(*ssa.Store); ok {
					if s, ok := constString(st.Val); ok && s == "__STR_" {
						shaped = len(findCalls(mk, false, "internal/sql.placeholderShapedAt")) > 0
					}
				}
			}
		}
	}
	if shaped {
		// ... and what it finds is recorded as a mask: some Original ends at the index the detector returned
		rec := false
		for _, in := range instrs(mk, false) {
			st, ok := in.(*ssa.Store)
			if !ok {
				continue
			}
			if sn, f, _, ok := fieldOf(st.Addr); ok && sn == "StringMask" && f == "Original" {
				if sl, ok := st.Val.(*ssa.Slice); ok && sl.High != nil {
					if cl, ok := sl.High.(*ssa.Call); ok && callName(cl) == "internal/sql.placeholderShapedAt" {
						// taken whenever the detector reported a match (result > 0)
						for _, f := range factsAt(st) {
							if f.Kind == factCmp && f.X == ssa.Value(cl) {
								if z, ok := constInt(f.Y); ok && ((f.Op == token.GTR && z == 0) || (f.Op == token.NEQ && z == 0) || (f.Op == token.GEQ && z == 1)) {
									rec = true
								}
							}
						}
					}
				}
			}
		}
		shaped = rec
	}
	c.Check(shaped, "C15.PLACEHOLDER", "MaskStringLiterals|masks-placeholder-shaped-input", mk.Pos(), "input text of placeholder shape is masked too", "MaskStringLiterals passes input text that already looks like __STR_n__ / __IDENT_n__ through unmasked: unmasking then puts a literal into it and the executed statement differs from the one sent")
	// counter increments: every append to masks is followed by an increment of the counter on all paths before the next append
	nApp, nInc := 0, 0
	for _, in := range instrs(mk, false) {
		if cl, ok := in.(*ssa.Call); ok && cl.Call.Value.Name() == "append" && strings.Contains(cl.Type().String(), "StringMask") {
			nApp++
		}
		if bo, ok := in.(*ssa.BinOp); ok && bo.Op == token.ADD {
			if k, ok := constInt(bo.Y); ok && k == 1 {
				if phi, ok := bo.X.(*ssa.Phi); ok && phi.Comment == "maskIndex" {
					nInc++
				}
			}
		}
	}
	c.Check(nApp > 0 && nInc >= nApp, "C15.PLACEHOLDER", "MaskStringLiterals|counter-per-mask", mk.Pos(), fmt.Sprintf("%d masks appended, %d counter increments", nApp, nInc), fmt.Sprintf("%d masks are appended but the placeholder counter is incremented only %d times: two masks can share a placeholder", nApp, nInc))

	// ---- UNMASK
	if um := c.MustFunc("C15.UNMASK", "internal/sql.UnmaskStringLiterals"); um != nil {
		// (a) single pass: no strings.Replace/ReplaceAll applied repeatedly (in a loop) to the text being restored
		nLoopRepl := 0
		for _, call := range callsIn(um, false) {
			cn := callName(call)
			if (cn == "strings.Replace" || cn == "strings.ReplaceAll") && blockInCycle(call.Block()) {
				nLoopRepl++
			}
		}
		c.Check(nLoopRepl == 0, "C15.UNMASK", "UnmaskStringLiterals|single-pass", um.Pos(), "placeholders are restored in one pass (no replace-in-a-loop over already restored text)", "UnmaskStringLiterals restores the placeholders one after the other with strings.Replace: each step rescans what earlier steps put back, so a literal whose body has placeholder shape ('__IDENT_1__') gets a later mask's original spliced into it — and an identifier's original may contain a quote, which turns the rest of it into live SQL that no validator or permission check saw (a tenant-only caller read another database's file this way)")
		// (b) the pairs handed to the replacer are (Placeholder, Original) of the same mask
		nRepl := 0
		for _, call := range callsIn(um, false) {
			cn := callName(call)
			switch cn {
			case "strings.NewReplacer":
				nRepl++
				fs := fieldSources(call.Common().Args[0], 12)
				c.Check(fs["StringMask.Placeholder"] && fs["StringMask.Original"], "C15.UNMASK", "UnmaskStringLiterals|pairs", call.Pos(), "replacer pairs are built from each mask's Placeholder and Original", "the replacer's pairs are not built from the masks' Placeholder and Original fields")
				// order inside a pair: in the append that builds the pairs, Placeholder comes first
				for _, ap := range callsIn(um, false) {
					if b, ok := ap.Common().Value.(*ssa.Builtin); !ok || b.Name() != "append" {
						continue
					}
					vals := bindArgs(ap)
					if len(vals) == 2 && vals[0] != nil && vals[1] != nil {
						f0, f1 := fieldSources(vals[0], 4), fieldSources(vals[1], 4)
						c.Check(f0["StringMask.Placeholder"] && f1["StringMask.Original"] && !f1["StringMask.Placeholder"], "C15.UNMASK", "UnmaskStringLiterals|pair-order", ap.Pos(), "placeholder first, original second", "a pair is not (placeholder, original) of one mask")
					}
				}
			case "strings.Replace", "strings.ReplaceAll":
				nRepl++
				a := call.Common().Args
				fo, fn2 := fieldSources(a[1], 4), fieldSources(a[2], 4)
				c.Check(fo["StringMask.Placeholder"] && fn2["StringMask.Original"] && !fn2["StringMask.Placeholder"], "C15.UNMASK", fmt.Sprintf("UnmaskStringLiterals|replace#%d", nRepl), call.Pos(), "placeholder -> original of the same mask", "UnmaskStringLiterals does not replace a mask's placeholder by its recorded original")
			}
		}
		if nRepl == 0 {
			c.Unk("C15.UNMASK", "UnmaskStringLiterals|replace", um.Pos(), "no replacement found")
		}
	}

	// ---- COMMENT
	if sc := c.MustFunc("C15.COMMENT", "internal/api.stripSQLComments"); sc != nil {
		// (a) after the "/*" test succeeds, i advances by 2 before the closing search loop
		adv := false
		nStarAdds := 0
		for _, in := range instrs(sc, false) {
			bo, ok := in.(*ssa.BinOp)
			if !ok || bo.Op != token.ADD {
				continue
			}
			if k, ok := constInt(bo.Y); !ok || k != 2 {
				continue
			}
			star := false
			for _, f := range factsAt(bo) {
				if f.Kind == factCmp && f.Op == token.EQL {
					if ch, ok := constInt(f.Y); ok && ch == '*' {
						star = true
					}
				}
			}
			if star {
				nStarAdds++
			}
		}
		// loop form: both the opener and the closer are skipped with += 2
		adv = nStarAdds >= 2
		// alternative spelling: strings.Index(sql[i+2:], "*/")
		for _, call := range findCalls(sc, false, "strings.Index") {
			if pat, ok := constString(call.Common().Args[1]); !ok || pat != "*/" {
				continue
			}
			adv = false
			if sl, ok := call.Common().Args[0].(*ssa.Slice); ok && sl.Low != nil {
				if bo, ok := sl.Low.(*ssa.BinOp); ok && bo.Op == token.ADD {
					if k, ok := constInt(bo.Y); ok && k == 2 {
						adv = true
					}
				}
			}
		}
		c.Check(adv, "C15.COMMENT", "stripSQLComments|search-starts-after-opener", sc.Pos(), "the cursor skips both bytes of /* before looking for */", "stripSQLComments starts looking for */ before both bytes of the opener were consumed: /*/ is read as a complete comment and the rest of the real comment becomes SQL")
		// (b) i = len(sql) assignment reached only where the comment did not close
		okTail := false
		nTail := 0
		for _, in := range instrs(sc, false) {
			phi, ok := in.(*ssa.Phi)
			if !ok || phi.Comment != "i" {
				continue
			}
			for i, e := range phi.Edges {
				cl, ok := e.(*ssa.Call)
				if !ok || cl.Call.Value.Name() != "len" {
					continue
				}
				nTail++
				pred := phi.Block().Preds[i]
				for _, f := range append(factsAtBlock(pred), blockEdgeFactsDirect(pred, phi.Block())...) {
					if (f.Kind == factFalse || f.Kind == factTrue) && f.Val != nil {
						if p2, ok := f.Val.(*ssa.Phi); ok && strings.Contains(p2.Comment, "closed") && f.Kind == factFalse {
							okTail = true
						}
					}
				}
			}
		}
		c.Check(nTail > 0 && okTail, "C15.COMMENT", "stripSQLComments|tail-dropped-only-if-unterminated", sc.Pos(), "the remainder is dropped only for a comment that never closed", "stripSQLComments can jump to the end of the input although the comment closed: the character after a comment that ends one byte before the end is removed")
	}
}

// dollarTagDigitRange: dollarQuoteTag compares a tag byte against both ends of the digit range.
func dollarTagDigitRange(dq *ssa.Function) (lo, hi bool) {
	for _, in := range instrs(dq, false) {
		if bo, ok := in.(*ssa.BinOp); ok {
			if k, ok := constInt(bo.Y); ok {
				if k == '0' && (bo.Op == token.GEQ || bo.Op == token.LSS) {
					lo = true
				}
				if k == '9' && (bo.Op == token.LEQ || bo.Op == token.GTR) {
					hi = true
				}
			}
		}
	}
	return
}
