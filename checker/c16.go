package main

import (
	"fmt"
	"go/token"
	"go/types"
	"sort"
	"strings"

	"golang.org/x/tools/go/ssa"
)

func init() {
	register("C16", runC16,
		"that Arc's answer equals DuckDB's for every accepted query — that needs both engines run on data; also not decided: case-sensitivity of measurement names (Arc's are, a view's is not), table references in positions the patterns do not know and whose absence no probe here covers, the parallel executor's merge of partial results, and result encoding; decided are structural necessary conditions of `the statement DuckDB executes is the user's statement with exactly its measurement references replaced`: the transform cache is keyed by the exact SQL text (and header), the single-table fast path is entered under the same guards in both of its callers and only for text whose keywords it can count, every string/FROM mask is undone by its own mask set on every exit, each table pattern — compiled from the initialiser — matches every join kind and arbitrary whitespace and its closure reads the capture groups the pattern really binds, join modifiers are re-emitted, CTE names (raw and unquoted) are excluded in every simple-table closure, the database of a reference is the header / `default` / the captured qualifier as the path demands, an operator FROM (IS DISTINCT FROM) is masked, and every table position of the grammar has a rewriting pattern and keeps the table's name as alias (the last two fail today and are reported as known findings)")
}

type c16Closure struct {
	fn      *ssa.Function
	parent  *ssa.Function
	re      c18Regex
	hasRe   bool
	isJoin  bool
	isDB    bool
	gTable  int
	gDB     int
	gPrefix int
}

// c16PartsIndex: v is parts[i] (a load of &parts[i]) for the closure's submatch slice; returns i.
func c16PartsIndex(v ssa.Value) (int64, bool) {
	ld, ok := v.(*ssa.UnOp)
	if !ok || ld.Op != token.MUL {
		return 0, false
	}
	ia, ok := ld.X.(*ssa.IndexAddr)
	if !ok {
		return 0, false
	}
	if !strings.HasSuffix(ia.X.Type().String(), "[]string") {
		return 0, false
	}
	return constInt(ia.Index)
}

// c16FreeVarBinding returns the value bound to free variable fv where the closure is made.
func c16FreeVarBinding(fv *ssa.FreeVar) ssa.Value {
	fn := fv.Parent()
	if fn == nil || fn.Parent() == nil {
		return nil
	}
	idx := -1
	for i, x := range fn.FreeVars {
		if x == fv {
			idx = i
		}
	}
	for _, in := range instrs(fn.Parent(), false) {
		if mc, ok := in.(*ssa.MakeClosure); ok && mc.Fn == ssa.Value(fn) && idx >= 0 && idx < len(mc.Bindings) {
			return mc.Bindings[idx]
		}
	}
	return nil
}

// c16Outer resolves a closure-side value to the enclosing function's value: a free variable (or a load of one) becomes its binding
// (and, for a by-reference capture of a parameter, the parameter).
func c16Outer(v ssa.Value) ssa.Value {
	if ld, ok := v.(*ssa.UnOp); ok && ld.Op == token.MUL {
		if fv, ok := ld.X.(*ssa.FreeVar); ok {
			b := c16FreeVarBinding(fv)
			if a, ok := b.(*ssa.Alloc); ok {
				// the cell: a parameter spilled once?
				var only ssa.Value
				n := 0
				for _, r := range *a.Referrers() {
					if st, ok := r.(*ssa.Store); ok && st.Addr == ssa.Value(a) {
						n++
						only = st.Val
					}
				}
				if n == 1 {
					return only
				}
			}
			return b
		}
	}
	if fv, ok := v.(*ssa.FreeVar); ok {
		return c16FreeVarBinding(fv)
	}
	return v
}

func c16IsResolverCall(v ssa.Value) (*ssa.Call, bool) {
	ex, ok := v.(*ssa.Extract)
	if !ok || ex.Index != 0 {
		return nil, false
	}
	cl, ok := ex.Tuple.(*ssa.Call)
	if !ok || cl.Call.StaticCallee() != nil && cl.Call.StaticCallee().Parent() == nil {
		return nil, false
	}
	if cl.Call.Value.Type().String() != "func(string) (string, bool)" {
		return nil, false
	}
	return cl, true
}

func runC16(c *Ctx) {
	c.Rule("C16.CTEGATE", "COND: in both converters extractCTENames runs unconditionally, or under a test for the bare word `with` — never under a test for the keyword followed by a literal space (WITH may be followed by a line break or a tab, and a missed CTE is rewritten to a storage path)")
	for _, name := range []string{"convertSQLToStoragePaths", "convertSQLToStoragePathsWithHeaderDB"} {
		fn := c.P.Func("(*internal/api.QueryHandler)." + name)
		if fn == nil {
			continue
		}
		for i, call := range findCalls(fn, false, "internal/api.extractCTENames") {
			var spaced []string
			for _, f := range factsAt(call.(ssa.Instruction)) {
				if f.Kind != factTrue {
					continue
				}
				if cl, ok := f.Val.(*ssa.Call); ok && (callName(cl) == "strings.Contains" || callName(cl) == "strings.HasPrefix") {
					if sv, ok := constString(cl.Call.Args[1]); ok && strings.Contains(strings.ToLower(sv), "with") && sv != strings.TrimSpace(sv) {
						spaced = append(spaced, fmt.Sprintf("%q", sv))
					}
				}
			}
			c.Check(len(spaced) == 0, "C16.CTEGATE", fmt.Sprintf("%s|cte-extraction-gate#%d", name, i+1), call.Pos(), "CTE names are extracted whenever the word WITH occurs", name+" extracts CTE names only when the text contains "+strings.Join(spaced, ", ")+": `WITH\\nx AS (…) SELECT … FROM x` is not recognised, `x` is rewritten to the storage path of a measurement called x, and the permission check — which always excludes CTE names — never sees that reference")
		}
	}
	transformCacheKeyAll(c, "C16.KEYALL")
	p := c.P
	c.Rule("C16.KEY", "FLOW: the transform cache key in getTransformedSQL is built from the sql parameter itself (and the header) by concatenation only — no case folding or other normalisation — Get and Set use the same key, and the cached value is the conversion of that same sql/header")
	c.Rule("C16.BYPASS", "DOM+FLOW: the `already transformed` shortcut (return the statement as it is because it names read_parquet) is taken only on a test of literal-masked, comment-stripped text")
	c.Rule("C16.GATE", "SIBLING: both callers of the single-table fast path (header-database conversion and the parallel variant) enter it under the same guards: isSingleTableQuery, no `with `, no FROM-keyword function, no quotes, no dash comment, no block comment")
	c.Rule("C16.WS", "COND: if isSingleTableQuery recognises keywords by constants with a literal space (\"from \", \" join \"), every `true` return is on the no-match side of a test for other whitespace (tab, line breaks)")
	c.Rule("C16.MASK", "ORDER+PAIR: in both converters string literals are masked before FROM keywords, comments are stripped from the masked text, and every exit after masking returns the result of unmasking with the mask sets of those very calls (FROM masks first)")
	c.Rule("C16.GROUPS", "SIBLING: each rewriting closure reads the capture groups its pattern really binds — probing the compiled pattern gives the group of the table, of the database qualifier and of the join prefix, and the closure's parts[i] indexes must be those")
	c.Rule("C16.JOINKW", "PROBE+FLOW: the JOIN patterns match every join kind with the whole modifier inside the prefix group and the match starting on the modifier, and JOIN closures emit joinKeyword(prefix) while FROM closures emit the constant FROM")
	c.Rule("C16.WSPROBE", "PROBE: every table pattern matches across tabs, line breaks and runs of spaces and regardless of keyword case")
	c.Rule("C16.CTE", "DOM: in every simple-table closure the storage path is built only after the CTE set was consulted for the raw and for the unquoted name, shouldSkipTableConversion and isDotOrCallAt all said no")
	c.Rule("C16.DB", "FLOW: the database of a rewritten reference is the header database in the header converter, the constant `default` for unqualified names otherwise, and the captured qualifier for dotted names; the table is the resolved capture")
	c.Rule("C16.OPFROM", "WHO: the FROM-keyword masker also masks a FROM whose previous word is DISTINCT (IS [NOT] DISTINCT FROM is an operator, not a table position)")
	c.Rule("C16.TABLEPOS", "COVER: every table position of a FROM clause has a rewriting pattern: after FROM, after JOIN, and after a comma in the table list")
	c.Rule("C16.ALIAS", "FLOW: a rewritten reference keeps the table's own name as alias, so table-qualified columns (mem.host) keep resolving")

	regs := c18InitRegexes(p, "internal/api")
	byName := map[string]c18Regex{}
	for _, r := range regs {
		byName[r.name] = r
	}

	// ---------------- KEY
	if fn := c.MustFunc("C16.KEY", "(*internal/api.QueryHandler).getTransformedSQL"); fn != nil {
		var pSQL, pHdr *ssa.Parameter
		for _, q := range fn.Params {
			switch q.Name() {
			case "sql":
				pSQL = q
			case "headerDB":
				pHdr = q
			}
		}
		var keys []ssa.Value
		var sets []ssa.CallInstruction
		for _, call := range callsIn(fn, false) {
			nm := callName(call)
			if strings.HasSuffix(nm, "SQLTransformCache).Get") || strings.HasSuffix(nm, "SQLTransformCache).Set") {
				keys = append(keys, call.Common().Args[1])
				if strings.HasSuffix(nm, ".Set") {
					sets = append(sets, call)
				}
			}
		}
		if len(keys) < 2 || pSQL == nil || pHdr == nil {
			c.Unk("C16.KEY", "getTransformedSQL|cache-calls", fn.Pos(), "expected a Get and a Set on the transform cache (found %d) and parameters sql/headerDB", len(keys))
		} else {
			same := true
			for _, k := range keys {
				if k != keys[0] {
					same = false
				}
			}
			c.Check(same, "C16.KEY", "getTransformedSQL|same-key-get-set", fn.Pos(), "Get and Set use one key value", "Get and Set use different key values")
			// leaves
			var bad []string
			usesSQLEveryEdge := true
			usesHdr := false
			var walk func(v ssa.Value, seen map[ssa.Value]bool) (hasSQL bool)
			walk = func(v ssa.Value, seen map[ssa.Value]bool) bool {
				if _, isPhi := v.(*ssa.Phi); isPhi {
					if seen[v] {
						return true
					}
					seen[v] = true
				}
				switch x := v.(type) {
				case *ssa.Parameter:
					if x == pHdr {
						usesHdr = true
					}
					return x == pSQL
				case *ssa.Const:
					return false
				case *ssa.BinOp:
					if x.Op == token.ADD {
						a := walk(x.X, seen)
						b := walk(x.Y, seen)
						return a || b
					}
				case *ssa.Phi:
					all := true
					for _, e := range x.Edges {
						if !walk(e, seen) {
							all = false
						}
					}
					return all
				case *ssa.Call:
					bad = append(bad, callName(x))
					return false
				}
				bad = append(bad, fmt.Sprintf("%T", v))
				return false
			}
			usesSQLEveryEdge = walk(keys[0], map[ssa.Value]bool{})
			sort.Strings(bad)
			switch {
			case len(bad) > 0:
				c.Bad("C16.KEY", "getTransformedSQL|key-is-exact-text", keys[0].Pos(), "the transform cache key passes the SQL through %s: two statements that differ only in what that step erases (the case of a string literal or a quoted name, say) share one cached translation, and the second caller gets the first caller's statement executed", strings.Join(bad, ", "))
			case !usesSQLEveryEdge:
				c.Bad("C16.KEY", "getTransformedSQL|key-is-exact-text", keys[0].Pos(), "the cache key does not contain the sql parameter on every path")
			default:
				c.OK("C16.KEY", "getTransformedSQL|key-is-exact-text", keys[0].Pos(), "key = sql, or header + sep + sql")
			}
			c.Check(usesHdr, "C16.KEY", "getTransformedSQL|key-covers-header", keys[0].Pos(), "key depends on the header database", "the cache key does not depend on the header database: the same text under two x-arc-database headers shares one translation")
			// cached value
			for _, s := range sets {
				val := s.Common().Args[2]
				okv := true
				n := 0
				var chk func(v ssa.Value)
				chk = func(v ssa.Value) {
					switch x := v.(type) {
					case *ssa.Phi:
						for _, e := range x.Edges {
							chk(e)
						}
					case *ssa.Call:
						n++
						nm := callName(x)
						a := x.Call.Args
						switch {
						case strings.HasSuffix(nm, ".convertSQLToStoragePathsWithHeaderDB"):
							if a[2] != ssa.Value(pSQL) || a[3] != ssa.Value(pHdr) {
								okv = false
							}
						case strings.HasSuffix(nm, ".convertSQLToStoragePaths"):
							if a[2] != ssa.Value(pSQL) {
								okv = false
							}
						default:
							okv = false
						}
					default:
						okv = false
					}
				}
				chk(val)
				c.Check(okv && n == 2, "C16.KEY", "getTransformedSQL|cached-value-is-conversion-of-key-text", s.Pos(), "stores the conversion of (sql, headerDB)", "the value stored under the key is not the conversion of that same sql/header")
			}
		}
	}

	// ---------------- BYPASS
	for _, name := range []string{"getTransformedSQL", "getTransformedSQLForParallel"} {
		fn := c.MustFunc("C16.BYPASS", "(*internal/api.QueryHandler)."+name)
		if fn == nil {
			continue
		}
		// Contains(x, "read_parquet") sites, in fn or in a same-package predicate it calls
		type site struct {
			guard ssa.Value // the boolean whose truth leads to the shortcut (in fn)
			arg   ssa.Value // the text tested
			pos   token.Pos
		}
		var sites []site
		isRP := func(call ssa.CallInstruction) bool {
			if callName(call) != "strings.Contains" {
				return false
			}
			s, ok := constString(call.Common().Args[1])
			return ok && s == "read_parquet"
		}
		for _, call := range callsIn(fn, false) {
			if isRP(call) {
				sites = append(sites, site{callValue(call), call.Common().Args[0], call.Pos()})
				continue
			}
			callee := call.Common().StaticCallee()
			if callee == nil || callee.Pkg != fn.Pkg || callValue(call) == nil || callValue(call).Type().String() != "bool" {
				continue
			}
			for _, inner := range callsIn(callee, false) {
				if isRP(inner) {
					sites = append(sites, site{callValue(call), inner.Common().Args[0], inner.Pos()})
				}
			}
		}
		// the shortcut: a return of the sql parameter itself under one of those guards
		n := 0
		for _, in := range instrs(fn, false) {
			r, ok := in.(*ssa.Return)
			if !ok {
				continue
			}
			if prm, ok := resolveParam(unspill(r, r.Results[0])).(*ssa.Parameter); !ok || prm.Name() != "sql" {
				continue
			}
			var guards []site
			for _, st := range sites {
				if guardedTrue(r, st.guard) {
					guards = append(guards, st)
				}
			}
			if len(guards) == 0 {
				continue
			}
			n++
			normalised := false
			for _, st := range guards {
				if derivesWide(st.arg, isResultOf("internal/api.ioDenylistNormalise", "internal/sql.MaskStringLiterals", "internal/api.stripSQLComments"), 12) {
					normalised = true
				}
			}
			c.Check(normalised, "C16.BYPASS", name+"|already-transformed-shortcut", r.Pos(), "the shortcut is taken on a test of literal-masked, comment-free text", name+" returns the statement untransformed whenever its raw text contains `read_parquet` — also inside a string literal or a comment: `SELECT … FROM cpu WHERE msg = 'read_parquet failed'` is executed with cpu unrewritten and fails with `Table with name cpu does not exist`")
		}
		c.Check(n >= 1, "C16.BYPASS", name+"|shortcut-found", fn.Pos(), "shortcut located", "the already-transformed shortcut was not found (rule needs review)")
	}

	// ---------------- GATE
	{
		type site struct {
			name   string
			fn     *ssa.Function
			callee string
		}
		sites := []site{
			{"convertSQLToStoragePathsWithHeaderDB", p.Func("(*internal/api.QueryHandler).convertSQLToStoragePathsWithHeaderDB"), "(*internal/api.QueryHandler).convertSingleTableQuery"},
			{"getTransformedSQLForParallel", p.Func("(*internal/api.QueryHandler).getTransformedSQLForParallel"), "(*internal/api.QueryHandler).convertSingleTableQueryForParallel"},
		}
		required := []string{"single=T", "with=F", "fromfn=F", "hasQuotes=F", "hasDashComment=F", "hasBlockComment=F"}
		for _, s := range sites {
			if s.fn == nil {
				c.Unk("C16.GATE", s.name+"|function", 0, "function not found")
				continue
			}
			calls := findCalls(s.fn, false, s.callee)
			if len(calls) != 1 {
				c.Unk("C16.GATE", s.name+"|fast-path-call", s.fn.Pos(), "expected one call of %s, found %d", s.callee, len(calls))
				continue
			}
			have := map[string]bool{}
			for _, f := range factsAt(calls[0]) {
				if f.Kind != factTrue && f.Kind != factFalse {
					continue
				}
				tf := "T"
				if f.Kind == factFalse {
					tf = "F"
				}
				switch x := f.Val.(type) {
				case *ssa.Call:
					switch nm := callName(x); {
					case nm == "internal/api.isSingleTableQuery":
						have["single="+tf] = true
					case strings.HasSuffix(nm, ".ContainsFromKeywordFunction"):
						have["fromfn="+tf] = true
					case nm == "strings.Contains":
						if s, ok := constString(x.Call.Args[1]); ok && strings.TrimSpace(s) == "with" {
							have["with="+tf] = true
						}
					}
				default:
					if sn, fld, _, ok := loadedField(f.Val); ok && sn == "sqlFeatures" {
						have[fld+"="+tf] = true
					} else if fx, ok := f.Val.(*ssa.Field); ok {
						have[c16FieldName(fx)+"="+tf] = true
					}
				}
			}
			for _, r := range required {
				c.Check(have[r], "C16.GATE", s.name+"|"+r, calls[0].Pos(), "fast path entered only when "+r, fmt.Sprintf("%s enters the single-table fast path without the guard %s that the sibling caller has: the fast path finds the table by the first \"from \" and scans identifier bytes, so quoted names, comments and keyword-bearing function bodies it cannot handle are left unrewritten or mis-cut", s.name, r))
			}
		}
	}

	// ---------------- WS
	if fn := c.MustFunc("C16.WS", "internal/api.isSingleTableQuery"); fn != nil {
		spaced := 0
		for _, call := range callsIn(fn, false) {
			switch callName(call) {
			case "strings.Count", "strings.Contains", "strings.Index":
				if s, ok := constString(call.Common().Args[1]); ok && s != strings.TrimSpace(s) {
					spaced++
				}
			}
		}
		if spaced == 0 {
			c.OK("C16.WS", "isSingleTableQuery|no-space-bearing-keywords", fn.Pos(), "keywords are not recognised through literal spaces")
		} else {
			var guard *ssa.Call
			for _, call := range callsIn(fn, false) {
				switch callName(call) {
				case "strings.ContainsAny", "strings.IndexAny":
					if s, ok := constString(call.Common().Args[1]); ok && strings.Contains(s, "\t") && strings.Contains(s, "\n") && strings.Contains(s, "\r") {
						guard, _ = call.(*ssa.Call)
					}
				}
			}
			n := 0
			okAll := guard != nil
			for _, in := range instrs(fn, false) {
				r, ok := in.(*ssa.Return)
				if !ok {
					continue
				}
				if k, ok := unspill(r, r.Results[0]).(*ssa.Const); ok && k.Value != nil && k.Value.String() == "true" {
					n++
					if guard != nil {
						held := guardedFalse(r, guard)
						if !held {
							// IndexAny(...) < 0 form
							for _, f := range factsAt(r) {
								if f.Kind == factCmp && f.X == ssa.Value(guard) && f.Op == token.LSS {
									held = true
								}
							}
						}
						if !held {
							okAll = false
						}
					}
				}
			}
			c.Check(okAll && n > 0, "C16.WS", "isSingleTableQuery|other-whitespace-refused", fn.Pos(), fmt.Sprintf("%d space-bearing keyword tests, all behind a tab/line-break refusal", spaced), "isSingleTableQuery counts \"from \" and looks for \" join \" with plain spaces but does not refuse text with tabs or line breaks: in `FROM cpu c\\nJOIN mem m` or `… IN (SELECT host FROM\\nmem)` the second reference is not seen, the fast path rewrites only the first table and the query fails with `Table with name mem does not exist`")
		}
	}

	// ---------------- converters: MASK, closures
	var closures []c16Closure
	for _, name := range []string{"convertSQLToStoragePaths", "convertSQLToStoragePathsWithHeaderDB"} {
		fn := c.MustFunc("C16.MASK", "(*internal/api.QueryHandler)."+name)
		if fn == nil {
			continue
		}
		one := func(suffix string) *ssa.Call {
			var out *ssa.Call
			n := 0
			for _, call := range callsIn(fn, false) {
				if strings.HasSuffix(callName(call), suffix) {
					out, _ = call.(*ssa.Call)
					n++
				}
			}
			if n != 1 {
				return nil
			}
			return out
		}
		m1, m2 := one("internal/sql.MaskStringLiterals"), one("internal/sql.MaskFromKeywordsInFunctionBodies")
		u1, u2 := one("internal/sql.UnmaskStringLiterals"), one("internal/sql.UnmaskFromKeywordsInFunctionBodies")
		sc := one("internal/api.stripSQLComments")
		if m1 == nil || m2 == nil || u1 == nil || u2 == nil || sc == nil {
			c.Unk("C16.MASK", name+"|mask-calls", fn.Pos(), "expected exactly one of each mask/unmask/strip call")
		} else {
			isExtract := func(v ssa.Value, call *ssa.Call, idx int) bool {
				ex, ok := v.(*ssa.Extract)
				return ok && ex.Tuple == ssa.Value(call) && ex.Index == idx
			}
			from := func(v ssa.Value, call *ssa.Call) bool {
				return derivesWide(v, func(x ssa.Value) bool { return isExtract(x, call, 0) || x == ssa.Value(call) }, 60)
			}
			c.Check(from(m2.Call.Args[0], m1), "C16.MASK", name+"|literals-masked-before-from-keywords", m2.Pos(), "FROM masker runs on literal-masked text", "the FROM-keyword masker runs on text whose string literals are not masked: a FROM inside a literal in a function body is masked and the literal comes back altered")
			c.Check(from(sc.Call.Args[0], m2), "C16.MASK", name+"|comments-stripped-from-masked-text", sc.Pos(), "comments stripped after masking", "comments are stripped from unmasked text: `--` or `/*` inside a string literal cuts the statement")
			c.Check(isExtract(u2.Call.Args[1], m2, 1) && isExtract(u1.Call.Args[1], m1, 1), "C16.MASK", name+"|unmask-with-own-mask-sets", u1.Pos(), "each unmask gets the mask set of its own mask call", "an unmask call is handed another mask set than the one its mask call returned")
			chain := instrDominates(m1, m2) && instrDominates(m2, sc) && instrDominates(sc, u2) && instrDominates(u2, u1)
			rewritesBefore := true
			for _, call := range callsIn(fn, false) {
				nm := callName(call)
				if nm == "internal/api.replaceTableRefs" || nm == "(*regexp.Regexp).ReplaceAllStringFunc" {
					if !instrDominates(sc, call) || !instrDominates(call, u2) {
						rewritesBefore = false
					}
				}
			}
			c.Check(rewritesBefore, "C16.MASK", name+"|rewrites-between-strip-and-unmask", u2.Pos(), "every table rewrite runs on masked, comment-free text", "a table rewrite runs before masking/stripping or after unmasking: it can match inside a string literal or a comment")
			c.Check(chain && from(u2.Call.Args[0], sc) && from(u1.Call.Args[0], u2), "C16.MASK", name+"|unmask-order", u1.Pos(), "FROM masks restored, then literals", "unmasking does not run on the rewritten text in the order FROM masks, then literals")
			n := 0
			for _, in := range instrs(fn, false) {
				r, ok := in.(*ssa.Return)
				if !ok || !instrDominates(m1, r) {
					continue
				}
				n++
				c.Check(instrDominates(u1, r) && from(unspill(r, r.Results[0]), u1), "C16.MASK", fmt.Sprintf("%s|exit#%d-after-masking-unmasks", name, n), r.Pos(), "exit returns the unmasked text", "an exit after masking returns text that still carries placeholders")
			}
			c.Check(n >= 1, "C16.MASK", name+"|has-exit-after-masking", fn.Pos(), "exit found", "no exit after masking")
		}
		for _, a := range fn.AnonFuncs {
			if len(findCalls(a, false, "(*internal/api.QueryHandler).getStoragePath")) == 0 {
				continue
			}
			cl := c16Closure{fn: a, parent: fn}
			// the pattern
			for _, in := range instrs(fn, false) {
				mc, ok := in.(*ssa.MakeClosure)
				if !ok || mc.Fn != ssa.Value(a) {
					continue
				}
				for _, r := range *mc.Referrers() {
					call, ok := r.(*ssa.Call)
					if !ok {
						continue
					}
					for _, arg := range call.Call.Args {
						if g := c18GlobalOf(arg); g != nil {
							if rx, ok := byName[g.Name()]; ok {
								cl.re, cl.hasRe = rx, true
							}
						}
					}
				}
			}
			closures = append(closures, cl)
		}
	}
	c.Floor("C16.MASK", 12, "two converters")

	// ---------------- per-closure rules
	joinKinds := []string{"JOIN", "INNER JOIN", "LEFT JOIN", "RIGHT JOIN", "FULL JOIN", "LEFT OUTER JOIN", "RIGHT OUTER JOIN", "FULL OUTER JOIN", "CROSS JOIN", "NATURAL JOIN", "NATURAL LEFT JOIN", "SEMI JOIN", "ANTI JOIN", "ASOF JOIN", "ASOF LEFT JOIN", "POSITIONAL JOIN", "JOIN LATERAL", "LEFT JOIN LATERAL", "CROSS JOIN LATERAL"}
	seenRe := map[string]bool{}
	for i := range closures {
		cl := &closures[i]
		cname := cl.parent.Name() + "$" + strings.TrimPrefix(cl.fn.Name(), cl.parent.Name()+"$")
		if !cl.hasRe {
			c.Unk("C16.GROUPS", cname+"|pattern", cl.fn.Pos(), "cannot find the pattern this closure is used with")
			continue
		}
		re := cl.re.re
		cl.isJoin = re.MatchString("a LEFT JOIN tbl b") || re.MatchString("a LEFT JOIN dbx.tbl b")
		probe := "SELECT 1 FROM tbl WHERE"
		if cl.isJoin {
			probe = "SELECT 1 FROM a LEFT JOIN tbl b ON"
		}
		nsub := re.NumSubexp()
		cl.isDB = (cl.isJoin && nsub == 3) || (!cl.isJoin && nsub == 2)
		if cl.isDB {
			probe = strings.Replace(probe, "tbl", "dbx.tbl", 1)
		}
		m := re.FindStringSubmatch(probe)
		if m == nil {
			c.Unk("C16.GROUPS", cname+"|probe", cl.re.call.Pos(), "pattern %q does not match the probe %q", cl.re.src, probe)
			continue
		}
		cl.gTable, cl.gDB, cl.gPrefix = -1, -1, -1
		for gi := 1; gi < len(m); gi++ {
			switch {
			case m[gi] == "tbl":
				cl.gTable = gi
			case m[gi] == "dbx":
				cl.gDB = gi
			case strings.Contains(m[gi], "JOIN"):
				cl.gPrefix = gi
			}
		}
		// the closure's reads
		a := cl.fn
		gsp := findCalls(a, false, "(*internal/api.QueryHandler).getStoragePath")[0]
		dbArg, tblArg := gsp.Common().Args[1], gsp.Common().Args[2]
		// table
		tcall, ok := c16IsResolverCall(tblArg)
		ti := int64(-1)
		if ok {
			ti, _ = c16PartsIndex(tcall.Call.Args[0])
		}
		c.Check(ok && int(ti) == cl.gTable, "C16.GROUPS", cname+"|table-group", gsp.Pos(), fmt.Sprintf("table = resolve(parts[%d]), the pattern's table group", cl.gTable), fmt.Sprintf("the closure builds the path from parts[%d] but %s binds the table in group %d", ti, cl.re.name, cl.gTable))
		// database
		header := strings.HasSuffix(cl.parent.Name(), "WithHeaderDB")
		switch {
		case cl.isDB:
			dcall, ok := c16IsResolverCall(dbArg)
			di := int64(-1)
			if ok {
				di, _ = c16PartsIndex(dcall.Call.Args[0])
			}
			c.Check(ok && int(di) == cl.gDB, "C16.GROUPS", cname+"|database-group", gsp.Pos(), fmt.Sprintf("database = resolve(parts[%d]), the pattern's qualifier group", cl.gDB), fmt.Sprintf("the closure takes the database from parts[%d] but %s binds the qualifier in group %d", di, cl.re.name, cl.gDB))
			c.OK("C16.DB", cname+"|database", gsp.Pos(), "dotted reference: database is the captured qualifier")
		case header:
			outer := c16Outer(dbArg)
			prm, ok := outer.(*ssa.Parameter)
			c.Check(ok && prm.Name() == "database", "C16.DB", cname+"|database", gsp.Pos(), "unqualified reference resolves in the header database", "an unqualified reference in the header-database converter is not resolved in the header database")
		default:
			s, ok := constString(dbArg)
			c.Check(ok && s == "default", "C16.DB", cname+"|database", gsp.Pos(), "unqualified reference resolves in `default`", "an unqualified reference without header is not resolved in the `default` database")
		}
		// keyword
		for _, call := range callsIn(a, false) {
			if !strings.HasSuffix(callName(call), ".buildReadParquetExpr") {
				continue
			}
			args := call.Common().Args
			kw := args[len(args)-1]
			if cl.isJoin {
				jc, ok := kw.(*ssa.Call)
				pi := int64(-1)
				if ok && callName(jc) == "internal/api.joinKeyword" {
					pi, _ = c16PartsIndex(jc.Call.Args[0])
				}
				c.Check(int(pi) == cl.gPrefix && cl.gPrefix > 0, "C16.JOINKW", cname+"|emits-captured-join-prefix", call.Pos(), fmt.Sprintf("emits joinKeyword(parts[%d])", cl.gPrefix), "a JOIN closure does not re-emit the captured join prefix: LEFT/RIGHT/FULL OUTER joins are demoted to inner joins, NATURAL and ASOF lose their meaning")
			} else {
				s, ok := constString(kw)
				c.Check(ok && s == "FROM", "C16.JOINKW", cname+"|emits-from", call.Pos(), "emits FROM", "a FROM closure emits another keyword than FROM")
			}
			// the path handed on is the one built from this reference, and the SQL is the original statement
			c.Check(args[2] == callValue(gsp), "C16.DB", cname+"|path-is-this-reference", call.Pos(), "read_parquet gets the path built for this reference", "read_parquet is built from another path than the one of this reference")
		}
		// CTE / skip guards
		if !cl.isDB {
			nCTE, rawCTE, resCTE, skip, dot := 0, false, false, false, false
			for _, f := range factsAt(gsp) {
				if f.Kind != factFalse {
					continue
				}
				switch x := f.Val.(type) {
				case *ssa.Lookup:
					if x.X.Type().String() == "map[string]bool" {
						nCTE++
						if derives(x.Index, func(v ssa.Value) bool { _, ok := c16IsResolverCall(v); return ok }, true, 6) {
							resCTE = true
						} else {
							rawCTE = true
						}
					}
				case *ssa.Call:
					switch callName(x) {
					case "internal/api.shouldSkipTableConversion":
						skip = true
					case "internal/api.isDotOrCallAt":
						dot = true
					}
				}
			}
			c.Check(rawCTE && resCTE, "C16.CTE", cname+"|cte-excluded-raw-and-unquoted", gsp.Pos(), fmt.Sprintf("%d CTE lookups (raw and unquoted name) precede the path", nCTE), "the storage path is built without consulting the CTE set for both the raw token and the unquoted name: `WITH x AS (…) SELECT … FROM x` (or FROM \"x\") reads a measurement called x instead of the CTE")
			c.Check(skip, "C16.CTE", cname+"|skip-list", gsp.Pos(), "system/function prefixes are left alone", "references to read_parquet/information_schema/pg_/duckdb_ are rewritten to storage paths")
			c.Check(dot, "C16.CTE", cname+"|qualifier-or-call-left-alone", gsp.Pos(), "a token followed by `.` or `(` is left alone", "a database qualifier or a table function name is rewritten as a measurement")
		}
		// pattern probes (once per pattern)
		if seenRe[cl.re.name] {
			continue
		}
		seenRe[cl.re.name] = true
		tbl := "tbl"
		if cl.isDB {
			tbl = "dbx.tbl"
		}
		kws := []string{"FROM"}
		if cl.isJoin {
			kws = joinKinds
		}
		var bad []string
		for _, kw := range kws {
			for _, sep := range []string{" ", "\t", "\n", "   ", "\r\n", " \n\t "} {
				for _, cs := range []func(string) string{strings.ToUpper, strings.ToLower, func(s string) string { return strings.Title(strings.ToLower(s)) }} {
					text := "x " + strings.ReplaceAll(cs(kw), " ", sep) + sep + tbl + " y"
					mm := re.FindStringSubmatch(text)
					if mm == nil || mm[cl.gTable] != "tbl" {
						bad = append(bad, fmt.Sprintf("%q", text))
					}
				}
			}
		}
		if len(bad) == 0 {
			c.OK("C16.WSPROBE", cl.re.name+"|whitespace-and-case", cl.re.call.Pos(), "%d keyword forms × 6 separators × 3 casings all bind the table", len(kws))
		} else {
			c.Bad("C16.WSPROBE", cl.re.name+"|whitespace-and-case", cl.re.call.Pos(), "pattern %s does not bind the table in %s (and %d more): the reference is left unrewritten and DuckDB reports a missing table", cl.re.name, bad[0], len(bad)-1)
		}
		if cl.isJoin {
			var badk []string
			for _, kw := range joinKinds {
				text := "a x " + kw + " " + tbl + " y"
				loc := re.FindStringSubmatchIndex(text)
				if loc == nil {
					badk = append(badk, kw+" (no match)")
					continue
				}
				prefix := text[loc[2*cl.gPrefix]:loc[2*cl.gPrefix+1]]
				if strings.Join(strings.Fields(prefix), " ") != kw || loc[0] != strings.Index(text, kw) {
					badk = append(badk, fmt.Sprintf("%s (prefix %q, match at %d)", kw, prefix, loc[0]))
				}
			}
			if len(badk) == 0 {
				c.OK("C16.JOINKW", cl.re.name+"|every-join-kind", cl.re.call.Pos(), "%d join kinds: whole modifier inside the prefix group", len(joinKinds))
			} else {
				c.Bad("C16.JOINKW", cl.re.name+"|every-join-kind", cl.re.call.Pos(), "pattern %s does not keep the whole join operator in its prefix group for: %s — the rewritten statement joins differently (or glues tokens together)", cl.re.name, strings.Join(badk, "; "))
			}
		}
	}
	c.Floor("C16.GROUPS", 8, "six closures, two of them with a qualifier group")
	c.Floor("C16.CTE", 12, "four simple-table closures × three guards")
	c.Floor("C16.DB", 10, "six closures")

	// ---------------- TABLEPOS
	{
		covered := false
		for name := range seenRe {
			re := byName[name].re
			for _, loc := range re.FindAllStringSubmatchIndex("SELECT 1 FROM aaa x, bbb y WHERE x.k = y.k", -1) {
				if strings.Contains("SELECT 1 FROM aaa x, bbb y WHERE x.k = y.k"[loc[0]:loc[1]], "bbb") {
					covered = true
				}
			}
		}
		if covered {
			c.OK("C16.TABLEPOS", "table-list|comma-position", 0, "a pattern rewrites the reference after a comma")
		} else {
			c.Bad("C16.TABLEPOS", "table-list|comma-position", 0, "no table pattern covers the position after a comma in a FROM list: in `FROM cpu c, mem m WHERE …` only cpu is rewritten and the query fails with `Table with name mem does not exist`, where DuckDB over views answers")
		}
	}

	// ---------------- ALIAS
	for i := range closures {
		cl := &closures[i]
		if cl.isDB || !cl.hasRe {
			continue
		}
		cname := cl.parent.Name() + "$" + strings.TrimPrefix(cl.fn.Name(), cl.parent.Name()+"$")
		gsp := findCalls(cl.fn, false, "(*internal/api.QueryHandler).getStoragePath")[0]
		alias := false
		for _, in := range instrs(cl.fn, false) {
			r, ok := in.(*ssa.Return)
			if !ok || !instrDominates(gsp, r) {
				continue
			}
			// does the returned text derive from the resolved name other than through the path?
			seen := map[ssa.Value]bool{}
			var rec func(v ssa.Value, d int) bool
			rec = func(v ssa.Value, d int) bool {
				if v == nil || seen[v] || d > 20 {
					return false
				}
				seen[v] = true
				if _, ok := c16IsResolverCall(v); ok {
					return true
				}
				if _, ok := c16PartsIndex(v); ok {
					if i, _ := c16PartsIndex(v); int(i) == cl.gTable {
						return true
					}
				}
				switch x := v.(type) {
				case *ssa.BinOp:
					return rec(x.X, d+1) || rec(x.Y, d+1)
				case *ssa.Phi:
					for _, e := range x.Edges {
						if rec(e, d+1) {
							return true
						}
					}
				case *ssa.Call:
					if x == gsp.(*ssa.Call) {
						return false
					}
					for _, a := range x.Call.Args {
						if rec(a, d+1) {
							return true
						}
					}
				}
				return false
			}
			if rec(unspill(r, r.Results[0]), 0) {
				alias = true
			}
		}
		if alias {
			c.OK("C16.ALIAS", cname+"|keeps-table-name", gsp.Pos(), "the replacement text carries the table's name")
		} else {
			c.Bad("C16.ALIAS", cname+"|keeps-table-name", gsp.Pos(), "the replacement is `KEYWORD read_parquet(path, options)` and nothing else: the table's own name is gone, so a statement that qualifies columns by it (`… FROM mem WHERE mem.host = cpu.host`) fails with `Referenced table \"mem\" not found` where DuckDB over views answers")
		}
	}

	// ---------------- OPFROM
	if fn := c.MustFunc("C16.OPFROM", "internal/sql.MaskFromKeywordsInFunctionBodies"); fn != nil {
		// the block that appends a mask
		var maskAt ssa.Instruction
		for _, call := range callsIn(fn, false) {
			if b, ok := call.Common().Value.(*ssa.Builtin); ok && b.Name() == "append" && strings.Contains(call.Common().Args[0].Type().String(), "FromMask") {
				maskAt = call
			}
		}
		distinct := false
		var pred *ssa.Call
		for _, call := range callsIn(fn, false) {
			callee := call.Common().StaticCallee()
			if callee == nil || callee.Pkg != fn.Pkg {
				continue
			}
			for _, in := range instrs(callee, false) {
				for _, op := range in.Operands(nil) {
					if op == nil || *op == nil {
						continue
					}
					if s, ok := constString(*op); ok && strings.EqualFold(s, "distinct") {
						if cl, ok := call.(*ssa.Call); ok && cl.Type().String() == "bool" {
							pred = cl
						}
					}
				}
			}
		}
		if pred != nil && maskAt != nil {
			// the predicate's true edge must be able to reach the mask site: it is part of the condition guarding it
			for b := maskAt.Block(); b != nil; b = b.Idom() {
				if ifi, ok := lastIf(b.Idom()); ok && derives(ifi.Cond, func(v ssa.Value) bool { return v == ssa.Value(pred) }, false, 8) {
					distinct = true
				}
				if b == pred.Block() {
					break
				}
			}
			if !distinct && pred.Block().Dominates(maskAt.Block()) == false {
				// short-circuit form: pred's block is a predecessor chain of the mask block
				for _, s := range pred.Block().Succs {
					if s == maskAt.Block() {
						distinct = true
					}
				}
			}
		}
		c.Check(distinct, "C16.OPFROM", "MaskFromKeywordsInFunctionBodies|distinct-from-masked", fn.Pos(), "a FROM after DISTINCT reaches the mask site", "the FROM-keyword masker knows only function bodies: in `a IS DISTINCT FROM b` the operand b matches the table pattern and is replaced by read_parquet(…) (a string operand ends up inside the path literal), and the statement fails where DuckDB answers")
	}
}

func lastIf(b *ssa.BasicBlock) (*ssa.If, bool) {
	if b == nil || len(b.Instrs) == 0 {
		return nil, false
	}
	ifi, ok := b.Instrs[len(b.Instrs)-1].(*ssa.If)
	return ifi, ok
}

func c16FieldName(f *ssa.Field) string {
	if st, ok := f.X.Type().Underlying().(*types.Struct); ok && f.Field < st.NumFields() {
		return st.Field(f.Field).Name()
	}
	return ""
}

// transformCacheKeyAll: every access to the SQL-transform cache in internal/api made by a function that also has the
// header database in hand uses a key that depends on that header (the same text under two headers is two statements).
func transformCacheKeyAll(c *Ctx, rule string) {
	c.Rule(rule, "FLOW: every Get/Set on the SQL-transform cache, in any function of internal/api that receives the header database, uses a key that depends on that header — a probe keyed by the bare text hands a header-bearing request the translation cached for the same text without header (permission-checked for one database, reading another)")
	n := 0
	for _, fn := range c.P.FuncsIn("internal/api") {
		var hdr *ssa.Parameter
		for _, q := range fn.Params {
			if q.Name() == "headerDB" || q.Name() == "database" {
				if q.Type().String() == "string" {
					hdr = q
				}
			}
		}
		for _, call := range callsIn(fn, true) {
			nm := callName(call)
			if !strings.HasSuffix(nm, "SQLTransformCache).Get") && !strings.HasSuffix(nm, "SQLTransformCache).Set") {
				continue
			}
			// the cache must be the handler's query cache
			if sn, fld, _, ok := loadedField(call.Common().Args[0]); !ok || sn != "QueryHandler" || fld != "queryCache" {
				continue
			}
			n++
			if hdr == nil {
				c.Triv(rule, fmt.Sprintf("%s|cache-access#%d", fn.Name(), n), call.Pos(), "function has no header database")
				continue
			}
			key := call.Common().Args[1]
			dep := derivesWide(key, func(v ssa.Value) bool { return resolveParam(v) == ssa.Value(hdr) }, 20)
			c.Check(dep, rule, fmt.Sprintf("%s|cache-access#%d-keyed-by-header", fn.Name(), n), call.Pos(), "key depends on the header database", fn.Name()+" accesses the transform cache with a key that ignores the x-arc-database header it was given: a tenant-only caller sending the byte-identical text gets the translation cached for the header-less request and reads database `default`, although only its own database was permission-checked")
		}
	}
	c.Check(n >= 2, rule, "internal/api|transform-cache-accesses", 0, fmt.Sprintf("%d accesses inspected", n), "fewer transform-cache accesses than confirmed by hand (2)")
}
