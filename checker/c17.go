package main

import (
	"fmt"
	"regexp"
	"strings"

	"golang.org/x/tools/go/ssa"
)

func init() {
	register("C17", runC17,
		"value equality of original and rewritten expressions over all rows (that is a statement about DuckDB's evaluator), time zones, and intervals given in other spellings; decided are the shapes that make a rewrite value-preserving at all: that the emitted bucket arithmetic floors (no rounding cast, no truncating division), that epoch-aligned arithmetic replaces only calls whose DuckDB origin alignment coincides with it, that the 3-argument form always carries its origin, that predicate reordering cannot cross an OR or a parenthesis, and that the URL rewrite fires only for the pattern it implements")
}

func runC17(c *Ctx) {
	p := c.P
	c.Rule("C17.FLOOR", "SQLT: every SQL template emitted by the time rewrites computes the bucket with a floor: no `epoch(x)::BIGINT` (DuckDB's cast rounds, so .5 s and later fall into the next second) and no `//` on the epoch (it truncates toward zero, so pre-1970 times fall into the following bucket)")
	c.Rule("C17.ORIGIN", "DOM: the 2-argument time_bucket rewrite and the date_trunc rewrite replace a call by epoch-aligned arithmetic only under a test that the interval divides the distance between the Unix epoch and DuckDB's bucket origin (2000-01-03, a Monday) — weeks, multi-day and odd-hour intervals do not")
	c.Rule("C17.KEEPORIGIN", "FLOW: in the 3-argument time_bucket rewrite every emitted template binds the parsed origin")
	c.Rule("C17.ANDONLY", "PROBE+WHO: the predicate reordering patterns, compiled from the source, do not match when the moved predicate sits inside parentheses, and the reorderer refuses WHERE clauses containing OR (AND binds tighter, so moving a conjunct to the front regroups the predicate)")
	c.Rule("C17.URLGATE", "DOM: the URL-domain rewrite replaces a regexp call only after comparing the captured pattern for equality with the pattern(s) it implements, not on substring tests")

	// ---- templates
	type tmpl struct {
		fn   *ssa.Function
		call ssa.CallInstruction
		text string
	}
	var ts []tmpl
	for _, name := range []string{"rewriteTimeBucket", "rewriteDateTrunc"} {
		fn := c.MustFunc("C17.FLOOR", "internal/api."+name)
		if fn == nil {
			continue
		}
		for _, a := range fn.AnonFuncs {
			for _, call := range findCalls(a, false, "fmt.Sprintf") {
				if s, ok := constString(call.Common().Args[0]); ok && strings.Contains(s, "epoch(") {
					ts = append(ts, tmpl{a, call, s})
				}
			}
		}
	}
	for _, t := range ts {
		construct := t.fn.Name() + "|template"
		var bad []string
		if strings.Contains(t.text, "epoch(%s)::BIGINT") {
			bad = append(bad, "casts epoch(col) with ::BIGINT, which rounds: a timestamp in the last half second of a bucket is put into the next bucket")
		}
		if strings.Contains(t.text, "//") {
			bad = append(bad, "divides with //, which truncates toward zero: pre-1970 (or pre-origin) timestamps are put one bucket too late")
		}
		if len(bad) == 0 {
			c.OK("C17.FLOOR", construct, t.call.Pos(), "template floors: %s", t.text)
		} else {
			c.Bad("C17.FLOOR", construct, t.call.Pos(), "the rewrite emits %q, which %s", t.text, strings.Join(bad, "; and "))
		}
	}
	if len(ts) < 3 {
		c.Unk("C17.FLOOR", "templates", 0, "found %d rewrite templates, expected 3", len(ts))
	}

	// ---- ORIGIN: 2-arg closure and date_trunc closure need an alignment guard: a REM by the seconds value compared with 0,
	// or a comparison of the unit against an explicit allow-list that excludes week
	for _, t := range ts {
		b := bindArgs(t.call)
		usesOrigin := false
		for _, a := range b {
			if a != nil && derives(a, func(v ssa.Value) bool {
				cl, ok := v.(*ssa.Call)
				return ok && callName(cl) == "(time.Time).Unix"
			}, false, 4) {
				usesOrigin = true
			}
		}
		if usesOrigin {
			c.OK("C17.KEEPORIGIN", t.fn.Name()+"|binds-origin", t.call.Pos(), "the explicit origin is part of the arithmetic")
			continue
		}
		// a template without origin inside the 3-arg closure?
		if c17IsThreeArg(t.fn) && c17OriginOnGrid(t.call, b) {
			c.OK("C17.KEEPORIGIN", t.fn.Name()+"|origin-on-grid-shortcut", t.call.Pos(), "origin omitted only where it is a multiple of the very interval used")
			continue
		}
		if c17IsThreeArg(t.fn) {
			c.Bad("C17.KEEPORIGIN", t.fn.Name()+"|binds-origin", t.call.Pos(), "the 3-argument time_bucket rewrite emits %q, which drops the caller's origin: buckets are aligned to the epoch instead", t.text)
			continue
		}
		guard := false
		for _, in := range instrs(t.fn, false) {
			if bo, ok := in.(*ssa.BinOp); ok && bo.Op.String() == "%" {
				guard = true
			}
		}
		c.Check(guard, "C17.ORIGIN", t.fn.Name()+"|alignment-guard", t.call.Pos(), "rewritten only for intervals that divide the origin distance", "the rewrite replaces the call by epoch-aligned arithmetic for every interval intervalToSeconds knows, without testing that the interval divides 946857600 s (epoch to DuckDB's origin 2000-01-03): weeks start on Thursday instead of Monday, and 2-day / 7-hour buckets are shifted")
	}

	// ---- ANDONLY
	if src, ok := c14GlobalRegexSource(p, "internal/api", "patternEndEmptyCheck"); ok {
		re, err := regexp.Compile(src)
		if err != nil {
			c.Unk("C17.ANDONLY", "patternEndEmptyCheck|compile", 0, "%v", err)
		} else {
			inParen := "SELECT 1 FROM t WHERE b LIKE '%y%' OR (a LIKE '%x%' AND c <> '')"
			c.Check(!re.MatchString(inParen), "C17.ANDONLY", "patternEndEmptyCheck|not-inside-parentheses", 0, "an empty check that closes a parenthesised group is left alone", "the reorder pattern matches an empty-string check that is the last conjunct INSIDE parentheses and hoists it out to the front of the WHERE clause: the filter selects different rows")
		}
	} else {
		c.Unk("C17.ANDONLY", "patternEndEmptyCheck|source", 0, "cannot reconstruct the pattern")
	}
	if fn := c.MustFunc("C17.ANDONLY", "internal/api.optimizeMultiplePredicates"); fn != nil {
		orGuard := false
		for _, sub := range append([]*ssa.Function{fn}, allAnon(fn)...) {
			for _, call := range callsIn(sub, false) {
				if callName(call) == "strings.Contains" || callName(call) == "(*regexp.Regexp).MatchString" {
					for _, a := range call.Common().Args {
						if s, ok := constString(a); ok && strings.Contains(strings.ToUpper(s), "OR") && !strings.Contains(strings.ToUpper(s), "ORDER") {
							orGuard = true
						}
					}
				}
			}
		}
		c.Check(orGuard, "C17.ANDONLY", "optimizeMultiplePredicates|refuses-or", fn.Pos(), "clauses with OR are not reordered", "optimizeMultiplePredicates moves a trailing `col <> ''` to the front of any WHERE clause, also one that contains OR: `a OR b LIKE … AND c <> ''` (a OR (b AND c)) becomes `c <> '' AND a OR b LIKE …` ((c AND a) OR b)")
	}

	// ---- URLGATE
	for _, name := range []string{"rewriteURLDomainExtraction", "rewriteURLDomainExtractionExtract"} {
		fn := c.MustFunc("C17.URLGATE", "internal/api."+name)
		if fn == nil {
			continue
		}
		for _, a := range fn.AnonFuncs {
			for _, call := range findCalls(a, false, "internal/api.buildURLDomainCASE") {
				eq, sub := false, false
				for _, in := range instrs(a, false) {
					switch x := in.(type) {
					case *ssa.BinOp:
						if x.Op.String() == "==" {
							if _, ok := constString(x.Y); ok && x.X.Type().String() == "string" {
								eq = true
							}
						}
					case *ssa.Call:
						if callName(x) == "strings.Contains" {
							sub = true
						}
					}
				}
				c.Check(eq && !sub, "C17.URLGATE", name+"|pattern-gate", call.Pos(), "rewritten only for the exact pattern(s) implemented", name+" replaces the call by the fixed domain-extraction CASE whenever the pattern merely CONTAINS \"https\" and \"[^/]\": any other regex with those substrings (another capture group, a path segment) silently gets the domain instead of its own result")
			}
		}
	}
	_ = fmt.Sprint
}

// c17OriginOnGrid: the template is emitted only where origin % S == 0 held, with S the same interval value the template divides by.
func c17OriginOnGrid(call ssa.CallInstruction, binds []ssa.Value) bool {
	strip := func(v ssa.Value) ssa.Value {
		for {
			switch x := v.(type) {
			case *ssa.Convert:
				v = x.X
				continue
			case *ssa.MakeInterface:
				v = x.X
				continue
			case *ssa.ChangeType:
				v = x.X
				continue
			}
			return v
		}
	}
	for _, f := range factsAt(call.(ssa.Instruction)) {
		if f.Kind != factCmp || f.Op.String() != "==" {
			continue
		}
		rem, ok := f.X.(*ssa.BinOp)
		if !ok || rem.Op.String() != "%" {
			continue
		}
		if z, ok := constInt(f.Y); !ok || z != 0 {
			continue
		}
		div := strip(rem.Y)
		for _, b := range binds {
			if b != nil && strip(b) == div {
				return true
			}
		}
	}
	return false
}

func c17IsThreeArg(fn *ssa.Function) bool {
	// the 3-arg closure parses an origin
	return len(findCalls(fn, false, "internal/api.parseTimeBucketOrigin")) > 0
}
