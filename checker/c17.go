package main

import (
	"fmt"
	"regexp"
	"strings"

	"golang.org/x/tools/go/ssa"
)

func init() {
	register("C17", runC17,
		"value equality of original and rewritten expressions over all rows (that is a statement about DuckDB's evaluator), time zones, and intervals given in other spellings; decided are the shapes that make a rewrite value-preserving at all: that the emitted bucket arithmetic floors (no rounding cast, no truncating division), that epoch-aligned arithmetic replaces only calls whose DuckDB origin alignment coincides with it, that the 3-argument form always carries its origin, that predicate reordering cannot cross an OR or a parenthesis, and that the URL rewrite fires only for the pattern it implements")
}

func runC17(c *Ctx) {
	p := c.P
	c.Rule("C17.FLOOR", "SQLT: every SQL template emitted by the time rewrites computes the bucket with a floor: no `epoch(x)::BIGINT` (DuckDB's cast rounds, so .5 s and later fall into the next second) and no `//` on the epoch (it truncates toward zero, so pre-1970 times fall into the following bucket)")
	c.Rule("C17.ORIGIN", "DOM: the 2-argument time_bucket rewrite and the date_trunc rewrite replace a call by epoch-aligned arithmetic only under a test that the interval divides the distance between the Unix epoch and DuckDB's bucket origin (2000-01-03, a Monday) — weeks, multi-day and odd-hour intervals do not")
	c.Rule("C17.KEEPORIGIN", "FLOW: in the 3-argument time_bucket rewrite every emitted template binds the parsed origin")
	c.Rule("C17.ANDONLY", "PROBE+WHO: the predicate reordering patterns, compiled from the source, do not match when the moved predicate sits inside parentheses, and the reorderer refuses WHERE clauses containing OR (AND binds tighter, so moving a conjunct to the front regroups the predicate)")
	c.Rule("C17.URLGATE", "DOM: the URL-domain rewrite replaces a regexp call only after comparing the captured pattern for equality with the pattern(s) it implements, not on substring tests")

	// ---- templates
	type tmpl struct {
		fn   *ssa.Function
		call ssa.CallInstruction
		text string
	}
	var ts []tmpl
	for _, name := range []string{"rewriteTimeBucket", "rewriteDateTrunc"} {
		fn := c.MustFunc("C17.FLOOR", "internal/api."+name)
		if fn == nil {
			continue
		}
		for _, a := range fn.AnonFuncs {
			for _, call := range findCalls(a, false, "fmt.Sprintf") {
				if s, ok := constString(call.Common().Args[0]); ok && strings.Contains(s, "epoch(") {
					ts = append(ts, tmpl{a, call, s})
				}
			}
		}
	}
	for _, t := range ts {
		construct := t.fn.Name() + "|template"
		var bad []string
		if strings.Contains(t.text, "epoch(%s)::BIGINT") {
			bad = append(bad, "casts epoch(col) with ::BIGINT, which rounds: a timestamp in the last half second of a bucket is put into the next bucket")
		}
		if strings.Contains(t.text, "//") {
			bad = append(bad, "divides with //, which truncates toward zero: pre-1970 (or pre-origin) timestamps are put one bucket too late")
		}
		if len(bad) == 0 {
			c.OK("C17.FLOOR", construct, t.call.Pos(), "template floors: %s", t.text)
		} else {
			c.Bad("C17.FLOOR", construct, t.call.Pos(), "the rewrite emits %q, which %s", t.text, strings.Join(bad, "; and "))
		}
	}
	if len(ts) < 3 {
		c.Unk("C17.FLOOR", "templates", 0, "found %d rewrite templates, expected 3", len(ts))
	}

	// ---- ORIGIN: 2-arg closure and date_trunc closure need an alignment guard: a REM by the seconds value compared with 0,
	// or a comparison of the unit against an explicit allow-list that excludes week
	for _, t := range ts {
		b := bindArgs(t.call)
		usesOrigin := false
		for _, a := range b {
			if a != nil && derives(a, func(v ssa.Value) bool {
				cl, ok := v.(*ssa.Call)
				return ok && callName(cl) == "(time.Time).Unix"
			}, false, 4) {
				usesOrigin = true
			}
		}
		if usesOrigin {
			c.OK("C17.KEEPORIGIN", t.fn.Name()+"|binds-origin", t.call.Pos(), "the explicit origin is part of the arithmetic")
			continue
		}
		// a template without origin inside the 3-arg closure?
		if c17IsThreeArg(t.fn) && c17OriginOnGrid(t.call, b) {
			c.OK("C17.KEEPORIGIN", t.fn.Name()+"|origin-on-grid-shortcut", t.call.Pos(), "origin omitted only where it is a multiple of the very interval used")
			continue
		}
		if c17IsThreeArg(t.fn) {
			c.Bad("C17.KEEPORIGIN", t.fn.Name()+"|binds-origin", t.call.Pos(), "the 3-argument time_bucket rewrite emits %q, which drops the caller's origin: buckets are aligned to the epoch instead", t.text)
			continue
		}
		guard := false
		for _, in := range instrs(t.fn, false) {
			if bo, ok := in.(*ssa.BinOp); ok && bo.Op.String() == "%" {
				guard = true
			}
		}
		c.Check(guard, "C17.ORIGIN", t.fn.Name()+"|alignment-guard", t.call.Pos(), "rewritten only for intervals that divide the origin distance", "the rewrite replaces the call by epoch-aligned arithmetic for every interval intervalToSeconds knows, without testing that the interval divides 946857600 s (epoch to DuckDB's origin 2000-01-03): weeks start on Thursday instead of Monday, and 2-day / 7-hour buckets are shifted")
	}

	// ---- UNITS: the unit table of intervalToSeconds
	c.Rule("C17.UNITS", "EVAL: intervalToSeconds maps second/minute/hour/day/week to n×{1,60,3600,86400,604800} and every other unit (months, years: variable length) to 0, read off the returns under their `unit == …` facts")
	if fn := c.MustFunc("C17.UNITS", "internal/api.intervalToSeconds"); fn != nil && len(fn.Params) == 2 {
		want := map[string]int64{"second": 1, "minute": 60, "hour": 3600, "day": 86400, "week": 604800}
		got := map[string]int64{}
		defaultZero, nDefault := true, 0
		for _, in := range instrs(fn, false) {
			r, ok := in.(*ssa.Return)
			if !ok {
				continue
			}
			v := unspill(r, r.Results[0])
			// which unit?
			unit := ""
			for _, f := range factsAt(r) {
				if f.Kind == factCmp && f.Op.String() == "==" && f.X == ssa.Value(fn.Params[1]) {
					if sv, ok := constString(f.Y); ok {
						unit = sv
					}
				}
			}
			var k int64 = -1
			switch x := v.(type) {
			case *ssa.Const:
				if z, ok := constInt(x); ok {
					k = z * 0 // a constant result: only 0 is meaningful
					if z != 0 {
						k = -2
					}
				}
			case *ssa.BinOp:
				if x.Op.String() == "*" {
					if z, ok := constInt(x.Y); ok {
						k = z
					} else if z, ok := constInt(x.X); ok {
						k = z
					}
				}
			default:
				if _, isCall := v.(*ssa.Extract); isCall {
					k = 1 // n itself
				}
			}
			if unit == "" {
				// default arm or the parse-error return
				nDefault++
				if k != 0 {
					defaultZero = false
				}
				continue
			}
			got[unit] = k
		}
		okAll := len(got) == len(want)
		var diffs []string
		for u, w := range want {
			if got[u] != w {
				okAll = false
				diffs = append(diffs, fmt.Sprintf("%s→×%d (want ×%d)", u, got[u], w))
			}
		}
		for u := range got {
			if _, ok := want[u]; !ok {
				okAll = false
				diffs = append(diffs, fmt.Sprintf("%s is given a fixed length", u))
			}
		}
		c.Check(okAll, "C17.UNITS", "intervalToSeconds|unit-table", fn.Pos(), "second/minute/hour/day/week → ×1/60/3600/86400/604800", "intervalToSeconds' unit table differs from the fixed-length units: "+strings.Join(diffs, "; ")+" — buckets of the rewritten expression have another width than DuckDB's")
		c.Check(defaultZero && nDefault >= 1, "C17.UNITS", "intervalToSeconds|other-units-zero", fn.Pos(), "every other unit yields 0 (not rewritten)", "a unit outside the fixed-length table does not yield 0: month/year buckets are rewritten to a fixed number of seconds")
	}

	// ---- KEEP0 / PAREN / SAMEK: guards and bindings around each template
	c.Rule("C17.KEEP0", "DOM: a template is emitted only where the interval in seconds is known to be non-zero (a zero keeps the original call: variable-length or unknown units)")
	c.Rule("C17.PAREN", "DOM: a template is emitted only where the captured column expression was tested to contain no parenthesis (the capture stops at the first `)`)")
	c.Rule("C17.SAMEK", "FLOW: the divisor and the multiplier bound into a template are one and the same value, the result of intervalToSeconds; in the 3-argument form the origin added and the origin subtracted are the same value")
	for _, t := range ts {
		b := bindArgs(t.call)
		// seconds = the intervalToSeconds result bound
		var secs []ssa.Value
		var others []ssa.Value
		for _, a := range b {
			if a == nil {
				continue
			}
			x := a
			if cv, ok := x.(*ssa.Convert); ok {
				x = cv.X
			}
			if cl, ok := x.(*ssa.Call); ok && callName(cl) == "internal/api.intervalToSeconds" {
				secs = append(secs, x)
			} else if x.Type().String() == "int64" {
				others = append(others, x)
			}
		}
		same := len(secs) == 2 && secs[0] == secs[1]
		if len(others) > 0 {
			same = same && len(others) == 2 && others[0] == others[1]
		}
		c.Check(same, "C17.SAMEK", t.fn.Name()+"|one-interval-one-origin", t.call.Pos(), "divisor = multiplier (and origin added = origin subtracted)", "the template divides by one value and multiplies by another (or adds another origin than it subtracts): the expression no longer floors to a multiple of the interval")
		nz := false
		paren := false
		for _, f := range factsAt(t.call.(ssa.Instruction)) {
			switch f.Kind {
			case factCmp:
				if len(secs) > 0 && f.X == secs[0] && f.Op.String() == "!=" {
					if z, ok := constInt(f.Y); ok && z == 0 {
						nz = true
					}
				}
			case factFalse:
				if cl, ok := f.Val.(*ssa.Call); ok && (callName(cl) == "strings.Contains" || callName(cl) == "strings.ContainsAny" || callName(cl) == "strings.ContainsRune") {
					if sv, ok := constString(cl.Call.Args[1]); ok && strings.Contains(sv, "(") {
						paren = true
					}
					if k, ok := constInt(cl.Call.Args[1]); ok && k == '(' {
						paren = true
					}
				}
			}
		}
		c.Check(nz, "C17.KEEP0", t.fn.Name()+"|nonzero-interval", t.call.Pos(), "emitted only for a non-zero interval", "the template is emitted without testing that the interval is non-zero: for months (variable length) the rewrite divides by zero / buckets by a wrong width instead of keeping the original call")
		c.Check(paren, "C17.PAREN", t.fn.Name()+"|no-parenthesis-in-column", t.call.Pos(), "emitted only for a parenthesis-free column capture", "the template is emitted although the captured column may contain `(`: the capture is cut at the first `)`, and splicing ::BIGINT into it corrupts a query DuckDB would have answered")
	}

	// ---- GROUPS: closure indexes vs pattern groups
	c.Rule("C17.GROUPS", "SIBLING: each time rewrite closure reads amount, unit, column and origin from the capture groups its pattern — compiled from the initialiser and probed — binds them in")
	{
		regs := c18InitRegexes(p, "internal/api")
		probes := map[string]string{
			"patternTimeBucket3Args": "time_bucket(INTERVAL '5 minutes', tscol, TIMESTAMP '2024-01-01 00:00:00')",
			"patternTimeBucket2Args": "time_bucket(INTERVAL '5 minutes', tscol)",
			"patternDateTrunc":       "date_trunc('hour', tscol)",
		}
		for _, t := range ts {
			// which pattern does this closure re-match with?
			var rx *c18Regex
			for _, call := range findCalls(t.fn, false, "(*regexp.Regexp).FindStringSubmatch") {
				if g := c18GlobalOf(call.Common().Args[0]); g != nil {
					for i := range regs {
						if regs[i].name == g.Name() {
							rx = &regs[i]
						}
					}
				}
			}
			if rx == nil || probes[rx.name] == "" {
				c.Unk("C17.GROUPS", t.fn.Name()+"|pattern", t.call.Pos(), "cannot identify the pattern the closure matches with")
				continue
			}
			m := rx.re.FindStringSubmatch(probes[rx.name])
			if m == nil {
				c.Unk("C17.GROUPS", t.fn.Name()+"|probe", t.call.Pos(), "pattern %s does not match its probe", rx.name)
				continue
			}
			grp := map[string]int{}
			for gi := 1; gi < len(m); gi++ {
				switch {
				case m[gi] == "5":
					grp["amount"] = gi
				case m[gi] == "minutes" || m[gi] == "hour":
					grp["unit"] = gi
				case strings.TrimSpace(m[gi]) == "tscol":
					grp["column"] = gi
				case strings.HasPrefix(m[gi], "2024-01-01"):
					grp["origin"] = gi
				}
			}
			idxOf := func(v ssa.Value) int {
				found := -1
				derives(v, func(x ssa.Value) bool {
					if i, ok := c16PartsIndex(x); ok {
						found = int(i)
						return true
					}
					return false
				}, true, 8)
				return found
			}
			var bad []string
			b := bindArgs(t.call)
			for _, a := range b {
				if a != nil && a.Type().String() == "string" {
					if gi := idxOf(a); gi != grp["column"] {
						bad = append(bad, fmt.Sprintf("column read from parts[%d], bound in group %d", gi, grp["column"]))
					}
				}
			}
			for _, call := range findCalls(t.fn, false, "internal/api.intervalToSeconds") {
				a := call.Common().Args
				if _, isC := a[0].(*ssa.Const); !isC {
					if gi := idxOf(a[0]); gi != grp["amount"] {
						bad = append(bad, fmt.Sprintf("amount read from parts[%d], bound in group %d", gi, grp["amount"]))
					}
				}
				if gi := idxOf(a[1]); gi != grp["unit"] {
					bad = append(bad, fmt.Sprintf("unit read from parts[%d], bound in group %d", gi, grp["unit"]))
				}
			}
			for _, call := range findCalls(t.fn, false, "internal/api.parseTimeBucketOrigin") {
				if gi := idxOf(call.Common().Args[0]); gi != grp["origin"] {
					bad = append(bad, fmt.Sprintf("origin read from parts[%d], bound in group %d", gi, grp["origin"]))
				}
			}
			c.Check(len(bad) == 0, "C17.GROUPS", t.fn.Name()+"|capture-groups", t.call.Pos(), "amount/unit/column/origin read from the groups "+rx.name+" binds them in", "the closure and "+rx.name+" disagree: "+strings.Join(bad, "; "))
		}
	}

	// ---- ORDER3: the 3-argument pattern is applied before the 2-argument one
	c.Rule("C17.ORDER3", "ORDER: rewriteTimeBucket applies the 3-argument pattern before the 2-argument pattern (whose column capture would otherwise swallow `col, TIMESTAMP '…'` up to the closing parenthesis)")
	if fn := p.Func("internal/api.rewriteTimeBucket"); fn != nil {
		var first3, first2 ssa.Instruction
		for _, call := range findCalls(fn, false, "(*regexp.Regexp).ReplaceAllStringFunc") {
			g := c18GlobalOf(call.Common().Args[0])
			if g == nil {
				continue
			}
			switch {
			case strings.Contains(g.Name(), "3Args") && first3 == nil:
				first3 = call
			case strings.Contains(g.Name(), "2Args") && first2 == nil:
				first2 = call
			}
		}
		if first3 == nil || first2 == nil {
			c.Unk("C17.ORDER3", "rewriteTimeBucket|both-passes", fn.Pos(), "cannot find both replacement passes")
		} else {
			c.Check(instrDominates(first3, first2), "C17.ORDER3", "rewriteTimeBucket|three-arg-first", first2.Pos(), "3-argument pass precedes the 2-argument pass", "the 2-argument pass runs first: it partially matches a 3-argument call and drops its origin")
		}
	}

	// ---- ANDONLY
	if src, ok := c14GlobalRegexSource(p, "internal/api", "patternEndEmptyCheck"); ok {
		re, err := regexp.Compile(src)
		if err != nil {
			c.Unk("C17.ANDONLY", "patternEndEmptyCheck|compile", 0, "%v", err)
		} else {
			inParen := "SELECT 1 FROM t WHERE b LIKE '%y%' OR (a LIKE '%x%' AND c <> '')"
			c.Check(!re.MatchString(inParen), "C17.ANDONLY", "patternEndEmptyCheck|not-inside-parentheses", 0, "an empty check that closes a parenthesised group is left alone", "the reorder pattern matches an empty-string check that is the last conjunct INSIDE parentheses and hoists it out to the front of the WHERE clause: the filter selects different rows")
		}
	} else {
		c.Unk("C17.ANDONLY", "patternEndEmptyCheck|source", 0, "cannot reconstruct the pattern")
	}
	if fn := c.MustFunc("C17.ANDONLY", "internal/api.optimizeMultiplePredicates"); fn != nil {
		orGuard := false
		for _, sub := range append([]*ssa.Function{fn}, allAnon(fn)...) {
			for _, call := range callsIn(sub, false) {
				if callName(call) == "strings.Contains" || callName(call) == "(*regexp.Regexp).MatchString" {
					for _, a := range call.Common().Args {
						if s, ok := constString(a); ok && strings.Contains(strings.ToUpper(s), "OR") && !strings.Contains(strings.ToUpper(s), "ORDER") {
							orGuard = true
						}
					}
				}
			}
		}
		c.Check(orGuard, "C17.ANDONLY", "optimizeMultiplePredicates|refuses-or", fn.Pos(), "clauses with OR are not reordered", "optimizeMultiplePredicates moves a trailing `col <> ''` to the front of any WHERE clause, also one that contains OR: `a OR b LIKE … AND c <> ''` (a OR (b AND c)) becomes `c <> '' AND a OR b LIKE …` ((c AND a) OR b)")
	}

	// ---- URLARGS: which call shapes the URL rewrites pick up
	c.Rule("C17.URLARGS", "PROBE: the call patterns of the URL-domain rewrites (compiled from the functions' own MustCompile constants) match only the argument forms that mean `capture group 1` in DuckDB — REGEXP_EXTRACT(col, p, 1) and REGEXP_REPLACE(col, p, '\\1') — and not the 2-argument REGEXP_EXTRACT (group 0, the whole match), other group numbers, other replacements or calls with an options argument")
	for _, name := range []string{"rewriteURLDomainExtraction", "rewriteURLDomainExtractionExtract"} {
		fn := p.Func("internal/api." + name)
		if fn == nil {
			continue
		}
		n := 0
		for _, call := range findCalls(fn, false, "regexp.MustCompile") {
			src, ok := constEvalString(call.Common().Args[0], 0)
			if !ok {
				c.Unk("C17.URLARGS", name+"|pattern-constant", call.Pos(), "pattern is not a constant")
				continue
			}
			re, err := regexp.Compile(src)
			if err != nil {
				c.Unk("C17.URLARGS", name+"|pattern-compiles", call.Pos(), "%v", err)
				continue
			}
			n++
			pat := `'^https?://(?:www\.)?([^/]+)'`
			yes, no := []string{}, []string{}
			if strings.Contains(strings.ToUpper(src), "REGEXP_EXTRACT") {
				yes = []string{"REGEXP_EXTRACT(Referer, " + pat + ", 1)", "regexp_extract( Referer , " + pat + " , 1 )"}
				no = []string{"REGEXP_EXTRACT(Referer, " + pat + ")", "REGEXP_EXTRACT(Referer, " + pat + ", 0)", "REGEXP_EXTRACT(Referer, " + pat + ", 2)", "REGEXP_EXTRACT(Referer, " + pat + ", 1, 'i')", "REGEXP_EXTRACT(Referer, " + pat + ", 10)"}
			} else {
				yes = []string{"REGEXP_REPLACE(Referer, " + pat + ", '\\1')"}
				no = []string{"REGEXP_REPLACE(Referer, " + pat + ", '\\2')", "REGEXP_REPLACE(Referer, " + pat + ", 'x')", "REGEXP_REPLACE(Referer, " + pat + ", '\\1', 'g')", "REGEXP_REPLACE(Referer, " + pat + ", '\\1x')", "REGEXP_REPLACE(Referer, " + pat + ", '')"}
			}
			var bad []string
			for _, y := range yes {
				if !re.MatchString(y) {
					bad = append(bad, "does not match "+y)
				}
			}
			for _, x := range no {
				if m := re.FindString(x); m != "" && strings.HasSuffix(strings.TrimSpace(m), ")") && len(m) == len(x) {
					bad = append(bad, "matches "+x)
				} else if m != "" && m == x {
					bad = append(bad, "matches "+x)
				}
			}
			c.Check(len(bad) == 0, "C17.URLARGS", fmt.Sprintf("%s|call-shape#%d", name, n), call.Pos(), fmt.Sprintf("matches %d group-1 forms, none of %d other forms", len(yes), len(no)), name+"'s call pattern "+strings.Join(bad, "; ")+" — that form does not mean `capture group 1` to DuckDB (2-argument regexp_extract returns the whole match), so the rewritten expression returns other values")
		}
		c.Check(n >= 1, "C17.URLARGS", name+"|pattern-found", fn.Pos(), "call pattern found", "no MustCompile constant found in "+name)
	}

	// ---- URLGATE
	for _, name := range []string{"rewriteURLDomainExtraction", "rewriteURLDomainExtractionExtract"} {
		fn := c.MustFunc("C17.URLGATE", "internal/api."+name)
		if fn == nil {
			continue
		}
		for _, a := range fn.AnonFuncs {
			for _, call := range findCalls(a, false, "internal/api.buildURLDomainCASE") {
				eq, sub := false, false
				for _, in := range instrs(a, false) {
					switch x := in.(type) {
					case *ssa.BinOp:
						if x.Op.String() == "==" {
							if _, ok := constString(x.Y); ok && x.X.Type().String() == "string" {
								eq = true
							}
						}
					case *ssa.Call:
						if callName(x) == "strings.Contains" {
							sub = true
						}
					}
				}
				c.Check(eq && !sub, "C17.URLGATE", name+"|pattern-gate", call.Pos(), "rewritten only for the exact pattern(s) implemented", name+" replaces the call by the fixed domain-extraction CASE whenever the pattern merely CONTAINS \"https\" and \"[^/]\": any other regex with those substrings (another capture group, a path segment) silently gets the domain instead of its own result")
			}
		}
	}
	_ = fmt.Sprint
}

// c17OriginOnGrid: the template is emitted only where origin % S == 0 held, with S the same interval value the template divides by.
func c17OriginOnGrid(call ssa.CallInstruction, binds []ssa.Value) bool {
	strip := func(v ssa.Value) ssa.Value {
		for {
			switch x := v.(type) {
			case *ssa.Convert:
				v = x.X
				continue
			case *ssa.MakeInterface:
				v = x.X
				continue
			case *ssa.ChangeType:
				v = x.X
				continue
			}
			return v
		}
	}
	for _, f := range factsAt(call.(ssa.Instruction)) {
		if f.Kind != factCmp || f.Op.String() != "==" {
			continue
		}
		rem, ok := f.X.(*ssa.BinOp)
		if !ok || rem.Op.String() != "%" {
			continue
		}
		if z, ok := constInt(f.Y); !ok || z != 0 {
			continue
		}
		div := strip(rem.Y)
		for _, b := range binds {
			if b != nil && strip(b) == div {
				return true
			}
		}
	}
	return false
}

func c17IsThreeArg(fn *ssa.Function) bool {
	// the 3-arg closure parses an origin
	return len(findCalls(fn, false, "internal/api.parseTimeBucketOrigin")) > 0
}
