package main

import (
	"fmt"
	"go/constant"
	"go/token"
	"regexp"
	"sort"
	"strings"

	"golang.org/x/tools/go/ssa"
)

func init() {
	register("C18", runC18,
		"equality of pruned and unpruned results over all data layouts and WHERE clauses (the rows a query returns are DuckDB's business), staleness of the 60 s partition cache against files flushed after it was filled, and time predicates in spellings the extractor does not read at all (those are simply not pruned); decided are the conditions under which a range read off the SQL text may restrict the files at all: the patterns bind the whole word `time`, no range is produced for a WHERE clause with OR/NOT or for a statement that reads more than one source, a missing bound is never invented from the clock or a date constant, an inclusive upper bound keeps its partition, the walk starts at the range's own start, every date component of a path is formatted from the hour walk itself and in UTC, the cache key covers path and SQL, and every non-pruned exit hands back the original path")
}

const c18Pkg = "internal/pruning"

type c18Regex struct {
	name string // global, or global[i]
	src  string
	re   *regexp.Regexp
	call *ssa.Call
}

// c18InitRegexes reconstructs every regexp.MustCompile in the package initialiser together with the global (or slice element) it lands in.
func c18InitRegexes(p *Prog, pkg string) []c18Regex {
	sp := p.SSAPkgs[pkg]
	if sp == nil {
		return nil
	}
	ini := sp.Func("init")
	if ini == nil {
		return nil
	}
	var out []c18Regex
	for _, call := range findCalls(ini, false, "regexp.MustCompile") {
		cl, ok := call.(*ssa.Call)
		if !ok {
			continue
		}
		src, ok := constEvalString(cl.Call.Args[0], 0)
		if !ok {
			continue
		}
		name := ""
		for _, r := range *cl.Referrers() {
			st, ok := r.(*ssa.Store)
			if !ok || st.Val != ssa.Value(cl) {
				continue
			}
			switch a := st.Addr.(type) {
			case *ssa.Global:
				name = a.Name()
			case *ssa.IndexAddr:
				idx, _ := constInt(a.Index)
				if arr, ok := a.X.(*ssa.Alloc); ok {
					for _, r2 := range *arr.Referrers() {
						if sl, ok := r2.(*ssa.Slice); ok {
							for _, r3 := range *sl.Referrers() {
								if st2, ok := r3.(*ssa.Store); ok {
									if g, ok := st2.Addr.(*ssa.Global); ok {
										name = fmt.Sprintf("%s[%d]", g.Name(), idx)
									}
								}
							}
						}
					}
				}
			}
		}
		if name == "" {
			continue
		}
		re, err := regexp.Compile(src)
		if err != nil {
			continue
		}
		out = append(out, c18Regex{name, src, re, cl})
	}
	sort.Slice(out, func(i, j int) bool { return out[i].name < out[j].name })
	return out
}

// c18GlobalOf: v is a load of a package-level variable.
func c18GlobalOf(v ssa.Value) *ssa.Global {
	if ld, ok := v.(*ssa.UnOp); ok && ld.Op == token.MUL {
		if g, ok := ld.X.(*ssa.Global); ok {
			return g
		}
	}
	return nil
}

func c18IsTimeType(v ssa.Value) bool { return v.Type().String() == "time.Time" }

// c18GlobalDate evaluates `var g = time.Date(y, m, d, …)` with constant arguments from the initialiser.
func c18GlobalDate(p *Prog, g *ssa.Global) (y, m, d int64, ok bool) {
	ini := g.Pkg.Func("init")
	if ini == nil {
		return
	}
	for _, in := range instrs(ini, false) {
		st, isSt := in.(*ssa.Store)
		if !isSt || st.Addr != ssa.Value(g) {
			continue
		}
		cl, isCall := st.Val.(*ssa.Call)
		if !isCall || callName(cl) != "time.Date" {
			return
		}
		return c18ConstDate(cl)
	}
	return
}

// c18ConstDate: year, month, day of a time.Date call whose first three arguments are constants.
func c18ConstDate(call ssa.CallInstruction) (y, m, d int64, ok bool) {
	var v [3]int64
	for i := 0; i < 3; i++ {
		k, okk := constInt(call.Common().Args[i])
		if !okk {
			return
		}
		v[i] = k
	}
	return v[0], v[1], v[2], true
}

func runC18(c *Ctx) {
	p := c.P
	c.Rule("C18.WORD", "PROBE: every time-column pattern, compiled from the package initialiser, matches a plain `time`/`timestamp` comparison and does not match the same comparison on a column whose name merely ends in it (event_time, end_time, xtimestamp)")
	c.Rule("C18.DISJ", "DOM: ExtractTimeRange returns a range only on the no-match side of a test, against a pattern that matches OR and NOT as words, of the WHERE clause")
	c.Rule("C18.SINGLE", "DOM: ExtractTimeRange returns a range only after a guard that the statement has exactly one SELECT, no JOIN and no comma in its FROM clause (the caller applies the range to every table of the statement)")
	c.Rule("C18.OPEN", "FLOW: ExtractTimeRange itself never reads the clock or builds a date; a bound the query does not give comes from a package-level sentinel that lies at or before the epoch floor (Start) or beyond every int64-nanosecond timestamp (End)")
	c.Rule("C18.CLAMP", "FLOW: the hour walk in GeneratePartitionPaths starts from the range's own Start (truncated), not from a package-level date substituted for it")
	c.Rule("C18.INCL", "PAIR: the hour walk includes the partition that starts at End when the bound is inclusive: either it runs while !After(End), or it adds an Equal(End) step under a TimeRange flag, and in ExtractTimeRange every fresh upper bound is paired with a fresh value of that flag (true for BETWEEN, the presence of `<=` in the matched text otherwise)")
	c.Rule("C18.DAYS", "FLOW: every date component formatted into a partition path in GeneratePartitionPaths is formatted from the hour-walk variable itself — day-level paths are not produced by a second, coarser walk")
	c.Rule("C18.UTC", "FLOW: parseDateTime returns every successfully parsed literal through Time.UTC (an offset-bearing literal would otherwise be formatted into paths in its own zone), and evaluateRelativeTime uses the clock only through Time.UTC")
	c.Rule("C18.KEY", "FLOW: the partition cache key is formatted from both the path and the SQL, and OptimizeTablePath keys its cache with its own two arguments and extracts the range from that same SQL")
	c.Rule("C18.FALLBACK", "EXITS: every exit of OptimizeTablePath that reports no optimisation returns the caller's original path, and every exit that reports one returns the existence-filtered list under a non-empty test (or the cached value)")
	c.Rule("C18.USE", "FLOW: buildReadParquetExpr and buildReadParquetExprForParallel hand the pruner their own path and original SQL, and read the original path when the pruner did not optimise")

	regs := c18InitRegexes(p, c18Pkg)
	byName := map[string]c18Regex{}
	for _, r := range regs {
		byName[r.name] = r
	}

	// ---- WORD
	positives := []string{
		"time >= '2024-01-01'", "time > '2024-01-01'", "time < '2024-01-01'", "time <= '2024-01-01'",
		"timestamp >= '2024-01-01'", "timestamp > '2024-01-01'", "timestamp < '2024-01-01'", "timestamp <= '2024-01-01'",
		"time BETWEEN '2024-01-01' AND '2024-01-02'",
		"time >= NOW() - INTERVAL '1 day'", "time > NOW() - INTERVAL '1 day'", "time >= NOW() + INTERVAL '1 day'", "time > NOW() + INTERVAL '1 day'",
		"time <= NOW() - INTERVAL '1 day'", "time < NOW() - INTERVAL '1 day'", "time <= NOW() + INTERVAL '1 day'", "time < NOW() + INTERVAL '1 day'",
	}
	nWord := 0
	for _, r := range regs {
		low := strings.ToLower(r.src)
		if !strings.Contains(low, "time") || strings.Contains(low, "where") {
			continue
		}
		nWord++
		var hits []string
		for _, s := range positives {
			if r.re.MatchString(s) {
				hits = append(hits, s)
			}
		}
		if len(hits) == 0 {
			c.Unk("C18.WORD", r.name+"|understood", r.call.Pos(), "pattern %q matches none of the known comparison shapes; the probe set does not cover it", r.src)
			continue
		}
		var bad []string
		for _, s := range hits {
			for _, pre := range []string{"event_", "end_", "x", "a1"} {
				if r.re.MatchString(pre + s) {
					bad = append(bad, pre+s)
				}
			}
		}
		if len(bad) == 0 {
			c.OK("C18.WORD", r.name+"|whole-word", r.call.Pos(), "%q binds the whole column name (%d shapes probed)", r.src, len(hits))
		} else {
			c.Bad("C18.WORD", r.name+"|whole-word", r.call.Pos(), "pattern %q also matches %q: a comparison on another column whose name ends in the time column's name is taken for a bound on time and files are pruned by it", r.src, bad[0])
		}
	}
	c.Floor("C18.WORD", 13, "4 start, 4 end, BETWEEN and 4 relative patterns")
	_ = nWord

	ext := c.MustFunc("C18.DISJ", "(*"+c18Pkg+".PartitionPruner).ExtractTimeRange")
	if ext == nil {
		return
	}
	// non-nil returns
	var rets []*ssa.Return
	for _, in := range instrs(ext, false) {
		if r, ok := in.(*ssa.Return); ok && len(r.Results) == 1 && !isNilConst(unspill(r, r.Results[0])) {
			rets = append(rets, r)
		}
	}
	if len(rets) == 0 {
		c.Unk("C18.DISJ", "ExtractTimeRange|returns", ext.Pos(), "no non-nil return found")
	}

	// ---- DISJ
	{
		var guard *ssa.Call
		for _, call := range findCalls(ext, false, "(*regexp.Regexp).MatchString") {
			cl := call.(*ssa.Call)
			g := c18GlobalOf(cl.Call.Args[0])
			if g == nil {
				continue
			}
			r, ok := byName[g.Name()]
			if !ok {
				continue
			}
			all := true
			for _, s := range []string{"a = 1 OR b = 2", "a = 1 or b = 2", "NOT (a = 1)", "not (a = 1)", "a = 1\nOR\nb = 2"} {
				if !r.re.MatchString(s) {
					all = false
				}
			}
			if all {
				guard = cl
			}
		}
		if guard == nil {
			c.Bad("C18.DISJ", "ExtractTimeRange|or-not-guard", ext.Pos(), "ExtractTimeRange reads `time >= a` / `time < b` out of any WHERE clause without testing for OR or NOT: in `(time >= a AND time < b) OR host = 'x'` and `NOT (time >= a AND time < b)` the comparison does not bound the result, and every row outside [a, b) is lost with its file")
		} else {
			for i, r := range rets {
				c.Check(guardedFalse(r, guard), "C18.DISJ", fmt.Sprintf("ExtractTimeRange|return#%d-after-or-not-guard", i+1), r.Pos(), "range returned only when the clause has no OR/NOT", "this return of a range is not on the no-match side of the OR/NOT test")
			}
		}
	}

	// ---- SINGLE
	{
		var gcall *ssa.Call
		var gfn *ssa.Function
		for _, call := range callsIn(ext, false) {
			cl, ok := call.(*ssa.Call)
			if !ok {
				continue
			}
			callee := cl.Call.StaticCallee()
			if callee == nil || callee.Pkg == nil || callee.Pkg != ext.Pkg || cl.Type().String() != "bool" {
				continue
			}
			all := len(rets) > 0
			for _, r := range rets {
				if !guardedTrue(r, cl) {
					all = false
				}
			}
			if all {
				gcall, gfn = cl, callee
			}
		}
		if gcall == nil {
			// the same three tests written inline in ExtractTimeRange?
			selOK, joinOK, commaOK := len(rets) > 0, len(rets) > 0, false
			var selCall, joinCall *ssa.Call
			for _, call := range callsIn(ext, false) {
				cl, ok := call.(*ssa.Call)
				if !ok || !strings.HasPrefix(callName(cl), "(*regexp.Regexp).") {
					if callName(call) == "strings.Contains" || callName(call) == "strings.ContainsRune" || callName(call) == "strings.IndexByte" {
						for _, a := range call.Common().Args {
							if sv, ok := constString(a); ok && sv == "," {
								commaOK = true
							}
							if k, ok := constInt(a); ok && k == ',' {
								commaOK = true
							}
						}
					}
					continue
				}
				g := c18GlobalOf(cl.Call.Args[0])
				if g == nil {
					continue
				}
				r, ok := byName[g.Name()]
				if !ok {
					continue
				}
				if r.re.MatchString("SELECT") && !r.re.MatchString("xSELECTx") && strings.Contains(callName(cl), "FindAll") {
					selCall = cl
				}
				if r.re.MatchString("JOIN") && !r.re.MatchString("xJOINx") && !r.re.MatchString("SELECT") {
					joinCall = cl
				}
			}
			for _, r := range rets {
				if joinCall == nil || !guardedFalse(r, joinCall) {
					joinOK = false
				}
				one := false
				if selCall != nil {
					for _, f := range factsAt(r) {
						if f.Kind != factCmp || f.Op != token.EQL {
							continue
						}
						if k, ok := constInt(f.Y); !ok || k != 1 {
							continue
						}
						if ln, ok := f.X.(*ssa.Call); ok {
							if b, ok := ln.Call.Value.(*ssa.Builtin); ok && b.Name() == "len" && ln.Call.Args[0] == ssa.Value(selCall) {
								one = true
							}
						}
					}
				}
				if !one {
					selOK = false
				}
			}
			if selOK && joinOK && commaOK {
				c.OK("C18.SINGLE", "ExtractTimeRange|single-source-guard-inline", ext.Pos(), "one SELECT, no JOIN, comma test — written inline")
				goto singleDone
			}
			c.Bad("C18.SINGLE", "ExtractTimeRange|single-source-guard", ext.Pos(), "ExtractTimeRange returns a range for statements that read several sources: OptimizeTablePath applies it to every table rewritten in the statement, so in `cpu c JOIN mem m … WHERE m.time >= x`, `cpu WHERE host IN (SELECT host FROM mem WHERE time >= x)` or a CTE over another measurement, rows of the other table outside the range are lost")
		} else {
			usesRegex := func(probe string, methods ...string) bool {
				for _, call := range callsIn(gfn, true) {
					nm := callName(call)
					okm := false
					for _, m := range methods {
						if nm == "(*regexp.Regexp)."+m {
							okm = true
						}
					}
					if !okm {
						continue
					}
					if g := c18GlobalOf(call.Common().Args[0]); g != nil {
						if r, ok := byName[g.Name()]; ok && r.re.MatchString(probe) && r.re.MatchString(strings.ToLower(probe)) && !r.re.MatchString("x"+probe+"x") {
							return true
						}
					}
				}
				return false
			}
			c.Check(usesRegex("SELECT", "FindAllStringIndex", "FindAllString", "FindAllStringSubmatch", "FindAllStringSubmatchIndex"), "C18.SINGLE", gfn.Name()+"|counts-select", gfn.Pos(), "SELECT keywords are counted", gfn.Name()+" does not count SELECT keywords: a subquery, CTE or UNION branch over another measurement passes as single-source")
			c.Check(usesRegex("JOIN", "MatchString", "FindStringIndex", "FindString"), "C18.SINGLE", gfn.Name()+"|refuses-join", gfn.Pos(), "JOIN is refused", gfn.Name()+" does not look for JOIN: `cpu c JOIN mem m … WHERE m.time >= x` prunes cpu by mem's predicate")
			comma := false
			for _, call := range callsIn(gfn, true) {
				switch callName(call) {
				case "strings.Contains", "strings.ContainsRune", "strings.IndexByte", "strings.Index", "strings.ContainsAny", "strings.Count":
					for _, a := range call.Common().Args {
						if s, ok := constString(a); ok && s == "," {
							comma = true
						}
						if k, ok := constInt(a); ok && k == ',' {
							comma = true
						}
					}
				}
			}
			commentDash, commentBlock := false, false
			for _, call := range callsIn(gfn, true) {
				if callName(call) == "strings.Contains" || callName(call) == "strings.Index" {
					if sv, ok := constString(call.Common().Args[1]); ok {
						if sv == "--" {
							commentDash = true
						}
						if sv == "/*" {
							commentBlock = true
						}
					}
				}
			}
			c.Check(commentDash && commentBlock, "C18.SINGLE", gfn.Name()+"|refuses-comments", gfn.Pos(), "statements with -- or /* are refused (comments are not stripped before extraction)", gfn.Name()+" does not refuse statements with comments: a time comparison inside a comment (`WHERE v > 0 -- AND time >= x`) is read as a predicate and partitions are pruned by it")
			c.Check(usesRegex("WHERE", "FindAllStringIndex", "FindAllString", "FindAllStringSubmatch", "FindAllStringSubmatchIndex"), "C18.SINGLE", gfn.Name()+"|counts-where", gfn.Pos(), "WHERE keywords are counted", gfn.Name()+" does not count WHERE keywords: the WHERE of `count(*) FILTER (WHERE time >= x)` is taken for the statement's row filter")
			filterQ := false
			for _, call := range callsIn(gfn, true) {
				if !strings.HasPrefix(callName(call), "(*regexp.Regexp).") {
					continue
				}
				if g := c18GlobalOf(call.Common().Args[0]); g != nil {
					if r, ok := byName[g.Name()]; ok && r.re.MatchString("count(*) FILTER (WHERE x)") && r.re.MatchString("a qualify b") && !r.re.MatchString("SELECT a FROM t WHERE x") {
						filterQ = true
					}
				}
			}
			c.Check(filterQ, "C18.SINGLE", gfn.Name()+"|refuses-filter-qualify", gfn.Pos(), "FILTER and QUALIFY are refused", gfn.Name()+" does not refuse FILTER (WHERE …) / QUALIFY: their comparisons restrict an aggregate or the windowed output, not the rows read")
			c.Check(comma, "C18.SINGLE", gfn.Name()+"|refuses-comma-join", gfn.Pos(), "a comma in the FROM clause is refused", gfn.Name()+" does not look for a comma in the FROM clause: `FROM cpu c, mem m WHERE m.time >= x` prunes cpu by mem's predicate")
		}
	}

singleDone:
	// the patterns run on unmasked text: statements with a dollar sign (dollar-quoted literals) must be refused before them
	{
		dollar := false
		for _, call := range callsIn(ext, false) {
			if callName(call) != "strings.Contains" && callName(call) != "strings.ContainsRune" && callName(call) != "strings.IndexByte" {
				continue
			}
			isDollar := false
			for _, a := range call.Common().Args[1:] {
				if sv, ok := constString(a); ok && sv == "$" {
					isDollar = true
				}
				if k, ok := constInt(a); ok && k == '$' {
					isDollar = true
				}
			}
			if !isDollar {
				continue
			}
			okAll := len(rets) > 0
			for _, r := range rets {
				if !guardedFalse(r, callValue(call)) {
					okAll = false
				}
			}
			if okAll {
				dollar = true
			}
		}
		c.Check(dollar, "C18.SINGLE", "ExtractTimeRange|refuses-dollar", ext.Pos(), "statements containing `$` are not pruned (the time patterns read unmasked text)", "ExtractTimeRange applies its time patterns to the unmasked WHERE clause without refusing dollar-quoted text: `host <> $$time < '2024-03-12'$$ AND time >= …` reads the literal's content as an upper bound and later partitions are not read")
	}

	// ---- OPEN
	{
		for _, call := range callsIn(ext, true) {
			switch callName(call) {
			case "time.Date":
				// a constant date is judged below, where it is stored as a bound
				if _, _, _, ok := c18ConstDate(call); ok {
					continue
				}
				fallthrough
			case "time.Now", "time.Unix", "time.UnixMilli", "time.UnixMicro":
				c.Bad("C18.OPEN", "ExtractTimeRange|invents-bound:"+callName(call), call.Pos(), "ExtractTimeRange builds a bound with %s: a range limit the query does not state (now+24h above, a fixed \"beginning of data\" date below) drops every row beyond it — future-stamped rows for `time >= x`, rows older than the constant for `time < x`", callName(call))
			}
		}
		n := 0
		for _, in := range instrs(ext, false) {
			st, ok := in.(*ssa.Store)
			if !ok || !c18IsTimeType(st.Val) {
				continue
			}
			sn, field, _, ok := fieldOf(st.Addr)
			if !ok || sn != "TimeRange" {
				continue
			}
			var y, m, d int64
			var construct string
			if g := c18GlobalOf(st.Val); g != nil {
				construct = "ExtractTimeRange|sentinel:" + field + "=" + g.Name()
				y, m, d, ok = c18GlobalDate(p, g)
				if !ok {
					c.Unk("C18.OPEN", construct, st.Pos(), "cannot evaluate the initialiser of %s", g.Name())
					continue
				}
			} else if cl, isCall := st.Val.(*ssa.Call); isCall && callName(cl) == "time.Date" {
				construct = "ExtractTimeRange|sentinel:" + field + "=inline-date"
				y, m, d, ok = c18ConstDate(cl)
				if !ok {
					continue // reported above as an invented bound
				}
			} else {
				n++
				continue
			}
			switch field {
			case "Start":
				c.Check(y < 1970 || (y == 1970 && m == 1 && d == 1), "C18.OPEN", construct, st.Pos(), fmt.Sprintf("missing lower bound is %04d-%02d-%02d, at or before the epoch floor", y, m, d), fmt.Sprintf("a missing lower bound is replaced by %04d-%02d-%02d: rows stamped before that date are never read for `time < x`", y, m, d))
			case "End":
				c.Check(y > 2262, "C18.OPEN", construct, st.Pos(), fmt.Sprintf("missing upper bound is year %d, beyond every int64-nanosecond timestamp", y), fmt.Sprintf("a missing upper bound is replaced by %04d-%02d-%02d: rows stamped after that date are never read for `time >= x`", y, m, d))
			default:
				c.Unk("C18.OPEN", construct, st.Pos(), "unexpected field")
			}
		}
		c.Check(n >= 2, "C18.OPEN", "ExtractTimeRange|bounds-from-query", ext.Pos(), fmt.Sprintf("%d bound stores take the parsed value", n), "no bound store takes a parsed value")
		c.Need("C18.OPEN", "ExtractTimeRange|sentinel:Start", "the only-upper-bound case")
		c.Need("C18.OPEN", "ExtractTimeRange|sentinel:End", "the only-lower-bound case")
	}

	// ---- walk
	gen := c.MustFunc("C18.CLAMP", "(*"+c18Pkg+".PartitionPruner).GeneratePartitionPaths")
	var walk *ssa.Phi
	if gen != nil {
		for _, in := range instrs(gen, false) {
			ph, ok := in.(*ssa.Phi)
			if !ok || !c18IsTimeType(ph) || !blockInCycle(ph.Block()) {
				continue
			}
			for _, e := range ph.Edges {
				if cl, ok := e.(*ssa.Call); ok && callName(cl) == "(time.Time).Add" && cl.Call.Args[0] == ssa.Value(ph) {
					if k, ok := constInt(cl.Call.Args[1]); ok && k == 3600000000000 {
						walk = ph
					}
				}
			}
		}
		if walk == nil {
			c.Unk("C18.CLAMP", "GeneratePartitionPaths|hour-walk", gen.Pos(), "cannot find the loop variable stepped by one hour")
		}
	}
	if walk != nil {
		// CLAMP: entry value of the walk
		var entry ssa.Value
		for _, e := range walk.Edges {
			if cl, ok := e.(*ssa.Call); ok && callName(cl) == "(time.Time).Add" {
				continue
			}
			entry = e
		}
		var subst []string
		seen := map[ssa.Value]bool{}
		var rec func(v ssa.Value)
		rec = func(v ssa.Value) {
			if v == nil || seen[v] {
				return
			}
			seen[v] = true
			if g := c18GlobalOf(v); g != nil {
				subst = append(subst, g.Name())
				return
			}
			switch x := v.(type) {
			case *ssa.Phi:
				for _, e := range x.Edges {
					rec(e)
				}
			case *ssa.Call:
				switch callName(x) {
				case "(time.Time).Truncate", "(time.Time).UTC", "(time.Time).Add":
					rec(x.Call.Args[0])
				}
			}
		}
		rec(entry)
		sort.Strings(subst)
		if len(subst) == 0 {
			c.OK("C18.CLAMP", "GeneratePartitionPaths|walk-starts-at-range-start", walk.Pos(), "the walk starts at the range's own start")
		}
		for _, g := range subst {
			c.Bad("C18.CLAMP", "GeneratePartitionPaths|start-replaced-by:"+g, walk.Pos(), "the hour walk starts at the package-level date %s instead of the range's Start when Start is earlier: line protocol accepts negative (pre-1970) timestamps and the writer stores them under 1969/… partitions, so `time >= '1969-12-31' AND time < '1970-01-02'` never reads the 1969 files", g)
		}

		// INCL
		var cmps []string
		var flagField string
		for _, r := range *walk.Referrers() {
			cl, ok := r.(*ssa.Call)
			if !ok || cl.Call.Args[0] != ssa.Value(walk) || !blockInCycle(cl.Block()) {
				continue
			}
			switch callName(cl) {
			case "(time.Time).Before", "(time.Time).After", "(time.Time).Equal", "(time.Time).Compare":
				cmps = append(cmps, strings.TrimPrefix(callName(cl), "(time.Time)."))
				if callName(cl) == "(time.Time).Equal" {
					for _, f := range factsAt(cl) {
						if f.Kind == factTrue {
							if sn, fld, _, ok := loadedField(f.Val); ok && sn == "TimeRange" {
								flagField = fld
							}
						}
					}
				}
			}
		}
		sort.Strings(cmps)
		has := func(s string) bool {
			for _, x := range cmps {
				if x == s {
					return true
				}
			}
			return false
		}
		switch {
		case has("After") || has("Compare"):
			c.OK("C18.INCL", "GeneratePartitionPaths|walk-reaches-end", walk.Pos(), "the walk runs up to and including End")
		case has("Before") && has("Equal") && flagField != "":
			c.OK("C18.INCL", "GeneratePartitionPaths|walk-reaches-end", walk.Pos(), "the walk adds the partition at End under TimeRange.%s", flagField)
			c18InclusivePairs(c, ext, flagField)
		default:
			c.Bad("C18.INCL", "GeneratePartitionPaths|walk-reaches-end", walk.Pos(), "the hour walk runs only while current.Before(End) (comparisons: %v): for `time <= x` and `BETWEEN … AND x` with x on an hour boundary the row stamped exactly x lives in the partition starting at x, which is never read", cmps)
		}

		// DAYS
		nf := 0
		for _, call := range findCalls(gen, false, "(time.Time).Format") {
			recv := call.Common().Args[0]
			if recv == ssa.Value(walk) {
				nf++
				continue
			}
			c.Bad("C18.DAYS", "GeneratePartitionPaths|format-of-other-variable", call.Pos(), "a path component is formatted from a variable other than the hour walk: day-level paths produced by a separate walk (one step per 24 h from the first hour) skip the last day whenever the range ends earlier in the day than it starts, and the compacted day file of that day is never read")
		}
		c.Check(nf >= 1, "C18.DAYS", "GeneratePartitionPaths|components-from-hour-walk", walk.Pos(), fmt.Sprintf("%d Format calls, all on the hour-walk variable", nf), "no path component is formatted from the hour walk")
		// the day key must be recorded (or appended) inside the walk, every iteration
		dayInLoop := false
		for _, in := range instrs(gen, false) {
			if mu, ok := in.(*ssa.MapUpdate); ok && blockInCycle(mu.Block()) && walk.Block().Dominates(mu.Block()) {
				if derives(mu.Key, func(v ssa.Value) bool { return v == ssa.Value(walk) }, true, 12) {
					dayInLoop = true
				}
			}
		}
		nAppendLoops := 0
		for _, call := range callsIn(gen, false) {
			if b, ok := call.Common().Value.(*ssa.Builtin); ok && b.Name() == "append" && blockInCycle(call.Block()) {
				nAppendLoops++
			}
		}
		c.Check(dayInLoop || nAppendLoops >= 2, "C18.DAYS", "GeneratePartitionPaths|day-recorded-per-hour", walk.Pos(), "each hour of the walk records its day", "the hour walk does not record the day of each hour it visits: compacted day files (stored at year/month/day/*.parquet) are not read")
	}

	// ---- UTC
	if fn := c.MustFunc("C18.UTC", c18Pkg+".parseDateTime"); fn != nil {
		n := 0
		for _, in := range instrs(fn, false) {
			r, ok := in.(*ssa.Return)
			if !ok || len(r.Results) != 2 || !isNilConst(unspill(r, r.Results[1])) {
				continue
			}
			n++
			v := unspill(r, r.Results[0])
			cl, ok := v.(*ssa.Call)
			c.Check(ok && callName(cl) == "(time.Time).UTC", "C18.UTC", fmt.Sprintf("parseDateTime|success-return#%d", n), r.Pos(), "parsed value returned through UTC()", "parseDateTime returns the parsed time in the literal's own zone: GeneratePartitionPaths formats year/month/day/hour from it, so `time >= '2024-03-16T00:00:00+05:00'` walks partitions 2024/03/16/00… instead of 2024/03/15/19…, and rows in the first five hours are lost")
		}
		c.Check(n >= 1, "C18.UTC", "parseDateTime|has-success-return", fn.Pos(), "success returns found", "no success return found")
	}
	if fn := c.MustFunc("C18.UTC", c18Pkg+".evaluateRelativeTime"); fn != nil {
		for i, call := range findCalls(fn, false, "time.Now") {
			v := callValue(call)
			okAll := v != nil && len(*v.Referrers()) > 0
			if v != nil {
				for _, r := range *v.Referrers() {
					cl, ok := r.(*ssa.Call)
					if !ok || callName(cl) != "(time.Time).UTC" {
						okAll = false
					}
				}
			}
			c.Check(okAll, "C18.UTC", fmt.Sprintf("evaluateRelativeTime|now#%d-utc", i+1), call.Pos(), "clock read through UTC()", "evaluateRelativeTime uses the local-zone clock value: partition components are formatted in the server's zone")
		}
	}

	// ---- KEY
	if fn := c.MustFunc("C18.KEY", "(*"+c18Pkg+".partitionCache).cacheKey"); fn != nil {
		for i, prm := range fn.Params[1:] {
			used := false
			for _, in := range instrs(fn, false) {
				r, ok := in.(*ssa.Return)
				if !ok {
					continue
				}
				if derivesWide(unspill(r, r.Results[0]), func(v ssa.Value) bool { return v == ssa.Value(prm) }, 40) {
					used = true
				}
			}
			c.Check(used, "C18.KEY", "cacheKey|covers:"+prm.Name(), fn.Pos(), "key depends on "+prm.Name(), fmt.Sprintf("the partition cache key does not depend on parameter %d (%s): two queries over the same table with different time ranges (or the same query over two tables) share one cached path list", i+1, prm.Name()))
		}
	}
	opt := c.MustFunc("C18.KEY", "(*"+c18Pkg+".PartitionPruner).OptimizeTablePath")
	if opt != nil {
		pPath, pSQL := opt.Params[2], opt.Params[3]
		for _, call := range findCalls(opt, false, "(*"+c18Pkg+".partitionCache).cacheKey") {
			a := call.Common().Args
			c.Check(len(a) == 3 && resolveParam(a[1]) == ssa.Value(pPath) && resolveParam(a[2]) == ssa.Value(pSQL), "C18.KEY", "OptimizeTablePath|key-from-own-arguments", call.Pos(), "cache keyed by (originalPath, sql)", "OptimizeTablePath does not key its cache with its own (originalPath, sql) arguments")
		}
		for _, call := range findCalls(opt, false, "(*"+c18Pkg+".PartitionPruner).ExtractTimeRange") {
			a := call.Common().Args
			c.Check(len(a) == 2 && resolveParam(a[1]) == ssa.Value(pSQL), "C18.KEY", "OptimizeTablePath|range-from-same-sql", call.Pos(), "range extracted from the keyed SQL", "the range is extracted from a different string than the one the cache is keyed by")
		}
		c.Need("C18.KEY", "OptimizeTablePath|key-from-own-arguments", "the cache lookup")
		c.Need("C18.KEY", "OptimizeTablePath|range-from-same-sql", "the extraction")

		// every cache access in OptimizeTablePath: keyed by cacheKey(path, sql), or — if keyed by the range — by every TimeRange field GeneratePartitionPaths reads
		if gen != nil {
			read := map[string]bool{}
			for _, in := range instrs(gen, false) {
				if fa, ok := in.(*ssa.FieldAddr); ok {
					if sn, fld, _, ok := fieldOf(fa); ok && sn == "TimeRange" {
						read[fld] = true
					}
				}
			}
			nAcc := 0
			for _, call := range callsIn(opt, false) {
				nm := callName(call)
				if nm != "(*"+c18Pkg+".partitionCache).get" && nm != "(*"+c18Pkg+".partitionCache).set" {
					continue
				}
				nAcc++
				key := call.Common().Args[1]
				if derivesWide(key, isResultOf("(*"+c18Pkg+".partitionCache).cacheKey"), 6) {
					c.Triv("C18.KEY", fmt.Sprintf("OptimizeTablePath|cache-access#%d", nAcc), call.Pos(), "keyed by cacheKey(path, sql)")
					continue
				}
				fs := fieldSources(key, 14)
				var missing []string
				for f := range read {
					if !fs["TimeRange."+f] {
						missing = append(missing, f)
					}
				}
				sort.Strings(missing)
				c.Check(len(missing) == 0, "C18.KEY", fmt.Sprintf("OptimizeTablePath|cache-access#%d-range-key", nAcc), call.Pos(), "range-derived key covers every TimeRange field the path generator reads", "a partition-cache entry is keyed by the time range without TimeRange."+strings.Join(missing, ", TimeRange.")+", which GeneratePartitionPaths reads: two statements that differ only there (`time < b` and `time <= b`) share one path list, and the second loses the partition starting at b")
			}
		}

		// ---- REMOTE: a failed listing is not evidence of absence
		c.Rule("C18.REMOTE", "PATH: in the loop of filterExistingRemotePaths that builds the list of kept paths, the error branch of a storage listing call does not reach the next iteration without keeping the path (a failed listing is not evidence of absence)")
		if fr := c.MustFunc("C18.REMOTE", "(*"+c18Pkg+".PartitionPruner).filterExistingRemotePaths"); fr != nil {
			// appends that feed the returned slice
			keep := map[*ssa.BasicBlock]bool{}
			var header *ssa.BasicBlock
			for _, in := range instrs(fr, false) {
				r, ok := in.(*ssa.Return)
				if !ok {
					continue
				}
				seen := map[ssa.Value]bool{}
				var rec func(v ssa.Value)
				rec = func(v ssa.Value) {
					if v == nil || seen[v] {
						return
					}
					seen[v] = true
					switch x := v.(type) {
					case *ssa.Phi:
						if blockInCycle(x.Block()) {
							header = x.Block()
						}
						for _, e := range x.Edges {
							rec(e)
						}
					case *ssa.Call:
						if b, ok := x.Call.Value.(*ssa.Builtin); ok && b.Name() == "append" {
							keep[x.Block()] = true
							rec(x.Call.Args[0])
						}
					}
				}
				rec(unspill(r, r.Results[0]))
			}
			n := 0
			for _, in := range instrs(fr, false) {
				ifi, ok := in.(*ssa.If)
				if !ok || header == nil || !header.Dominates(ifi.Block()) || !blockInCycle(ifi.Block()) {
					continue
				}
				bo, ok := ifi.Cond.(*ssa.BinOp)
				if !ok || bo.Op != token.NEQ || !isNilConst(bo.Y) || !isErrorType(bo.X.Type()) {
					continue
				}
				ex, ok := bo.X.(*ssa.Extract)
				if !ok {
					continue
				}
				lc, ok := ex.Tuple.(*ssa.Call)
				if !ok || !lc.Call.IsInvoke() {
					continue
				}
				n++
				// DFS from the error branch
				skips := false
				vis := map[*ssa.BasicBlock]bool{}
				// path search with the boolean phis decided by the edge taken (a flag set on the error branch and tested right after)
				var dfs func(from, b *ssa.BasicBlock)
				dfs = func(from, b *ssa.BasicBlock) {
					if keep[b] {
						return
					}
					if b == header {
						skips = true
						return
					}
					if vis[b] {
						return
					}
					vis[b] = true
					succs := b.Succs
					if bi, ok := lastIf(b); ok {
						cond, neg := bi.Cond, false
						if u, ok := cond.(*ssa.UnOp); ok && u.Op == token.NOT {
							cond, neg = u.X, true
						}
						if ph, ok := cond.(*ssa.Phi); ok && ph.Block() == b {
							for k, pr := range b.Preds {
								if pr == from {
									if kc, ok := ph.Edges[k].(*ssa.Const); ok && kc.Value != nil {
										v := kc.Value.String() == "true"
										if neg {
											v = !v
										}
										if v {
											succs = b.Succs[:1]
										} else {
											succs = b.Succs[1:2]
										}
									}
								}
							}
						}
					}
					for _, sc := range succs {
						dfs(b, sc)
					}
				}
				dfs(ifi.Block(), ifi.Block().Succs[0])
				_ = 0
				c.Check(!skips, "C18.REMOTE", fmt.Sprintf("filterExistingRemotePaths|%s-error-keeps-path", lc.Call.Method.Name()), ifi.Pos(), "on a listing error the path is still kept", "when "+lc.Call.Method.Name()+" fails, the path is dropped from the pruned list: a transient storage error silently leaves that partition's file out of the query (the directory listing above keeps everything on error)")
			}
			// nothing is cached on the error side of ANY listing call of the function (a cached "unknown" reads back as "no children")
			nErr := 0
			for _, in := range instrs(fr, false) {
				ifi, ok := in.(*ssa.If)
				if !ok {
					continue
				}
				bo, ok := ifi.Cond.(*ssa.BinOp)
				if !ok || bo.Op != token.NEQ || !isNilConst(bo.Y) || !isErrorType(bo.X.Type()) {
					continue
				}
				ex, ok := bo.X.(*ssa.Extract)
				if !ok {
					continue
				}
				lc, ok := ex.Tuple.(*ssa.Call)
				if !ok || !lc.Call.IsInvoke() {
					continue
				}
				nErr++
				errSide := ifi.Block().Succs[0]
				cached := false
				for _, call := range callsIn(fr, false) {
					if strings.HasSuffix(callName(call), "globCache).set") && errSide.Dominates(call.Block()) {
						cached = true
					}
				}
				c.Check(!cached, "C18.REMOTE", fmt.Sprintf("filterExistingRemotePaths|%s-error-not-cached#%d", lc.Call.Method.Name(), nErr), ifi.Pos(), "a failed listing is not cached", "the error branch of "+lc.Call.Method.Name()+" stores something in the glob cache: `unknown` is read back for 30 s as `this parent has no children`, and every partition under it is silently dropped from the following statements")
			}
			c.Check(n >= 1, "C18.REMOTE", "filterExistingRemotePaths|listing-error-branches", fr.Pos(), fmt.Sprintf("%d listing error branch(es) inside the keep loop inspected", n), "no listing error branch found inside the keep loop")
		}

		// ---- FALLBACK
		var filt ssa.Value
		for _, call := range findCalls(opt, false, "(*"+c18Pkg+".PartitionPruner).filterExistingPaths") {
			filt = callValue(call)
		}
		nOrig, nOpt := 0, 0
		for _, in := range instrs(opt, false) {
			r, ok := in.(*ssa.Return)
			if !ok || len(r.Results) != 2 {
				continue
			}
			v0, v1 := unspill(r, r.Results[0]), unspill(r, r.Results[1])
			if k, ok := v1.(*ssa.Const); ok && k.Value != nil && k.Value.Kind() == constant.Bool {
				if !constant.BoolVal(k.Value) {
					nOrig++
					mi, ok := v0.(*ssa.MakeInterface)
					c.Check(ok && resolveParam(mi.X) == ssa.Value(pPath), "C18.FALLBACK", fmt.Sprintf("OptimizeTablePath|unoptimised-exit#%d", nOrig), r.Pos(), "returns the original path", "an exit reporting `not optimised` returns something other than the caller's original path")
					continue
				}
				nOpt++
				nonEmpty := false
				for _, f := range factsAt(r) {
					if f.Kind != factCmp {
						continue
					}
					if cl, ok := f.X.(*ssa.Call); ok {
						if b, ok := cl.Call.Value.(*ssa.Builtin); ok && b.Name() == "len" && cl.Call.Args[0] == filt {
							if z, ok := constInt(f.Y); ok && z == 0 && (f.Op == token.NEQ || f.Op == token.GTR) {
								nonEmpty = true
							}
						}
					}
				}
				fromFilter := filt != nil && derivesWide(v0, func(v ssa.Value) bool { return v == filt }, 30)
				c.Check(nonEmpty && fromFilter, "C18.FALLBACK", fmt.Sprintf("OptimizeTablePath|optimised-exit#%d", nOpt), r.Pos(), "returns the existence-filtered list, known non-empty", "an exit reporting `optimised` does not return the filtered partition list under a non-empty test: an empty list reads no file at all")
				continue
			}
			// cached exit
			fromCache := derivesWide(v0, isResultOf("(*"+c18Pkg+".partitionCache).get"), 10) && derivesWide(v1, isResultOf("(*"+c18Pkg+".partitionCache).get"), 10)
			c.Check(fromCache, "C18.FALLBACK", "OptimizeTablePath|cached-exit", r.Pos(), "returns the cached pair", "an exit returns a computed flag that does not come from the cache")
		}
		c.Floor("C18.FALLBACK", 5, "disabled, no range, bad path, no partitions, none existing, optimised, cached")
	}

	// ---- USE
	for _, name := range []string{"buildReadParquetExpr", "buildReadParquetExprForParallel"} {
		fn := c.MustFunc("C18.USE", "(*internal/api.QueryHandler)."+name)
		if fn == nil {
			continue
		}
		var pPath, pSQL *ssa.Parameter
		for _, q := range fn.Params {
			switch q.Name() {
			case "path":
				pPath = q
			case "originalSQL":
				pSQL = q
			}
		}
		calls := findCalls(fn, false, "(*"+c18Pkg+".PartitionPruner).OptimizeTablePath")
		if len(calls) != 1 || pPath == nil || pSQL == nil {
			c.Unk("C18.USE", name+"|pruner-call", fn.Pos(), "expected one OptimizeTablePath call and parameters path/originalSQL")
			continue
		}
		a := calls[0].Common().Args
		c.Check(resolveParam(a[2]) == ssa.Value(pPath) && resolveParam(a[3]) == ssa.Value(pSQL), "C18.USE", name+"|pruner-arguments", calls[0].Pos(), "pruner gets (path, originalSQL)", name+" hands the pruner another path or SQL than its own: the range of one statement prunes the table of another")
		// the exit not under wasOptimized must read `path`
		flag := resultN(calls[0], 1)
		n := 0
		for _, in := range instrs(fn, false) {
			r, ok := in.(*ssa.Return)
			if !ok || !instrDominates(calls[0], r) {
				continue
			}
			if guardedTrue(r, flag) {
				continue
			}
			n++
			v := unspill(r, r.Results[0])
			uses := derivesWide(v, func(x ssa.Value) bool { return resolveParam(x) == ssa.Value(pPath) }, 30)
			c.Check(uses, "C18.USE", fmt.Sprintf("%s|unoptimised-exit#%d", name, n), r.Pos(), "reads the original path", "the exit taken when the pruner did not optimise does not read the original path")
		}
		c.Check(n >= 1, "C18.USE", name+"|has-unoptimised-exit", fn.Pos(), "fallback exit present", "no exit outside the optimised branch")
	}
}

// c18InclusivePairs: in ExtractTimeRange, wherever the value that reaches TimeRange.End takes a fresh bound,
// the value that reaches TimeRange.<flag> takes a fresh value too.
func c18InclusivePairs(c *Ctx, ext *ssa.Function, flagField string) {
	var endVals, flagVals []ssa.Value
	for _, in := range instrs(ext, false) {
		st, ok := in.(*ssa.Store)
		if !ok {
			continue
		}
		sn, field, _, ok := fieldOf(st.Addr)
		if !ok || sn != "TimeRange" {
			continue
		}
		switch field {
		case "End":
			if ld, ok := st.Val.(*ssa.UnOp); ok && ld.Op == token.MUL {
				endVals = append(endVals, ld.X)
			}
		case flagField:
			flagVals = append(flagVals, st.Val)
		}
	}
	// collect phis reachable from each
	phis := func(roots []ssa.Value) map[*ssa.BasicBlock]*ssa.Phi {
		out := map[*ssa.BasicBlock]*ssa.Phi{}
		seen := map[ssa.Value]bool{}
		var rec func(v ssa.Value)
		rec = func(v ssa.Value) {
			if v == nil || seen[v] {
				return
			}
			seen[v] = true
			if ph, ok := v.(*ssa.Phi); ok {
				out[ph.Block()] = ph
				for _, e := range ph.Edges {
					rec(e)
				}
			}
		}
		for _, r := range roots {
			rec(r)
		}
		return out
	}
	ep, fp := phis(endVals), phis(flagVals)
	nFresh := 0
	sawTrue, sawLE := false, false
	var blocks []*ssa.BasicBlock
	for b := range ep {
		blocks = append(blocks, b)
	}
	sort.Slice(blocks, func(i, j int) bool { return blocks[i].Index < blocks[j].Index })
	for _, b := range blocks {
		e := ep[b]
		for k, edge := range e.Edges {
			if _, fresh := edge.(*ssa.Alloc); !fresh {
				continue
			}
			nFresh++
			construct := fmt.Sprintf("ExtractTimeRange|upper-bound#%d-sets-%s", nFresh, flagField)
			f := fp[b]
			if f == nil {
				c.Bad("C18.INCL", construct, edge.Pos(), "an upper bound is taken here without deciding whether it is inclusive: the flag keeps whatever an earlier pattern left")
				continue
			}
			fv := f.Edges[k]
			switch x := fv.(type) {
			case *ssa.Const:
				if x.Value != nil && x.Value.Kind() == constant.Bool && constant.BoolVal(x.Value) {
					sawTrue = true
					c.OK("C18.INCL", construct, edge.Pos(), "bound marked inclusive")
				} else {
					c.Bad("C18.INCL", construct, edge.Pos(), "the upper bound taken here is marked exclusive unconditionally: for BETWEEN / `<=` with the bound on an hour boundary the partition starting at the bound is never read")
				}
			case *ssa.Call:
				le := false
				for _, a := range x.Call.Args {
					if s, ok := constString(a); ok && strings.Contains(s, "<=") {
						le = true
					}
				}
				if le {
					sawLE = true
				}
				c.Check(le, "C18.INCL", construct, edge.Pos(), "inclusive iff the matched text has `<=`", "the inclusivity of this bound is not read off the matched operator")
			default:
				c.Bad("C18.INCL", construct, edge.Pos(), "an upper bound is taken here but the inclusivity flag keeps its previous value")
			}
		}
	}
	c.Check(nFresh >= 4 && sawTrue && sawLE, "C18.INCL", "ExtractTimeRange|upper-bound-sites", ext.Pos(), fmt.Sprintf("%d sites take an upper bound (literal, BETWEEN, NOW()-, NOW()+), each paired with the flag", nFresh), fmt.Sprintf("expected the four upper-bound sites (literal, BETWEEN, NOW()-, NOW()+) each to set the flag; found %d (true seen: %v, `<=` seen: %v)", nFresh, sawTrue, sawLE))
}
