package main

import (
	"fmt"
	"go/token"
	"go/types"
	"sort"
	"strings"

	"golang.org/x/tools/go/ssa"
)

func init() {
	register("C19", runC19,
		"per-value fidelity of each conversion (float formatting, time formatting, text form of unencoded types), JSON string escaping, the Arrow IPC stream, and the decimal cast; decided are: that the JSON cell writer emits something on every path and never formats a non-finite float, that each columnar msgpack encoder emits exactly one element per row on every path, that no typed accessor is read for a null slot, that the dispatcher hands each Arrow array type to the encoder that asserts that same type, that natively encoded types have their own wire-type name, that integer cells are only widened, that the column length announced is the row count of the very batches encoded, that a row limit keeps a prefix, and that timestamps are converted with the column's own unit", "prod")
}

func isWriterCall(call ssa.CallInstruction) bool {
	n := callName(call)
	return strings.HasPrefix(n, "(*bufio.Writer).Write") || n == "internal/api.writeJSONString" || n == "internal/api.writeJSONStringArray" || n == "internal/api.writeJSONBlob"
}

func isEncCall(call ssa.CallInstruction) bool {
	n := callName(call)
	return strings.Contains(n, "/msgpack/") && strings.Contains(n, ".Encoder).Encode")
}

func runC19(c *Ctx) {
	p := c.P
	c.Rule("C19.EMITJ", "PASS: every path through writeArrowValue performs at least one write to the response (no arm leaves a cell empty, which would make the row malformed JSON)")
	c.Rule("C19.NONFINITE", "DOM: in writeArrowValue every float formatting call is reached only where IsNaN and IsInf were false")
	c.Rule("C19.EMITM", "PASS: in every encode*Column function each iteration of the element loop performs exactly one Encode call on every path that continues (or returns an error)")
	c.Rule("C19.NULL", "DOM: every typed Value(i)/ValueStr(i) read in the cell encoders is reached only where IsNull(i) of that same array and index was false")
	c.Rule("C19.DISPATCH", "AGREE: each arm of encodeColumn's type switch calls the encoder whose batch column assertion is that same Arrow array type; the default arm calls the fallback encoder")
	c.Rule("C19.NAMES", "AGREE: every Arrow array type with its own encoder has a dedicated arm in arrowTypeName (its name is neither the string-encoded nor the unknown sentinel)")
	c.Rule("C19.WIDEN", "TYPE: integer and float conversions of cell values in the encoders only widen (same signedness, destination at least as wide)")
	c.Rule("C19.LEN", "FLOW: the array length announced for each column is the row count returned by the drainArrowBatches call that returned the batches being encoded")
	c.Rule("C19.TRUNC", "FLOW: the row limit keeps a prefix of the last batch: NewSlice(0, cap - rows so far)")
	c.Rule("C19.UNIT", "FLOW: every Timestamp.ToTime(unit) uses the unit of that column's own TimestampType")

	// ---- CAST: narrowing casts of result columns are checked
	c.Rule("C19.CAST", "WHO+FLOW: every compute.CastArray applied to a result column in internal/api gets its options from compute.SafeCastOptions (a checked cast: a decimal that does not fit the int64/float64 target is an error, not a truncated number), and nothing in internal/api calls UnsafeCastOptions or builds CastOptions with the Allow* overflow/truncate switches set")
	{
		nCast := 0
		for _, fn := range p.FuncsIn("internal/api") {
			for _, call := range callsIn(fn, true) {
				nm := callName(call)
				switch {
				case strings.HasSuffix(nm, "/compute.UnsafeCastOptions"):
					c.Bad("C19.CAST", fn.Name()+"|unsafe-cast-options", call.Pos(), "%s casts a result column with UnsafeCastOptions: a scale-0 decimal / HUGEINT outside the int64 range keeps only its low 64 bits, and the response carries a different number under a success status (18446744073709551621 comes back as 5)", fn.Name())
				case strings.HasSuffix(nm, "/compute.CastArray") || strings.HasSuffix(nm, "/compute.CastDatum") || strings.HasSuffix(nm, "/compute.CastToType"):
					nCast++
					args := call.Common().Args
					opt := args[len(args)-1]
					safe := derives(opt, func(v ssa.Value) bool {
						cl, ok := v.(*ssa.Call)
						return ok && strings.HasSuffix(callName(cl), "/compute.SafeCastOptions")
					}, false, 4)
					if strings.HasSuffix(nm, "CastToType") {
						safe = true // CastToType(ctx, val, toType) is the checked form by definition
					}
					c.Check(safe, "C19.CAST", fmt.Sprintf("%s|cast#%d-checked", fn.Name(), nCast), call.Pos(), "cast options come from SafeCastOptions", fn.Name()+" casts a result column with options that do not come from compute.SafeCastOptions: out-of-range values are truncated instead of reported")
				}
			}
		}
		c.Check(nCast >= 1, "C19.CAST", "internal/api|cast-sites", 0, fmt.Sprintf("%d cast site(s) inspected", nCast), "no result-column cast found (rule needs review)")
	}

	// ---- BYTES
	c.Rule("C19.BYTES", "FLOW: no cell writer hands writeJSONString a string converted from a byte slice — binary data is not text, and raw bytes >= 0x80 make the JSON body undecodable; and the binary writer emits, for every byte outside printable ASCII (and for backslash and quotes), an escape built from that byte")
	for _, name := range []string{"internal/api.writeArrowValue", "internal/api.writeJSONValue"} {
		fn := p.Func(name)
		if fn == nil {
			continue
		}
		n := 0
		for _, call := range findCalls(fn, false, "internal/api.writeJSONString") {
			arg := call.Common().Args[2]
			raw := derives(arg, func(v ssa.Value) bool {
				cv, ok := v.(*ssa.Convert)
				return ok && cv.X.Type().String() == "[]byte" && cv.Type().String() == "string"
			}, false, 4)
			n++
			if raw {
				c.Bad("C19.BYTES", fmt.Sprintf("%s|writeJSONString#%d-raw-bytes", fn.Name(), n), call.Pos(), "%s writes a []byte value as string(bytes) into a JSON string: a BLOB with a byte >= 0x80 that is not valid UTF-8 makes the response undecodable, and lenient decoders map different blobs to the same text", fn.Name())
			} else {
				c.Triv("C19.BYTES", fmt.Sprintf("%s|writeJSONString#%d-text", fn.Name(), n), call.Pos(), "argument is text")
			}
		}
		c.Check(n > 0, "C19.BYTES", fn.Name()+"|string-writes-found", fn.Pos(), fmt.Sprintf("%d string writes inspected", n), "no writeJSONString call found")
	}
	if fn := c.MustFunc("C19.BYTES", "internal/api.writeJSONBlob"); fn != nil {
		// the pass-through write of a byte happens only under 0x20 <= c < 0x7f and c != backslash/quotes
		var rng *ssa.Next
		_ = rng
		nPass := 0
		okPass := true
		for _, call := range findCalls(fn, false, "(*bufio.Writer).WriteByte") {
			arg := call.Common().Args[1]
			if _, isConst := arg.(*ssa.Const); isConst {
				continue
			}
			if derives(arg, func(v ssa.Value) bool { _, ok := v.(*ssa.BinOp); return ok }, false, 3) {
				// a hex digit computed from the byte
				continue
			}
			if _, isLookup := arg.(*ssa.Lookup); isLookup {
				continue
			}
			if _, isIdx := arg.(*ssa.Index); isIdx {
				continue
			}
			nPass++
			need := map[string]bool{">=32": false, "<127": false, "!=92": false, "!=34": false}
			for _, f := range factsAt(call.(ssa.Instruction)) {
				if f.Kind != factCmp || f.X != arg {
					continue
				}
				k, ok := constInt(f.Y)
				if !ok {
					continue
				}
				switch {
				case (f.Op == token.GEQ && k == 0x20) || (f.Op == token.GTR && k == 0x1f):
					need[">=32"] = true
				case (f.Op == token.LSS && k == 0x7f) || (f.Op == token.LEQ && k == 0x7e) || (f.Op == token.LSS && k == 0x80):
					need["<127"] = true
				case f.Op == token.NEQ && k == '\\':
					need["!=92"] = true
				case f.Op == token.NEQ && k == '"':
					need["!=34"] = true
				}
			}
			for _, v := range need {
				if !v {
					okPass = false
				}
			}
		}
		c.Check(nPass == 1 && okPass, "C19.BYTES", "writeJSONBlob|pass-through-only-printable-ascii", fn.Pos(), "a byte is copied verbatim only if printable ASCII and not a backslash or double quote", "writeJSONBlob copies bytes verbatim that are not printable ASCII, or a backslash / double quote: the JSON string is malformed or the text form ambiguous")
	}

	// ---- EMITJ / NONFINITE
	if fn := c.MustFunc("C19.EMITJ", "internal/api.writeArrowValue"); fn != nil {
		silent := 0
		for _, e := range pathsAvoiding(fn, nil, func(x ssa.Instruction) bool {
			ci, ok := x.(ssa.CallInstruction)
			return ok && isWriterCall(ci)
		}) {
			if _, ok := e.Instr.(*ssa.Return); ok {
				silent++
			}
		}
		c.Check(silent == 0, "C19.EMITJ", "writeArrowValue|every-path-writes", fn.Pos(), "all paths write a value", fmt.Sprintf("%d path(s) through writeArrowValue return without writing anything: the cell is empty and the row is not valid JSON", silent))
		n := 0
		for _, call := range findCalls(fn, false, "strconv.AppendFloat") {
			n++
			v := call.Common().Args[1]
			nan, inf := false, false
			for _, f := range factsAt(call.(ssa.Instruction)) {
				if f.Kind != factFalse {
					continue
				}
				if cl, ok := f.Val.(*ssa.Call); ok && cl.Call.Args[0] == v {
					switch callName(cl) {
					case "math.IsNaN":
						nan = true
					case "math.IsInf":
						inf = true
					}
				}
			}
			c.Check(nan && inf, "C19.NONFINITE", fmt.Sprintf("writeArrowValue|float#%d", n), call.Pos(), "formatted only when finite", "a float is formatted without IsNaN/IsInf having been excluded: NaN/Inf are not JSON")
		}
		c.Floor("C19.NONFINITE", 2, "float64 and float32 arms")
	}

	// ---- CAPJ
	c.Rule("C19.CAPJ", "DOM: in streamArrowJSON a row is opened only where, on every path, the governance limit is off (<= 0) or the rows written so far are below it")
	if fn := c.MustFunc("C19.CAPJ", "internal/api.streamArrowJSON"); fn != nil {
		gov := func(v ssa.Value) bool { return isParam(fn, "governanceMaxRows")(resolveParam(v)) }
		n := 0
		for _, call := range findCalls(fn, false, "(*bufio.Writer).WriteByte") {
			k, ok := constInt(call.Common().Args[1])
			if !ok || k != '[' {
				continue
			}
			n++
			okF := func(fs []fact) bool {
				for _, f := range fs {
					if f.Kind != factCmp {
						continue
					}
					if f.Op == token.LEQ && gov(f.X) {
						if z, ok := constInt(f.Y); ok && z == 0 {
							return true
						}
					}
					if f.Op == token.LSS && gov(f.Y) {
						return true
					}
				}
				return false
			}
			at := call.(ssa.Instruction)
			c.Check(okF(factsAt(at)) || holdsOnAllPaths(at.Block(), okF, 12, nil), "C19.CAPJ", "streamArrowJSON|row-under-cap", call.Pos(), "a row is written only while under the limit", "a row can be written although the governance row limit has been reached (the limit test does not guard every way into the row writer, e.g. the first row of the next batch)")
		}
		if n == 0 {
			c.Unk("C19.CAPJ", "streamArrowJSON|row-under-cap", fn.Pos(), "no row opener found")
		}
	}

	// ---- EMITM / NULL / WIDEN over encoders
	var encoders []*ssa.Function
	for _, fn := range p.FuncsIn("internal/api") {
		if strings.HasPrefix(fn.Name(), "encode") && strings.HasSuffix(fn.Name(), "Column") && fn.Name() != "encodeColumn" {
			encoders = append(encoders, fn)
		}
	}
	sort.Slice(encoders, func(i, j int) bool { return encoders[i].Name() < encoders[j].Name() })
	for _, fn := range encoders {
		// the element loop: for.loop block comparing with n (= c.Len())
		var hdr *ssa.BasicBlock
		for _, b := range fn.Blocks {
			if !strings.HasPrefix(b.Comment, "for.loop") {
				continue
			}
			if ifi, ok := b.Instrs[len(b.Instrs)-1].(*ssa.If); ok {
				if cmp, ok := ifi.Cond.(*ssa.BinOp); ok && cmp.Op == token.LSS {
					if derives(cmp.Y, func(v ssa.Value) bool {
						cl, ok := v.(*ssa.Call)
						return ok && (cl.Call.IsInvoke() && cl.Call.Method.Name() == "Len" || !cl.Call.IsInvoke() && cl.Call.StaticCallee() != nil && cl.Call.StaticCallee().Name() == "Len")
					}, false, 3) {
						hdr = b
					}
				}
			}
		}
		if hdr == nil {
			c.Unk("C19.EMITM", fn.Name()+"|element-loop", fn.Pos(), "no element loop found")
			continue
		}
		body := hdr.Succs[0]
		isEnc := func(x ssa.Instruction) bool {
			ci, ok := x.(ssa.CallInstruction)
			return ok && isEncCall(ci)
		}
		zero := false
		for _, e := range pathsAvoidingTo(fn, nil, body, isEnc, func(x ssa.Instruction) bool { return x.Block() == hdr }) {
			if e.Instr != nil && e.Instr.Block() == hdr {
				zero = true
			}
		}
		two := false
		for _, in := range instrs(fn, false) {
			if !isEnc(in) || !edgeStaysInLoop(in.Block(), hdr) {
				continue
			}
			for _, e := range pathsAvoidingTo(fn, in, nil, func(x ssa.Instruction) bool { return x.Block() == hdr }, func(x ssa.Instruction) bool { return x != in && isEnc(x) }) {
				if e.Instr != nil && isEnc(e.Instr) {
					two = true
				}
			}
		}
		c.Check(!zero && !two, "C19.EMITM", fn.Name()+"|one-element-per-row", hdr.Instrs[0].Pos(), "each row emits exactly one msgpack element", fmt.Sprintf("a row can emit %s elements: the column array no longer has the announced length and every later value is misread", map[bool]string{true: "zero", false: "two"}[zero]))
	}
	c.Floor("C19.EMITM", 16, "typed encoders and the fallback")

	// NULL: Value/ValueStr reads
	nVal := 0
	for _, fn := range append(encoders, p.Func("internal/api.writeArrowValue")) {
		if fn == nil {
			continue
		}
		for _, call := range callsIn(fn, false) {
			cc := call.Common()
			name := ""
			var recv, idx ssa.Value
			if cc.IsInvoke() {
				name = cc.Method.Name()
				recv = cc.Value
				if len(cc.Args) == 1 {
					idx = cc.Args[0]
				}
			} else if cal := cc.StaticCallee(); cal != nil && len(cc.Args) == 2 && strings.Contains(cal.String(), "arrow/array.") {
				name = cal.Name()
				recv, idx = cc.Args[0], cc.Args[1]
			}
			if strings.HasPrefix(name, "Value[") {
				name = "Value"
			}
			if (name != "Value" && name != "ValueStr") || idx == nil {
				continue
			}
			nVal++
			guarded := false
			for _, f := range factsAt(call.(ssa.Instruction)) {
				if f.Kind != factFalse {
					continue
				}
				cl, ok := f.Val.(*ssa.Call)
				if !ok {
					continue
				}
				gc := cl.Common()
				var gr, gi ssa.Value
				gname := ""
				if gc.IsInvoke() {
					gname, gr = gc.Method.Name(), gc.Value
					if len(gc.Args) == 1 {
						gi = gc.Args[0]
					}
				} else if cal := gc.StaticCallee(); cal != nil && len(gc.Args) == 2 {
					gname, gr, gi = cal.Name(), gc.Args[0], gc.Args[1]
				}
				if gname != "IsNull" || gi != idx {
					continue
				}
				// same array: identical value, or the typed assertion of the array the null test was asked of
				if gr == recv || c19SameArray(gr, recv) {
					guarded = true
				}
			}
			c.Check(guarded, "C19.NULL", fmt.Sprintf("%s|%s#%s", fn.Name(), name, siteOrdinal(fn, call)), call.Pos(), "read only for a non-null slot", "a typed value is read without IsNull of that slot having been excluded: a NULL is rendered as whatever bytes lie in the value buffer (usually 0 or \"\")")
		}
	}
	// bulk value buffers bypass the per-slot null test
	for _, fn := range encoders {
		for _, call := range callsIn(fn, false) {
			cal := call.Common().StaticCallee()
			if cal == nil || !strings.HasSuffix(cal.Name(), "Values") || !strings.Contains(cal.String(), "arrow/array.") {
				continue
			}
			recv := call.Common().Args[0]
			okF := func(fs []fact) bool {
				for _, f := range fs {
					if f.Kind == factCmp && f.Op == token.EQL {
						if z, ok := constInt(f.Y); ok && z == 0 {
							if cl, ok := f.X.(*ssa.Call); ok {
								nm := ""
								var r ssa.Value
								if cl.Call.IsInvoke() {
									nm, r = cl.Call.Method.Name(), cl.Call.Value
								} else if cc := cl.Call.StaticCallee(); cc != nil && len(cl.Call.Args) > 0 {
									nm, r = cc.Name(), cl.Call.Args[0]
								}
								if nm == "NullN" && c19SameArray(r, recv) {
									return true
								}
							}
						}
					}
				}
				return false
			}
			at := call.(ssa.Instruction)
			c.Check(okF(factsAt(at)) || holdsOnAllPaths(at.Block(), okF, 8, nil), "C19.NULL", fmt.Sprintf("%s|%s#%s", fn.Name(), cal.Name(), siteOrdinal(fn, call)), call.Pos(), "raw buffer read only for an array without nulls", "the raw value buffer of an array is encoded without that same array's NullN() == 0 having been established: NULL slots of this batch go out as values")
		}
	}
	if nVal < 30 {
		c.Unk("C19.NULL", "value-reads", 0, "found only %d typed value reads", nVal)
	}

	// WIDEN
	nConv := 0
	for _, fn := range append(encoders, p.Func("internal/api.writeArrowValue")) {
		if fn == nil {
			continue
		}
		for _, in := range instrs(fn, false) {
			cv, ok := in.(*ssa.Convert)
			if !ok {
				continue
			}
			from, ok1 := cv.X.Type().Underlying().(*types.Basic)
			to, ok2 := cv.Type().Underlying().(*types.Basic)
			if !ok1 || !ok2 || from.Info()&types.IsNumeric == 0 || to.Info()&types.IsNumeric == 0 {
				continue
			}
			// only conversions of cell values (operand derives from a Value call)
			if !derives(cv.X, func(v ssa.Value) bool {
				cl, ok := v.(*ssa.Call)
				if !ok {
					return false
				}
				if cl.Call.IsInvoke() {
					return cl.Call.Method.Name() == "Value"
				}
				return cl.Call.StaticCallee() != nil && (cl.Call.StaticCallee().Name() == "Value" || strings.HasPrefix(cl.Call.StaticCallee().Name(), "Value["))
			}, false, 2) {
				continue
			}
			nConv++
			sz := func(b *types.Basic) int64 { return types.SizesFor("gc", "amd64").Sizeof(b) }
			okW := sz(to) >= sz(from) && (from.Info()&types.IsUnsigned) == (to.Info()&types.IsUnsigned) && (from.Info()&types.IsFloat) == (to.Info()&types.IsFloat)
			// arrow.Timestamp/Date32 named ints to time via methods are not Converts; int32 date etc fine
			c.Check(okW, "C19.WIDEN", fmt.Sprintf("%s|%s->%s#%d", fn.Name(), from.Name(), to.Name(), nConv), cv.Pos(), "value is widened", fmt.Sprintf("a cell value is converted %s -> %s: values outside the destination's range change", from.Name(), to.Name()))
		}
	}
	if nConv < 10 {
		c.Unk("C19.WIDEN", "conversions", 0, "found only %d cell conversions", nConv)
	}

	// ---- DISPATCH / NAMES
	c19Dispatch(c, encoders)

	// ---- LEN
	if fn := c.MustFunc("C19.LEN", "internal/api.streamMsgPackFromBatches"); fn != nil {
		var hdrCall, encCall ssa.CallInstruction
		for _, call := range callsIn(fn, false) {
			n := callName(call)
			if n == "internal/api.encodeColumn" {
				encCall = call
			}
		}
		if encCall != nil {
			for _, call := range callsIn(fn, false) {
				if strings.HasSuffix(callName(call), "Encoder).EncodeArrayLen") && call.Block() != nil && instrDominates(call.(ssa.Instruction), encCall.(ssa.Instruction)) && edgeStaysInLoop(call.Block(), c19LoopHeaderOf(encCall.Block())) {
					hdrCall = call
				}
			}
		}
		if hdrCall == nil || encCall == nil {
			c.Bad("C19.LEN", "streamMsgPackFromBatches|column-header", fn.Pos(), "no per-column EncodeArrayLen before encodeColumn")
		} else {
			lenArg := resolveParam(hdrCall.Common().Args[1])
			batchArg := resolveParam(encCall.Common().Args[2])
			li, bi := -1, -1
			for i, q := range fn.Params {
				if ssa.Value(q) == lenArg {
					li = i
				}
				if ssa.Value(q) == batchArg {
					bi = i
				}
			}
			okCallers := li >= 0 && bi >= 0
			nCallers := 0
			if okCallers {
				for _, g := range p.FuncsIn("internal/api") {
					for _, sub := range append([]*ssa.Function{g}, allAnon(g)...) {
						for _, call := range callsIn(sub, false) {
							if call.Common().StaticCallee() != fn {
								continue
							}
							nCallers++
							a := call.Common().Args
							var drainL, drainB *ssa.Call
							derivesWide(a[li], func(v ssa.Value) bool {
								if ex, ok := v.(*ssa.Extract); ok && ex.Index == 1 {
									if cl, ok := ex.Tuple.(*ssa.Call); ok && callName(cl) == "internal/api.drainArrowBatches" {
										drainL = cl
									}
								}
								return false
							}, 10)
							derivesWide(a[bi], func(v ssa.Value) bool {
								if ex, ok := v.(*ssa.Extract); ok && ex.Index == 0 {
									if cl, ok := ex.Tuple.(*ssa.Call); ok && callName(cl) == "internal/api.drainArrowBatches" {
										drainB = cl
									}
								}
								return false
							}, 10)
							if drainL == nil || drainL != drainB {
								okCallers = false
							}
						}
					}
				}
			}
			c.Check(okCallers && nCallers > 0, "C19.LEN", "streamMsgPackFromBatches|length-is-drained-row-count", hdrCall.Pos(), "announced length and encoded batches come from one drainArrowBatches call", "the column length announced to the client is not the row count of the batches that are encoded")
		}
	}
	// ---- TRUNC
	if fn := c.MustFunc("C19.TRUNC", "internal/api.drainArrowBatches"); fn != nil {
		n := 0
		for _, call := range callsIn(fn, false) {
			cc := call.Common()
			if !cc.IsInvoke() || cc.Method.Name() != "NewSlice" {
				continue
			}
			n++
			lo, isK := constInt(cc.Args[0])
			okHi := false
			derives(cc.Args[1], func(v ssa.Value) bool {
				if bo, ok := v.(*ssa.BinOp); ok && bo.Op == token.SUB {
					okHi = true
				}
				return false
			}, false, 4)
			c.Check(isK && lo == 0 && okHi, "C19.TRUNC", "drainArrowBatches|prefix-kept", call.Pos(), "the limit keeps rows [0, cap-rows) of the last batch", "the governance row limit does not keep a prefix of the result (rows are skipped or the count is not cap minus rows so far)")
		}
		if n == 0 {
			c.Unk("C19.TRUNC", "drainArrowBatches|prefix-kept", fn.Pos(), "no NewSlice found")
		}
	}
	// ---- UNIT
	nU := 0
	for _, fn := range append(encoders, p.Func("internal/api.writeArrowValue")) {
		if fn == nil {
			continue
		}
		for _, call := range callsIn(fn, false) {
			cal := call.Common().StaticCallee()
			if cal == nil || cal.Name() != "ToTime" || !strings.Contains(cal.String(), "arrow.Timestamp") {
				continue
			}
			nU++
			unit := call.Common().Args[1]
			src := fieldSources(unit, 8)
			c.Check(src["TimestampType.Unit"], "C19.UNIT", fmt.Sprintf("%s|ToTime#%s", fn.Name(), siteOrdinal(fn, call)), call.Pos(), "unit comes from the column's TimestampType", "a timestamp is converted with a unit that is not read from the column's own type")
		}
	}
	if nU < 2 {
		c.Unk("C19.UNIT", "ToTime-sites", 0, "found %d timestamp conversions", nU)
	}
}

func c19LoopHeaderOf(b *ssa.BasicBlock) *ssa.BasicBlock {
	for d := b; d != nil; d = d.Idom() {
		if strings.HasPrefix(d.Comment, "for.loop") || strings.HasPrefix(d.Comment, "rangeindex.loop") {
			return d
		}
	}
	return b
}

// c19SameArray: b is the typed assertion (or the same interface value) of the array a was asked about.
func c19SameArray(a, b ssa.Value) bool {
	strip := func(v ssa.Value) ssa.Value {
		for i := 0; i < 8; i++ {
			switch x := v.(type) {
			case *ssa.TypeAssert:
				v = x.X
				continue
			case *ssa.Extract:
				v = x.Tuple
				continue
			case *ssa.ChangeInterface:
				v = x.X
				continue
			case *ssa.MakeInterface:
				v = x.X
				continue
			case *ssa.FieldAddr:
				v = x.X
				continue
			}
			break
		}
		return v
	}
	return strip(a) == strip(b)
}

func c19Dispatch(c *Ctx, encoders []*ssa.Function) {
	p := c.P
	fn := c.MustFunc("C19.DISPATCH", "internal/api.encodeColumn")
	if fn == nil {
		return
	}
	// which array type each encoder asserts
	asserts := map[*ssa.Function]string{}
	for _, e := range encoders {
		for _, in := range instrs(e, false) {
			if ta, ok := in.(*ssa.TypeAssert); ok && strings.Contains(ta.AssertedType.String(), "arrow/array.") {
				asserts[e] = ta.AssertedType.String()
			}
		}
	}
	native := []string{}
	for _, in := range instrs(fn, false) {
		ta, ok := in.(*ssa.TypeAssert)
		if !ok || !ta.CommaOk {
			continue
		}
		t := ta.AssertedType.String()
		short := t[strings.LastIndex(t, ".")+1:]
		// the encoder called on the success edge
		ifi, ok := ta.Block().Instrs[len(ta.Block().Instrs)-1].(*ssa.If)
		if !ok {
			continue
		}
		var callee *ssa.Function
		for _, in2 := range ifi.Block().Succs[0].Instrs {
			if cl, ok := in2.(*ssa.Call); ok && cl.Call.StaticCallee() != nil && strings.HasPrefix(cl.Call.StaticCallee().Name(), "encode") {
				callee = cl.Call.StaticCallee()
			}
		}
		if callee == nil {
			c.Bad("C19.DISPATCH", "encodeColumn|"+short, ta.Pos(), "the %s arm of encodeColumn does not call an encoder", short)
			continue
		}
		native = append(native, short)
		c.Check(asserts[callee] == t, "C19.DISPATCH", "encodeColumn|"+short, ta.Pos(), "dispatched to "+callee.Name()+", which asserts the same type", fmt.Sprintf("the %s arm calls %s, which asserts %s: the assertion panics (or the wrong accessor is used) for every such column", short, callee.Name(), asserts[callee]))
	}
	nDef, bad := c31SwitchDefaults(fn)
	_ = nDef
	// default path must call the fallback encoder: the all-fail block returns encodeFallbackColumn(...)
	fb := false
	for _, call := range findCalls(fn, false, "internal/api.encodeFallbackColumn") {
		fails := 0
		for _, f := range factsAt(call.(ssa.Instruction)) {
			if f.Kind == factFalse {
				if ex, ok := f.Val.(*ssa.Extract); ok {
					if _, ok := ex.Tuple.(*ssa.TypeAssert); ok {
						fails++
					}
				}
			}
		}
		if fails >= len(native) && len(native) > 0 {
			fb = true
		}
	}
	_ = bad
	c.Check(fb, "C19.DISPATCH", "encodeColumn|default-is-fallback", fn.Pos(), "types without an encoder go to the text fallback", "encodeColumn has no fallback for Arrow types without a typed encoder: such a column emits nothing and the data array is short")
	c.Floor("C19.DISPATCH", 16, "typed arms")

	// NAMES: arrowTypeName has a dedicated arm for the type id of each natively encoded array type
	tn := c.MustFunc("C19.NAMES", "internal/api.arrowTypeName")
	if tn == nil {
		return
	}
	idOf := map[string]string{"Int8": "INT8", "Int16": "INT16", "Int32": "INT32", "Int64": "INT64", "Uint8": "UINT8", "Uint16": "UINT16", "Uint32": "UINT32", "Uint64": "UINT64",
		"Float32": "FLOAT32", "Float64": "FLOAT64", "Boolean": "BOOL", "Timestamp": "TIMESTAMP", "Date32": "DATE32", "String": "STRING", "LargeString": "LARGE_STRING", "Binary": "BINARY"}
	ids := c19ArrowTypeIDs(p)
	// returns of arrowTypeName under fact id == K
	nameFor := map[int64]string{}
	generic := map[string]bool{}
	for _, in := range instrs(tn, false) {
		ret, ok := in.(*ssa.Return)
		if !ok {
			continue
		}
		desc := "?"
		switch v := ret.Results[0].(type) {
		case *ssa.Const:
			desc, _ = constString(v)
		default:
			desc = "<computed>"
		}
		var ks []int64
		collect := func(fs []fact) {
			for _, f := range fs {
				if f.Kind == factCmp && f.Op == token.EQL {
					if k, ok := constInt(f.Y); ok {
						ks = append(ks, k)
					}
				}
			}
		}
		collect(factsAt(ret))
		if len(ks) == 0 {
			for _, pb := range ret.Block().Preds {
				collect(blockEdgeFactsDirect(pb, ret.Block()))
			}
		}
		if len(ks) > 1 && desc != "<computed>" {
			generic[desc] = true // one name shared by several ids (string-encoded, list, ...)
		}
		for _, k := range ks {
			nameFor[k] = desc
		}
	}
	for _, short := range native {
		idName, ok := idOf[short]
		if !ok {
			c.Unk("C19.NAMES", "arrowTypeName|"+short, tn.Pos(), "no Arrow type id known for array type %s", short)
			continue
		}
		k, ok := ids[idName]
		if !ok {
			c.Unk("C19.NAMES", "arrowTypeName|"+short, tn.Pos(), "arrow.%s not found", idName)
			continue
		}
		nm, has := nameFor[k]
		c.Check(has && !generic[nm] && !strings.HasPrefix(nm, "unknown"), "C19.NAMES", "arrowTypeName|"+short, tn.Pos(), "own wire-type name "+nm, fmt.Sprintf("array type %s is encoded natively but arrowTypeName gives arrow.%s the shared/unknown name %q: the types header disagrees with what is on the wire", short, idName, nm))
	}
}

func c19ArrowTypeIDs(p *Prog) map[string]int64 {
	out := map[string]int64{}
	pkg := p.Pkgs["internal/api"]
	if pkg == nil {
		return out
	}
	for _, imp := range pkg.Types.Imports() {
		if strings.HasSuffix(imp.Path(), "/arrow") && strings.Contains(imp.Path(), "arrow-go") {
			for _, n := range imp.Scope().Names() {
				if k, ok := imp.Scope().Lookup(n).(*types.Const); ok {
					if nt, ok := k.Type().(*types.Named); ok && nt.Obj().Name() == "Type" {
						if v, ok := constInt64(k); ok {
							out[n] = v
						}
					}
				}
			}
		}
	}
	return out
}

func constInt64(k *types.Const) (int64, bool) {
	s := k.Val().ExactString()
	var v int64
	_, err := fmt.Sscan(s, &v)
	return v, err == nil
}
