package main

import (
	"fmt"
	"sort"
	"strings"

	"golang.org/x/tools/go/ssa"
)

func init() {
	register("C20", runC20,
		"policy evaluation correctness (pattern matching, team/role precedence), TTL expiry of entries, and concurrent mutation/check interleavings; only that every success path of a decision-relevant mutation passes a cache invalidation, that the cache key carries all request dimensions, and that cascade deletes are enabled")
}

// rbacRelevant says which (verb, table) pairs change the outcome of a
// permission decision. Confirmed by reading checkRBACPermissionCached /
// loadTokenRBACData / GetTokenTeams, and re-checked structurally by
// C20.READS below (tables read by the decision closure).
var rbacRelevant = map[string]string{
	"DELETE rbac_organizations":           "cascades to teams, roles, measurement permissions and memberships",
	"UPDATE rbac_teams":                   "team.enabled gates every role of the team",
	"DELETE rbac_teams":                   "removes roles and memberships by cascade",
	"INSERT rbac_roles":                   "a new role grants permissions",
	"UPDATE rbac_roles":                   "changes pattern/permissions",
	"DELETE rbac_roles":                   "revokes permissions",
	"INSERT rbac_measurement_permissions": "narrows or grants per-measurement access",
	"UPDATE rbac_measurement_permissions": "changes per-measurement access",
	"DELETE rbac_measurement_permissions": "changes per-measurement access",
	"INSERT rbac_token_memberships":       "token joins a team",
	"UPDATE rbac_token_memberships":       "token moves team",
	"DELETE rbac_token_memberships":       "token leaves a team",
}

// rbacExempt are mutations that cannot change any decision.
var rbacExempt = map[string]string{
	"INSERT rbac_organizations": "a new organization has no teams; the decision closure never reads rbac_organizations (C20.READS)",
	"UPDATE rbac_organizations": "organization name/description/enabled are not consulted by the policy (C20.READS)",
	"INSERT rbac_teams":         "a new team has no memberships and no roles (FKs enforce that children are created afterwards, each of which invalidates)",
}

var rbacInvalidate = names(
	"(*internal/auth.RBACManager).InvalidateAllCache",
	"(*internal/auth.RBACManager).InvalidateTokenCache",
)

func runC20(c *Ctx) {
	p := c.P
	c.Rule("C20.INV", "PASS: in every (*RBACManager) method, each Exec of a statement that mutates a decision-relevant rbac_* table reaches a possibly-nil-error return only through InvalidateAllCache/InvalidateTokenCache")
	c.Rule("C20.SQL", "SQLT: every Exec in (*RBACManager) methods has a constant-resolvable template classified as (verb, table); unclassifiable mutations are undecided")
	c.Rule("C20.READS", "WHO: the tables read by the permission-decision closure (CheckPermission, CheckPermissionsBatch and callees) are exactly those the relevance table covers")
	c.Rule("C20.KEY", "FLOW: every permCache key is built from token id, database, measurement and permission of the request")
	c.Rule("C20.CASCADE", "CONST: every rbac child table declares ON DELETE CASCADE and the auth DSN enables foreign keys")
	c.Rule("C20.INVBODY", "PASS: each invalidator (InvalidateAllCache, InvalidateTokenCache) clears or sweeps BOTH cache levels (tokenCache and permCache) on every path to its return")
	c.Rule("C20.TOKEN", "WHO: every (*AuthManager) mutation of api_tokens permissions/enabled/row reaches an invalidation of the RBAC decision cache, which stores the token-fallback result")

	methods := p.MethodsOf("internal/auth", "RBACManager")
	if len(methods) == 0 {
		c.Unk("C20.INV", "anchor:RBACManager", 0, "no methods of internal/auth.RBACManager found")
		return
	}
	nMut := 0
	for _, fn := range methods {
		for _, s := range sqlSites(fn) {
			if !s.IsExec {
				continue
			}
			in := s.Call.(ssa.Instruction)
			owner := ssaFuncName(in.Parent())
			if !s.Known {
				c.Unk("C20.SQL", owner+"|exec", s.Call.Pos(), "SQL text of Exec is not resolvable to a constant template")
				continue
			}
			for _, t := range s.Tmpls {
				verb, table, ok := sqlMutation(t)
				if !ok {
					// DDL and PRAGMA are not RBAC state
					up := strings.ToUpper(strings.TrimSpace(t))
					if strings.HasPrefix(up, "CREATE ") || strings.HasPrefix(up, "PRAGMA") || strings.HasPrefix(up, "ALTER ") || strings.HasPrefix(up, "DROP INDEX") {
						c.Triv("C20.SQL", owner+"|ddl:"+firstWords(t, 3), s.Call.Pos(), "DDL, not RBAC row state")
						continue
					}
					c.Unk("C20.SQL", owner+"|exec:"+firstWords(t, 4), s.Call.Pos(), "cannot classify statement %q", firstWords(t, 8))
					continue
				}
				key := verb + " " + table
				construct := fmt.Sprintf("%s|%s", owner, key)
				if !strings.HasPrefix(table, "rbac_") {
					c.Triv("C20.SQL", construct, s.Call.Pos(), "not an rbac_* table")
					continue
				}
				if why, ok := rbacExempt[key]; ok {
					c.Triv("C20.SQL", construct, s.Call.Pos(), "exempt: %s", why)
					continue
				}
				why, ok := rbacRelevant[key]
				if !ok {
					c.Unk("C20.SQL", construct, s.Call.Pos(), "mutation %s is in neither the relevant nor the exempt table", key)
					continue
				}
				nMut++
				c.Triv("C20.SQL", construct, s.Call.Pos(), "decision-relevant: %s", why)
				// PASS from this Exec to every possibly-successful return.
				if in.Parent() != fn {
					c.Unk("C20.INV", construct, s.Call.Pos(), "mutation inside a closure; path rule not applicable")
					continue
				}
				stop := p.stopFn(rbacInvalidate, 2, nil)
				exits := successExits(pathsAvoiding(fn, in, stop))
				if len(exits) == 0 {
					c.OK("C20.INV", construct, s.Call.Pos(), "every path from the Exec to a nil-error return passes an invalidation")
				} else {
					var lines []string
					for _, e := range exits {
						lines = append(lines, fmt.Sprintf("L%d", p.Line(e.Instr.Pos())))
					}
					c.Bad("C20.INV", construct, s.Call.Pos(), "possibly-successful return at %s reached from Exec at L%d without InvalidateAllCache/InvalidateTokenCache (%s)",
						strings.Join(lines, ","), p.Line(s.Call.Pos()), why)
				}
			}
		}
	}
	c.Floor("C20.INV", 21, "10 direct-mode + 11 Apply* decision-relevant mutation sites confirmed by reading")

	// C20.READS: tables read in the decision closure.
	roots := []string{
		"(*internal/auth.RBACManager).CheckPermission",
		"(*internal/auth.RBACManager).CheckPermissionsBatch",
	}
	seen := map[*ssa.Function]bool{}
	var work []*ssa.Function
	for _, r := range roots {
		if f := c.MustFunc("C20.READS", r); f != nil {
			work = append(work, f)
		}
	}
	tables := map[string]bool{}
	for len(work) > 0 {
		f := work[len(work)-1]
		work = work[:len(work)-1]
		if seen[f] {
			continue
		}
		seen[f] = true
		for _, s := range sqlSites(f) {
			for _, t := range s.Tmpls {
				for _, m := range rbacTableRe.FindAllString(strings.ToLower(t), -1) {
					tables[m] = true
				}
			}
		}
		for _, call := range callsIn(f, true) {
			if cal := call.Common().StaticCallee(); cal != nil && cal.Pkg != nil && relPkg(cal.Pkg.Pkg.Path()) == "internal/auth" {
				work = append(work, cal)
			}
		}
	}
	var tl []string
	for t := range tables {
		tl = append(tl, t)
	}
	sort.Strings(tl)
	covered := map[string]bool{}
	for k := range rbacRelevant {
		covered[strings.Fields(k)[1]] = true
	}
	for _, t := range tl {
		if t == "rbac_organizations" {
			c.Bad("C20.READS", "decision-closure|"+t, 0, "the decision closure reads rbac_organizations, so INSERT/UPDATE of organizations is no longer exempt from invalidation")
			continue
		}
		c.Check(covered[t], "C20.READS", "decision-closure|"+t, 0,
			"table read by the decision closure is covered by the relevance table",
			"table read by the decision closure has no entry in the relevance table")
	}
	c.Floor("C20.READS", 4, "teams, memberships, roles, measurement permissions")

	c20InvBody(c)
	inKey := c20Key(c)
	c20Cascade(c)
	c20Token(c, inKey)
}

func firstWords(s string, n int) string {
	f := strings.Fields(s)
	if len(f) > n {
		f = f[:n]
	}
	return strings.Join(f, " ")
}

var rbacTableRe = regexpMust(`\b(rbac_[a-z_]+|api_tokens)\b`)

// c20Key: the key of every permCache access derives from every request input
// the decision closure consults: PermissionCheckRequest.{Database,
// Measurement, Permission} and TokenInfo.ID; for the token-level inputs
// TokenInfo.{Permissions, Enabled} either the key carries them or C20.TOKEN
// must show that their mutators invalidate this cache.
func c20Key(c *Ctx) (tokenInputsInKey bool) {
	p := c.P
	// inputs consulted by the decision closure
	readers := []string{
		"(*internal/auth.RBACManager).checkPermissionUncached",
		"(*internal/auth.RBACManager).checkRBACPermissionCached",
		"(*internal/auth.RBACManager).checkOSSPermission",
	}
	inputs := map[string]bool{}
	for _, name := range readers {
		fn := c.MustFunc("C20.KEY", name)
		if fn == nil {
			continue
		}
		for _, in := range instrs(fn, true) {
			v, ok := in.(ssa.Value)
			if !ok {
				continue
			}
			if sn, f, _, ok := fieldOf(v); ok && (sn == "PermissionCheckRequest" || sn == "TokenInfo") && f != "TokenInfo" {
				inputs[sn+"."+f] = true
			}
		}
	}
	var inl []string
	for k := range inputs {
		inl = append(inl, k)
	}
	sort.Strings(inl)
	if len(inl) < 4 {
		c.Unk("C20.KEY", "decision-inputs", 0, "decision closure reads only %v; expected at least token id, database, measurement, permission", inl)
	}
	tokenLevel := map[string]bool{"TokenInfo.Permissions": true, "TokenInfo.Enabled": true}
	tokenInputsInKey = true
	n := 0
	for _, fn := range p.MethodsOf("internal/auth", "RBACManager") {
		for _, in := range instrs(fn, true) {
			var m, key ssa.Value
			kind := ""
			switch x := in.(type) {
			case *ssa.MapUpdate:
				m, key, kind = x.Map, x.Key, "store"
			case *ssa.Lookup:
				m, key, kind = x.X, x.Index, "lookup"
			default:
				continue
			}
			ld, ok := m.(*ssa.UnOp)
			if !ok {
				continue
			}
			if _, f, _, ok := fieldOf(ld.X); !ok || f != "permCache" {
				continue
			}
			if !strings.HasSuffix(key.Type().String(), "auth.permissionCacheKey") {
				continue
			}
			// range-delete loops over the map's own keys are not request-keyed accesses
			if _, isExtract := key.(*ssa.Extract); isExtract {
				continue
			}
			n++
			srcs := fieldSources(key, 10)
			var missing, have []string
			for _, want := range inl {
				if srcs[want] {
					have = append(have, want)
					continue
				}
				if tokenLevel[want] {
					tokenInputsInKey = false
					continue
				}
				missing = append(missing, want)
			}
			construct := fmt.Sprintf("%s|permCache-%s", ssaFuncName(fn), kind)
			if len(missing) == 0 {
				c.OK("C20.KEY", construct, in.Pos(), "key derives from %s", strings.Join(have, ", "))
			} else {
				c.Bad("C20.KEY", construct, in.Pos(), "permCache key does not derive from decision input(s) %s (has %s): requests differing only there share a cached decision", strings.Join(missing, ","), strings.Join(have, ", "))
			}
		}
	}
	c.Floor("C20.KEY", 4, "lookup + store in both the single and the batch path")
	return tokenInputsInKey
}

func c20Cascade(c *Ctx) {
	fn := c.MustFunc("C20.CASCADE", "(*internal/auth.AuthManager).initRBACTables")
	if fn != nil {
		for _, s := range sqlSites(fn) {
			for _, t := range s.Tmpls {
				m := createTableRe.FindStringSubmatch(t)
				if m == nil {
					continue
				}
				table := strings.ToLower(m[1])
				refs := referencesRe.FindAllStringSubmatchIndex(t, -1)
				for _, r := range refs {
					parent := strings.ToLower(t[r[2]:r[3]])
					rest := strings.ToUpper(t[r[1]:])
					rest = strings.Join(strings.Fields(rest), " ")
					ok := strings.HasPrefix(rest, "ON DELETE CASCADE")
					c.Check(ok, "C20.CASCADE", table+"->"+parent, s.Call.Pos(),
						"foreign key declares ON DELETE CASCADE", "foreign key "+table+"->"+parent+" lacks ON DELETE CASCADE: deleting the parent leaves (or is blocked by) rows that still grant access")
				}
			}
		}
	}
	c.Floor("C20.CASCADE", 6, "5 foreign keys + DSN")
	nf := c.MustFunc("C20.CASCADE", "internal/auth.NewAuthManager")
	if nf != nil {
		found := false
		for _, call := range findCalls(nf, true, "database/sql.Open") {
			ts, _ := resolveStrings(call.Common().Args[1], 0)
			for _, t := range ts {
				found = true
				c.Check(strings.Contains(strings.ToLower(t), "_foreign_keys=on") || strings.Contains(strings.ToLower(t), "_fk=1") || strings.Contains(strings.ToLower(t), "_foreign_keys=1"),
					"C20.CASCADE", "dsn", call.Pos(), "DSN enables foreign keys", "auth DSN does not enable foreign keys: ON DELETE CASCADE is inert")
			}
		}
		if !found {
			c.Unk("C20.CASCADE", "dsn", nf.Pos(), "sql.Open call not found in NewAuthManager")
		}
	}
}

// c20Token: api_tokens permission changes must invalidate the RBAC decision
// cache (permCache stores the final decision, including the token fallback
// computed from TokenInfo.Permissions).
func c20Token(c *Ctx, tokenInputsInKey bool) {
	p := c.P
	for _, fn := range p.MethodsOf("internal/auth", "AuthManager") {
		for _, s := range sqlSites(fn) {
			if !s.IsExec || !s.Known {
				continue
			}
			for _, t := range s.Tmpls {
				verb, table, ok := sqlMutation(t)
				if !ok || table != "api_tokens" || verb != "UPDATE" {
					continue
				}
				// which columns? only `permissions` changes the fallback decision
				low := strings.ToLower(t)
				setPart := low
				if i := strings.Index(low, " set "); i >= 0 {
					setPart = low[i:]
				}
				touches := strings.Contains(setPart, "permissions") || strings.Contains(setPart, "%s")
				name := ssaFuncName(fn)
				construct := name + "|UPDATE api_tokens.permissions"
				if !touches {
					c.Triv("C20.TOKEN", name+"|UPDATE api_tokens:"+firstWords(setPart, 3), s.Call.Pos(), "statement does not change permissions")
					continue
				}
				if tokenInputsInKey {
					c.OK("C20.TOKEN", construct, s.Call.Pos(), "no invalidation needed: every permCache key derives from TokenInfo.Permissions/Enabled (C20.KEY), so a changed token never hits an old entry")
					continue
				}
				in := s.Call.(ssa.Instruction)
				stop := p.stopFn(rbacInvalidate, 3, nil)
				exits := successExits(pathsAvoiding(fn, in, stop))
				if len(exits) == 0 {
					c.OK("C20.TOKEN", construct, s.Call.Pos(), "permission change reaches an RBAC cache invalidation")
				} else {
					c.Bad("C20.TOKEN", construct, s.Call.Pos(), "token permissions change returns success without invalidating the RBAC permission cache (permCache keeps the old token-fallback decision until its TTL)")
				}
			}
		}
	}
	c.Floor("C20.TOKEN", 2, "UpdateToken and ApplyUpdateToken")
}

// c20InvBody: every path through an invalidator touches both cache maps.
func c20InvBody(c *Ctx) {
	touches := func(field string) func(ssa.Instruction) bool {
		isField := func(v ssa.Value) bool {
			// a load of rm.<field> or its address
			if ld, ok := v.(*ssa.UnOp); ok {
				v = ld.X
			}
			_, f, _, ok := fieldOf(v)
			return ok && f == field
		}
		return func(in ssa.Instruction) bool {
			switch x := in.(type) {
			case *ssa.Store:
				return isField(x.Addr)
			case *ssa.MapUpdate:
				return isField(x.Map)
			case *ssa.Range:
				return isField(x.X)
			case *ssa.Call:
				if b, ok := x.Call.Value.(*ssa.Builtin); ok && (b.Name() == "delete" || b.Name() == "clear") && len(x.Call.Args) > 0 {
					return isField(x.Call.Args[0])
				}
			}
			return false
		}
	}
	for _, name := range []string{"(*internal/auth.RBACManager).InvalidateAllCache", "(*internal/auth.RBACManager).InvalidateTokenCache"} {
		fn := c.MustFunc("C20.INVBODY", name)
		if fn == nil {
			continue
		}
		for _, field := range []string{"tokenCache", "permCache"} {
			exits := pathsAvoiding(fn, nil, touches(field))
			construct := name + "|" + field
			if len(exits) == 0 {
				c.OK("C20.INVBODY", construct, fn.Pos(), "every path clears or sweeps %s", field)
			} else {
				c.Bad("C20.INVBODY", construct, exits[0].Instr.Pos(), "return at L%d is reachable without clearing or sweeping %s: decisions cached there survive the invalidation", c.P.Line(exits[0].Instr.Pos()), field)
			}
		}
	}
	c.Floor("C20.INVBODY", 4, "two invalidators x two cache levels")
}
