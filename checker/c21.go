package main

import (
	"fmt"
	"strings"

	"golang.org/x/tools/go/ssa"
)

func init() {
	register("C21", runC21,
		"the full interleaving space of verify vs. mutate (only the serialisation mechanism that closes the stale-insert window is checked), hash comparison strength, clock behaviour, follower apply latency in cluster mode")
}

var authInvalidate = names("(*internal/auth.AuthManager).InvalidateCache")

// c21Irrelevant lists SET-column sets that do not affect authentication.
func c21Irrelevant(setPart string) (string, bool) {
	cols := setColumns(setPart)
	if len(cols) == 0 {
		return "", false
	}
	for _, c := range cols {
		switch c {
		case "last_used_at":
		case "token_prefix":
			// alone (backfill of the lookup prefix for an unchanged hash) it is
			// irrelevant; together with token_hash it is a rotation.
		default:
			return "", false
		}
	}
	for _, c := range cols {
		if c == "token_hash" {
			return "", false
		}
	}
	return "sets only " + strings.Join(cols, ","), true
}

func setColumns(sqlLower string) []string {
	i := strings.Index(sqlLower, " set ")
	if i < 0 {
		return nil
	}
	rest := sqlLower[i+5:]
	if j := strings.Index(rest, " where "); j >= 0 {
		rest = rest[:j]
	}
	var out []string
	for _, part := range strings.Split(rest, ",") {
		part = strings.TrimSpace(part)
		if k := strings.Index(part, "="); k > 0 {
			out = append(out, strings.TrimSpace(part[:k]))
		} else if part != "" {
			out = append(out, part)
		}
	}
	return out
}

func runC21(c *Ctx) {
	c.Rule("C21.OWN", "WHO: the token cache map of AuthManager is replaced (a new map stored into the field) only by the constructor and by InvalidateCache; every other function changes it in place under the lock — a function that builds a copy and installs it can resurrect entries an invalidation removed in between")
	{
		n := 0
		for _, fn := range c.P.FuncsIn("internal/auth") {
			for _, in := range instrs(fn, true) {
				st, ok := in.(*ssa.Store)
				if !ok {
					continue
				}
				sn, fld, _, ok := fieldOf(st.Addr)
				if !ok || sn != "AuthManager" || fld != "cache" {
					continue
				}
				n++
				name := fn.Name()
				allowed := name == "InvalidateCache" || strings.HasPrefix(name, "NewAuthManager") || strings.HasPrefix(name, "New")
				// a reset to a fresh, never populated map cannot resurrect anything
				if mk, ok := st.Val.(*ssa.MakeMap); ok {
					populated := false
					for _, r := range *mk.Referrers() {
						if _, ok := r.(*ssa.MapUpdate); ok {
							populated = true
						}
					}
					if !populated {
						allowed = true
					}
				}
				c.Check(allowed, "C21.OWN", name+"|replaces-cache-map", st.Pos(), "the cache map is replaced by its owner", name+" installs a new map as the token cache: entries copied before a concurrent InvalidateCache are put back after it, and a revoked, deleted or rotated token value keeps authenticating from the cache")
			}
		}
		c.Check(n >= 1, "C21.OWN", "AuthManager.cache|writers", 0, fmt.Sprintf("%d store(s) into the cache field inspected", n), "no store into AuthManager.cache found (rule needs review)")
	}
	p := c.P
	c.Rule("C21.INV", "PASS: in every (*AuthManager) method each Exec that updates or deletes api_tokens rows (other than last_used_at / prefix backfill) reaches a nil-error return only through InvalidateCache")
	c.Rule("C21.SERIAL", "ORDER/CONST: the stale-insert window of VerifyToken (DB read outside cacheMu, insert later) is closed by serialisation: the auth DB handle is limited to one connection and the rows cursor stays open (Close only deferred) until after the cache insert; alternatively the insert is guarded by a generation counter also written by InvalidateCache")
	c.Rule("C21.FILTER", "SQLT+PASS: the verification query filters enabled = 1, and the true branch of the token-expiry comparison reaches neither the cache insert nor a non-nil return")
	c.Rule("C21.EXPIRY", "FLOW: a cached entry cannot outlive the token's own expiry: the entry's expiresAt derives from the token's expires_at, or the cache-hit return is guarded by a comparison on the cached TokenInfo.ExpiresAt")

	nInv := 0
	for _, fn := range p.MethodsOf("internal/auth", "AuthManager") {
		name := ssaFuncName(fn)
		for _, s := range sqlSites(fn) {
			if !s.IsExec || !s.Known {
				if s.IsExec {
					c.Unk("C21.INV", name+"|exec", s.Call.Pos(), "SQL text not resolvable")
				}
				continue
			}
			for _, t := range s.Tmpls {
				verb, table, ok := sqlMutation(t)
				if !ok || table != "api_tokens" || verb == "INSERT" {
					continue
				}
				low := strings.ToLower(strings.Join(strings.Fields(t), " "))
				what := verb
				if verb == "UPDATE" {
					if why, irr := c21Irrelevant(low); irr {
						c.Triv("C21.INV", name+"|UPDATE api_tokens:"+why, s.Call.Pos(), "does not affect authentication")
						continue
					}
					cols := setColumns(low)
					if len(cols) == 0 || strings.Contains(low, "%s") {
						what = "UPDATE(dynamic columns)"
					} else {
						what = "UPDATE(" + strings.Join(cols, ",") + ")"
					}
				}
				nInv++
				construct := fmt.Sprintf("%s|%s api_tokens", name, what)
				in := s.Call.(ssa.Instruction)
				if in.Parent() != fn {
					c.Unk("C21.INV", construct, s.Call.Pos(), "mutation inside a closure")
					continue
				}
				stop := p.stopFn(authInvalidate, 2, nil)
				exits := successExits(pathsAvoiding(fn, in, stop))
				if len(exits) == 0 {
					c.OK("C21.INV", construct, s.Call.Pos(), "every path from the Exec to a nil-error return passes InvalidateCache")
				} else {
					var lines []string
					for _, e := range exits {
						lines = append(lines, fmt.Sprintf("L%d", p.Line(e.Instr.Pos())))
					}
					c.Bad("C21.INV", construct, s.Call.Pos(), "possibly-successful return at %s reached from Exec at L%d without InvalidateCache: the old token value keeps authenticating from the cache", strings.Join(lines, ","), p.Line(s.Call.Pos()))
				}
			}
		}
	}
	c.Floor("C21.INV", 8, "UpdateToken, DeleteToken, RevokeToken, RotateToken + four Apply* counterparts")

	vt := c.MustFunc("C21.SERIAL", "(*internal/auth.AuthManager).VerifyToken")
	if vt == nil {
		return
	}
	// locate the cache inserts and the query
	var inserts []*ssa.MapUpdate
	for _, in := range instrs(vt, false) {
		if mu, ok := in.(*ssa.MapUpdate); ok {
			if ld, ok := mu.Map.(*ssa.UnOp); ok {
				if _, f, _, ok := fieldOf(ld.X); ok && f == "cache" {
					inserts = append(inserts, mu)
				}
			}
		}
	}
	var queries []ssa.CallInstruction
	for _, s := range sqlSites(vt) {
		if !s.IsExec {
			queries = append(queries, s.Call)
			for _, t := range s.Tmpls {
				low := strings.ToLower(strings.Join(strings.Fields(t), " "))
				if strings.Contains(low, "from api_tokens") {
					ok := strings.Contains(low, "enabled = 1") || strings.Contains(low, "enabled=1") || strings.Contains(low, "enabled = true")
					c.Check(ok, "C21.FILTER", "VerifyToken|query-enabled", s.Call.Pos(),
						"verification query filters enabled = 1", "verification query does not filter on enabled: a revoked token row still matches")
				}
			}
		}
	}
	if len(inserts) == 0 {
		c.Unk("C21.SERIAL", "VerifyToken|cache-insert", vt.Pos(), "no store into am.cache found in VerifyToken")
	}
	for i, mu := range inserts {
		construct := fmt.Sprintf("VerifyToken|cache-insert#%d", i+1)
		// (a) generation-stamp idiom?
		if c21HasGenerationGuard(p, mu) {
			c.OK("C21.SERIAL", construct, mu.Pos(), "insert guarded by a generation counter that InvalidateCache also writes")
			continue
		}
		// (b) serialisation: query dominates insert, rows.Close not on any path between, MaxOpenConns(1)
		var q ssa.CallInstruction
		for _, qq := range queries {
			if instrDominates(qq.(ssa.Instruction), mu) {
				q = qq
			}
		}
		if q == nil {
			c.Bad("C21.SERIAL", construct, mu.Pos(), "cache insert is not dominated by the token query")
			continue
		}
		rows := resultN(q, 0)
		closed := false
		closeName := "(*database/sql.Rows).Close"
		exits := pathsAvoidingTo(vt, q.(ssa.Instruction), nil, func(in ssa.Instruction) bool {
			if call, ok := in.(*ssa.Call); ok && callName(call) == closeName && len(call.Call.Args) > 0 && call.Call.Args[0] == rows {
				closed = true // a path closes the cursor; remember and keep walking past it
			}
			return false
		}, func(in ssa.Instruction) bool { return in == ssa.Instruction(mu) })
		_ = exits
		// precise: is there a path query -> Close(non-deferred) -> insert ?
		closedBefore := false
		if closed {
			for _, in := range instrs(vt, false) {
				if call, ok := in.(*ssa.Call); ok && callName(call) == closeName && len(call.Call.Args) > 0 && call.Call.Args[0] == rows {
					reach := pathsAvoidingTo(vt, call, nil, func(ssa.Instruction) bool { return false }, func(x ssa.Instruction) bool { return x == ssa.Instruction(mu) })
					for _, e := range reach {
						if e.Instr == ssa.Instruction(mu) {
							closedBefore = true
						}
					}
				}
			}
		}
		one := c21SingleConn(c)
		switch {
		case closedBefore:
			c.Bad("C21.SERIAL", construct, mu.Pos(), "rows cursor is closed before the cache insert: the single DB connection is released, a revoke can run and invalidate in between, and the stale row is then cached")
		case !one:
			c.Bad("C21.SERIAL", construct, mu.Pos(), "auth DB handle is not limited to one connection and no generation guard exists: a concurrent revoke can complete between the DB read and the cache insert")
		default:
			c.OK("C21.SERIAL", construct, mu.Pos(), "query at L%d dominates the insert, the cursor is only closed by defer, and SetMaxOpenConns(1) serialises mutators behind the open cursor", p.Line(q.Pos()))
		}
	}

	// FILTER: expiry comparison
	nExp := 0
	for _, in := range instrs(vt, false) {
		call, ok := in.(*ssa.Call)
		if !ok {
			continue
		}
		n := callName(call)
		if n != "(time.Time).After" && n != "(time.Time).Before" {
			continue
		}
		// operand from sql.NullTime.Time (the scanned expires_at)
		fromNull := false
		for _, a := range call.Call.Args {
			if fieldSources(a, 4)["NullTime.Time"] {
				fromNull = true
			}
		}
		if !fromNull {
			continue
		}
		// the other operand must be the clock itself (time.Now()), not a
		// derived deadline such as now.Add(ttl)
		clock := false
		for _, a := range call.Call.Args {
			if cc, ok := a.(*ssa.Call); ok && callName(cc) == "time.Now" {
				clock = true
			}
		}
		if !clock {
			continue
		}
		nExp++
		construct := fmt.Sprintf("VerifyToken|expiry-test#%d", nExp)
		// find the If on this value
		var ifi *ssa.If
		for _, r := range *call.Referrers() {
			if x, ok := r.(*ssa.If); ok {
				ifi = x
			}
		}
		if ifi == nil {
			c.Unk("C21.FILTER", construct, call.Pos(), "expiry comparison result is not used directly in a branch")
			continue
		}
		// which successor means "expired"? After(now, exp): true => expired. Before(now, exp): false => expired.
		expiredSucc := ifi.Block().Succs[0]
		if n == "(time.Time).Before" {
			// now.Before(exp) true => valid ; exp.Before(now) true => expired
			if fieldSources(call.Call.Args[0], 4)["NullTime.Time"] {
				expiredSucc = ifi.Block().Succs[0]
			} else {
				expiredSucc = ifi.Block().Succs[1]
			}
		} else if fieldSources(call.Call.Args[0], 4)["NullTime.Time"] {
			// exp.After(now) true => valid
			expiredSucc = ifi.Block().Succs[1]
		}
		isNext := func(x ssa.Instruction) bool {
			cc, ok := x.(*ssa.Call)
			return ok && callName(cc) == "(*database/sql.Rows).Next"
		}
		reach := pathsAvoidingTo(vt, nil, expiredSucc, isNext, func(x ssa.Instruction) bool { _, ok := x.(*ssa.MapUpdate); return ok })
		bad := ""
		for _, e := range reach {
			switch x := e.Instr.(type) {
			case *ssa.MapUpdate:
				bad = fmt.Sprintf("cache insert at L%d", p.Line(x.Pos()))
			case *ssa.Return:
				if len(x.Results) > 0 && !isNilLike(x.Results[0]) {
					bad = fmt.Sprintf("non-nil return at L%d", p.Line(x.Pos()))
				}
			}
		}
		if bad == "" {
			c.OK("C21.FILTER", construct, call.Pos(), "the expired branch reaches only nil returns (or the next row)")
		} else {
			c.Bad("C21.FILTER", construct, call.Pos(), "the expired branch of the token-expiry comparison reaches a %s", bad)
		}
	}
	if nExp == 0 {
		c.Bad("C21.FILTER", "VerifyToken|expiry-test", vt.Pos(), "no comparison of the scanned expires_at with the clock found in VerifyToken: an expired token authenticates")
	}

	// EXPIRY: cached entries vs token expiry
	c21Expiry(c, vt, inserts)
}

func isNilLike(v ssa.Value) bool {
	if isNilConst(v) {
		return true
	}
	// defer-spilled
	if ld, ok := v.(*ssa.UnOp); ok {
		if a, ok := ld.X.(*ssa.Alloc); ok {
			blk := ld.Block()
			for i := instrIndex(ld) - 1; i >= 0; i-- {
				if st, ok := blk.Instrs[i].(*ssa.Store); ok && st.Addr == a {
					return isNilConst(st.Val)
				}
			}
		}
	}
	return false
}

// c21SingleConn: NewAuthManager calls (*sql.DB).SetMaxOpenConns with constant 1.
func c21SingleConn(c *Ctx) bool {
	fn := c.P.Func("internal/auth.NewAuthManager")
	if fn == nil {
		return false
	}
	for _, call := range findCalls(fn, true, "(*database/sql.DB).SetMaxOpenConns") {
		if n, ok := constInt(call.Common().Args[1]); ok && n == 1 {
			return true
		}
	}
	return false
}

// c21HasGenerationGuard: the insert is control-dependent on a comparison
// involving an AuthManager field that InvalidateCache stores to.
func c21HasGenerationGuard(p *Prog, mu *ssa.MapUpdate) bool {
	inv := p.Func("(*internal/auth.AuthManager).InvalidateCache")
	if inv == nil {
		return false
	}
	written := map[string]bool{}
	for _, in := range instrs(inv, true) {
		switch x := in.(type) {
		case *ssa.Store:
			if _, f, _, ok := fieldOf(x.Addr); ok {
				written[f] = true
			}
		case *ssa.Call:
			// atomic counters: am.gen.Add(1)
			if len(x.Call.Args) > 0 {
				if _, f, _, ok := fieldOf(x.Call.Args[0]); ok && strings.Contains(callName(x), "sync/atomic") {
					written[f] = true
				}
			}
		}
	}
	delete(written, "cache")
	for _, f := range factsAt(mu) {
		if f.Kind != factCmp {
			continue
		}
		for _, side := range []ssa.Value{f.X, f.Y} {
			for src := range fieldSources(side, 5) {
				parts := strings.SplitN(src, ".", 2)
				if len(parts) == 2 && parts[0] == "AuthManager" && written[parts[1]] {
					return true
				}
			}
		}
	}
	return false
}

func c21Expiry(c *Ctx, vt *ssa.Function, inserts []*ssa.MapUpdate) {
	p := c.P
	// (a) entry.expiresAt derives from the token's expiry
	for i, mu := range inserts {
		construct := fmt.Sprintf("VerifyToken|entry-expiry#%d", i+1)
		// slice only the value stored into the entry's expiresAt field
		srcs := map[string]bool{}
		if ld, ok := mu.Value.(*ssa.UnOp); ok {
			if al, ok := ld.X.(*ssa.Alloc); ok {
				for _, r := range *al.Referrers() {
					if fa, ok := r.(*ssa.FieldAddr); ok {
						if _, f, _, _ := fieldOf(fa); f == "expiresAt" {
							for _, r2 := range *fa.Referrers() {
								if st, ok := r2.(*ssa.Store); ok && st.Addr == fa {
									for k := range fieldSources(st.Val, 8) {
										srcs[k] = true
									}
								}
							}
						}
					}
				}
			}
		}
		if srcs["NullTime.Time"] || srcs["TokenInfo.ExpiresAt"] {
			// make sure it is the expiresAt field that carries it: slice only that field's store
			c.OK("C21.EXPIRY", construct, mu.Pos(), "cache entry lifetime derives from the token's own expires_at")
			continue
		}
		// (b) cache-hit return guarded by a comparison on the cached info's ExpiresAt
		guarded := false
		for _, in := range instrs(vt, false) {
			r, ok := in.(*ssa.Return)
			if !ok || len(r.Results) == 0 {
				continue
			}
			res := r.Results[0]
			if ld, ok := res.(*ssa.UnOp); ok {
				// defer-spilled
				if a, ok := ld.X.(*ssa.Alloc); ok {
					blk := ld.Block()
					for k := instrIndex(ld) - 1; k >= 0; k-- {
						if st, ok := blk.Instrs[k].(*ssa.Store); ok && st.Addr == a {
							res = st.Val
							break
						}
					}
				}
			}
			if !fieldSources(res, 4)["cacheEntry.info"] {
				continue
			}
			for _, f := range factsAt(r) {
				var vals []ssa.Value
				if f.Kind == factCmp {
					vals = []ssa.Value{f.X, f.Y}
				} else {
					vals = []ssa.Value{f.Val}
				}
				for _, v := range vals {
					if fieldSources(v, 6)["TokenInfo.ExpiresAt"] {
						guarded = true
					}
				}
			}
		}
		if guarded {
			c.OK("C21.EXPIRY", construct, mu.Pos(), "cache-hit return is guarded by a test of the cached TokenInfo.ExpiresAt")
		} else {
			c.Bad("C21.EXPIRY", construct, mu.Pos(), "cache entry lives for the cache TTL regardless of the token's expires_at, and the cache-hit path at L%d never looks at it: a token keeps authenticating after it expired, for up to the TTL", p.Line(vt.Pos()))
		}
	}
}
