package main

import (
	"fmt"
	"go/constant"
	"go/token"
	"go/types"
	"sort"
	"strings"

	"golang.org/x/tools/go/ssa"
)

func init() {
	register("C22", runC22,
		"state equality across nodes for concrete command histories, JSON round-trip fidelity of individual field types, and renames of indexed keys inside an entry (only insert/delete co-updates are checked); decided are: dispatch exhaustiveness, absence of clock/random/OS effects in the apply and restore closures, that every state field written by an apply function is captured by Snapshot and reinstalled (or rebuilt) by Restore through matching snapshot structs, deep copying of in-place-mutated entries, index co-update and rebinding order, no state write before a rejecting return, batch pre-validation mirroring the per-op guards, and lock scope")
}

const fsmPkg = "internal/cluster/raft"

// dependent indexes of each primary map (confirmed against Restore's rebuild code)
var fsmIndexes = map[string][]string{
	"files":                  {"filesByDB"},
	"tokens":                 {"tokensByPrefix", "tokensByName"},
	"organizations":          {"organizationsByName"},
	"teams":                  {"teamsByOrg"},
	"roles":                  {"rolesByTeam"},
	"measurementPermissions": {"measurementPermsByRole"},
	"tokenMemberships":       {"tokenMembershipsByPair", "tokenMembershipsByToken", "tokenMembershipsByTeam"},
}

// fields of ClusterFSM that are not replicated state
var fsmNonState = map[string]string{
	"mu": "lock", "logger": "logger", "rejectedPaths": "local counter", "rejectedTokens": "local counter", "rejectedRBAC": "local counter",
	"keysCache": "derived cache, reset to nil on mutation and on Restore",
}

type fsmFacts struct {
	applyFns   []*ssa.Function              // functions reachable from Apply inside the package (methods of ClusterFSM + helpers)
	writes     map[string][]ssa.Instruction // field -> writes inside the apply closure
	writesByFn map[*ssa.Function]map[string][]ssa.Instruction
}

func fsmClosure(p *Prog, roots ...string) []*ssa.Function {
	seen := map[*ssa.Function]bool{}
	var order []*ssa.Function
	var work []*ssa.Function
	for _, r := range roots {
		if f := p.Func(r); f != nil {
			work = append(work, f)
		}
	}
	for len(work) > 0 {
		f := work[len(work)-1]
		work = work[:len(work)-1]
		if seen[f] {
			continue
		}
		seen[f] = true
		order = append(order, f)
		for _, call := range callsIn(f, true) {
			cal := call.Common().StaticCallee()
			if cal == nil || cal.Pkg == nil || len(cal.Blocks) == 0 {
				continue
			}
			pk := relPkg(cal.Pkg.Pkg.Path())
			if !strings.HasPrefix(cal.Pkg.Pkg.Path(), modulePath) || pk == "internal/metrics" || pk == "internal/logger" {
				continue
			}
			work = append(work, cal)
		}
	}
	sort.Slice(order, func(i, j int) bool { return order[i].Pos() < order[j].Pos() })
	return order
}

func isCallbackField(t types.Type) bool {
	_, ok := t.Underlying().(*types.Signature)
	return ok
}

func runC22(c *Ctx) {
	c22LenUnit(c)
	c.Rule("C22.IDIOM", "PAIR: in the cluster FSM Restore/rebuild functions, the two halves of a map idiom name the same map and key: a get-or-create stores the new set under the key it looked up, and a delete-when-empty removes the entry whose own set it found empty")
	{
		n := 0
		for _, fn := range c.P.FuncsIn("internal/cluster/raft") {
			isRestore := strings.Contains(strings.ToLower(fn.Name()), "restore") || strings.Contains(strings.ToLower(fn.Name()), "rebuild")
			if !isRestore {
				continue
			}
			issues, k := mapIdiomIssues(fn)
			n += k
			for i, is := range issues {
				c.Bad("C22.IDIOM", fmt.Sprintf("%s|%s#%d", fn.Name(), is.kind, i+1), is.pos, "%s", is.what)
			}
			if k > 0 && len(issues) == 0 {
				c.OK("C22.IDIOM", fn.Name()+"|map-idioms", fn.Pos(), "%d get-or-create / delete-when-empty site(s), halves agree", k)
			}
		}
		c.Check(n >= 1, "C22.IDIOM", "internal/cluster/raft|sites", 0, fmt.Sprintf("%d idiom sites inspected", n), "no map idiom site found (rule needs review)")
	}
	p := c.P
	c.Rule("C22.DISPATCH", "COVER: every declared CommandType constant is compared against in Apply's dispatch; the default arm returns an error")
	c.Rule("C22.PURE", "WHO: no function reachable from Apply or Restore (module code, callbacks/metrics/logging excluded) calls the clock, a random source, the OS, the network or a UUID generator")
	c.Rule("C22.SNAP", "FIELD: every ClusterFSM state field written in the apply closure is read by Snapshot and stored by Restore, or is an index stored (rebuilt) by Restore; Snapshot fills every field of fsmSnapshot, Persist copies every fsmSnapshot field into every FSMSnapshot field, and Restore reads every FSMSnapshot field")
	c.Rule("C22.DEEP", "FLOW: for every primary map whose entries an apply function mutates in place (store through the pointer held in the map), Snapshot stores a fresh copy of each entry rather than the live pointer")
	c.Rule("C22.INDEX", "FIELD: every function of the apply closure that inserts into or deletes from a primary map also updates each of its dependent indexes (directly or through a *Locked helper it calls); Restore stores every index")
	c.Rule("C22.REBIND", "ORDER: when one function both deletes from and inserts into the same index map (re-binding a key), the delete precedes the insert; insert-then-delete drops the binding when old and new key coincide")
	c.Rule("C22.REJECT", "ORDER: in each per-op function executed by a batch (apply*FileStruct) no replicated-state write is followed by a rejecting (error) return, so a batch cannot fail half-applied inside an op")
	c.Rule("C22.BATCH", "AGREE+ORDER: applyBatchFileOps performs, in a pre-pass that precedes every *Struct call, each rejection guard the *Struct apply functions perform before their first state write")
	c.Rule("C22.LOCK", "LOCK: every access to a replicated-state field of ClusterFSM happens with f.mu held (write lock for writes), in methods directly or in helpers all of whose callers hold it")

	apply := c.MustFunc("C22.DISPATCH", "(*internal/cluster/raft.ClusterFSM).Apply")
	restore := c.MustFunc("C22.SNAP", "(*internal/cluster/raft.ClusterFSM).Restore")
	snap := c.MustFunc("C22.SNAP", "(*internal/cluster/raft.ClusterFSM).Snapshot")
	persist := c.MustFunc("C22.SNAP", "(*internal/cluster/raft.fsmSnapshot).Persist")
	if apply == nil || restore == nil || snap == nil || persist == nil {
		return
	}

	// ---- DISPATCH
	pkg := p.Pkgs[fsmPkg]
	declared := map[int64]string{}
	if pkg != nil {
		sc := pkg.Types.Scope()
		for _, n := range sc.Names() {
			if k, ok := sc.Lookup(n).(*types.Const); ok {
				if nt, ok := k.Type().(*types.Named); ok && nt.Obj().Name() == "CommandType" {
					v, _ := constant.Int64Val(k.Val())
					declared[v] = n
				}
			}
		}
	}
	handled := map[int64]bool{}
	for _, in := range instrs(apply, false) {
		if bo, ok := in.(*ssa.BinOp); ok && bo.Op == token.EQL {
			for _, side := range []ssa.Value{bo.X, bo.Y} {
				if k, ok := side.(*ssa.Const); ok && k.Value != nil {
					if nt, ok := k.Type().(*types.Named); ok && nt.Obj().Name() == "CommandType" {
						v, _ := constant.Int64Val(k.Value)
						handled[v] = true
					}
				}
			}
		}
	}
	var vals []int64
	for v := range declared {
		vals = append(vals, v)
	}
	sort.Slice(vals, func(i, j int) bool { return vals[i] < vals[j] })
	for _, v := range vals {
		c.Check(handled[v], "C22.DISPATCH", "Apply|"+declared[v], apply.Pos(), "has a dispatch arm", "CommandType constant "+declared[v]+" has no arm in Apply: the command is rejected as unknown on every node, or silently ignored")
	}
	c.Floor("C22.DISPATCH", 20, "declared command types")

	// ---- PURE
	impure := func(n string) string {
		switch {
		case n == "time.Now" || n == "time.Since" || n == "time.Until" || n == "time.After" || n == "time.Tick" || n == "time.NewTimer" || n == "time.Sleep":
			return "clock"
		case strings.HasPrefix(n, "math/rand") || strings.HasPrefix(n, "crypto/rand") || strings.HasPrefix(n, "(*math/rand"):
			return "random source"
		case strings.HasPrefix(n, "os.") && n != "os.IsNotExist":
			return "operating system"
		case strings.HasPrefix(n, "net.") || strings.HasPrefix(n, "net/http."):
			return "network"
		case strings.Contains(n, "uuid.New"):
			return "uuid"
		}
		return ""
	}
	closure := fsmClosure(p, "(*internal/cluster/raft.ClusterFSM).Apply", "(*internal/cluster/raft.ClusterFSM).Restore")
	nImp := 0
	for _, fn := range closure {
		for _, call := range callsIn(fn, true) {
			if why := impure(callName(call)); why != "" {
				nImp++
				c.Bad("C22.PURE", ssaFuncName(fn)+"|"+callName(call), call.Pos(), "%s is reachable from Apply/Restore and consults the %s: replicas replaying the same log compute different state", ssaFuncName(fn), why)
			}
		}
	}
	c.OK("C22.PURE", "closure", apply.Pos(), "%d functions reachable from Apply/Restore inspected, %d impure calls", len(closure), nImp)

	// ---- state fields written by the apply closure
	applyClosure := fsmClosure(p, "(*internal/cluster/raft.ClusterFSM).Apply")
	writes := map[string][]ssa.Instruction{}
	byFn := map[*ssa.Function]map[string][]ssa.Instruction{}
	for _, fn := range applyClosure {
		for _, a := range fieldAccesses(fn, "ClusterFSM") {
			if !a.Write {
				continue
			}
			writes[a.Field] = append(writes[a.Field], a.In)
			if byFn[fn] == nil {
				byFn[fn] = map[string][]ssa.Instruction{}
			}
			byFn[fn][a.Field] = append(byFn[fn][a.Field], a.In)
		}
	}
	readIn := func(fn *ssa.Function, st string) map[string]bool {
		m := map[string]bool{}
		for _, a := range fieldAccesses(fn, st) {
			if !a.Write {
				m[a.Field] = true
			}
		}
		return m
	}
	writtenIn := func(fn *ssa.Function, st string) map[string]bool {
		m := map[string]bool{}
		for _, a := range fieldAccesses(fn, st) {
			if a.Write {
				m[a.Field] = true
			}
		}
		return m
	}
	snapReads := readIn(snap, "ClusterFSM")
	restWrites := writtenIn(restore, "ClusterFSM")
	var fields []string
	for f := range writes {
		fields = append(fields, f)
	}
	sort.Strings(fields)
	nState := 0
	for _, f := range fields {
		if _, skip := fsmNonState[f]; skip {
			continue
		}
		nState++
		construct := "ClusterFSM." + f
		switch {
		case snapReads[f] && restWrites[f]:
			c.OK("C22.SNAP", construct, writes[f][0].Pos(), "written by apply, read by Snapshot, stored by Restore")
		case restWrites[f]:
			c.OK("C22.SNAP", construct, writes[f][0].Pos(), "index: written by apply, rebuilt by Restore")
		case snapReads[f]:
			c.Bad("C22.SNAP", construct, writes[f][0].Pos(), "field %s is written by the apply functions and captured by Snapshot, but Restore never stores it: a restored node lacks this state", f)
		default:
			c.Bad("C22.SNAP", construct, writes[f][0].Pos(), "field %s is written by the apply functions but is neither captured by Snapshot nor rebuilt by Restore: a node restored from a snapshot diverges from one that replayed the log", f)
		}
	}
	c.Floor("C22.SNAP", 15, "replicated state fields of ClusterFSM")
	// struct plumbing: fsmSnapshot filled by Snapshot, read by Persist; FSMSnapshot written by Persist, read by Restore
	allFields := func(name string) []string {
		if pkg == nil {
			return nil
		}
		obj := pkg.Types.Scope().Lookup(name)
		if obj == nil {
			return nil
		}
		st, ok := obj.Type().Underlying().(*types.Struct)
		if !ok {
			return nil
		}
		var out []string
		for i := 0; i < st.NumFields(); i++ {
			out = append(out, st.Field(i).Name())
		}
		return out
	}
	checkAll := func(what string, fn *ssa.Function, st string, wantWrite bool) {
		got := readIn(fn, st)
		if wantWrite {
			got = writtenIn(fn, st)
		}
		var miss []string
		for _, f := range allFields(st) {
			if !got[f] {
				miss = append(miss, f)
			}
		}
		verb := "reads"
		if wantWrite {
			verb = "fills"
		}
		construct := fmt.Sprintf("%s|%s-%s", fn.Name(), verb, st)
		if len(miss) == 0 && len(allFields(st)) > 0 {
			c.OK("C22.SNAP", construct, fn.Pos(), "%s %s every field of %s", what, verb, st)
		} else {
			c.Bad("C22.SNAP", construct, fn.Pos(), "%s does not %s field(s) %s of %s: that part of the state is dropped on the snapshot path", what, strings.TrimSuffix(verb, "s"), strings.Join(miss, ","), st)
		}
	}
	checkAll("Snapshot", snap, "fsmSnapshot", true)
	checkAll("Persist", persist, "fsmSnapshot", false)
	checkAll("Persist", persist, "FSMSnapshot", true)
	checkAll("Restore", restore, "FSMSnapshot", false)

	c22Deep(c, snap, applyClosure)
	c22Index(c, applyClosure, byFn, restWrites)
	c22Rebind(c, applyClosure)
	c22Reject(c, applyClosure)
	c22Batch(c)
	c22Lock(c, writes)
}

// mapFieldOfLookup: v is (an extract of) a lookup / range-next on the map held in ClusterFSM.<field>.
func mapFieldOfEntry(v ssa.Value) string {
	seen := map[ssa.Value]bool{}
	var rec func(v ssa.Value, d int) string
	rec = func(v ssa.Value, d int) string {
		if v == nil || d > 8 || seen[v] {
			return ""
		}
		seen[v] = true
		switch x := v.(type) {
		case *ssa.Extract:
			return rec(x.Tuple, d+1)
		case *ssa.Lookup:
			if ld, ok := x.X.(*ssa.UnOp); ok {
				if sn, f, _, ok := fieldOf(ld.X); ok && sn == "ClusterFSM" {
					return f
				}
			}
		case *ssa.Next:
			if rg, ok := x.Iter.(*ssa.Range); ok {
				if ld, ok := rg.X.(*ssa.UnOp); ok {
					if sn, f, _, ok := fieldOf(ld.X); ok && sn == "ClusterFSM" {
						return f
					}
				}
			}
		case *ssa.Phi:
			for _, e := range x.Edges {
				if r := rec(e, d+1); r != "" {
					return r
				}
			}
		case *ssa.UnOp:
			if x.Op == token.MUL {
				if a, ok := x.X.(*ssa.Alloc); ok {
					for _, r := range *a.Referrers() {
						if st, ok := r.(*ssa.Store); ok && st.Addr == a {
							if rr := rec(st.Val, d+1); rr != "" {
								return rr
							}
						}
					}
				}
			}
		}
		return ""
	}
	return rec(v, 0)
}

func c22Deep(c *Ctx, snap *ssa.Function, applyClosure []*ssa.Function) {
	// primary maps mutated in place
	inPlace := map[string]token.Pos{}
	for _, fn := range applyClosure {
		for _, in := range instrs(fn, false) {
			st, ok := in.(*ssa.Store)
			if !ok {
				continue
			}
			fa, ok := st.Addr.(*ssa.FieldAddr)
			if !ok {
				continue
			}
			if mf := mapFieldOfEntry(fa.X); mf != "" {
				if _, seen := inPlace[mf]; !seen {
					inPlace[mf] = st.Pos()
				}
			}
		}
	}
	// how does Snapshot copy each primary map?
	type how struct {
		aliased bool
		pos     token.Pos
	}
	copies := map[string]how{}
	for _, in := range instrs(snap, false) {
		mu, ok := in.(*ssa.MapUpdate)
		if !ok {
			continue
		}
		if _, isMk := mu.Map.(*ssa.MakeMap); !isMk {
			continue
		}
		// which f.<field> is being ranged over to produce this entry?
		src := ""
		alias := false
		if mf := mapFieldOfEntry(mu.Value); mf != "" {
			src, alias = mf, true // the live pointer is stored
		} else if al, ok := mu.Value.(*ssa.Alloc); ok {
			// &copy : what was stored into copy?
			for _, r := range *al.Referrers() {
				if st, ok := r.(*ssa.Store); ok && st.Addr == al {
					if ld, ok := st.Val.(*ssa.UnOp); ok {
						if mf := mapFieldOfEntry(ld.X); mf != "" {
							src = mf
						}
					}
				}
			}
		}
		if src != "" {
			copies[src] = how{alias, mu.Pos()}
		}
	}
	var ks []string
	for k := range copies {
		ks = append(ks, k)
	}
	sort.Strings(ks)
	for _, k := range ks {
		h := copies[k]
		_, mutated := inPlace[k]
		switch {
		case !h.aliased:
			c.OK("C22.DEEP", "Snapshot|"+k, h.pos, "entries of %s are copied by value", k)
		case mutated:
			c.Bad("C22.DEEP", "Snapshot|"+k, h.pos, "Snapshot stores the live entry pointers of %s, and an apply function mutates those entries in place (L%d): a command applied between Snapshot() and Persist() leaks into the snapshot, which then restores a state that never existed at its index", k, c.P.Line(inPlace[k]))
		default:
			c.OK("C22.DEEP", "Snapshot|"+k, h.pos, "entries of %s are shared, and no apply function mutates them in place", k)
		}
	}
	c.Floor("C22.DEEP", 8, "primary maps copied by Snapshot")
}

// touchedFields: ClusterFSM map fields a function updates, including nested
// updates through an inner map looked up from the field.
func touchedFields(fn *ssa.Function) map[string]bool {
	out := map[string]bool{}
	for _, a := range fieldAccesses(fn, "ClusterFSM") {
		if a.Write {
			out[a.Field] = true
		}
	}
	for _, in := range instrs(fn, false) {
		var m ssa.Value
		switch x := in.(type) {
		case *ssa.MapUpdate:
			m = x.Map
		case *ssa.Call:
			if b, ok := x.Call.Value.(*ssa.Builtin); ok && b.Name() == "delete" {
				m = x.Call.Args[0]
			}
		}
		if m == nil {
			continue
		}
		if mf := mapFieldOfEntry(m); mf != "" {
			out[mf] = true
		}
		// slices held in index maps: f.tokensByPrefix[p] = append(...)
	}
	return out
}

func c22Index(c *Ctx, applyClosure []*ssa.Function, byFn map[*ssa.Function]map[string][]ssa.Instruction, restWrites map[string]bool) {
	p := c.P
	// transitive touched sets through static callees inside the closure
	memo := map[*ssa.Function]map[string]bool{}
	var trans func(fn *ssa.Function, depth int) map[string]bool
	trans = func(fn *ssa.Function, depth int) map[string]bool {
		if m, ok := memo[fn]; ok {
			return m
		}
		m := touchedFields(fn)
		memo[fn] = m
		if depth > 3 {
			return m
		}
		for _, call := range callsIn(fn, false) {
			cal := call.Common().StaticCallee()
			if cal != nil && cal.Pkg != nil && relPkg(cal.Pkg.Pkg.Path()) == fsmPkg && recvTypeName(cal) == "ClusterFSM" && cal != fn {
				for k := range trans(cal, depth+1) {
					m[k] = true
				}
			}
		}
		return m
	}
	n := 0
	for _, fn := range applyClosure {
		if recvTypeName(fn) != "ClusterFSM" {
			continue
		}
		// does fn insert into / delete from a primary map (not merely mutate an entry)?
		for prim, idxs := range fsmIndexes {
			ws := byFn[fn][prim]
			structural := false
			var pos token.Pos
			for _, w := range ws {
				switch x := w.(type) {
				case *ssa.MapUpdate:
					if replacesExistingKey(x) {
						continue // copy-on-write replacement of an entry under its existing key
					}
					structural = true
					pos = x.Pos()
				case *ssa.Call:
					structural = true
					pos = x.Pos()
				}
			}
			if !structural {
				continue
			}
			t := trans(fn, 0)
			for _, idx := range idxs {
				n++
				construct := fmt.Sprintf("%s|%s->%s", fn.Name(), prim, idx)
				if t[idx] {
					c.OK("C22.INDEX", construct, pos, "primary map %s and index %s are updated together", prim, idx)
				} else if callersTouch(applyClosure, fn, idx, trans) {
					c.OK("C22.INDEX", construct, pos, "helper: every caller updates index %s in the same critical section", idx)
				} else {
					c.Bad("C22.INDEX", construct, pos, "%s inserts into or deletes from %s but never updates its index %s: lookups through the index disagree with the primary records until the next snapshot restore", fn.Name(), prim, idx)
				}
			}
		}
	}
	for _, idxs := range fsmIndexes {
		for _, idx := range idxs {
			c.Check(restWrites[idx], "C22.INDEX", "Restore|rebuilds-"+idx, 0, "Restore rebuilds the index", "Restore does not rebuild index "+idx)
		}
	}
	_ = p
	c.Floor("C22.INDEX", 25, "structural primary-map writers x dependent indexes")
}

func c22Rebind(c *Ctx, applyClosure []*ssa.Function) {
	n := 0
	for _, fn := range applyClosure {
		type op struct {
			in    ssa.Instruction
			field string
			del   bool
			key   ssa.Value
		}
		var ops []op
		for _, in := range instrs(fn, false) {
			switch x := in.(type) {
			case *ssa.MapUpdate:
				if ld, ok := x.Map.(*ssa.UnOp); ok {
					if sn, f, _, ok := fieldOf(ld.X); ok && sn == "ClusterFSM" {
						ops = append(ops, op{x, f, false, x.Key})
					}
				}
			case *ssa.Call:
				if b, ok := x.Call.Value.(*ssa.Builtin); ok && b.Name() == "delete" {
					if ld, ok := x.Call.Args[0].(*ssa.UnOp); ok {
						if sn, f, _, ok := fieldOf(ld.X); ok && sn == "ClusterFSM" {
							ops = append(ops, op{x, f, true, x.Call.Args[1]})
						}
					}
				}
			}
		}
		for _, ins := range ops {
			if ins.del {
				continue
			}
			isIndex := false
			for _, idxs := range fsmIndexes {
				for _, i := range idxs {
					if i == ins.field {
						isIndex = true
					}
				}
			}
			if !isIndex {
				continue
			}
			for _, del := range ops {
				if !del.del || del.field != ins.field {
					continue
				}
				if ins.key == del.key {
					continue // delete-then-reinsert of the very same key value is not a rebind
				}
				n++
				construct := fmt.Sprintf("%s|%s", fn.Name(), ins.field)
				// violation if the insert can execute before the delete
				if ins.in.Block() == del.in.Block() {
					if instrIndex(ins.in) < instrIndex(del.in) {
						c.Bad("C22.REBIND", construct, del.in.Pos(), "the new binding is inserted into %s at L%d and the old key deleted afterwards at L%d: when the update carries the current key, the fresh binding is deleted and the entry vanishes from the index", ins.field, c.P.Line(ins.in.Pos()), c.P.Line(del.in.Pos()))
					} else {
						c.OK("C22.REBIND", construct, del.in.Pos(), "old binding deleted before the new one is inserted")
					}
				} else if instrDominates(ins.in, del.in) {
					c.Bad("C22.REBIND", construct, del.in.Pos(), "insert into %s dominates the delete of the old key", ins.field)
				} else {
					c.OK("C22.REBIND", construct, del.in.Pos(), "delete does not follow the insert on any straight-line path")
				}
			}
		}
	}
	c.Floor("C22.REBIND", 1, "applyUpdateToken renames through tokensByName")
}

func c22Reject(c *Ctx, applyClosure []*ssa.Function) {
	n := 0
	for _, fn := range applyClosure {
		if recvTypeName(fn) != "ClusterFSM" || !strings.HasPrefix(fn.Name(), "apply") {
			continue
		}
		// the property demands all-or-nothing only of batched file operations:
		// the per-op functions a batch applies must reject before they write
		if !strings.HasSuffix(fn.Name(), "FileStruct") {
			continue
		}
		// rejecting returns: result is a non-nil error wrapped in interface{}
		isReject := func(in ssa.Instruction) bool {
			r, ok := in.(*ssa.Return)
			if !ok || len(r.Results) != 1 {
				return false
			}
			if ev := errInAny(r.Results[0]); ev != nil {
				return classifyErr(ev, r, nil, 0) != errNil
			}
			return false
		}
		var bad []string
		for _, a := range fieldAccesses(fn, "ClusterFSM") {
			if !a.Write {
				continue
			}
			if _, skip := fsmNonState[a.Field]; skip {
				continue
			}
			// installing an empty inner map into an index is not observable state
			if mu, ok := a.In.(*ssa.MapUpdate); ok {
				if _, isMk := mu.Value.(*ssa.MakeMap); isMk {
					continue
				}
			}
			for _, e := range pathsAvoidingTo(fn, a.In, nil, func(ssa.Instruction) bool { return false }, nil) {
				if isReject(e.Instr) {
					bad = append(bad, fmt.Sprintf("write to %s at L%d can be followed by the rejecting return at L%d", a.Field, c.P.Line(a.In.Pos()), c.P.Line(e.Instr.Pos())))
				}
			}
		}
		n++
		if len(bad) == 0 {
			c.OK("C22.REJECT", fn.Name(), fn.Pos(), "no state write precedes a rejecting return")
		} else {
			// batch apply propagates per-op failures after earlier ops were applied: that is C22.BATCH's subject
			c.Bad("C22.REJECT", fn.Name(), fn.Pos(), "%s", strings.Join(uniq(bad), "; "))
		}
	}
	c.Floor("C22.REJECT", 3, "the three *FileStruct apply functions a batch executes")
}

func uniq(xs []string) []string {
	seen := map[string]bool{}
	var out []string
	for _, x := range xs {
		if !seen[x] {
			seen[x] = true
			out = append(out, x)
		}
	}
	return out
}

// guardsBeforeFirstWrite extracts the rejection guards a function evaluates:
// conditions of branches one side of which leads straight to an error return.
func rejectionGuards(fn *ssa.Function, stopAt func(ssa.Instruction) bool) map[string]token.Pos {
	out := map[string]token.Pos{}
	for _, b := range fn.Blocks {
		if len(b.Instrs) == 0 {
			continue
		}
		ifi, ok := b.Instrs[len(b.Instrs)-1].(*ssa.If)
		if !ok {
			continue
		}
		if stopAt != nil {
			// only guards that execute before stopAt on some path: the If must not be dominated by a stop instruction
			skip := false
			for _, in := range instrs(fn, false) {
				if stopAt(in) && instrDominates(in, ifi) {
					skip = true
				}
			}
			if skip {
				continue
			}
		}
		desc := describeGuard(ifi.Cond)
		if desc == "" {
			continue
		}
		// one successor must lead to an error return before any other branching
		leads := false
		for _, s := range b.Succs {
			cur := s
			for hops := 0; hops < 4 && cur != nil; hops++ {
				last := cur.Instrs[len(cur.Instrs)-1]
				if r, ok := last.(*ssa.Return); ok {
					if len(r.Results) > 0 {
						if ev := errInAny(r.Results[len(r.Results)-1]); ev != nil && classifyErr(ev, r, nil, 0) != errNil {
							leads = true
						}
					}
					break
				}
				if _, ok := last.(*ssa.Jump); ok && len(cur.Succs) == 1 {
					cur = cur.Succs[0]
					continue
				}
				break
			}
		}
		if leads {
			out[desc] = ifi.Pos()
		}
	}
	return out
}

func describeGuard(cond ssa.Value) string {
	srcKey := func(v ssa.Value) string {
		var ks []string
		for k := range fieldSources(v, 6) {
			// payload wrappers differ between the single-op and batch code; key on the leaf field
			ks = append(ks, k)
		}
		sort.Strings(ks)
		return strings.Join(ks, "+")
	}
	switch x := cond.(type) {
	case *ssa.UnOp:
		if x.Op == token.NOT {
			return describeGuard(x.X)
		}
	case *ssa.BinOp:
		if x.Op == token.NEQ || x.Op == token.EQL {
			if isNilConst(x.Y) || isNilConst(x.X) {
				v := x.X
				if isNilConst(x.X) {
					v = x.Y
				}
				var call *ssa.Call
				switch y := v.(type) {
				case *ssa.Call:
					call = y
				case *ssa.Extract:
					call, _ = y.Tuple.(*ssa.Call)
				}
				if call != nil && strings.Contains(callName(call), "internal/") {
					var args []string
					for _, a := range call.Call.Args {
						if k := srcKey(a); k != "" {
							args = append(args, k)
						}
					}
					return "call:" + callName(call) + "(" + strings.Join(args, ",") + ")"
				}
				return ""
			}
			if s, ok := constString(x.Y); ok && s == "" {
				if k := srcKey(x.X); k != "" {
					return "empty:" + k
				}
			}
		}
	case *ssa.Call:
		n := callName(x)
		if n == "(time.Time).IsZero" {
			return "zero-time:" + srcKey(x.Call.Args[0])
		}
	}
	return ""
}

func c22Batch(c *Ctx) {
	p := c.P
	batch := c.MustFunc("C22.BATCH", "(*internal/cluster/raft.ClusterFSM).applyBatchFileOps")
	if batch == nil {
		return
	}
	structFns := []string{"applyRegisterFileStruct", "applyUpdateFileStruct", "applyDeleteFileStruct"}
	isStructCall := func(in ssa.Instruction) bool {
		call, ok := in.(ssa.CallInstruction)
		if !ok {
			return false
		}
		cal := call.Common().StaticCallee()
		if cal == nil {
			return false
		}
		for _, s := range structFns {
			if cal.Name() == s {
				return true
			}
		}
		return false
	}
	pre := rejectionGuards(batch, isStructCall)
	var preL []string
	for k := range pre {
		preL = append(preL, k)
	}
	sort.Strings(preL)
	for _, s := range structFns {
		fn := p.Func("(*internal/cluster/raft.ClusterFSM)." + s)
		if fn == nil {
			c.Unk("C22.BATCH", "anchor:"+s, 0, "function not found")
			continue
		}
		// guards before the first state write
		firstWrite := func(in ssa.Instruction) bool {
			for _, a := range fieldAccesses(fn, "ClusterFSM") {
				if a.Write && a.In == in {
					if _, skip := fsmNonState[a.Field]; !skip {
						return true
					}
				}
			}
			return false
		}
		gs := rejectionGuards(fn, firstWrite)
		var gl []string
		for k := range gs {
			gl = append(gl, k)
		}
		sort.Strings(gl)
		for _, g := range gl {
			_, ok := pre[g]
			c.Check(ok, "C22.BATCH", s+"|"+g, gs[g], "the batch pre-pass performs the same rejection guard", "guard "+g+" of "+s+" has no counterpart in applyBatchFileOps' pre-pass {"+strings.Join(preL, "; ")+"}: a batch can fail on it after earlier ops were applied (not all-or-nothing)")
		}
		if len(gl) == 0 {
			c.Unk("C22.BATCH", s+"|guards", fn.Pos(), "no rejection guard recognised in "+s)
		}
	}
	// ordering: every *Struct call is reached only after the pre-pass loop finished: no *Struct call may precede a pre-pass guard
	ok := true
	for _, in := range instrs(batch, false) {
		if !isStructCall(in) {
			continue
		}
		for _, pos := range pre {
			_ = pos
		}
		// every guard If must not be reachable from a *Struct call
		for _, b := range batch.Blocks {
			ifi, isIf := b.Instrs[len(b.Instrs)-1].(*ssa.If)
			if !isIf {
				continue
			}
			if d := describeGuard(ifi.Cond); d == "" || pre[d] == 0 {
				continue
			}
			for _, e := range pathsAvoidingTo(batch, in, nil, func(ssa.Instruction) bool { return false }, func(x ssa.Instruction) bool { return x == ssa.Instruction(ifi) }) {
				if e.Instr == ssa.Instruction(ifi) {
					ok = false
				}
			}
		}
	}
	c.Check(ok, "C22.BATCH", "applyBatchFileOps|prepass-before-apply", batch.Pos(), "no validation guard is reachable after a *Struct apply call", "a validation guard of the batch executes after an op has already been applied")
	c.Floor("C22.BATCH", 5, "guards of the three *Struct functions + ordering")
}

func c22Lock(c *Ctx, stateWrites map[string][]ssa.Instruction) {
	p := c.P
	guarded := map[string]bool{}
	for f := range stateWrites {
		if _, skip := fsmNonState[f]; !skip {
			guarded[f] = true
		}
	}
	guarded["keysCache"] = true
	methods := p.MethodsOf(fsmPkg, "ClusterFSM")
	// helpers that never lock but access guarded fields are checked at their call sites
	needsCaller := map[*ssa.Function]bool{}
	infos := map[*ssa.Function]*lockInfo{}
	for _, fn := range methods {
		infos[fn] = analyzeLocks(fn, nil)
	}
	type viol struct {
		fn  *ssa.Function
		acc fieldAccess
	}
	var unheld []viol
	nAcc := 0
	for _, fn := range methods {
		if fn.Name() == "NewClusterFSM" {
			continue
		}
		recv := ""
		if len(fn.Params) > 0 {
			recv = fn.Params[0].Name()
		}
		for _, a := range fieldAccesses(fn, "ClusterFSM") {
			if !guarded[a.Field] || a.Base != recv {
				continue
			}
			nAcc++
			held := infos[fn].heldAt(a.In)
			mode, ok := held[recv+".mu"]
			if ok && (!a.Write || mode == "W") {
				continue
			}
			unheld = append(unheld, viol{fn, a})
		}
	}
	// group by function: a function with unheld accesses and no Lock call of its own is a "called with lock held" helper
	byFn := map[*ssa.Function][]viol{}
	for _, v := range unheld {
		byFn[v.fn] = append(byFn[v.fn], v)
	}
	var fns []*ssa.Function
	for fn := range byFn {
		fns = append(fns, fn)
	}
	sort.Slice(fns, func(i, j int) bool { return fns[i].Pos() < fns[j].Pos() })
	for _, fn := range fns {
		locksItself := false
		for _, call := range callsIn(fn, false) {
			if op, ok := lockOps[callName(call)]; ok && op.acquire {
				locksItself = true
			}
		}
		if !locksItself {
			needsCaller[fn] = true
			continue
		}
		for _, v := range byFn[fn] {
			kind := "read"
			if v.acc.Write {
				kind = "write"
			}
			c.Bad("C22.LOCK", fmt.Sprintf("%s|%s:%s@L%d", fn.Name(), kind, v.acc.Field, 0), v.acc.In.Pos(), "%s of ClusterFSM.%s at L%d without f.mu held in the required mode", kind, v.acc.Field, p.Line(v.acc.In.Pos()))
		}
	}
	// helpers: every static caller must hold the write lock at the call site
	var hs []*ssa.Function
	for fn := range needsCaller {
		hs = append(hs, fn)
	}
	sort.Slice(hs, func(i, j int) bool { return hs[i].Pos() < hs[j].Pos() })
	for _, h := range hs {
		needW := false
		for _, v := range byFn[h] {
			if v.acc.Write {
				needW = true
			}
		}
		ncall := 0
		okAll := true
		for _, fn := range methods {
			for _, call := range callsIn(fn, false) {
				if call.Common().StaticCallee() != h {
					continue
				}
				ncall++
				recv := fn.Params[0].Name()
				held := infos[fn].heldAt(call.(ssa.Instruction))
				mode, ok := held[recv+".mu"]
				if needsCaller[fn] {
					continue // checked transitively at fn's own callers
				}
				if !ok || (needW && mode != "W") {
					okAll = false
					c.Bad("C22.LOCK", fmt.Sprintf("%s|called-from-%s", h.Name(), fn.Name()), call.Pos(), "%s accesses replicated state without locking and is called from %s at L%d without f.mu held", h.Name(), fn.Name(), p.Line(call.Pos()))
				}
			}
		}
		if h.Object() != nil && h.Object().Exported() {
			v := byFn[h][0]
			c.Bad("C22.LOCK", h.Name()+"|exported-unlocked", v.acc.In.Pos(), "exported method %s accesses ClusterFSM.%s at L%d without taking f.mu", h.Name(), v.acc.Field, p.Line(v.acc.In.Pos()))
			continue
		}
		if ncall == 0 {
			c.Unk("C22.LOCK", h.Name()+"|no-callers", h.Pos(), "%s accesses replicated state without taking f.mu and has no caller inside the package to justify it", h.Name())
		} else if okAll {
			c.OK("C22.LOCK", h.Name()+"|helper", h.Pos(), "accesses state without locking; all %d call sites hold f.mu", ncall)
		}
	}
	c.OK("C22.LOCK", "methods", 0, "%d accesses to replicated-state fields in %d methods analysed (must-hold dataflow on f.mu)", nAcc, len(methods))
}

// errInAny unwraps an interface{} result to the error value it carries, if any.
func errInAny(v ssa.Value) ssa.Value {
	switch x := v.(type) {
	case *ssa.MakeInterface:
		if isErrorType(x.X.Type()) || types.Implements(x.X.Type(), types.Universe.Lookup("error").Type().Underlying().(*types.Interface)) {
			return x.X
		}
	case *ssa.ChangeInterface:
		if isErrorType(x.X.Type()) {
			return x.X
		}
	}
	if isErrorType(v.Type()) {
		return v
	}
	return nil
}

// replacesExistingKey: the MapUpdate's key was looked up in the same map with
// a comma-ok that is known true here (entry replacement, not insertion).
func replacesExistingKey(mu *ssa.MapUpdate) bool {
	for _, f := range factsAt(mu) {
		if f.Kind != factTrue {
			continue
		}
		e, ok := f.Val.(*ssa.Extract)
		if !ok || e.Index != 1 {
			continue
		}
		lk, ok := e.Tuple.(*ssa.Lookup)
		if !ok {
			continue
		}
		la, ok1 := lk.X.(*ssa.UnOp)
		lb, ok2 := mu.Map.(*ssa.UnOp)
		if ok1 && ok2 {
			fa, ok3 := la.X.(*ssa.FieldAddr)
			fb, ok4 := lb.X.(*ssa.FieldAddr)
			if ok3 && ok4 && fa.Field == fb.Field && fa.X == fb.X && samePathValue(lk.Index, mu.Key) {
				return true
			}
		}
	}
	return false
}

func callersTouch(closure []*ssa.Function, h *ssa.Function, idx string, trans func(*ssa.Function, int) map[string]bool) bool {
	n := 0
	for _, fn := range closure {
		for _, call := range callsIn(fn, false) {
			if call.Common().StaticCallee() != h {
				continue
			}
			n++
			if !touchedFields(fn)[idx] {
				return false
			}
		}
	}
	return n > 0
}
