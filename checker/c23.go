package main

import (
	"fmt"
	"go/token"
	"sort"
	"strings"

	"golang.org/x/tools/go/ssa"
)

func init() {
	register("C23", runC23,
		"reachability of particular bad command sequences and the coordinator/registry mirror of the FSM state; decided are the guards and co-updates that keep primaryWriterID, the per-node writer state and the RBAC parent links consistent in every apply function")
}

// parent maps that must contain the referenced id before a child is inserted
var fsmParents = map[string][]string{
	"teams":                  {"organizations"},
	"roles":                  {"teams"},
	"measurementPermissions": {"roles"},
	"tokenMemberships":       {"tokens", "teams"},
}

// child primary maps that must be cascaded when a parent entry is deleted
var fsmChildren = map[string][]string{
	"organizations": {"teams"},
	"teams":         {"roles", "tokenMemberships"},
	"roles":         {"measurementPermissions"},
	"tokens":        {"tokenMemberships"},
}

func constStr(v ssa.Value) (string, bool) { return constString(v) }

func runC23(c *Ctx) {
	c.Rule("C23.PRIMARYREC", "DOM: recordedWriterStateLocked returns anything other than `primary` only where the node's ID was compared unequal to f.primaryWriterID — the record of the node the FSM names as primary writer is marked primary whatever else the re-registration says about it (role, address)")
	if fn := c.P.Func("(*internal/cluster/raft.ClusterFSM).recordedWriterStateLocked"); fn != nil {
		n := 0
		for _, in := range instrs(fn, false) {
			r, ok := in.(*ssa.Return)
			if !ok || len(r.Results) != 1 {
				continue
			}
			if sv, ok := constString(unspill(r, r.Results[0])); ok && sv == "primary" {
				continue
			}
			n++
			okNeq := false
			for _, f := range factsAt(r) {
				if f.Kind != factCmp || f.Op != token.NEQ {
					continue
				}
				for _, pr := range [][2]ssa.Value{{f.X, f.Y}, {f.Y, f.X}} {
					if sn, fld, _, ok := loadedField(pr[0]); ok && sn == "ClusterFSM" && fld == "primaryWriterID" {
						if sn2, fld2, _, ok := loadedField(pr[1]); ok && sn2 == "NodeInfo" && fld2 == "ID" {
							okNeq = true
						}
					}
				}
			}
			c.Check(okNeq, "C23.PRIMARYREC", fmt.Sprintf("recordedWriterStateLocked|non-primary-return#%d", n), r.Pos(), "returned only for a node that is not the recorded primary", "recordedWriterStateLocked can return a state other than `primary` before (or without) comparing the node with f.primaryWriterID: when the recorded primary re-registers with another role its record loses `primary` while the FSM still names it as primary writer")
		}
		c.Check(n >= 1, "C23.PRIMARYREC", "recordedWriterStateLocked|returns", fn.Pos(), "returns inspected", "no non-primary return found")
	} else {
		c.Unk("C23.PRIMARYREC", "recordedWriterStateLocked|function", 0, "function not found")
	}
	c.Rule("C23.IDIOM", "PAIR: in the cluster FSM's apply functions, the two halves of a map idiom name the same map and key: a get-or-create stores the new set under the key it looked up, and a delete-when-empty removes the entry whose own set it found empty")
	{
		n := 0
		for _, fn := range c.P.FuncsIn("internal/cluster/raft") {
			isRestore := strings.Contains(strings.ToLower(fn.Name()), "restore") || strings.Contains(strings.ToLower(fn.Name()), "rebuild")
			if isRestore {
				continue
			}
			issues, k := mapIdiomIssues(fn)
			n += k
			for i, is := range issues {
				c.Bad("C23.IDIOM", fmt.Sprintf("%s|%s#%d", fn.Name(), is.kind, i+1), is.pos, "%s", is.what)
			}
			if k > 0 && len(issues) == 0 {
				c.OK("C23.IDIOM", fn.Name()+"|map-idioms", fn.Pos(), "%d get-or-create / delete-when-empty site(s), halves agree", k)
			}
		}
		c.Check(n >= 1, "C23.IDIOM", "internal/cluster/raft|sites", 0, fmt.Sprintf("%d idiom sites inspected", n), "no map idiom site found (rule needs review)")
	}
	p := c.P
	c.Rule("C23.PRIMARY", "DOM: every store of a non-empty value to primaryWriterID executes only where a lookup of that same id in f.nodes reported exists == true")
	c.Rule("C23.UNIQUE", "FIELD: the writer state \"primary\" is given to a node record only by the function that stores that node's id into primaryWriterID, or by a helper that returns it only under id == primaryWriterID; in applyPromoteWriter the node demoted to standby is looked up by the FSM's own primaryWriterID, never by a payload field")
	c.Rule("C23.REPLACE", "FLOW: every function that installs a whole payload-supplied record into f.nodes first overwrites that record's WriterState with a value computed from FSM state; every function that deletes from f.nodes consults primaryWriterID")
	c.Rule("C23.PARENT", "DOM: every insertion of a team, role, measurement permission or membership executes only where each parent id was looked up in its parent map and found")
	c.Rule("C23.CASCADE", "PASS: every function that deletes a parent entry deletes (itself or through *Locked helpers) from every child map, and inside each cascade helper every path to the return passes each of its child-enumeration loops")
	c.Rule("C23.ISPRIMARY", "FLOW: the coordinator's primary checks read the node state the FSM's promotion callback maintains, and the promotion callback is installed")

	closure := fsmClosure(p, "(*internal/cluster/raft.ClusterFSM).Apply")
	nodesLookupTrue := func(in ssa.Instruction, key ssa.Value) bool {
		for _, f := range factsAt(in) {
			if f.Kind != factTrue {
				continue
			}
			e, ok := f.Val.(*ssa.Extract)
			if !ok || e.Index != 1 {
				continue
			}
			lk, ok := e.Tuple.(*ssa.Lookup)
			if !ok {
				continue
			}
			if ld, ok := lk.X.(*ssa.UnOp); ok {
				if sn, fl, _, ok := fieldOf(ld.X); ok && sn == "ClusterFSM" && fl == "nodes" && samePathValue(lk.Index, key) {
					return true
				}
			}
		}
		return false
	}

	// ---- PRIMARY
	nP := 0
	for _, fn := range closure {
		for _, a := range fieldAccesses(fn, "ClusterFSM") {
			if !a.Write || a.Field != "primaryWriterID" {
				continue
			}
			st, ok := a.In.(*ssa.Store)
			if !ok {
				continue
			}
			nP++
			construct := fmt.Sprintf("%s|primaryWriterID-store@L%d", fn.Name(), 0)
			if s, isC := constStr(st.Val); isC && s == "" {
				c.Triv("C23.PRIMARY", fmt.Sprintf("%s|clear", fn.Name()), st.Pos(), "clears the primary")
				continue
			}
			if fn.Name() == "Restore" {
				continue
			}
			c.Check(nodesLookupTrue(st, st.Val), "C23.PRIMARY", construct, st.Pos(),
				"stored id was found in f.nodes", "primaryWriterID is set to an id that was not found in f.nodes on this path: the cluster then names a primary writer that does not exist")
		}
	}
	c.Floor("C23.PRIMARY", 2, "promote sets, demote/remove clear")

	// ---- UNIQUE
	nU := 0
	for _, fn := range closure {
		for _, in := range instrs(fn, false) {
			st, ok := in.(*ssa.Store)
			if !ok {
				continue
			}
			sn, fl, base, ok := fieldOf(st.Addr)
			if !ok || sn != "NodeInfo" || fl != "WriterState" {
				continue
			}
			s, isC := constStr(st.Val)
			if !isC || s != "primary" {
				continue
			}
			nU++
			// same function stores that node's id into primaryWriterID
			okSame := false
			for _, a := range fieldAccesses(fn, "ClusterFSM") {
				if a.Write && a.Field == "primaryWriterID" {
					if ps, ok := a.In.(*ssa.Store); ok {
						// base is the node looked up by key K; ps.Val must be K
						if lkKey := lookupKeyOf(base); lkKey != nil && samePathValue(lkKey, ps.Val) {
							okSame = true
						}
					}
				}
			}
			c.Check(okSame, "C23.UNIQUE", fn.Name()+"|marks-primary", st.Pos(), "the node marked primary is the one whose id is stored into primaryWriterID", "a node record is marked \"primary\" without that node's id being recorded as primaryWriterID in the same step: two nodes can end up marked primary")
		}
		// helpers returning "primary"
		if fn.Signature.Results().Len() == 1 {
			for _, in := range instrs(fn, false) {
				r, ok := in.(*ssa.Return)
				if !ok || len(r.Results) != 1 {
					continue
				}
				if s, isC := constStr(r.Results[0]); !isC || s != "primary" {
					continue
				}
				nU++
				guard := false
				for _, f := range factsAt(r) {
					if f.Kind == factCmp && f.Op == token.EQL {
						if fieldSources(f.X, 4)["ClusterFSM.primaryWriterID"] || fieldSources(f.Y, 4)["ClusterFSM.primaryWriterID"] {
							guard = true
						}
					}
				}
				c.Check(guard, "C23.UNIQUE", fn.Name()+"|returns-primary", r.Pos(), "returns \"primary\" only under id == primaryWriterID", "a helper hands out the writer state \"primary\" without comparing the node id with primaryWriterID")
			}
		}
	}
	// demotion target
	pw := c.MustFunc("C23.UNIQUE", "(*internal/cluster/raft.ClusterFSM).applyPromoteWriter")
	if pw != nil {
		found := false
		for _, in := range instrs(pw, false) {
			st, ok := in.(*ssa.Store)
			if !ok {
				continue
			}
			sn, fl, base, ok := fieldOf(st.Addr)
			if !ok || sn != "NodeInfo" || fl != "WriterState" {
				continue
			}
			if s, isC := constStr(st.Val); !isC || s != "standby" {
				continue
			}
			found = true
			key := lookupKeyOf(base)
			srcs := map[string]bool{}
			if key != nil {
				srcs = fieldSources(key, 6)
			}
			var fromPayload []string
			for k := range srcs {
				if strings.HasPrefix(k, "PromoteWriterPayload.") {
					fromPayload = append(fromPayload, k)
				}
			}
			sort.Strings(fromPayload)
			switch {
			case key == nil:
				c.Unk("C23.UNIQUE", "applyPromoteWriter|demotes-recorded-primary", st.Pos(), "cannot identify which node is demoted")
			case len(fromPayload) > 0:
				c.Bad("C23.UNIQUE", "applyPromoteWriter|demotes-recorded-primary", st.Pos(), "the node demoted to standby is selected by %s from the command payload: when that value is stale the FSM's recorded primary keeps its \"primary\" mark and two nodes are marked primary", strings.Join(fromPayload, ","))
			case !srcs["ClusterFSM.primaryWriterID"]:
				c.Bad("C23.UNIQUE", "applyPromoteWriter|demotes-recorded-primary", st.Pos(), "the node demoted to standby is not looked up by the FSM's primaryWriterID")
			default:
				c.OK("C23.UNIQUE", "applyPromoteWriter|demotes-recorded-primary", st.Pos(), "the demoted node is f.nodes[f.primaryWriterID]")
			}
		}
		if !found {
			c.Bad("C23.UNIQUE", "applyPromoteWriter|demotes-recorded-primary", pw.Pos(), "applyPromoteWriter never demotes the previous primary")
		}
	}
	c.Floor("C23.UNIQUE", 3, "promote marks primary, helper returns primary, promote demotes old")

	// ---- REPLACE
	nR := 0
	for _, fn := range closure {
		if fn.Name() == "Restore" {
			continue
		}
		for _, a := range fieldAccesses(fn, "ClusterFSM") {
			if !a.Write || a.Field != "nodes" {
				continue
			}
			switch x := a.In.(type) {
			case *ssa.MapUpdate:
				// whole-record install: value is the address of a payload field / local built from the payload
				rec := x.Value
				nR++
				construct := fn.Name() + "|installs-node-record"
				var ws *ssa.Store
				for _, in := range instrs(fn, false) {
					st, ok := in.(*ssa.Store)
					if !ok {
						continue
					}
					sn, fl, base, ok := fieldOf(st.Addr)
					if ok && sn == "NodeInfo" && fl == "WriterState" && (base == rec || samePathValue(base, rec)) && instrDominates(st, x) {
						ws = st
					}
				}
				if ws == nil {
					c.Bad("C23.REPLACE", construct, x.Pos(), "%s installs a whole node record taken from the command payload without setting its WriterState from FSM state first: re-registering a node silently changes (or fabricates) the role assignment the cluster recorded", fn.Name())
					continue
				}
				fromFSM := false
				if call, ok := ws.Val.(*ssa.Call); ok {
					if cal := call.Call.StaticCallee(); cal != nil && recvTypeName(cal) == "ClusterFSM" {
						for _, b := range fieldAccesses(cal, "ClusterFSM") {
							if b.Field == "primaryWriterID" {
								fromFSM = true
							}
						}
					}
				}
				backSlice(ws.Val, 8, func(v ssa.Value) bool {
					if sn, fl, _, ok := fieldOf(v); ok && sn == "ClusterFSM" && (fl == "primaryWriterID" || fl == "nodes") {
						fromFSM = true
					}
					return true
				})
				c.Check(fromFSM, "C23.REPLACE", construct, x.Pos(), "WriterState of the installed record is computed from primaryWriterID / the previous record", "the installed record's WriterState is not derived from the FSM's own bookkeeping")
			case *ssa.Call:
				nR++
				reads := false
				for _, b := range fieldAccesses(fn, "ClusterFSM") {
					if b.Field == "primaryWriterID" {
						reads = true
					}
				}
				c.Check(reads, "C23.REPLACE", fn.Name()+"|deletes-node-record", x.Pos(), "node removal consults primaryWriterID", fn.Name()+" deletes a node record without looking at primaryWriterID: removing the primary leaves the cluster naming a node that no longer exists")
			}
		}
	}
	c.Floor("C23.REPLACE", 3, "add, update, remove")

	// ---- PARENT
	nPa := 0
	for _, fn := range closure {
		if fn.Name() == "Restore" || recvTypeName(fn) != "ClusterFSM" {
			continue
		}
		for child, parents := range fsmParents {
			for _, a := range fieldAccesses(fn, "ClusterFSM") {
				mu, ok := a.In.(*ssa.MapUpdate)
				if !ok || !a.Write || a.Field != child || replacesExistingKey(mu) {
					continue
				}
				for _, parent := range parents {
					nPa++
					construct := fmt.Sprintf("%s|%s-requires-%s", fn.Name(), child, parent)
					found := false
					for _, f := range factsAt(mu) {
						if f.Kind != factTrue {
							continue
						}
						e, ok := f.Val.(*ssa.Extract)
						if !ok || e.Index != 1 {
							continue
						}
						if lk, ok := e.Tuple.(*ssa.Lookup); ok {
							if ld, ok := lk.X.(*ssa.UnOp); ok {
								if sn, fl, _, ok := fieldOf(ld.X); ok && sn == "ClusterFSM" && fl == parent {
									found = true
								}
							}
						}
					}
					c.Check(found, "C23.PARENT", construct, mu.Pos(), "insertion guarded by the parent having been found in "+parent, "a "+child+" entry is inserted without its parent having been looked up and found in "+parent+": the entry refers to a parent that does not exist")
				}
			}
		}
	}
	c.Floor("C23.PARENT", 5, "team<-org, role<-team, mperm<-role, membership<-token+team")

	// ---- CASCADE
	memo := map[*ssa.Function]map[string]bool{}
	var trans func(fn *ssa.Function, d int) map[string]bool
	trans = func(fn *ssa.Function, d int) map[string]bool {
		if m, ok := memo[fn]; ok {
			return m
		}
		m := map[string]bool{}
		memo[fn] = m
		for _, a := range fieldAccesses(fn, "ClusterFSM") {
			if a.Write {
				if call, ok := a.In.(*ssa.Call); ok {
					if b, ok := call.Call.Value.(*ssa.Builtin); ok && b.Name() == "delete" {
						m[a.Field] = true
					}
				}
			}
		}
		if d < 4 {
			for _, call := range callsIn(fn, false) {
				cal := call.Common().StaticCallee()
				if cal != nil && recvTypeName(cal) == "ClusterFSM" && cal != fn && cal.Pkg != nil && relPkg(cal.Pkg.Pkg.Path()) == fsmPkg {
					for k := range trans(cal, d+1) {
						m[k] = true
					}
				}
			}
		}
		return m
	}
	nC := 0
	for _, fn := range closure {
		if recvTypeName(fn) != "ClusterFSM" || !strings.HasPrefix(fn.Name(), "apply") {
			continue
		}
		own := map[string]bool{}
		for _, a := range fieldAccesses(fn, "ClusterFSM") {
			if call, ok := a.In.(*ssa.Call); ok && a.Write {
				if b, ok := call.Call.Value.(*ssa.Builtin); ok && b.Name() == "delete" {
					own[a.Field] = true
				}
			}
		}
		t := trans(fn, 0)
		for parent, children := range fsmChildren {
			if !own[parent] {
				continue
			}
			for _, ch := range children {
				nC++
				c.Check(t[ch], "C23.CASCADE", fmt.Sprintf("%s|%s-cascades-%s", fn.Name(), parent, ch), fn.Pos(),
					"deleting from "+parent+" also deletes from "+ch, fn.Name()+" deletes a "+parent+" entry but nothing it calls deletes the dependent "+ch+" entries: they keep referring to a parent that no longer exists")
			}
		}
	}
	// inside cascade helpers: every path passes each enumeration loop
	for _, fn := range closure {
		if !strings.HasPrefix(fn.Name(), "cascadeDelete") {
			continue
		}
		for _, in := range instrs(fn, false) {
			rg, ok := in.(*ssa.Range)
			if !ok {
				continue
			}
			idx := mapFieldOfEntry(rg.X)
			if idx == "" {
				continue
			}
			nC++
			exits := pathsAvoiding(fn, nil, func(x ssa.Instruction) bool { return x == ssa.Instruction(rg) })
			construct := fmt.Sprintf("%s|always-enumerates-%s", fn.Name(), idx)
			if len(exits) == 0 {
				c.OK("C23.CASCADE", construct, rg.Pos(), "every path through the helper enumerates %s", idx)
			} else {
				c.Bad("C23.CASCADE", construct, exits[0].Instr.Pos(), "%s can return at L%d without enumerating %s: the entries indexed there survive their parent", fn.Name(), p.Line(exits[0].Instr.Pos()), idx)
			}
		}
	}
	c.Floor("C23.CASCADE", 8, "apply-level cascades + helper loops")

	c23IsPrimary(c)
}

// lookupKeyOf: v is a node pointer obtained from f.<map>[key]; returns key.
func lookupKeyOf(v ssa.Value) ssa.Value {
	seen := map[ssa.Value]bool{}
	var rec func(v ssa.Value, d int) ssa.Value
	rec = func(v ssa.Value, d int) ssa.Value {
		if v == nil || d > 6 || seen[v] {
			return nil
		}
		seen[v] = true
		switch x := v.(type) {
		case *ssa.Extract:
			return rec(x.Tuple, d+1)
		case *ssa.Lookup:
			return x.Index
		case *ssa.Phi:
			for _, e := range x.Edges {
				if k := rec(e, d+1); k != nil {
					return k
				}
			}
		case *ssa.UnOp:
			return rec(x.X, d+1)
		}
		return nil
	}
	return rec(v, 0)
}

func c23IsPrimary(c *Ctx) {
	p := c.P
	// the FSM promotion callback must be installed by the coordinator
	n := 0
	for _, fn := range p.FuncsIn("internal/cluster") {
		for _, call := range callsIn(fn, true) {
			if callName(call) == "(*internal/cluster/raft.ClusterFSM).SetWriterPromotedCallback" || strings.HasSuffix(callName(call), ".SetWriterPromotedCallback") {
				n++
			}
		}
	}
	c.Check(n > 0, "C23.ISPRIMARY", "coordinator|promotion-callback-installed", 0, "the FSM's writer-promoted callback is installed", "nobody installs the FSM's writer-promoted callback: the registry's primary marks are never updated from cluster state")
	np := c.MustFunc("C23.ISPRIMARY", "(*internal/cluster.Node).IsPrimaryWriter")
	if np != nil {
		srcs := map[string]bool{}
		for _, in := range instrs(np, false) {
			if v, ok := in.(ssa.Value); ok {
				if sn, fl, _, ok := fieldOf(v); ok {
					srcs[sn+"."+fl] = true
				}
			}
		}
		c.Check(srcs["Node.WriterSt"] && srcs["Node.Role"], "C23.ISPRIMARY", "Node.IsPrimaryWriter|reads-state", np.Pos(), "decides from the node's role and recorded writer state", "Node.IsPrimaryWriter does not decide from Role and WriterSt")
	}
}
