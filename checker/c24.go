package main

import (
	"fmt"
	"go/token"
	"strings"

	"golang.org/x/tools/go/ssa"
)

func init() {
	register("C24", runC24,
		"exactly-once application under socket faults and reconnects, TLS/HKDF strength, and what happens to entries whose local apply fails; decided are: atomicity of sequence assignment and enqueue in the sender, the receiver's verification guards (entry tag, strictly increasing sequence, checkpoint sequence/hash/HMAC) before apply and acknowledgement, which sequence a checkpoint is stamped with, drop accounting, hook installation, and that the hooked payload is not a recycled buffer")
}

const replPkg = "internal/cluster/replication"

func runC24(c *Ctx) {
	p := c.P
	c.Rule("C24.ATOMIC", "LOCK: in Sender.Replicate the sequence increment and the send on entryChan execute while one and the same mutex is held, so queue order equals sequence order for concurrent producers")
	c.Rule("C24.VERIFY", "DOM: in receiveLoop, applyEntry executes only where the entry's MAC tag validated and entry.Sequence > lastSeq held (the rejecting test must cover equality), and lastSeq is advanced to that entry's sequence only after applyEntry returned nil")
	c.Rule("C24.CHECKPOINT", "DOM: the checkpoint HMAC validation executes only where the checkpoint's sequence equalled lastSeq and the cumulative hashes compared equal, and a validation failure leaves the loop")
	c.Rule("C24.CPSEQ", "FLOW: the sequence a checkpoint is stamped with is the sequence of the entry just written to that reader, not the sender's global counter")
	c.Rule("C24.DROPPED", "PASS: the branch of Replicate that does not enqueue the entry increments the dropped counter")
	c.Rule("C24.HOOK", "PASS+FLOW: the coordinator installs a WAL replication hook that calls Sender.Replicate; the payload handed to the hook is the caller's slice or a freshly allocated one, never memory obtained from a sync.Pool")

	// ---- ATOMIC
	rep := c.MustFunc("C24.ATOMIC", "(*internal/cluster/replication.Sender).Replicate")
	if rep != nil {
		li := analyzeLocks(rep, nil)
		var seqInc, send ssa.Instruction
		for _, in := range instrs(rep, false) {
			switch x := in.(type) {
			case *ssa.Call:
				if strings.HasSuffix(callName(x), "atomic.Uint64).Add") && len(x.Call.Args) > 0 {
					if _, f, _, ok := fieldOf(x.Call.Args[0]); ok && f == "sequence" {
						seqInc = x
					}
				}
			case *ssa.Select:
				for _, st := range x.States {
					if ld, ok := st.Chan.(*ssa.UnOp); ok {
						if _, f, _, ok := fieldOf(ld.X); ok && f == "entryChan" {
							send = x
						}
					}
				}
			case *ssa.Send:
				if ld, ok := x.Chan.(*ssa.UnOp); ok {
					if _, f, _, ok := fieldOf(ld.X); ok && f == "entryChan" {
						send = x
					}
				}
			}
		}
		if seqInc == nil || send == nil {
			c.Unk("C24.ATOMIC", "Replicate|seq+enqueue", rep.Pos(), "cannot find the sequence increment or the entryChan send in Replicate")
		} else {
			h1, h2 := li.heldAt(seqInc), li.heldAt(send)
			common := ""
			for k, m := range h1 {
				if m == "W" && h2[k] == "W" {
					common = k
				}
			}
			if common != "" {
				c.OK("C24.ATOMIC", "Replicate|seq+enqueue", seqInc.Pos(), "sequence increment (L%d) and enqueue (L%d) both execute under %s", p.Line(seqInc.Pos()), p.Line(send.Pos()), common)
			} else {
				c.Bad("C24.ATOMIC", "Replicate|seq+enqueue", seqInc.Pos(), "the sequence is assigned at L%d and the entry enqueued at L%d without a common mutex held (held: %s / %s): two concurrent writers can enqueue in the opposite order of their sequence numbers, and the reader's strictly-increasing check then drops a healthy connection", p.Line(seqInc.Pos()), p.Line(send.Pos()), h1, h2)
			}
		}
	}

	// ---- VERIFY
	rl := c.MustFunc("C24.VERIFY", "(*internal/cluster/replication.Receiver).receiveLoop")
	if rl != nil {
		var apply, tagv, cpv ssa.CallInstruction
		for _, call := range callsIn(rl, false) {
			n := callName(call)
			switch {
			case n == "(*internal/cluster/replication.Receiver).applyEntry":
				apply = call
			case strings.Contains(n, "ValidateReplicationEntryTag"):
				tagv = call
			case strings.HasSuffix(n, "ValidateReplicationCheckpointHMAC"):
				cpv = call
			}
		}
		isLastSeqLoad := func(v ssa.Value) bool {
			call, ok := v.(*ssa.Call)
			if !ok || !strings.HasSuffix(callName(call), "atomic.Uint64).Load") {
				return false
			}
			_, f, _, ok := fieldOf(call.Call.Args[0])
			return ok && f == "lastSeq"
		}
		isField := func(v ssa.Value, key string) bool { return fieldSources(v, 4)[key] }
		if apply == nil || tagv == nil {
			c.Bad("C24.VERIFY", "receiveLoop|anchors", rl.Pos(), "receiveLoop no longer validates the entry tag and applies through applyEntry")
		} else {
			ain := apply.(ssa.Instruction)
			c.Check(callSucceededBefore(tagv, ain), "C24.VERIFY", "receiveLoop|tag-before-apply", apply.Pos(), "applyEntry dominated by the entry MAC tag validating", "an entry can be applied without its MAC tag having validated")
			strict, weak := false, false
			for _, f := range factsAt(ain) {
				if f.Kind != factCmp {
					continue
				}
				if isField(f.X, "ReplicateEntry.Sequence") && isLastSeqLoad(f.Y) {
					switch f.Op {
					case token.GTR:
						strict = true
					case token.GEQ:
						weak = true
					}
				}
				if isLastSeqLoad(f.X) && isField(f.Y, "ReplicateEntry.Sequence") {
					switch f.Op {
					case token.LSS:
						strict = true
					case token.LEQ:
						weak = true
					}
				}
			}
			switch {
			case strict:
				c.OK("C24.VERIFY", "receiveLoop|strict-sequence", apply.Pos(), "applyEntry executes only where entry.Sequence > lastSeq")
			case weak:
				c.Bad("C24.VERIFY", "receiveLoop|strict-sequence", apply.Pos(), "the sequence guard admits entry.Sequence == lastSeq: a duplicated (replayed) frame is applied a second time")
			default:
				c.Bad("C24.VERIFY", "receiveLoop|strict-sequence", apply.Pos(), "applyEntry is not guarded by a comparison of entry.Sequence with lastSeq: reordered or replayed frames are applied")
			}
			// lastSeq.Store after successful apply, with the entry's own sequence
			n := 0
			for _, call := range callsIn(rl, false) {
				if !strings.HasSuffix(callName(call), "atomic.Uint64).Store") {
					continue
				}
				if _, f, _, ok := fieldOf(call.Common().Args[0]); !ok || f != "lastSeq" {
					continue
				}
				n++
				ok := callSucceededBefore(apply, call.(ssa.Instruction)) && isField(call.Common().Args[1], "ReplicateEntry.Sequence")
				c.Check(ok, "C24.VERIFY", fmt.Sprintf("receiveLoop|advance-after-apply#%d", n), call.Pos(), "lastSeq advances to the entry's sequence only after applyEntry returned nil", "lastSeq is advanced without applyEntry having succeeded for that entry (or not to the entry's own sequence): the acknowledged position can run ahead of what was applied")
			}
			if n == 0 {
				c.Unk("C24.VERIFY", "receiveLoop|advance-after-apply", rl.Pos(), "no lastSeq.Store found")
			}
		}
		// ---- CHECKPOINT
		if cpv == nil {
			c.Bad("C24.CHECKPOINT", "receiveLoop|checkpoint-hmac", rl.Pos(), "receiveLoop does not validate checkpoint HMACs")
		} else {
			cin := cpv.(ssa.Instruction)
			seqEq, hashEq := false, false
			for _, f := range factsAt(cin) {
				if f.Kind != factCmp || f.Op != token.EQL {
					continue
				}
				if (isField(f.X, "ReplicateCheckpoint.LastSequence") && isLastSeqLoad(f.Y)) || (isLastSeqLoad(f.X) && isField(f.Y, "ReplicateCheckpoint.LastSequence")) {
					seqEq = true
				}
				for _, side := range []ssa.Value{f.X, f.Y} {
					if call, ok := side.(*ssa.Call); ok && (callName(call) == "crypto/subtle.ConstantTimeCompare" || callName(call) == "bytes.Equal" || callName(call) == "crypto/hmac.Equal") {
						hashEq = true
					}
				}
			}
			for _, f := range factsAt(cin) {
				if f.Kind == factTrue {
					if call, ok := f.Val.(*ssa.Call); ok && (callName(call) == "bytes.Equal" || callName(call) == "crypto/hmac.Equal") {
						hashEq = true
					}
				}
			}
			c.Check(seqEq, "C24.CHECKPOINT", "receiveLoop|checkpoint-sequence", cpv.Pos(), "checkpoint accepted only where its LastSequence == lastSeq", "a checkpoint is validated without its sequence having been found equal to the receiver's last applied sequence")
			c.Check(hashEq, "C24.CHECKPOINT", "receiveLoop|checkpoint-hash", cpv.Pos(), "checkpoint accepted only where the cumulative payload hashes compared equal", "a checkpoint is validated without the cumulative payload hashes having compared equal: altered payloads under forged 8-byte tags go unnoticed")
			// failure leaves the loop: from the err != nil edge no path reaches ReadMessage again
			e := errResult(cpv)
			leaves := e != nil
			if e != nil {
				for _, in := range instrs(rl, false) {
					ifi, ok := in.(*ssa.If)
					if !ok {
						continue
					}
					for _, succ := range ifi.Block().Succs {
						if !edgeHasFact(ifi.Block(), succ, func(f fact) bool { return f.Kind == factNotNil && sameVal(f.Val, e) }) {
							continue
						}
						for _, ex := range pathsAvoidingTo(rl, nil, succ, func(ssa.Instruction) bool { return false }, func(x ssa.Instruction) bool {
							cc, ok := x.(*ssa.Call)
							return ok && strings.HasSuffix(callName(cc), "replication.ReadMessage")
						}) {
							if _, isRet := ex.Instr.(*ssa.Return); !isRet {
								leaves = false
							}
						}
					}
				}
			}
			c.Check(leaves, "C24.CHECKPOINT", "receiveLoop|checkpoint-failure-closes", cpv.Pos(), "a failed checkpoint validation leaves the receive loop", "after a failed checkpoint validation the loop keeps reading from the same connection")
		}
	}

	// ---- CPSEQ
	st := c.MustFunc("C24.CPSEQ", "(*internal/cluster/replication.Sender).sendToReader")
	if st != nil {
		n := 0
		for _, call := range findCalls(st, false, "(*internal/cluster/replication.Sender).emitCheckpointLocked") {
			n++
			arg := call.Common().Args[2]
			srcs := fieldSources(arg, 6)
			global := false
			backSlice(arg, 6, func(v ssa.Value) bool {
				if cc, ok := v.(*ssa.Call); ok && strings.HasSuffix(callName(cc), "Sender).CurrentSequence") {
					global = true
				}
				if _, f, _, ok := fieldOf(v); ok && f == "sequence" {
					global = true
				}
				return true
			})
			switch {
			case global:
				c.Bad("C24.CPSEQ", fmt.Sprintf("sendToReader|checkpoint-seq#%d", n), call.Pos(), "the checkpoint is stamped with the sender's global sequence counter: when producers are ahead of the distribution loop it names a sequence the reader has not received, and the reader drops an untampered stream")
			case srcs["ReplicateEntry.Sequence"]:
				c.OK("C24.CPSEQ", fmt.Sprintf("sendToReader|checkpoint-seq#%d", n), call.Pos(), "checkpoint stamped with the sequence of the entry just written")
			default:
				c.Unk("C24.CPSEQ", fmt.Sprintf("sendToReader|checkpoint-seq#%d", n), call.Pos(), "cannot tell where the checkpoint's sequence comes from")
			}
		}
		if n == 0 {
			c.Bad("C24.CPSEQ", "sendToReader|checkpoint-seq", st.Pos(), "sendToReader emits no checkpoint")
		}
	}

	// ---- DROPPED
	if rep != nil {
		var sel *ssa.Select
		for _, in := range instrs(rep, false) {
			if s, ok := in.(*ssa.Select); ok {
				sel = s
			}
		}
		if sel == nil {
			c.Unk("C24.DROPPED", "Replicate|drop-accounting", rep.Pos(), "no select in Replicate")
		} else {
			// index result of the select: Extract #0; the default arm is index == -1 (not sent)
			isDropInc := func(in ssa.Instruction) bool {
				call, ok := in.(*ssa.Call)
				if !ok || !strings.HasSuffix(callName(call), "atomic.Int64).Add") {
					return false
				}
				_, f, _, ok := fieldOf(call.Call.Args[0])
				return ok && f == "totalEntriesDropped"
			}
			var idx ssa.Value
			for _, r := range *sel.Referrers() {
				if e, ok := r.(*ssa.Extract); ok && e.Index == 0 {
					idx = e
				}
			}
			bad := false
			found := false
			for _, in := range instrs(rep, false) {
				ifi, ok := in.(*ssa.If)
				if !ok {
					continue
				}
				bo, ok := ifi.Cond.(*ssa.BinOp)
				if !ok || bo.X != idx {
					continue
				}
				// `index == 0` true => sent ; false => default (drop)
				found = true
				dropSucc := ifi.Block().Succs[1]
				if bo.Op == token.NEQ {
					dropSucc = ifi.Block().Succs[0]
				}
				if len(pathsAvoidingTo(rep, nil, dropSucc, isDropInc, nil)) > 0 {
					bad = true
				}
			}
			if !found {
				// blocking select without default cannot drop
				c.Triv("C24.DROPPED", "Replicate|drop-accounting", sel.Pos(), "select has no recognisable default arm")
			} else {
				c.Check(!bad, "C24.DROPPED", "Replicate|drop-accounting", sel.Pos(), "the not-enqueued arm increments totalEntriesDropped", "an entry can be discarded without totalEntriesDropped being incremented: the gap in the stream is not reported by the writer")
			}
		}
	}

	// ---- HOOK
	hookInstalled := false
	for _, fn := range p.FuncsIn("internal/cluster") {
		for _, call := range callsIn(fn, true) {
			if !strings.HasSuffix(callName(call), ").SetReplicationHook") {
				continue
			}
			hookArg := call.Common().Args[len(call.Common().Args)-1]
			if ct, ok := hookArg.(*ssa.ChangeType); ok {
				hookArg = ct.X
			}
			if mc, ok := hookArg.(*ssa.MakeClosure); ok {
				cl := mc.Fn.(*ssa.Function)
				if len(pathsAvoiding(cl, nil, func(in ssa.Instruction) bool {
					cc, ok := in.(ssa.CallInstruction)
					return ok && strings.HasSuffix(callName(cc), "Sender).Replicate")
				})) == 0 {
					hookInstalled = true
					// payload passed through unchanged
					for _, rc := range callsIn(cl, false) {
						if strings.HasSuffix(callName(rc), "Sender).Replicate") {
							ok2 := fieldSources(rc.Common().Args[1], 6)["ReplicationEntry.Payload"]
							c.Check(ok2, "C24.HOOK", "coordinator|hook-forwards-payload", rc.Pos(), "the hook forwards the WAL entry's payload", "the hook does not forward the WAL entry's payload")
						}
					}
				}
			}
		}
	}
	c.Check(hookInstalled, "C24.HOOK", "coordinator|hook-installed", 0, "a replication hook that always calls Sender.Replicate is installed on the WAL writer", "no WAL replication hook that calls Sender.Replicate on every path is installed")
	for _, name := range []string{"AppendRaw", "AppendRawWithMeta"} {
		fn := c.MustFunc("C24.HOOK", "(*internal/wal.Writer)."+name)
		if fn == nil {
			continue
		}
		for _, in := range instrs(fn, false) {
			stp, ok := in.(*ssa.Store)
			if !ok {
				continue
			}
			if sn, f, _, ok := fieldOf(stp.Addr); !ok || sn != "ReplicationEntry" || f != "Payload" {
				continue
			}
			pooled := false
			fresh := false
			backSlice(stp.Val, 8, func(v ssa.Value) bool {
				switch x := v.(type) {
				case *ssa.Call:
					if strings.HasSuffix(callName(x), "sync.Pool).Get") {
						pooled = true
					}
				case *ssa.MakeSlice:
					fresh = true
				case *ssa.Parameter:
					if x.Name() == "payload" {
						fresh = true
					}
				}
				return true
			})
			switch {
			case pooled:
				c.Bad("C24.HOOK", name+"|hook-payload", stp.Pos(), "the payload handed to the replication hook comes from a sync.Pool: the sender only queues the slice header, so a later append overwrites entries that are still queued or being sent (altered payloads are applied with valid tags)")
			case fresh:
				c.OK("C24.HOOK", name+"|hook-payload", stp.Pos(), "hook payload is the caller's slice or a fresh allocation")
			default:
				c.Unk("C24.HOOK", name+"|hook-payload", stp.Pos(), "cannot determine the provenance of the hook payload")
			}
		}
	}
	c.Floor("C24.HOOK", 4, "hook installed, forwards payload, two append paths")
}
