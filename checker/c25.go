package main

import (
	"fmt"
	"go/token"
	"strings"

	"golang.org/x/tools/go/ssa"
)

func init() {
	register("C25", runC25,
		"convergence under concrete fault sequences (retry budgets, back-off, catch-up scheduling), the server side of the fetch protocol, and non-local backends; decided are: that 'already present' is concluded only from the final path, that Fetch succeeds only on matching digest and size, that pullOnce succeeds only if fetch, write and byte count all agree, the arguments handed to the streamed write / resumed append, the promotion guards of the local backend, and the success accounting")
}

func runC25(c *Ctx) {
	p := c.P
	c.Rule("C25.PRESENT", "DOM: the puller's 'already present, skip' decision executes only where the backend reported that the file Exists at its FINAL path (StatFile falls back to the .part staging file, so its size alone proves nothing)")
	c.Rule("C25.HASH", "DOM: every nil-error return of FetchClient.Fetch is dominated by computed SHA-256 == manifest SHA-256, and by the acknowledged tail size having been found equal to the expected tail")
	c.Rule("C25.PULL", "DOM: pullOnce returns nil only where the fetch error and the write error are nil and the written byte count equals the expected tail; the fetch error is propagated to the writer through the pipe")
	c.Rule("C25.TAIL", "FLOW: writeFileTail hands AppendReader the number of TAIL bytes (its promotion test is written == appendSize) and WriteReader the whole-file size")
	c.Rule("C25.PROMOTE", "DOM: in the local backend, WriteReader/AppendReader rename the staging file to the final path only where the copy from the reader returned nil (a failed hash reaches the reader as a pipe error) — and the reader is consumed to its end, not cut at a byte count")
	c.Rule("C25.COUNT", "DOM: totalPulled is incremented only where pullOnce returned nil, and succeeded is set only on the present or pulled branches")

	pe := c.MustFunc("C25.PRESENT", "(*internal/cluster/filereplication.Puller).processEntry")
	if pe != nil {
		n := 0
		for _, call := range callsIn(pe, false) {
			if !strings.HasSuffix(callName(call), "atomic.Int64).Add") {
				continue
			}
			_, f, _, ok := fieldOf(call.Common().Args[0])
			if !ok {
				continue
			}
			in := call.(ssa.Instruction)
			switch f {
			case "totalSkippedLocal":
				n++
				existsTrue := false
				for _, fa := range factsAt(in) {
					if fa.Kind != factTrue {
						continue
					}
					if derives(fa.Val, func(v ssa.Value) bool {
						if e, ok := v.(*ssa.Extract); ok && e.Index == 0 {
							if cl, ok := e.Tuple.(*ssa.Call); ok && cl.Call.IsInvoke() && cl.Call.Method.Name() == "Exists" {
								return true
							}
						}
						return false
					}, false, 8) {
						existsTrue = true
					}
				}
				sizeEq := false
				for _, fa := range factsAt(in) {
					if fa.Kind == factCmp && fa.Op == token.EQL && (fieldSources(fa.X, 4)["FileEntry.SizeBytes"] || fieldSources(fa.Y, 4)["FileEntry.SizeBytes"]) {
						sizeEq = true
					}
				}
				// the size test may sit inside the phi feeding the guard
				if !sizeEq {
					for _, fa := range factsAt(in) {
						if fa.Kind == factTrue {
							if derives(fa.Val, func(v ssa.Value) bool {
								bo, ok := v.(*ssa.BinOp)
								return ok && bo.Op == token.EQL && (fieldSources(bo.X, 4)["FileEntry.SizeBytes"] || fieldSources(bo.Y, 4)["FileEntry.SizeBytes"])
							}, false, 8) {
								sizeEq = true
							}
							// phi(false, exists&&ok) guarded by size equality on the edge into the phi
							if ph, ok := fa.Val.(*ssa.Phi); ok {
								for _, pred := range ph.Block().Preds {
									for _, f2 := range factsAtBlock(pred) {
										if f2.Kind == factCmp && f2.Op == token.EQL && (fieldSources(f2.X, 4)["FileEntry.SizeBytes"] || fieldSources(f2.Y, 4)["FileEntry.SizeBytes"]) {
											sizeEq = true
										}
									}
								}
							}
						}
					}
				}
				switch {
				case existsTrue && sizeEq:
					c.OK("C25.PRESENT", "processEntry|skip-local", call.Pos(), "skip is concluded from Exists(final path) == true and size == manifest size")
				case !existsTrue:
					c.Bad("C25.PRESENT", "processEntry|skip-local", call.Pos(), "the file is counted as already present on the strength of StatFile's size alone; StatFile falls back to the .part staging file, so a full-size staging file left by a failed transfer makes the puller skip a file that is missing at its final path — and it is never pulled again")
				default:
					c.Bad("C25.PRESENT", "processEntry|skip-local", call.Pos(), "the skip decision is not conditional on the local size equalling the manifest size")
				}
			case "totalPulled":
				var po ssa.CallInstruction
				for _, cc := range findCalls(pe, false, "(*internal/cluster/filereplication.Puller).pullOnce") {
					po = cc
				}
				c.Check(po != nil && callSucceededBefore(po, in), "C25.COUNT", "processEntry|pulled-count", call.Pos(), "totalPulled incremented only where pullOnce returned nil", "totalPulled is incremented without pullOnce having returned nil: a failed transfer is counted as present")
			}
		}
		if n == 0 {
			c.Unk("C25.PRESENT", "processEntry|skip-local", pe.Pos(), "no skipped-local accounting found")
		}
	}

	// ---- HASH
	ft := c.MustFunc("C25.HASH", "(*internal/cluster/filereplication.FetchClient).Fetch")
	if ft != nil {
		n := 0
		for _, in := range instrs(ft, false) {
			r, ok := in.(*ssa.Return)
			if !ok || r.Block() == ft.Recover || classifyErr(returnErrOperand(r), r, nil, 0) == errNonNil {
				continue
			}
			n++
			hashEq, sizeEq := false, false
			for _, f := range factsAt(r) {
				if f.Kind != factCmp || f.Op != token.EQL {
					continue
				}
				isManifestSHA := func(v ssa.Value) bool { return fieldSources(v, 4)["FileEntry.SHA256"] }
				isComputed := func(v ssa.Value) bool {
					return derives(v, isResultOf("encoding/hex.EncodeToString", "(hash.Hash).Sum"), true, 5)
				}
				if (isManifestSHA(f.X) && isComputed(f.Y)) || (isManifestSHA(f.Y) && isComputed(f.X)) {
					hashEq = true
				}
				if fieldSources(f.X, 4)["FetchFileAckHeader.SizeBytes"] || fieldSources(f.Y, 4)["FetchFileAckHeader.SizeBytes"] {
					sizeEq = true
				}
			}
			var miss []string
			if !hashEq {
				miss = append(miss, "computed digest == manifest digest")
			}
			if !sizeEq {
				miss = append(miss, "acknowledged size == expected tail")
			}
			if len(miss) == 0 {
				c.OK("C25.HASH", fmt.Sprintf("Fetch|nil-return#%d", n), r.Pos(), "success requires matching digest and size")
			} else {
				c.Bad("C25.HASH", fmt.Sprintf("Fetch|nil-return#%d", n), r.Pos(), "Fetch can report success without %s", strings.Join(miss, " and "))
			}
		}
		if n == 0 {
			c.Unk("C25.HASH", "Fetch|nil-return", ft.Pos(), "no success return found")
		}
	}

	// ---- PULL
	po := c.MustFunc("C25.PULL", "(*internal/cluster/filereplication.Puller).pullOnce")
	if po != nil {
		var fetchCall ssa.CallInstruction
		for _, call := range callsIn(po, false) {
			if call.Common().IsInvoke() && call.Common().Method.Name() == "Fetch" {
				fetchCall = call
			}
		}
		n := 0
		for _, in := range instrs(po, false) {
			r, ok := in.(*ssa.Return)
			if !ok || r.Block() == po.Recover || classifyErr(returnErrOperand(r), r, nil, 0) == errNonNil {
				continue
			}
			n++
			fetchNil, countEq, writeNil := false, false, false
			facts := factsAt(r)
			for _, f := range facts {
				if f.Kind == factNil && fetchCall != nil && sameVal(f.Val, errResult(fetchCall)) {
					fetchNil = true
				}
				if f.Kind == factNil {
					// writeErr is a captured variable: a load of the cell the goroutine stores into
					if ld, ok := f.Val.(*ssa.UnOp); ok {
						if a, ok := ld.X.(*ssa.Alloc); ok && strings.Contains(a.Comment, "writeErr") {
							writeNil = true
						}
					}
				}
				if f.Kind == factCmp && f.Op == token.EQL && fetchCall != nil {
					if f.X == resultN(fetchCall, 0) || f.Y == resultN(fetchCall, 0) {
						countEq = true
					}
				}
			}
			var miss []string
			if !fetchNil {
				miss = append(miss, "the fetch error being nil")
			}
			if !writeNil {
				miss = append(miss, "the write error being nil")
			}
			if !countEq {
				miss = append(miss, "written == expected tail bytes")
			}
			if len(miss) == 0 {
				c.OK("C25.PULL", fmt.Sprintf("pullOnce|nil-return#%d", n), r.Pos(), "success requires fetch == nil, write == nil and the full tail written")
			} else {
				c.Bad("C25.PULL", fmt.Sprintf("pullOnce|nil-return#%d", n), r.Pos(), "pullOnce can report success without %s", strings.Join(miss, ", "))
			}
		}
		// fetch error closes the pipe writer
		closed := false
		for _, call := range callsIn(po, false) {
			if strings.HasSuffix(callName(call), "io.PipeWriter).CloseWithError") && fetchCall != nil {
				if sameVal(call.Common().Args[1], errResult(fetchCall)) {
					closed = true
				}
			}
		}
		c.Check(closed, "C25.PULL", "pullOnce|fetch-error-reaches-writer", po.Pos(), "the fetch result is passed to pw.CloseWithError, so a checksum failure aborts the backend write", "the pipe writer is not closed with the fetch error: the backend write sees a clean EOF after a failed checksum and promotes the bytes")
	}

	// ---- TAIL
	wt := c.MustFunc("C25.TAIL", "(*internal/cluster/filereplication.Puller).writeFileTail")
	if wt != nil {
		for _, call := range callsIn(wt, false) {
			cc := call.Common()
			if !cc.IsInvoke() {
				continue
			}
			switch cc.Method.Name() {
			case "AppendReader":
				arg := cc.Args[len(cc.Args)-1]
				ok := isParam(wt, "tailBytes")(arg)
				c.Check(ok, "C25.TAIL", "writeFileTail|append-size", call.Pos(), "AppendReader receives the tail byte count", "AppendReader is not given the tail byte count: its promotion test written == appendSize can then never hold (resumed files are never promoted yet counted as pulled) or holds too early")
			case "WriteReader":
				arg := cc.Args[len(cc.Args)-1]
				c.Check(fieldSources(arg, 4)["FileEntry.SizeBytes"], "C25.TAIL", "writeFileTail|write-size", call.Pos(), "WriteReader receives the whole-file size", "WriteReader is not given the manifest's whole-file size")
			}
		}
		c.Floor("C25.TAIL", 2, "append and write arms")
	}

	// ---- PROMOTE (local backend): reader must be consumed to its end
	for _, name := range []string{"WriteReader", "AppendReader"} {
		fn := c.MustFunc("C25.PROMOTE", "(*internal/storage.LocalBackend)."+name)
		if fn == nil {
			continue
		}
		var cp ssa.CallInstruction
		limited := false
		for _, call := range callsIn(fn, false) {
			switch callName(call) {
			case "io.Copy", "io.CopyBuffer":
				cp = call
				// source must be the reader parameter itself
				src := call.Common().Args[1]
				if !derives(src, isParam(fn, "reader"), false, 3) {
					limited = true
				}
				backSlice(src, 4, func(v ssa.Value) bool {
					if cl, ok := v.(*ssa.Call); ok && (callName(cl) == "io.LimitReader" || callName(cl) == "io.NewSectionReader") {
						limited = true
					}
					return true
				})
			case "io.CopyN":
				cp = call
				limited = true
			}
		}
		if cp == nil {
			c.Unk("C25.PROMOTE", name+"|copy", fn.Pos(), "no io.Copy from the reader found")
			continue
		}
		var ren ssa.CallInstruction
		for _, call := range findCalls(fn, false, "os.Rename") {
			ren = call
		}
		okDom := ren != nil && callSucceededBefore(cp, ren.(ssa.Instruction))
		switch {
		case limited:
			c.Bad("C25.PROMOTE", name+"|reads-to-end", cp.Pos(), "%s stops reading after a byte count (LimitReader/CopyN) instead of reading the source to its end: the checksum verdict arrives as the reader's final error AFTER the last byte, so a full-length corrupted body is promoted before the failure can be seen", name)
		case !okDom:
			c.Bad("C25.PROMOTE", name+"|reads-to-end", cp.Pos(), "the rename to the final path is not conditional on the copy from the reader having returned nil")
		default:
			c.OK("C25.PROMOTE", name+"|reads-to-end", cp.Pos(), "the source reader is consumed to its end and the rename requires the copy to have returned nil")
		}
	}
	_ = p
}
