package main

import (
	"fmt"
	"go/constant"
	"go/token"
	"go/types"
	"sort"
	"strings"

	"golang.org/x/tools/go/ssa"
)

func init() {
	register("C26", runC26,
		"clock behaviour (steps, skew beyond the tolerance), HMAC strength, and the transport framing; decided are: nonce retention versus the width of the accepted timestamp window at every cache construction site, symmetry of every validator's freshness test, that every Track follows a successful MAC validation and gates acceptance, that a nil cache cannot be reached by a handler, the Track key, and the liveness/eviction comparisons inside the cache")
}

const secPkg = "internal/cluster/security"

func durationConst(v ssa.Value) (int64, bool) {
	c, ok := v.(*ssa.Const)
	if !ok || c.Value == nil || c.Value.Kind() != constant.Int {
		return 0, false
	}
	if n, ok := c.Type().(*types.Named); !ok || n.Obj().Name() != "Duration" {
		return 0, false
	}
	i, _ := constant.Int64Val(c.Value)
	return i, true
}

func runC26(c *Ctx) {
	c.Rule("C26.EXPIRY", "FLOW: the expiry NonceCache.Track stores for a nonce is the clock reading plus the TTL — it derives from Time.Add(ttl) (or now+ttl) and from no subtraction — so a tracked nonce stays in the cache for the whole retention")
	if fn := c.P.Func("(*internal/cluster/security.NonceCache).Track"); fn != nil {
		n := 0
		for _, in := range instrs(fn, false) {
			mu, ok := in.(*ssa.MapUpdate)
			if !ok {
				continue
			}
			if sn, fld, _, ok := loadedField(mu.Map); !ok || sn != "NonceCache" || fld != "entries" {
				continue
			}
			n++
			plusTTL := derives(mu.Value, func(v ssa.Value) bool {
				if cl, ok := v.(*ssa.Call); ok && callName(cl) == "(time.Time).Add" {
					if sn, fld, _, ok := loadedField(cl.Call.Args[1]); ok && sn == "NonceCache" && fld == "ttl" {
						return true
					}
				}
				return false
			}, true, 8)
			minus := derives(mu.Value, func(v ssa.Value) bool {
				bo, ok := v.(*ssa.BinOp)
				return ok && bo.Op == token.SUB
			}, true, 8)
			c.Check(plusTTL && !minus, "C26.EXPIRY", fmt.Sprintf("Track|stored-expiry#%d", n), mu.Pos(), "stored expiry = now.Add(ttl)", "the expiry stored for a nonce is not now+ttl (a subtraction or another base enters it): the entry counts as expired — and is evicted — before the retention has run out, so a replay inside the window is accepted")
		}
		c.Check(n >= 1, "C26.EXPIRY", "Track|stores", fn.Pos(), "store found", "no store into NonceCache.entries found in Track")
	}
	c.Rule("C26.NOW", "FLOW: the instant against which NonceCache expiries are compared when entries are evicted is the clock reading itself — it passes through no Time.Add / shift, so no nonce is forgotten before its retention ends (a replay of a still-fresh request would otherwise be accepted)")
	{
		n := 0
		for _, fn := range c.P.FuncsIn("internal/cluster/security") {
			if recvTypeName(fn) != "NonceCache" {
				continue
			}
			for _, call := range callsIn(fn, false) {
				callee := call.Common().StaticCallee()
				if callee == nil || !strings.Contains(strings.ToLower(callee.Name()), "evict") {
					continue
				}
				for _, a := range call.Common().Args[1:] {
					if a.Type().String() != "time.Time" {
						continue
					}
					n++
					shifted := derives(a, func(v ssa.Value) bool {
						cl, ok := v.(*ssa.Call)
						if !ok || (callName(cl) != "(time.Time).Add" && callName(cl) != "(time.Time).AddDate") {
							return false
						}
						// a constant shift into the past only delays eviction, which is safe
						if callName(cl) == "(time.Time).Add" {
							if k, isC := constInt(cl.Call.Args[1]); isC && k <= 0 {
								return false
							}
						}
						return true
					}, false, 6)
					c.Check(!shifted, "C26.NOW", fmt.Sprintf("%s|eviction-instant#%d", fn.Name(), n), call.Pos(), "eviction compares expiries with the unshifted clock reading", fn.Name()+" evicts against a shifted instant (now.Add(…)): a nonce is dropped before its retention (2×tolerance) has run out, and a byte-for-byte replay that is still timestamp-fresh is accepted")
				}
			}
		}
		c.Check(n >= 1, "C26.NOW", "NonceCache|eviction-calls", 0, fmt.Sprintf("%d eviction call(s) inspected", n), "no eviction call with a time argument found (rule needs review)")
	}
	p := c.P
	c.Rule("C26.TTL", "CONST: at every NewNonceCache construction the effective retention (argument x the factor NewNonceCache applies) is at least twice the largest tolerance any nonce-protected validator is called with: the validators accept |now - ts| <= T, a window 2T wide")
	c.Rule("C26.WINDOW", "DOM: every Validate*HMAC function that takes a tolerance rejects on the ABSOLUTE drift (abs idiom, math.Abs, or a checked helper), so timestamps are refused on both sides of the window")
	c.Rule("C26.TRACK", "PASS+ORDER: every NonceCache/ReplayGuard Track call executes only after a Validate*HMAC returned nil in the same function, its result gates the accepting path, and a cache that handlers test for nil is assigned in Start before any goroutine or listener is started")
	c.Rule("C26.KEY", "FLOW: the Track key is (sender identity, nonce) taken from the validated request")
	c.Rule("C26.CMP", "DOM: inside Track an existing entry is treated as live by comparing the clock with the stored expiry, Track stores an expiry (now + ttl), and eviction deletes only entries whose stored value is <= now — the three sites agree on what the stored value means")

	// ---- TTL
	factor := int64(1)
	nf := c.MustFunc("C26.TTL", "internal/cluster/security.NewNonceCache")
	if nf != nil {
		for _, in := range instrs(nf, false) {
			st, ok := in.(*ssa.Store)
			if !ok {
				continue
			}
			if _, f, _, ok := fieldOf(st.Addr); ok && f == "ttl" {
				if bo, ok := st.Val.(*ssa.BinOp); ok && bo.Op == token.MUL {
					for _, side := range []ssa.Value{bo.X, bo.Y} {
						if k, isC := constInt(side); isC {
							factor = k
						}
					}
				}
			}
		}
	}
	// tolerances in use
	maxTol := int64(0)
	tolSites := 0
	for _, fn := range p.allFuncs {
		for _, call := range callsIn(fn, false) {
			cal := call.Common().StaticCallee()
			if cal == nil || cal.Pkg == nil || relPkg(cal.Pkg.Pkg.Path()) != secPkg || !strings.HasPrefix(cal.Name(), "Validate") {
				continue
			}
			for i, prm := range cal.Params {
				if prm.Name() == "tolerance" && i < len(call.Common().Args) {
					if d, ok := durationConst(call.Common().Args[i]); ok {
						tolSites++
						if d > maxTol {
							maxTol = d
						}
					}
				}
			}
		}
		// struct fields / variables named *olerance* initialised with a Duration constant
		for _, in := range instrs(fn, false) {
			if st, ok := in.(*ssa.Store); ok {
				name := ""
				if _, f, _, ok := fieldOf(st.Addr); ok {
					name = f
				} else if g, ok := st.Addr.(*ssa.Global); ok {
					name = g.Name()
				}
				if strings.Contains(strings.ToLower(name), "tolerance") {
					if d, ok := durationConst(st.Val); ok && d > maxTol {
						maxTol = d
					}
				}
			}
		}
	}
	// package-level constants named *Tolerance* in cmd/arc and security
	for _, pk := range []string{"cmd/arc", secPkg, "internal/api"} {
		if pkg := p.Pkgs[pk]; pkg != nil {
			sc := pkg.Types.Scope()
			for _, n := range sc.Names() {
				if k, ok := sc.Lookup(n).(*types.Const); ok && strings.Contains(strings.ToLower(n), "tolerance") {
					if v, ok := constant.Int64Val(k.Val()); ok && v > maxTol {
						maxTol = v
					}
				}
			}
		}
	}
	nSites := 0
	for _, fn := range p.allFuncs {
		for _, call := range findCalls(fn, false, "internal/cluster/security.NewNonceCache") {
			nSites++
			construct := fmt.Sprintf("%s|NewNonceCache@%s", ssaFuncName(fn), siteOrdinal(fn, call))
			a, ok := durationConst(call.Common().Args[0])
			if !ok {
				c.Unk("C26.TTL", construct, call.Pos(), "cache TTL argument is not a compile-time Duration constant")
				continue
			}
			eff := a * factor
			if maxTol == 0 {
				c.Unk("C26.TTL", construct, call.Pos(), "no validator tolerance constant found to compare with")
				continue
			}
			if eff >= 2*maxTol {
				c.OK("C26.TTL", construct, call.Pos(), "retention %ds (argument %ds x factor %d) >= 2 x tolerance %ds", eff/1e9, a/1e9, factor, maxTol/1e9)
			} else {
				c.Bad("C26.TTL", construct, call.Pos(), "nonces are retained for %ds (argument %ds x factor %d) but a signed timestamp stays acceptable for up to %ds (|now-ts| <= %ds is a window %ds wide): a request stamped near the future edge can be replayed after its nonce was forgotten", eff/1e9, a/1e9, factor, 2*maxTol/1e9, maxTol/1e9, 2*maxTol/1e9)
			}
		}
	}
	c.Floor("C26.TTL", 3, "coordinator, cache-invalidate and edge-sync caches")

	// ---- WINDOW
	checked := map[string]bool{}
	var secFns []*ssa.Function
	for _, fn := range p.FuncsIn(secPkg) {
		secFns = append(secFns, fn)
	}
	absCompare := func(fn *ssa.Function) (found, ok bool, pos token.Pos) {
		var tol *ssa.Parameter
		for _, prm := range fn.Params {
			if prm.Name() == "tolerance" {
				tol = prm
			}
		}
		if tol == nil {
			return false, false, 0
		}
		for _, in := range instrs(fn, false) {
			bo, isB := in.(*ssa.BinOp)
			if !isB {
				continue
			}
			switch bo.Op {
			case token.GTR, token.GEQ, token.LSS, token.LEQ:
			default:
				continue
			}
			var other ssa.Value
			if derives(bo.Y, func(v ssa.Value) bool { return v == ssa.Value(tol) }, true, 5) {
				other = bo.X
			} else if derives(bo.X, func(v ssa.Value) bool { return v == ssa.Value(tol) }, true, 5) {
				other = bo.Y
			}
			if other == nil {
				continue
			}
			// lower-bound sanity checks on the tolerance itself (tolerance < time.Second) are not the freshness test
			if _, isC := other.(*ssa.Const); isC {
				continue
			}
			found = true
			pos = bo.Pos()
			if isAbsValue(other) {
				ok = true
			}
		}
		return found, ok, pos
	}
	for _, fn := range secFns {
		if !strings.HasPrefix(fn.Name(), "Validate") && fn.Name() != "checkSyncFreshness" {
			continue
		}
		hasTol := false
		for _, prm := range fn.Params {
			if prm.Name() == "tolerance" {
				hasTol = true
			}
		}
		if !hasTol {
			continue
		}
		found, ok, pos := absCompare(fn)
		construct := fn.Name() + "|freshness"
		switch {
		case found && ok:
			checked[fn.Name()] = true
			c.OK("C26.WINDOW", construct, pos, "rejects on the absolute drift")
		case found && !ok:
			c.Bad("C26.WINDOW", construct, pos, "%s compares a signed (one-sided) drift with the tolerance: timestamps on one side of the window — in practice future-dated ones — are never rejected, and such a request stays replayable for as long as it is ahead of the clock", fn.Name())
		default:
			// delegates? must pass its tolerance to a function that is itself checked
			deleg := ""
			for _, call := range callsIn(fn, false) {
				cal := call.Common().StaticCallee()
				if cal == nil || cal.Pkg == nil || relPkg(cal.Pkg.Pkg.Path()) != secPkg {
					continue
				}
				for i, prm := range cal.Params {
					if prm.Name() == "tolerance" && i < len(call.Common().Args) {
						if pp, ok := call.Common().Args[i].(*ssa.Parameter); ok && pp.Name() == "tolerance" {
							deleg = cal.Name()
						}
					}
				}
			}
			if deleg != "" {
				c.OK("C26.WINDOW", construct, fn.Pos(), "delegates the freshness test to %s", deleg)
			} else {
				c.Bad("C26.WINDOW", construct, fn.Pos(), "%s takes a tolerance but never compares the timestamp drift with it", fn.Name())
			}
		}
	}
	c.Floor("C26.WINDOW", 8, "validators with a tolerance parameter")

	c26Track(c)
	c26Cmp(c)
}

// isAbsValue: v is |x| — phi(x, -x) selected by a sign test, math.Abs, or a conversion of one.
func isAbsValue(v ssa.Value) bool {
	switch x := v.(type) {
	case *ssa.Phi:
		if len(x.Edges) != 2 {
			return false
		}
		a, b := x.Edges[0], x.Edges[1]
		neg := func(p, q ssa.Value) bool {
			if u, ok := p.(*ssa.UnOp); ok && u.Op == token.SUB && u.X == q {
				return true
			}
			if bo, ok := p.(*ssa.BinOp); ok && bo.Op == token.SUB {
				if k, isC := constInt(bo.X); isC && k == 0 && bo.Y == q {
					return true
				}
				// now - ts vs ts - now
				if qb, ok := q.(*ssa.BinOp); ok && qb.Op == token.SUB && qb.X == bo.Y && qb.Y == bo.X {
					return true
				}
			}
			return false
		}
		return neg(a, b) || neg(b, a)
	case *ssa.Convert:
		return isAbsValue(x.X)
	case *ssa.Call:
		n := callName(x)
		if n == "math.Abs" || strings.HasSuffix(n, ".Abs") {
			return true
		}
		if n == "(time.Duration).Abs" {
			return true
		}
	}
	return false
}

func c26Track(c *Ctx) {
	p := c.P
	n := 0
	for _, fn := range p.allFuncs {
		for _, call := range callsIn(fn, false) {
			name := callName(call)
			if name != "(*internal/cluster/security.NonceCache).Track" && name != "(internal/cluster/security.ReplayGuard).Track" {
				continue
			}
			n++
			in := call.(ssa.Instruction)
			construct := fmt.Sprintf("%s|Track@%s", ssaFuncName(fn), siteOrdinal(fn, call))
			// validated before
			validated := ""
			var validatedNonce ssa.Value
			for _, vc := range callsIn(fn, false) {
				cal := vc.Common().StaticCallee()
				if cal == nil || cal.Pkg == nil || relPkg(cal.Pkg.Pkg.Path()) != secPkg || !strings.HasPrefix(cal.Name(), "Validate") {
					continue
				}
				if callSucceededBefore(vc, in) {
					validated = cal.Name()
					for i, prm := range cal.Params {
						if prm.Name() == "nonce" && i < len(vc.Common().Args) {
							validatedNonce = vc.Common().Args[i]
						}
					}
				}
			}
			// result gates acceptance: used (possibly negated) by an If
			gates := false
			if v := callValue(call); v != nil {
				var uses func(x ssa.Value, d int)
				uses = func(x ssa.Value, d int) {
					if d > 3 || x.Referrers() == nil {
						return
					}
					for _, r := range *x.Referrers() {
						switch y := r.(type) {
						case *ssa.If:
							gates = true
						case *ssa.UnOp:
							uses(y, d+1)
						case *ssa.Phi:
							uses(y, d+1)
						}
					}
				}
				uses(v, 0)
			}
			var miss []string
			if validated == "" {
				miss = append(miss, "no Validate*HMAC call with a nil result dominates it (a forged request could burn nonce slots, or Track replaces validation)")
			}
			if !gates {
				miss = append(miss, "its result does not gate any branch (a replay is not rejected)")
			}
			// key
			args := call.Common().Args
			keyOK := true
			if len(args) >= 3 {
				nonceSrc := fieldSources(args[2], 6)
				isNonce := validatedNonce != nil && (samePathValue(validatedNonce, args[2]) || validatedNonce == args[2])
				for k := range nonceSrc {
					if strings.HasSuffix(strings.ToLower(k), "nonce") {
						isNonce = true
					}
				}
				if prm, ok := args[2].(*ssa.Parameter); ok && strings.Contains(strings.ToLower(prm.Name()), "nonce") {
					isNonce = true
				}
				if ld, ok := args[2].(*ssa.UnOp); ok {
					if a, ok := ld.X.(*ssa.Alloc); ok && strings.Contains(strings.ToLower(a.Comment), "nonce") {
						isNonce = true
					}
				}
				if strings.Contains(strings.ToLower(args[2].Name()), "nonce") {
					isNonce = true
				}
				keyOK = isNonce
				c.Check(isNonce, "C26.KEY", construct, call.Pos(), "Track is keyed by the nonce that the MAC validation covered", "the second Track key is not the nonce the MAC validation covered")
			}
			_ = keyOK
			if len(miss) == 0 {
				c.OK("C26.TRACK", construct, call.Pos(), "follows %s == nil and gates acceptance", validated)
			} else {
				c.Bad("C26.TRACK", construct, call.Pos(), "%s", strings.Join(miss, "; "))
			}
			// nil-guarded cache field => assignment must precede goroutines/listeners in Start
			for _, f := range factsAt(in) {
				if f.Kind != factNotNil {
					continue
				}
				if sn, fl, _, ok := fieldOf(loadAddr(f.Val)); ok && sn == "Coordinator" {
					c26AssignedEarly(c, fl, construct)
				}
			}
			// also the && form: the Track block is entered only under cache != nil
			for _, pred := range in.Block().Preds {
				for _, f := range blockEdgeFactsDirect(pred, in.Block()) {
					if f.Kind == factNotNil {
						if sn, fl, _, ok := fieldOf(loadAddr(f.Val)); ok && sn == "Coordinator" {
							c26AssignedEarly(c, fl, construct)
						}
					}
				}
			}
		}
	}
	c.Floor("C26.TRACK", 5, "replicate-sync, forward-apply, cache-invalidate, two edge-sync helpers")
}

func loadAddr(v ssa.Value) ssa.Value {
	if ld, ok := v.(*ssa.UnOp); ok && ld.Op == token.MUL {
		return ld.X
	}
	return v
}

var c26EarlyDone = map[string]bool{}

func c26AssignedEarly(c *Ctx, field, site string) {
	key := c.P.Config + "|" + field
	if c26EarlyDone[key] {
		return
	}
	c26EarlyDone[key] = true
	st := c.P.Func("(*internal/cluster.Coordinator).Start")
	construct := "Coordinator.Start|assigns-" + field + "-before-serving"
	if st == nil {
		c.Unk("C26.TRACK", construct, 0, "Coordinator.Start not found")
		return
	}
	var assign *ssa.Store
	for _, in := range instrs(st, false) {
		if s, ok := in.(*ssa.Store); ok {
			if sn, f, _, ok := fieldOf(s.Addr); ok && sn == "Coordinator" && f == field {
				assign = s
			}
		}
	}
	if assign == nil {
		c.Bad("C26.TRACK", construct, st.Pos(), "handlers skip replay protection when c.%s is nil, and Start never assigns it", field)
		return
	}
	var late []string
	for _, in := range instrs(st, false) {
		switch x := in.(type) {
		case *ssa.Go:
			if !instrDominates(assign, x) {
				late = append(late, fmt.Sprintf("go statement at L%d", c.P.Line(x.Pos())))
			}
		case *ssa.Call:
			if strings.HasSuffix(callName(x), ".Listen") && !instrDominates(assign, x) {
				late = append(late, fmt.Sprintf("Listen at L%d", c.P.Line(x.Pos())))
			}
		}
	}
	sort.Strings(late)
	if len(late) == 0 {
		c.OK("C26.TRACK", construct, assign.Pos(), "c.%s is assigned before every goroutine and listener start in Start, so the handlers' nil test cannot be true while serving", field)
	} else {
		c.Bad("C26.TRACK", construct, assign.Pos(), "c.%s is assigned after %s: a request handled in that window skips replay protection (the handlers treat a nil cache as 'no check')", field, strings.Join(late, ", "))
	}
}

func c26Cmp(c *Ctx) {
	tr := c.MustFunc("C26.CMP", "(*internal/cluster/security.NonceCache).Track")
	ev := c.MustFunc("C26.CMP", "(*internal/cluster/security.NonceCache).evictExpiredLocked")
	if tr == nil || ev == nil {
		return
	}
	isNow := func(v ssa.Value) bool {
		return derives(v, isResultOf("time.Now"), true, 6) && !fieldSourcesHas(v, "NonceCache.ttl")
	}
	// what Track stores: must derive from now AND ttl (an expiry), not from now alone (a first-seen time)
	storedIsExpiry := false
	var storePos token.Pos
	for _, in := range instrs(tr, false) {
		if mu, ok := in.(*ssa.MapUpdate); ok {
			if _, f, _, ok := fieldOf(loadAddr(mu.Map)); ok && f == "entries" {
				storePos = mu.Pos()
				if derives(mu.Value, isResultOf("time.Now"), true, 8) && fieldSourcesHas(mu.Value, "NonceCache.ttl") {
					storedIsExpiry = true
				}
			}
		}
	}
	c.Check(storedIsExpiry, "C26.CMP", "Track|stores-expiry", storePos, "Track stores now + ttl", "Track does not store an expiry derived from now + ttl: eviction, which deletes entries whose stored value is <= now, would then drop live nonces")
	// liveness test in Track: now < stored  => replay
	liveOK := false
	for _, in := range instrs(tr, false) {
		bo, ok := in.(*ssa.BinOp)
		if !ok {
			continue
		}
		stored := func(v ssa.Value) bool {
			return derives(v, func(x ssa.Value) bool {
				lk, ok := x.(*ssa.Lookup)
				if !ok {
					return false
				}
				_, f, _, ok := fieldOf(loadAddr(lk.X))
				return ok && f == "entries"
			}, false, 5)
		}
		if bo.Op == token.LSS && isNow(bo.X) && stored(bo.Y) {
			liveOK = true
		}
		if bo.Op == token.GTR && stored(bo.X) && isNow(bo.Y) {
			liveOK = true
		}
	}
	c.Check(liveOK, "C26.CMP", "Track|live-test", tr.Pos(), "an existing entry is live while now < stored expiry", "Track's duplicate test is not 'now < stored expiry'")
	// eviction: delete only under now >= stored
	evOK := false
	for _, call := range callsIn(ev, false) {
		if b, ok := call.Common().Value.(*ssa.Builtin); ok && b.Name() == "delete" {
			for _, f := range factsAt(call.(ssa.Instruction)) {
				if f.Kind == factCmp && (f.Op == token.GEQ || f.Op == token.GTR) {
					if _, isParam := f.Y.(*ssa.Extract); isParam {
						evOK = true
					}
				}
			}
		}
	}
	c.Check(evOK, "C26.CMP", "evictExpiredLocked|only-expired", ev.Pos(), "eviction deletes only entries with now >= stored expiry", "eviction does not confine deletes to entries whose stored expiry has passed")
}

func fieldSourcesHas(v ssa.Value, key string) bool { return fieldSources(v, 8)[key] }
