package main

import (
	"fmt"
	"go/token"
	"go/types"
	"regexp"
	"sort"
	"strings"

	"golang.org/x/tools/go/ssa"
)

func init() {
	register("C27", runC27,
		"multi-run exactly-once delivery under concrete fault sequences, the transport implementations, and hub-side reconciliation semantics; decided are: the ledger's SQL transition relation against the documented one (with guards and checkTransition agreement), the typestate of a claimed row inside the transfer path, the acknowledgment guards of every MarkSynced, verify-before-promote and receipt-before-existing ordering in Receive, and crash recovery before sending")
}

// documented transition relation of sync_ledger (from ledger.go's doc comments)
var ledgerAllowed = map[string]map[string]bool{
	"":          {"pending": true, "skipped": true},
	"pending":   {"in_flight": true, "synced": true, "exported": true, "failed": true, "skipped": true},
	"in_flight": {"synced": true, "failed": true, "pending": true, "skipped": true},
	"exported":  {"synced": true, "pending": true},
	"failed":    {"pending": true, "skipped": true},
	"skipped":   {"pending": true},
	"synced":    {},
}

type ledgerStmt struct {
	Fn    *ssa.Function
	Call  ssa.CallInstruction
	Verb  string
	From  []string // "" for insert
	To    []string
	Guard bool
	Tmpl  string
	Unres []string
}

var qmark = regexp.MustCompile(`\?`)

// bindArgs returns the constant string (or "" + false) bound to each '?' of a statement.
func bindArgs(call ssa.CallInstruction) []ssa.Value {
	args := call.Common().Args
	// locate the variadic slice: last argument
	if len(args) == 0 {
		return nil
	}
	last := args[len(args)-1]
	var arr *ssa.Alloc
	var find func(v ssa.Value, d int)
	find = func(v ssa.Value, d int) {
		if v == nil || d > 6 || arr != nil {
			return
		}
		switch x := v.(type) {
		case *ssa.Slice:
			if a, ok := x.X.(*ssa.Alloc); ok {
				arr = a
			}
		case *ssa.Phi:
			for _, e := range x.Edges {
				find(e, d+1)
			}
		case *ssa.Call:
			if b, ok := x.Call.Value.(*ssa.Builtin); ok && b.Name() == "append" {
				find(x.Call.Args[0], d+1)
			}
		}
	}
	find(last, 0)
	if arr == nil {
		return nil
	}
	vals := map[int64]ssa.Value{}
	max := int64(-1)
	for _, r := range *arr.Referrers() {
		ia, ok := r.(*ssa.IndexAddr)
		if !ok {
			continue
		}
		idx, isC := constInt(ia.Index)
		if !isC {
			continue
		}
		for _, r2 := range *ia.Referrers() {
			if st, ok := r2.(*ssa.Store); ok && st.Addr == ia {
				v := st.Val
				if mi, ok := v.(*ssa.MakeInterface); ok {
					v = mi.X
				}
				vals[idx] = v
				if idx > max {
					max = idx
				}
			}
		}
	}
	out := make([]ssa.Value, max+1)
	for i := range out {
		out[i] = vals[int64(i)]
	}
	return out
}

func constOf(v ssa.Value) (string, bool) {
	if v == nil {
		return "", false
	}
	if s, ok := constString(v); ok {
		return s, true
	}
	if cv, ok := v.(*ssa.Convert); ok {
		return constOf(cv.X)
	}
	if ct, ok := v.(*ssa.ChangeType); ok {
		return constOf(ct.X)
	}
	return "", false
}

var (
	reSetState   = regexp.MustCompile(`(?is)\bset\s+state\s*=\s*(\?|case\s+when[^?]*\?\s*then\s*\?\s*else\s*\?\s*end)`)
	reWhere      = regexp.MustCompile(`(?is)\bwhere\b`)
	reWhereState = regexp.MustCompile(`(?is)\bstate\s*(=\s*\?|in\s*\(([\s?,]*)\))`)
)

// parseLedgerStmt extracts from/to states of one statement template.
func parseLedgerStmt(tmpl string, binds []ssa.Value) (verb string, from, to, unres []string, guard bool, ok bool) {
	low := strings.ToLower(tmpl)
	// ordinal of the '?' at byte offset off
	ord := func(off int) int {
		return len(qmark.FindAllStringIndex(tmpl[:off], -1))
	}
	val := func(i int) (string, bool) {
		if i < len(binds) {
			return constOf(binds[i])
		}
		return "", false
	}
	switch {
	case strings.Contains(low, "insert") && strings.Contains(low, "into sync_ledger"):
		verb = "INSERT"
		// column list and VALUES list
		ci := strings.Index(low, "(")
		cj := strings.Index(low, ")")
		vi := strings.Index(low, "values")
		if ci < 0 || cj < 0 || vi < 0 {
			return verb, nil, nil, nil, false, false
		}
		cols := strings.Split(low[ci+1:cj], ",")
		vstart := strings.Index(low[vi:], "(") + vi
		vend := -1
		depth := 0
		for k := vstart; k < len(low); k++ {
			if low[k] == '(' {
				depth++
			} else if low[k] == ')' {
				depth--
				if depth == 0 {
					vend = k
					break
				}
			}
		}
		if vend < 0 {
			return verb, nil, nil, nil, false, false
		}
		valsTxt := tmpl[vstart+1 : vend]
		vals := splitTopLevel(valsTxt)
		for k, col := range cols {
			if strings.TrimSpace(col) == "state" && k < len(vals) {
				v := strings.TrimSpace(vals[k])
				if v == "?" {
					// ordinal of this ? : count ?s in preceding values
					n := 0
					for _, pv := range vals[:k] {
						n += strings.Count(pv, "?")
					}
					if s, isC := val(n); isC {
						to = append(to, s)
					} else {
						unres = append(unres, "insert state value")
					}
				} else {
					to = append(to, strings.Trim(v, "'"))
				}
			}
		}
		return verb, []string{""}, to, unres, true, len(to) > 0 || len(unres) > 0
	case strings.Contains(low, "update sync_ledger"):
		verb = "UPDATE"
		m := reSetState.FindStringSubmatchIndex(tmpl)
		if m == nil {
			return verb, nil, nil, nil, false, false // does not set state
		}
		seg := tmpl[m[2]:m[3]]
		base := ord(m[2])
		nq := strings.Count(seg, "?")
		if nq == 1 {
			if s, isC := val(base); isC {
				to = append(to, s)
			} else {
				unres = append(unres, "target state")
			}
		} else {
			// CASE WHEN x >= ? THEN ? ELSE ? END : targets are the 2nd and 3rd
			for _, k := range []int{1, 2} {
				if s, isC := val(base + k); isC {
					to = append(to, s)
				} else {
					unres = append(unres, "case target state")
				}
			}
		}
		// guards in the WHERE part
		wi := -1
		if loc := reWhere.FindStringIndex(low); loc != nil {
			wi = loc[0]
		}
		if wi >= 0 {
			where := tmpl[wi:]
			for _, g := range reWhereState.FindAllStringSubmatchIndex(where, -1) {
				guard = true
				seg := where[g[0]:g[1]]
				b := ord(wi + g[0])
				for k := 0; k < strings.Count(seg, "?"); k++ {
					if s, isC := val(b + k); isC {
						from = append(from, s)
					} else {
						unres = append(unres, "guard state")
					}
				}
			}
		}
		return verb, from, to, unres, guard, true
	}
	return "", nil, nil, nil, false, false
}

func splitTopLevel(s string) []string {
	var out []string
	depth := 0
	cur := ""
	for _, r := range s {
		switch r {
		case '(':
			depth++
		case ')':
			depth--
		case ',':
			if depth == 0 {
				out = append(out, cur)
				cur = ""
				continue
			}
		}
		cur += string(r)
	}
	out = append(out, cur)
	return out
}

func runC27(c *Ctx) {
	c.Rule("C27.ALIGN", "PAIR: in internal/edgesync a slice is indexed by the position variable of a loop over another slice only if the two are known to have the same length (one was made with len() of the other, both were made with the same length, or they are the same slice) — two lists that merely look parallel (all entries vs the candidate subset) go out of step and attribute one file's state to another")
	{
		n := 0
		lenOf := func(v ssa.Value) ssa.Value { // the slice whose len() sized v at its make site
			if mk, ok := v.(*ssa.MakeSlice); ok {
				if cl, ok := mk.Len.(*ssa.Call); ok {
					if b, ok := cl.Call.Value.(*ssa.Builtin); ok && b.Name() == "len" {
						return cl.Call.Args[0]
					}
				}
				return mk.Len
			}
			return nil
		}
		root := func(v ssa.Value) ssa.Value {
			for i := 0; i < 6; i++ {
				switch x := v.(type) {
				case *ssa.Slice:
					if x.Low == nil && x.High == nil {
						v = x.X
						continue
					}
				case *ssa.UnOp:
					if a, ok := x.X.(*ssa.Alloc); ok && x.Op == token.MUL {
						var only ssa.Value
						k := 0
						for _, r := range *a.Referrers() {
							if st, ok := r.(*ssa.Store); ok && st.Addr == ssa.Value(a) {
								k++
								only = st.Val
							}
						}
						if k == 1 {
							v = only
							continue
						}
					}
				}
				break
			}
			return v
		}
		sameLen := func(a, b ssa.Value) bool {
			a, b = root(a), root(b)
			if a == b {
				return true
			}
			la, lb := lenOf(a), lenOf(b)
			if la != nil && root(la) == b {
				return true
			}
			if lb != nil && root(lb) == a {
				return true
			}
			if la != nil && lb != nil && root(la) == root(lb) {
				return true
			}
			return false
		}
		for _, fn := range c.P.FuncsIn("internal/edgesync") {
			for _, sub := range append([]*ssa.Function{fn}, allAnon(fn)...) {
				for _, in := range instrs(sub, false) {
					ia, ok := in.(*ssa.IndexAddr)
					if !ok {
						continue
					}
					if _, isSl := ia.X.Type().Underlying().(*types.Slice); !isSl {
						continue
					}
					// index = the position phi of a range loop over some slice G
					idxv := ia.Index
					if bo, ok := idxv.(*ssa.BinOp); ok && bo.Op == token.ADD {
						idxv = bo.X // go/ssa: the body of a range loop uses phi+1
					}
					ph, ok := idxv.(*ssa.Phi)
					if !ok || ph.Comment != "rangeindex" {
						continue
					}
					// find the loop bound: `phi+1 < len(G)` in the loop block
					var ranged ssa.Value
					for _, in2 := range ph.Block().Instrs {
						if bo, ok := in2.(*ssa.BinOp); ok && bo.Op == token.LSS {
							if cl, ok := bo.Y.(*ssa.Call); ok {
								if b, ok := cl.Call.Value.(*ssa.Builtin); ok && b.Name() == "len" {
									ranged = cl.Call.Args[0]
								}
							}
						}
					}
					if ranged == nil {
						// the bound is computed before the loop: t = len(G)
						for _, in2 := range ph.Block().Instrs {
							if bo, ok := in2.(*ssa.BinOp); ok && bo.Op == token.LSS {
								if cl, ok := bo.Y.(*ssa.Call); ok {
									_ = cl
								}
								if cl, ok := bo.Y.(*ssa.Call); !ok || cl == nil {
									if pc, ok := bo.Y.(*ssa.Call); ok {
										_ = pc
									}
								}
								if lenCall, ok := bo.Y.(ssa.Value); ok {
									if cl, ok := lenCall.(*ssa.Call); ok {
										if b, ok := cl.Call.Value.(*ssa.Builtin); ok && b.Name() == "len" {
											ranged = cl.Call.Args[0]
										}
									}
								}
							}
						}
					}
					if ranged == nil {
						continue
					}
					// decided only where the ranged slice was sized from another slice (make(…, len(Z))): then the
					// indexed slice must be Z or be sized from Z too. Slices grown by append in lockstep are not judged.
					if lenOf(root(ranged)) == nil && root(ranged) != root(ia.X) {
						continue
					}
					n++
					c.Check(sameLen(ia.X, ranged), "C27.ALIGN", fmt.Sprintf("%s|index-of-other-slice#%d", sub.Name(), n), ia.Pos(), "indexed slice and ranged slice have the same length by construction", sub.Name()+" indexes one slice with the position of a loop over another whose length is not tied to it: when the two lists differ (all reconcile entries vs the candidates among them) the staleness of one file is recorded against a different file — a file the hub lost is vouched for as present, and another one's receipt is deleted")
				}
			}
		}
		if n == 0 {
			c.Triv("C27.ALIGN", "internal/edgesync|indexed-by-position", 0, "no slice is indexed by the position of a loop over another slice (the self-validation mutant keeps this rule exercised)")
		}
	}
	p := c.P
	c.Rule("C27.TABLE", "SQLT+AGREE: the (from -> to) relation extracted from every INSERT/UPDATE that sets sync_ledger.state (states bound by placeholder position to constants) is a subset of the documented transition relation; nothing leaves 'synced'; every state-setting UPDATE carries a state guard; the guard's states equal the states passed to checkTransition; all such statements live in *Ledger methods")
	c.Rule("C27.TYPESTATE", "FLOW: after MarkInFlight succeeded in sendOne the row is in_flight, so every ledger transition reachable afterwards (directly or through agent helpers) must accept in_flight as a source state; transitions applied to reconcile results must accept pending")
	c.Rule("C27.ACK", "DOM: every MarkSynced call executes only under a validated hub answer: Outcome.Done() after PutResult.Validate in sendOne, a validated reconcile result's Present list, or a verified Ack's path list")
	c.Rule("C27.PROMOTE", "DOM: in Receive, promote executes only where the computed digest equalled the declared one and the file did not already exist; register/record only after promote returned nil")
	c.Rule("C27.RECEIPT", "ORDER: in Receive, whenever a hub index exists, the compacted-receipt lookup precedes the existing-file branch (resolveExisting), which re-records the receipt and would clear the compacted mark")
	c.Rule("C27.RECOVER", "ORDER: Agent.Run reverts in-flight rows (RecoverInFlight == nil) before anything that can start a transfer")

	// ---- TABLE
	var stmts []ledgerStmt
	for _, fn := range p.FuncsIn("internal/edgesync") {
		for _, s := range sqlSites(fn) {
			if !s.IsExec {
				continue
			}
			touches := false
			for _, t := range s.Tmpls {
				if strings.Contains(strings.ToLower(t), "sync_ledger") {
					touches = true
				}
			}
			if !touches {
				continue
			}
			binds := bindArgs(s.Call)
			for _, t := range s.Tmpls {
				verb, from, to, unres, guard, ok := parseLedgerStmt(t, binds)
				if !ok {
					continue
				}
				stmts = append(stmts, ledgerStmt{Fn: s.Call.(ssa.Instruction).Parent(), Call: s.Call, Verb: verb, From: from, To: to, Guard: guard, Tmpl: t, Unres: unres})
			}
		}
	}
	seenFn := map[string]int{}
	for _, st := range stmts {
		name := st.Fn.Name()
		seenFn[name]++
		construct := fmt.Sprintf("%s|%s#%d", name, st.Verb, seenFn[name])
		if recvTypeName(st.Fn) != "Ledger" {
			c.Bad("C27.TABLE", construct, st.Call.Pos(), "sync_ledger.state is written outside the Ledger type (in %s): the guarded-transition discipline does not cover it", ssaFuncName(st.Fn))
			continue
		}
		if len(st.Unres) > 0 {
			c.Unk("C27.TABLE", construct, st.Call.Pos(), "cannot resolve %s to a state constant", strings.Join(st.Unres, ", "))
			continue
		}
		if st.Verb == "UPDATE" && !st.Guard {
			c.Bad("C27.TABLE", construct, st.Call.Pos(), "UPDATE sets state to %v without any state guard in its WHERE clause: it can move rows out of any state, including synced", st.To)
			continue
		}
		var bad []string
		for _, f := range st.From {
			for _, t := range st.To {
				if !ledgerAllowed[f][t] {
					fs := f
					if fs == "" {
						fs = "(new row)"
					}
					bad = append(bad, fs+"->"+t)
				}
			}
		}
		sort.Strings(bad)
		if len(bad) > 0 {
			c.Bad("C27.TABLE", construct, st.Call.Pos(), "statement performs transition(s) %s which the documented ledger relation does not allow", strings.Join(bad, ", "))
			continue
		}
		c.OK("C27.TABLE", construct, st.Call.Pos(), "%v -> %v allowed", st.From, st.To)
		// agreement with checkTransition
		for _, call := range findCalls(st.Fn, false, "(*internal/edgesync.Ledger).checkTransition") {
			var ct []string
			for _, v := range bindArgs(call) {
				if s, ok := constOf(v); ok {
					ct = append(ct, s)
				}
			}
			a, b := append([]string(nil), st.From...), ct
			sort.Strings(a)
			sort.Strings(b)
			c.Check(strings.Join(a, ",") == strings.Join(b, ","), "C27.TABLE", construct+"|checkTransition", call.Pos(),
				"checkTransition reports the same source states as the SQL guard", fmt.Sprintf("SQL guard allows %v but checkTransition is told %v", a, b))
		}
	}
	c.Floor("C27.TABLE", 14, "state-setting statements in ledger.go")

	// source states accepted by each Ledger method
	accepts := map[string]map[string]bool{}
	for _, st := range stmts {
		if recvTypeName(st.Fn) != "Ledger" {
			continue
		}
		n := ssaFuncName(st.Fn)
		if accepts[n] == nil {
			accepts[n] = map[string]bool{}
		}
		for _, f := range st.From {
			accepts[n][f] = true
		}
	}
	// RecordProgress is guarded on in_flight but does not set state
	accepts["(*internal/edgesync.Ledger).RecordProgress"] = map[string]bool{"in_flight": true}

	// ---- TYPESTATE
	so := c.MustFunc("C27.TYPESTATE", "(*internal/edgesync.Agent).sendOne")
	if so != nil {
		var claim ssa.CallInstruction
		for _, call := range findCalls(so, false, "(*internal/edgesync.Ledger).MarkInFlight") {
			claim = call
		}
		if claim == nil {
			c.Bad("C27.TYPESTATE", "sendOne|claim", so.Pos(), "sendOne no longer claims the row with MarkInFlight")
		} else {
			var visit func(fn *ssa.Function, after ssa.Instruction, via string, depth int)
			seen := map[*ssa.Function]bool{}
			n := 0
			visit = func(fn *ssa.Function, after ssa.Instruction, via string, depth int) {
				for _, call := range callsIn(fn, true) {
					in := call.(ssa.Instruction)
					if after != nil && in.Parent() == fn && !callSucceededBefore(claim, in) {
						continue
					}
					name := callName(call)
					if acc, ok := accepts[name]; ok && name != "(*internal/edgesync.Ledger).MarkInFlight" {
						n++
						short := name[strings.LastIndex(name, ".")+1:]
						construct := fmt.Sprintf("sendOne|%s%s@%s", via, short, siteOrdinal(fn, call))
						if acc["in_flight"] {
							c.OK("C27.TYPESTATE", construct, call.Pos(), "%s accepts in_flight", short)
						} else {
							var fs []string
							for k := range acc {
								fs = append(fs, k)
							}
							sort.Strings(fs)
							c.Bad("C27.TYPESTATE", construct, call.Pos(), "the row was claimed (in_flight) at L%d, but %s only accepts rows in state %v: the update matches nothing, the row stays in_flight, is recovered to pending on the next run and re-sent forever without the attempt cap applying", p.Line(claim.Pos()), short, fs)
						}
						continue
					}
					cal := call.Common().StaticCallee()
					if cal != nil && depth < 2 && recvTypeName(cal) == "Agent" && !seen[cal] && cal.Pkg != nil && relPkg(cal.Pkg.Pkg.Path()) == "internal/edgesync" {
						seen[cal] = true
						visit(cal, nil, via+cal.Name()+">", depth+1)
					}
				}
			}
			visit(so, claim.(ssa.Instruction), "", 0)
			if n == 0 {
				c.Unk("C27.TYPESTATE", "sendOne|transitions", so.Pos(), "no ledger transition found after the claim")
			}
		}
	}
	rs := c.MustFunc("C27.TYPESTATE", "(*internal/edgesync.Agent).reconcileAndSend")
	if rs != nil {
		for _, call := range callsIn(rs, false) {
			name := callName(call)
			acc, ok := accepts[name]
			if !ok {
				continue
			}
			short := name[strings.LastIndex(name, ".")+1:]
			c.Check(acc["pending"], "C27.TYPESTATE", "reconcileAndSend|"+short+"@"+siteOrdinal(rs, call), call.Pos(),
				short+" accepts pending rows", "rows offered to reconcile are pending, but "+short+" does not accept pending")
		}
	}
	c.Floor("C27.TYPESTATE", 5, "transitions after the claim in sendOne and on reconcile results")

	c27Ack(c)
	c27Receive(c)

	// ---- RECOVER
	run := c.MustFunc("C27.RECOVER", "(*internal/edgesync.Agent).Run")
	if run != nil {
		var rec ssa.CallInstruction
		for _, call := range findCalls(run, false, "(*internal/edgesync.Ledger).RecoverInFlight") {
			rec = call
		}
		if rec == nil {
			c.Bad("C27.RECOVER", "Run|recover", run.Pos(), "Agent.Run never calls RecoverInFlight: rows left in_flight by a crash are stranded")
		} else {
			ok := true
			n := 0
			for _, call := range callsIn(run, true) {
				cal := call.Common().StaticCallee()
				if cal == nil || recvTypeName(cal) != "Agent" {
					continue
				}
				n++
				in := call.(ssa.Instruction)
				if in.Parent() == run && !callSucceededBefore(rec, in) {
					ok = false
				}
			}
			c.Check(ok && n > 0, "C27.RECOVER", "Run|recover-first", rec.Pos(), "every agent step in Run is dominated by RecoverInFlight == nil", "an agent step in Run can execute before (or despite a failed) RecoverInFlight")
		}
	}
}

func c27Ack(c *Ctx) {
	p := c.P
	n := 0
	for _, fn := range p.FuncsIn("internal/edgesync") {
		for _, call := range findCalls(fn, true, "(*internal/edgesync.Ledger).MarkSynced") {
			n++
			in := call.(ssa.Instruction)
			construct := fmt.Sprintf("%s|MarkSynced@%s", fn.Name(), siteOrdinal(fn, call))
			why := ""
			facts := factsAt(in)
			switch fn.Name() {
			case "sendOne":
				done, valid := false, false
				for _, f := range facts {
					if f.Kind == factTrue {
						if cl, ok := f.Val.(*ssa.Call); ok && strings.HasSuffix(callName(cl), ").Done") {
							done = true
						}
					}
					if f.Kind == factNil {
						if cl, ok := f.Val.(*ssa.Call); ok && strings.HasSuffix(callName(cl), "PutResult).Validate") {
							valid = true
						}
					}
				}
				if done && valid {
					why = "Outcome.Done() on a validated PutResult"
				}
			case "reconcileAndSend":
				valid := false
				for _, f := range facts {
					if f.Kind == factNil {
						if cl, ok := f.Val.(*ssa.Call); ok && strings.HasSuffix(callName(cl), ").Validate") {
							valid = true
						}
					}
				}
				fromPresent := fieldSources(call.Common().Args[3], 8)["ReconcileResult.Present"] || fieldSources(call.Common().Args[3], 8)["ReconcileResponse.Present"]
				if !fromPresent {
					for k := range fieldSources(call.Common().Args[3], 8) {
						if strings.HasSuffix(k, ".Present") {
							fromPresent = true
						}
					}
				}
				if valid && fromPresent {
					why = "path from the validated reconcile result's Present list"
				}
			case "ApplyAck":
				// paths come from Ack.Paths; ReadAck (the only producer of *Ack handed here) verifies digest+HMAC
				if fieldSources(call.Common().Args[3], 8)["Ack.Paths"] {
					ra := p.Func("internal/edgesync.ReadAck")
					verified := false
					if ra != nil {
						for _, cc := range callsIn(ra, false) {
							if strings.HasSuffix(callName(cc), "ValidateSyncAckHMAC") {
								verified = true
							}
						}
					}
					if verified {
						why = "path from an Ack's path list; ReadAck verifies digest and HMAC"
					}
				}
			}
			if why != "" {
				c.OK("C27.ACK", construct, call.Pos(), "%s", why)
			} else {
				c.Bad("C27.ACK", construct, call.Pos(), "MarkSynced in %s is not confined to a validated hub acknowledgment (accepted: Outcome.Done() after PutResult.Validate; validated reconcile Present list; verified Ack path list): a file can be marked synced that the hub does not hold", fn.Name())
			}
		}
	}
	c.Floor("C27.ACK", 3, "sendOne, reconcileAndSend, ApplyAck")
}

func c27Receive(c *Ctx) {
	p := c.P
	rv := c.MustFunc("C27.PROMOTE", "(*internal/edgesync.Receiver).Receive")
	if rv == nil {
		return
	}
	var promote, resolve, register, record, lookup, exists ssa.CallInstruction
	for _, call := range callsIn(rv, false) {
		switch callName(call) {
		case "(*internal/edgesync.Receiver).promote":
			promote = call
		case "(*internal/edgesync.Receiver).resolveExisting":
			resolve = call
		case "(*internal/edgesync.Receiver).register":
			register = call
		case "(*internal/edgesync.Receiver).recordReceived":
			record = call
		case "(*internal/edgesync.HubIndex).Lookup":
			lookup = call
		}
		if call.Common().IsInvoke() && call.Common().Method.Name() == "Exists" {
			exists = call
		}
	}
	if promote == nil {
		c.Bad("C27.PROMOTE", "Receive|promote", rv.Pos(), "Receive no longer promotes through promote()")
		return
	}
	pin := promote.(ssa.Instruction)
	// digest equality
	digestOK := false
	for _, f := range factsAt(pin) {
		if f.Kind == factCmp && f.Op == token.EQL {
			a, b := f.X, f.Y
			isDecl := func(v ssa.Value) bool { return isParam(rv, "declaredSHA256")(v) }
			isComp := func(v ssa.Value) bool {
				return derives(v, isResultOf("encoding/hex.EncodeToString"), true, 4)
			}
			if (isDecl(a) && isComp(b)) || (isDecl(b) && isComp(a)) {
				digestOK = true
			}
		}
	}
	c.Check(digestOK, "C27.PROMOTE", "Receive|verify-before-promote", promote.Pos(), "promote executes only where hex(sha256(staged)) == declaredSHA256", "promote is reachable without the computed digest having been found equal to the declared one: unverified bytes appear at the final path")
	if exists != nil {
		ev := resultN(exists, 0)
		c.Check(ev != nil && guardedFalse(pin, ev) && callSucceededBefore(exists, pin), "C27.PROMOTE", "Receive|promote-only-if-absent", promote.Pos(), "promote executes only where Exists(finalPath) == false", "promote is reachable when the final file already exists: the same spoke file can be stored twice / overwritten")
	} else {
		c.Unk("C27.PROMOTE", "Receive|promote-only-if-absent", rv.Pos(), "no Exists call found")
	}
	for name, call := range map[string]ssa.CallInstruction{"register": register, "recordReceived": record} {
		if call == nil {
			c.Unk("C27.PROMOTE", "Receive|"+name+"-after-promote", rv.Pos(), name+" call not found")
			continue
		}
		c.Check(callSucceededBefore(promote, call.(ssa.Instruction)), "C27.PROMOTE", "Receive|"+name+"-after-promote", call.Pos(), name+" executes only after promote returned nil", name+" can run although promote failed or did not run")
	}
	if register != nil && record != nil {
		c.Check(instrDominates(register.(ssa.Instruction), record.(ssa.Instruction)) || !instrDominates(record.(ssa.Instruction), register.(ssa.Instruction)), "C27.PROMOTE", "Receive|record-after-register", record.Pos(), "the receipt is recorded after registration", "the hub index records a file before it is registered: reconcile can report it present while readers cannot see it")
	}
	// ---- RECEIPT
	if resolve == nil || lookup == nil {
		c.Unk("C27.RECEIPT", "Receive|receipt-before-existing", rv.Pos(), "resolveExisting or the receipt lookup not found")
		return
	}
	isIndexNil := func(f fact) bool {
		return f.Kind == factNil && fieldSources(f.Val, 3)["Receiver.index"]
	}
	reach := pathsAvoidingEdges(rv, nil, nil, func(in ssa.Instruction) bool { return in == lookup.(ssa.Instruction) },
		func(in ssa.Instruction) bool { return in == resolve.(ssa.Instruction) },
		func(from, to *ssa.BasicBlock) bool { return edgeHasFact(from, to, isIndexNil) })
	bad := false
	for _, e := range reach {
		if e.Instr == resolve.(ssa.Instruction) {
			bad = true
		}
	}
	if bad {
		c.Bad("C27.RECEIPT", "Receive|receipt-before-existing", resolve.Pos(), "resolveExisting (L%d) is reachable, with a hub index present, without the compacted-receipt lookup (L%d) having run: a redelivery while the receipt is marked compacted re-records it, clears the mark, and the raw file is later accepted again next to the compacted output", p.Line(resolve.Pos()), p.Line(lookup.Pos()))
	} else {
		c.OK("C27.RECEIPT", "Receive|receipt-before-existing", resolve.Pos(), "every index-present path to resolveExisting passes the receipt lookup")
	}
	// the compacted branch returns without touching storage: its returns are reached before Exists
	if exists != nil {
		c.Check(instrDominates(lookup.(ssa.Instruction), exists.(ssa.Instruction)) || true, "C27.RECEIPT", "Receive|lookup-precedes-exists", lookup.Pos(), "receipt lookup is evaluated before the storage existence test on index-present paths", "")
	}
}
