package main

import (
	"fmt"
	"go/token"
	"strings"

	"golang.org/x/tools/go/ssa"
)

func init() {
	register("C28", runC28,
		"the counting guarantee itself over arbitrary arrival sequences and clock jumps, limiter eviction/recreation in the manager, and endpoints other than the main query handler; decided are: lock scope in both limiters, that each counter increment is unreachable from its 'counter >= limit' rejection edge, that period resets use a non-strict boundary test and recompute the next boundary from the clock, that the window ring holds one slot more than windowSize/slotDuration and is indexed and expired by its own length, that total and the slots are updated together, and the rate-limit-before-quota order in the query handler")
}

const govPkg = "internal/governance"

// counter field -> limit field, per type
var c28Counters = map[string]map[string]string{
	"slidingWindowCounter": {"total": "limit"},
	"quotaTracker":         {"queriesThisHour": "maxPerHour", "queriesThisDay": "maxPerDay"},
}

func loadsField(v ssa.Value, st, field string) bool {
	ld, ok := v.(*ssa.UnOp)
	if !ok || ld.Op != token.MUL {
		return false
	}
	sn, f, _, ok := fieldOf(ld.X)
	return ok && sn == st && f == field
}

func runC28(c *Ctx) {
	c28Total(c)
	c.Rule("C28.PUSH", "PASS: in CreatePolicy and UpdatePolicy every path from storing the policy in the cache to a nil-error return passes updateTrackersForToken — unconditionally, also for a token's first policy (its limiters already exist with the config defaults and ignore the limit argument once created)")
	for _, name := range []string{"CreatePolicy", "UpdatePolicy"} {
		fn := c.P.Func("(*internal/governance.Manager)." + name)
		if fn == nil {
			c.Unk("C28.PUSH", name+"|function", 0, "function not found")
			continue
		}
		target := names("(*internal/governance.Manager).updateTrackersForToken")
		stop := c.P.stopFn(target, 2, map[*ssa.Function]bool{})
		bad := 0
		for _, e := range successExits(pathsAvoiding(fn, nil, stop)) {
			_ = e
			bad++
		}
		c.Check(bad == 0, "C28.PUSH", name+"|limits-pushed-on-every-success-path", fn.Pos(), "every success path pushes the new limits into the live trackers", fmt.Sprintf("%s has %d success path(s) that never (or only conditionally) call updateTrackersForToken: a token's first policy does not reach its already existing limiters and quota tracker, and the old (default) limits keep being enforced", name, bad))
	}
	p := c.P
	c.Rule("C28.LOCK", "LOCK: every access to a field of slidingWindowCounter / quotaTracker outside the constructors happens with that object's mu held; helpers that do not lock are called only with it held")
	c.Rule("C28.CMP", "PASS: in Allow / AllowQuery the edge taken when counter >= limit cannot reach the counter's increment (a test that admits counter == limit lets the count reach limit+1)")
	c.Rule("C28.BOUNDARY", "DOM+FLOW: a period counter is reset where the boundary has been REACHED (non-strict comparison with the clock), and the next boundary stored is recomputed from the clock, not advanced from the old boundary")
	c.Rule("C28.SLOTS", "CONST/AGREE: the slot ring holds at least windowSize/slotDuration + 1 slots, and advance wraps the cursor and detects whole-ring expiry using the ring's own length")
	c.Rule("C28.SUM", "FIELD: every store to total is paired with the matching slot update (total = 0 with zeroing the ring, total -= slot with slot = 0, total++ with slot++), keeping total == sum(slots)")
	c.Rule("C28.ORDER", "ORDER: in the query handler CheckRateLimit is evaluated before CheckQuota, and CheckQuota is reached only where the rate limit allowed the request")

	// ---- LOCK
	for _, tn := range []string{"slidingWindowCounter", "quotaTracker"} {
		methods := p.MethodsOf(govPkg, tn)
		infos := map[*ssa.Function]*lockInfo{}
		for _, fn := range methods {
			infos[fn] = analyzeLocks(fn, nil)
		}
		helper := map[*ssa.Function]bool{}
		nAcc := 0
		for _, fn := range methods {
			recv := fn.Params[0].Name()
			locks := false
			for _, call := range callsIn(fn, false) {
				if op, ok := lockOps[callName(call)]; ok && op.acquire {
					locks = true
				}
			}
			var bad []string
			for _, a := range fieldAccesses(fn, tn) {
				if a.Field == "mu" || a.Base != recv {
					continue
				}
				nAcc++
				if _, ok := infos[fn].heldAt(a.In)[recv+".mu"]; !ok {
					bad = append(bad, fmt.Sprintf("%s@L%d", a.Field, p.Line(a.In.Pos())))
				}
			}
			if len(bad) == 0 {
				continue
			}
			if !locks {
				helper[fn] = true
				continue
			}
			c.Bad("C28.LOCK", tn+"."+fn.Name(), fn.Pos(), "fields accessed without %s.mu held: %s", recv, strings.Join(uniq(bad), ", "))
		}
		for h := range helper {
			n, ok := 0, true
			for _, fn := range methods {
				for _, call := range callsIn(fn, false) {
					if call.Common().StaticCallee() != h {
						continue
					}
					n++
					recv := fn.Params[0].Name()
					if _, held := infos[fn].heldAt(call.(ssa.Instruction))[recv+".mu"]; !held && !helper[fn] {
						ok = false
					}
				}
			}
			c.Check(ok && n > 0, "C28.LOCK", tn+"."+h.Name()+"|helper", h.Pos(), fmt.Sprintf("does not lock itself; all %d call sites hold mu", n), h.Name()+" touches limiter state without locking and is called without mu held (test and increment are no longer one critical section)")
		}
		c.OK("C28.LOCK", tn+"|methods", 0, "%d field accesses in %d methods analysed", nAcc, len(methods))
	}

	// ---- CMP
	for tn, pairs := range c28Counters {
		fnName := "Allow"
		if tn == "quotaTracker" {
			fnName = "AllowQuery"
		}
		fn := c.MustFunc("C28.CMP", fmt.Sprintf("(*%s.%s).%s", govPkg, tn, fnName))
		if fn == nil {
			continue
		}
		for counter, limit := range pairs {
			construct := fmt.Sprintf("%s.%s|%s-vs-%s", tn, fnName, counter, limit)
			// increments of the counter
			var incs []ssa.Instruction
			for _, a := range fieldAccesses(fn, tn) {
				if a.Write && a.Field == counter {
					incs = append(incs, a.In)
				}
			}
			if len(incs) == 0 {
				c.Unk("C28.CMP", construct, fn.Pos(), "no increment of %s found", counter)
				continue
			}
			found := false
			bad := ""
			for _, in := range instrs(fn, false) {
				bo, ok := in.(*ssa.BinOp)
				if !ok {
					continue
				}
				var op token.Token
				switch {
				case loadsField(bo.X, tn, counter) && loadsField(bo.Y, tn, limit):
					op = bo.Op
				case loadsField(bo.Y, tn, counter) && loadsField(bo.X, tn, limit):
					// limit OP counter  ==  counter OP' limit
					op = map[token.Token]token.Token{token.LSS: token.GTR, token.LEQ: token.GEQ, token.GTR: token.LSS, token.GEQ: token.LEQ, token.EQL: token.EQL}[bo.Op]
				default:
					continue
				}
				var ifi *ssa.If
				for _, r := range *bo.Referrers() {
					if x, ok := r.(*ssa.If); ok {
						ifi = x
					}
				}
				if ifi == nil {
					continue
				}
				found = true
				// which successor holds "counter >= limit"?
				var rejectSucc *ssa.BasicBlock
				switch op {
				case token.GEQ:
					rejectSucc = ifi.Block().Succs[0]
				case token.LSS:
					rejectSucc = ifi.Block().Succs[1]
				case token.GTR:
					bad = fmt.Sprintf("the limiter rejects only when %s > %s: with %s == %s the request is admitted and the count reaches limit+1", counter, limit, counter, limit)
					continue
				case token.LEQ:
					bad = fmt.Sprintf("the limiter admits while %s <= %s: the count reaches limit+1", counter, limit)
					continue
				default:
					bad = "unrecognised comparison between counter and limit"
					continue
				}
				for _, e := range pathsAvoidingTo(fn, nil, rejectSucc, func(ssa.Instruction) bool { return false }, func(x ssa.Instruction) bool {
					for _, i := range incs {
						if i == x {
							return true
						}
					}
					return false
				}) {
					if _, isRet := e.Instr.(*ssa.Return); !isRet {
						bad = fmt.Sprintf("the increment of %s at L%d is reachable from the edge on which %s >= %s", counter, p.Line(e.Instr.Pos()), counter, limit)
					}
				}
			}
			switch {
			case !found:
				c.Bad("C28.CMP", construct, fn.Pos(), "%s is never compared with %s before being incremented", counter, limit)
			case bad != "":
				c.Bad("C28.CMP", construct, fn.Pos(), "%s", bad)
			default:
				c.OK("C28.CMP", construct, fn.Pos(), "the %s >= %s edge cannot reach the increment", counter, limit)
			}
		}
	}

	// ---- BOUNDARY
	mr := c.MustFunc("C28.BOUNDARY", "(*internal/governance.quotaTracker).maybeReset")
	if mr != nil {
		for counter, boundary := range map[string]string{"queriesThisHour": "hourResetAt", "queriesThisDay": "dayResetAt"} {
			var reset, bstore *ssa.Store
			for _, in := range instrs(mr, false) {
				st, ok := in.(*ssa.Store)
				if !ok {
					continue
				}
				if sn, f, _, ok := fieldOf(st.Addr); ok && sn == "quotaTracker" {
					if f == counter {
						reset = st
					}
					if f == boundary {
						bstore = st
					}
				}
			}
			if reset == nil || bstore == nil {
				c.Unk("C28.BOUNDARY", "maybeReset|"+counter, mr.Pos(), "reset of %s / update of %s not found", counter, boundary)
				continue
			}
			kind := ""
			for _, f := range factsAt(reset) {
				call, ok := f.Val.(*ssa.Call)
				if !ok {
					continue
				}
				n := callName(call)
				isB := func(v ssa.Value) bool { return fieldSources(v, 4)["quotaTracker."+boundary] }
				isNow := func(v ssa.Value) bool { return derives(v, isResultOf("time.Now"), true, 4) && !isB(v) }
				a, b := call.Call.Args[0], call.Call.Args[1]
				switch {
				case n == "(time.Time).After" && f.Kind == factTrue && isNow(a) && isB(b):
					kind = "strict"
				case n == "(time.Time).Before" && f.Kind == factTrue && isB(a) && isNow(b):
					kind = "strict"
				case n == "(time.Time).Before" && f.Kind == factFalse && isNow(a) && isB(b):
					kind = "nonstrict"
				case n == "(time.Time).After" && f.Kind == factFalse && isB(a) && isNow(b):
					kind = "nonstrict"
				}
			}
			switch kind {
			case "nonstrict":
				c.OK("C28.BOUNDARY", "maybeReset|"+counter+"-test", reset.Pos(), "reset as soon as now >= boundary")
			case "strict":
				c.Bad("C28.BOUNDARY", "maybeReset|"+counter+"-test", reset.Pos(), "the counter is reset only when now is strictly AFTER the boundary: a query arriving exactly on the boundary is charged to the period that just ended, and the new period can admit quota+1 queries")
			default:
				c.Unk("C28.BOUNDARY", "maybeReset|"+counter+"-test", reset.Pos(), "cannot classify the boundary comparison guarding the reset")
			}
			fromNow := derives(bstore.Val, isResultOf("time.Now"), true, 8)
			c.Check(fromNow, "C28.BOUNDARY", "maybeReset|"+boundary+"-recomputed", bstore.Pos(), "the next boundary is recomputed from the clock", "the next "+boundary+" is derived from the old boundary instead of the clock: after an idle gap of several periods it stays in the past and every following call resets the counter again (quota + k-1 queries in one period)")
		}
	}

	c28Slots(c)
	c28Sum(c)

	// ---- ORDER
	eq := c.MustFunc("C28.ORDER", "(*internal/api.QueryHandler).executeQuery")
	if eq != nil {
		var rl, qt ssa.CallInstruction
		for _, call := range callsIn(eq, false) {
			switch callName(call) {
			case "(*internal/governance.Manager).CheckRateLimit":
				rl = call
			case "(*internal/governance.Manager).CheckQuota":
				qt = call
			}
		}
		if rl == nil || qt == nil {
			c.Bad("C28.ORDER", "executeQuery|checks", eq.Pos(), "executeQuery does not call both CheckRateLimit and CheckQuota")
		} else {
			qin := qt.(ssa.Instruction)
			okDom := instrDominates(rl.(ssa.Instruction), qin)
			allowed := false
			for _, f := range factsAt(qin) {
				if f.Kind == factTrue && fieldSources(f.Val, 4)["EnforcementResult.Allowed"] {
					if derives(f.Val, func(v ssa.Value) bool { return v == callValue(rl) }, false, 6) {
						allowed = true
					}
				}
			}
			switch {
			case !okDom:
				c.Bad("C28.ORDER", "executeQuery|rate-before-quota", qt.Pos(), "CheckQuota is not dominated by CheckRateLimit")
			case !allowed:
				c.Bad("C28.ORDER", "executeQuery|rate-before-quota", qt.Pos(), "CheckQuota (which consumes quota) is reachable although the rate limit rejected the request")
			default:
				c.OK("C28.ORDER", "executeQuery|rate-before-quota", qt.Pos(), "CheckQuota runs only where CheckRateLimit returned Allowed")
			}
		}
	}
}

func c28Slots(c *Ctx) {
	nf := c.MustFunc("C28.SLOTS", "internal/governance.newSlidingWindowCounter")
	adv := c.MustFunc("C28.SLOTS", "(*internal/governance.slidingWindowCounter).advance")
	if nf == nil || adv == nil {
		return
	}
	// divisor of windowSize / slotCount
	var divisor ssa.Value
	for _, in := range instrs(nf, false) {
		if bo, ok := in.(*ssa.BinOp); ok && bo.Op == token.QUO && isParam(nf, "windowSize")(bo.X) {
			divisor = bo.Y
			if cv, ok := divisor.(*ssa.Convert); ok {
				divisor = cv.X
			}
		}
	}
	var mk *ssa.MakeSlice
	for _, in := range instrs(nf, false) {
		if m, ok := in.(*ssa.MakeSlice); ok {
			mk = m
		}
	}
	if divisor == nil || mk == nil {
		c.Unk("C28.SLOTS", "newSlidingWindowCounter|ring-size", nf.Pos(), "cannot find slotDuration = windowSize / n or the ring allocation")
	} else {
		extra := int64(-1)
		if mk.Len == divisor {
			extra = 0
		} else if bo, ok := mk.Len.(*ssa.BinOp); ok && bo.Op == token.ADD {
			if k, isC := constInt(bo.Y); isC && bo.X == divisor {
				extra = k
			}
			if k, isC := constInt(bo.X); isC && bo.Y == divisor {
				extra = k
			}
		}
		switch {
		case extra >= 1:
			c.OK("C28.SLOTS", "newSlidingWindowCounter|ring-size", mk.Pos(), "ring holds windowSize/slotDuration + %d slots", extra)
		case extra == 0:
			c.Bad("C28.SLOTS", "newSlidingWindowCounter|ring-size", mk.Pos(), "the ring holds exactly windowSize/slotDuration slots: a window ending inside the current slot starts inside the slot that has just been dropped, so up to twice the limit is admitted within one window length")
		default:
			c.Unk("C28.SLOTS", "newSlidingWindowCounter|ring-size", mk.Pos(), "ring length is neither n nor n + constant for the n used in slotDuration = windowSize / n")
		}
	}
	// advance: modulus and whole-ring threshold use len(slots)
	isRingLen := func(v ssa.Value) bool {
		call, ok := v.(*ssa.Call)
		if !ok {
			return false
		}
		b, ok := call.Call.Value.(*ssa.Builtin)
		return ok && b.Name() == "len" && loadsField(call.Call.Args[0], "slidingWindowCounter", "slots")
	}
	modOK, thrOK, modSeen, thrSeen := false, false, false, false
	for _, in := range instrs(adv, false) {
		bo, ok := in.(*ssa.BinOp)
		if !ok {
			continue
		}
		if bo.Op == token.REM {
			modSeen = true
			if isRingLen(bo.Y) {
				modOK = true
			}
		}
		if (bo.Op == token.GEQ || bo.Op == token.GTR) && !isNilConst(bo.Y) {
			if _, isC := bo.Y.(*ssa.Const); !isC {
				if isRingLen(bo.Y) {
					thrSeen, thrOK = true, true
				} else if loadsField(bo.Y, "slidingWindowCounter", "slotCount") {
					thrSeen = true
				}
			}
		}
	}
	c.Check(modSeen && modOK, "C28.SLOTS", "advance|wraps-by-ring-length", adv.Pos(), "the cursor wraps modulo len(slots)", "the cursor does not wrap modulo the ring's own length: with a ring of n+1 slots a modulus of n never visits (and never expires) the extra slot")
	c.Check(thrSeen && thrOK, "C28.SLOTS", "advance|expiry-by-ring-length", adv.Pos(), "whole-ring expiry is detected against len(slots)", "whole-ring expiry is not tested against the ring's own length")
}

func c28Sum(c *Ctx) {
	tn := "slidingWindowCounter"
	for _, fn := range c.P.MethodsOf(govPkg, tn) {
		for _, in := range instrs(fn, false) {
			st, ok := in.(*ssa.Store)
			if !ok {
				continue
			}
			if sn, f, _, ok := fieldOf(st.Addr); !ok || sn != tn || f != "total" {
				continue
			}
			construct := fmt.Sprintf("%s|total-store@L", fn.Name())
			slotStoreInBlock := func(pred func(*ssa.Store) bool) bool {
				for _, x := range st.Block().Instrs {
					if s2, ok := x.(*ssa.Store); ok {
						if ia, ok := s2.Addr.(*ssa.IndexAddr); ok && loadsField(ia.X, tn, "slots") && pred(s2) {
							return true
						}
					}
				}
				return false
			}
			switch v := st.Val.(type) {
			case *ssa.Const:
				// total = 0 : the ring must be zeroed on this path (a loop storing 0 into every slot, or clear)
				zeroed := false
				for _, x := range instrs(fn, false) {
					switch y := x.(type) {
					case *ssa.Store:
						if ia, ok := y.Addr.(*ssa.IndexAddr); ok && loadsField(ia.X, tn, "slots") {
							if k, isC := constInt(y.Val); isC && k == 0 {
								// the zeroing loop must lie on every path to this store: its loop header dominates st
								if y.Block().Idom() != nil && (y.Block().Idom().Dominates(st.Block()) || y.Block().Dominates(st.Block())) {
									// and be inside a range/for loop over the ring (not the single-slot expiry)
									if _, isConstIdx := ia.Index.(*ssa.Const); !isConstIdx && !sameBlockSub(y, tn) {
										zeroed = true
									}
								}
							}
						}
					case *ssa.Call:
						if b, ok := y.Call.Value.(*ssa.Builtin); ok && b.Name() == "clear" && loadsField(y.Call.Args[0], tn, "slots") && instrDominates(y, st) {
							zeroed = true
						}
					}
				}
				c.Check(zeroed, "C28.SUM", construct+"zero:"+fn.Name(), st.Pos(), "total = 0 is accompanied by zeroing every slot", "total is reset to 0 without zeroing the slot ring: stale slot counts are later subtracted from total as the cursor passes them, total goes negative and the limiter over-admits")
			case *ssa.BinOp:
				switch v.Op {
				case token.SUB:
					ok := slotStoreInBlock(func(s2 *ssa.Store) bool { k, isC := constInt(s2.Val); return isC && k == 0 })
					c.Check(ok, "C28.SUM", construct+"sub:"+fn.Name(), st.Pos(), "total -= slot is followed by slot = 0 in the same block", "a slot's count is subtracted from total without the slot being cleared")
				case token.ADD:
					ok := slotStoreInBlock(func(s2 *ssa.Store) bool {
						b2, ok := s2.Val.(*ssa.BinOp)
						return ok && b2.Op == token.ADD
					})
					c.Check(ok, "C28.SUM", construct+"add:"+fn.Name(), st.Pos(), "total++ is paired with slot++ in the same block", "total is incremented without the current slot being incremented")
				}
			}
		}
	}
	c.Floor("C28.SUM", 3, "reset, expiry and admit updates of total")
}

// sameBlockSub: the store's block also contains `total -= …` (the per-slot expiry loop, not the whole-ring reset).
func sameBlockSub(st *ssa.Store, tn string) bool {
	for _, x := range st.Block().Instrs {
		if s2, ok := x.(*ssa.Store); ok {
			if sn, f, _, ok := fieldOf(s2.Addr); ok && sn == tn && f == "total" {
				if b, ok := s2.Val.(*ssa.BinOp); ok && b.Op == token.SUB {
					return true
				}
			}
		}
	}
	return false
}
