package main

import (
	"fmt"
	"regexp"
	"strings"

	"golang.org/x/tools/go/ssa"
)

func init() {
	register("C29", runC29,
		"contiguity over concrete histories that mix manual and scheduled runs, scheduler tick behaviour and restarts, and sub-second truncation of the RFC3339 watermark; decided are: who may advance the watermark and under which outcome, that the stored watermark and the {end_time} the query ran with are one value in one layout, that a scheduled window's start comes from the watermark alone whenever one exists, that the execution row and the watermark are written in one transaction, and that output rows are labelled with the unmodified window start")
}

const cqH = "(*internal/api.ContinuousQueryHandler)."

func runC29(c *Ctx) {
	c.Rule("C29.BARE", "SQLT: the statements that read a continuous query select last_processed_time as the bare column — no COALESCE / CASE / IFNULL that substitutes another instant (the end of a failed execution, say) when it is NULL")
	{
		n := 0
		re := regexp.MustCompile(`(?is)(coalesce|ifnull|nullif|case\b|iif)[^,]{0,200}last_processed_time`)
		for _, name := range []string{"getQuery", "getQueries"} {
			fn := c.P.Func("(*internal/api.ContinuousQueryHandler)." + name)
			if fn == nil {
				continue
			}
			for _, site := range sqlSites(fn) {
				for _, t := range site.Tmpls {
					if !strings.Contains(strings.ToLower(t), "last_processed_time") {
						continue
					}
					n++
					c.Check(!re.MatchString(t), "C29.BARE", fmt.Sprintf("%s|select#%d", name, n), site.Call.Pos(), "last_processed_time is read as the bare column", name+" reads the watermark through a fallback expression: for a query that never succeeded, the end of a failed execution becomes the start of the next window, and the failed range is never processed")
				}
			}
		}
		c.Check(n >= 1, "C29.BARE", "continuous_query|select-sites", 0, fmt.Sprintf("%d SELECT template(s) reading the watermark inspected", n), "no SELECT reading last_processed_time found in getQuery/getQueries (rule needs review)")
	}
	p := c.P
	c.Rule("C29.ADVANCE", "WHO+DOM: continuous_queries.last_processed_time is updated only inside recordExecutionAndUpdateTime (the stand-alone updater must stay unused), and every call of it is dominated by executeAggregation having returned nil")
	c.Rule("C29.SAME", "FLOW: in each executor the end value handed to recordExecutionAndUpdateTime is the very value formatted into the query's {end_time}, and the stored watermark and the substituted literal use the same layout constant")
	c.Rule("C29.START", "FLOW+DOM: every clock-derived contribution to the window start handed to executeAggregation executes only where no watermark (and no explicit request start) exists: with a watermark the start is the watermark, unclamped")
	c.Rule("C29.TX", "ORDER: recordExecutionAndUpdateTime writes the execution row and the watermark through one transaction and commits after both")
	c.Rule("C29.LABEL", "FLOW: the time label stamped on output rows derives from executeAggregation's startTime parameter without truncation or rounding")

	// ---- ADVANCE
	nUpd := 0
	for _, fn := range p.MethodsOf("internal/api", "ContinuousQueryHandler") {
		for _, s := range sqlSites(fn) {
			if !s.IsExec {
				continue
			}
			for _, t := range s.Tmpls {
				low := strings.ToLower(strings.Join(strings.Fields(t), " "))
				if !strings.Contains(low, "update continuous_queries") || !strings.Contains(low, "last_processed_time") {
					continue
				}
				nUpd++
				name := fn.Name()
				switch name {
				case "recordExecutionAndUpdateTime":
					c.OK("C29.ADVANCE", name+"|watermark-update", s.Call.Pos(), "the transactional recorder updates the watermark")
				case "updateLastProcessedTime":
					// must have no callers
					callers := 0
					for _, g := range p.FuncsIn("internal/api") {
						for _, call := range callsIn(g, true) {
							if call.Common().StaticCallee() == fn {
								callers++
							}
						}
					}
					c.Check(callers == 0, "C29.ADVANCE", name+"|unused", s.Call.Pos(), "the non-transactional watermark updater has no callers", fmt.Sprintf("the non-transactional watermark updater is called from %d site(s): the watermark can advance without the execution having been recorded as successful", callers))
				default:
					c.Bad("C29.ADVANCE", name+"|watermark-update", s.Call.Pos(), "last_processed_time is updated in %s, outside recordExecutionAndUpdateTime", name)
				}
			}
		}
	}
	if nUpd == 0 {
		c.Unk("C29.ADVANCE", "watermark-update", 0, "no UPDATE of last_processed_time found")
	}

	for _, exName := range []string{"ExecuteCQ", "handleExecute"} {
		fn := c.MustFunc("C29.ADVANCE", cqH+exName)
		if fn == nil {
			continue
		}
		var agg, rec ssa.CallInstruction
		for _, call := range callsIn(fn, false) {
			switch callName(call) {
			case cqH + "executeAggregation":
				agg = call
			case cqH + "recordExecutionAndUpdateTime":
				rec = call
			}
		}
		if agg == nil || rec == nil {
			c.Bad("C29.ADVANCE", exName+"|anchors", fn.Pos(), "%s does not call executeAggregation and recordExecutionAndUpdateTime", exName)
			continue
		}
		c.Check(callSucceededBefore(agg, rec.(ssa.Instruction)), "C29.ADVANCE", exName+"|advance-after-success", rec.Pos(), "the watermark advances only where executeAggregation returned nil", "the watermark is advanced although executeAggregation may have failed: the failed window is never reprocessed")
		// failure path must not record success
		for _, call := range callsIn(fn, false) {
			if callName(call) == cqH+"recordExecutionAndUpdateTime" && call != rec {
				c.Check(callSucceededBefore(agg, call.(ssa.Instruction)), "C29.ADVANCE", exName+"|advance-after-success#"+siteOrdinal(fn, call), call.Pos(), "dominated by success", "watermark advanced on a failure path")
			}
		}

		// ---- SAME
		aggArgs := agg.Common().Args // recv, ctx, cq, query, start, end
		recArgs := rec.Common().Args // recv, queryID, executionID, start, end, ...
		startAgg, endAgg := aggArgs[4], aggArgs[5]
		startRec, endRec := recArgs[3], recArgs[4]
		sameEnd := samePathValue(endAgg, endRec) || endAgg == endRec
		sameStart := samePathValue(startAgg, startRec) || startAgg == startRec
		// the {end_time} literal: a Format call on the same end value flows into the executed query
		query := aggArgs[3]
		var endFmtLayout, startFmtLayout string
		backSlice(query, 10, func(v ssa.Value) bool {
			if call, ok := v.(*ssa.Call); ok && callName(call) == "(time.Time).Format" {
				lay, _ := constString(call.Call.Args[1])
				if samePathValue(call.Call.Args[0], endAgg) || call.Call.Args[0] == endAgg {
					endFmtLayout = lay
				}
				if samePathValue(call.Call.Args[0], startAgg) || call.Call.Args[0] == startAgg {
					startFmtLayout = lay
				}
			}
			return true
		})
		var miss []string
		if !sameEnd {
			miss = append(miss, "the end handed to recordExecutionAndUpdateTime is not the end the aggregation ran with")
		}
		if !sameStart {
			miss = append(miss, "the start recorded is not the start the aggregation ran with")
		}
		if endFmtLayout == "" {
			miss = append(miss, "the executed query's {end_time} is not formatted from that same end value")
		}
		if startFmtLayout == "" {
			miss = append(miss, "the executed query's {start_time} is not formatted from that same start value")
		}
		stored := c29StoredLayout(c)
		if endFmtLayout != "" && stored != "" && endFmtLayout != stored {
			miss = append(miss, fmt.Sprintf("{end_time} is rendered with layout %q but the watermark is stored with %q: the next window starts at a different instant than this one ended", endFmtLayout, stored))
		}
		if len(miss) == 0 {
			c.OK("C29.SAME", exName+"|window-values", rec.Pos(), "one start and one end value feed the query text, the aggregation and the record; literal and watermark share layout %q", endFmtLayout)
		} else {
			c.Bad("C29.SAME", exName+"|window-values", rec.Pos(), "%s", strings.Join(miss, "; "))
		}

		// ---- START
		var clockBad []string
		nClock := 0
		for _, call := range findCalls(fn, false, "time.Now") {
			v := callValue(call)
			if v == nil || !derives(startAgg, func(x ssa.Value) bool { return x == v }, true, 12) {
				continue
			}
			nClock++
			in := call.(ssa.Instruction)
			okNoMark := hasFieldFact(in, factNil, "ContinuousQuery.LastProcessedTime")
			if !okNoMark {
				clockBad = append(clockBad, fmt.Sprintf("time.Now() at L%d contributes to the window start although a watermark may exist", p.Line(call.Pos())))
			}
		}
		usesMark := fieldSources(startAgg, 12)["ContinuousQuery.LastProcessedTime"]
		switch {
		case !usesMark:
			c.Bad("C29.START", exName+"|start-from-watermark", agg.Pos(), "the window start does not derive from cq.LastProcessedTime: successive windows are not chained")
		case len(clockBad) > 0:
			c.Bad("C29.START", exName+"|start-from-watermark", agg.Pos(), "%s — the span between the watermark and that instant is skipped for good", strings.Join(clockBad, "; "))
		default:
			c.OK("C29.START", exName+"|start-from-watermark", agg.Pos(), "start = watermark when one exists; the %d clock-derived start(s) execute only without a watermark", nClock)
		}
	}

	// ---- TX
	rt := c.MustFunc("C29.TX", cqH+"recordExecutionAndUpdateTime")
	if rt != nil {
		var begin, commit ssa.CallInstruction
		var execs []ssa.CallInstruction
		direct := 0
		for _, call := range callsIn(rt, false) {
			n := callName(call)
			switch {
			case n == "(*database/sql.DB).Begin" || n == "(*database/sql.DB).BeginTx":
				begin = call
			case n == "(*database/sql.Tx).Commit":
				commit = call
			case n == "(*database/sql.Tx).Exec" || n == "(*database/sql.Tx).ExecContext":
				execs = append(execs, call)
			case n == "(*database/sql.DB).Exec" || n == "(*database/sql.DB).ExecContext":
				direct++
			}
		}
		ok := begin != nil && commit != nil && len(execs) >= 2 && direct == 0
		if ok {
			for _, e := range execs {
				if !callSucceededBefore(e, commit.(ssa.Instruction)) || e.Common().Args[0] != resultN(begin, 0) {
					ok = false
				}
			}
		}
		c.Check(ok, "C29.TX", "recordExecutionAndUpdateTime|one-transaction", rt.Pos(), "execution row and watermark are written through one transaction, committed after both succeeded", "the execution row and the watermark are not written atomically: a crash between them records a success without advancing the window (reprocessed twice) or advances the window without a record")
	}

	// ---- LABEL
	ea := c.MustFunc("C29.LABEL", cqH+"executeAggregation")
	if ea != nil {
		n := 0
		for _, call := range callsIn(ea, true) {
			nm := callName(call)
			if nm != "(time.Time).UnixMicro" && nm != "(time.Time).UnixNano" && nm != "(time.Time).UnixMilli" && nm != "(time.Time).Unix" {
				continue
			}
			recv := call.Common().Args[0]
			if !derives(recv, isParam(ea, "startTime"), true, 8) {
				continue
			}
			n++
			altered := ""
			backSlice(recv, 8, func(v ssa.Value) bool {
				if cl, ok := v.(*ssa.Call); ok {
					switch callName(cl) {
					case "(time.Time).Truncate", "(time.Time).Round", "(time.Time).Add", "(time.Time).AddDate":
						altered = callName(cl)
					}
				}
				return true
			})
			c.Check(altered == "", "C29.LABEL", "executeAggregation|label#"+fmt.Sprint(n), call.Pos(), "rows are labelled with the window start itself", "the row label is computed from the window start through "+altered+": windows that start off that grid are labelled earlier than they begin, and distinct windows inside one bucket share a label")
		}
		if n == 0 {
			c.Bad("C29.LABEL", "executeAggregation|label", ea.Pos(), "no output label derives from the window start parameter")
		}
	}
}

// c29StoredLayout: the layout constant used to format the watermark in recordExecutionAndUpdateTime.
func c29StoredLayout(c *Ctx) string {
	rt := c.P.Func(cqH + "recordExecutionAndUpdateTime")
	if rt == nil {
		return ""
	}
	for _, s := range sqlSites(rt) {
		for _, t := range s.Tmpls {
			if strings.Contains(strings.ToLower(t), "last_processed_time") {
				for _, b := range bindArgs(s.Call) {
					if call, ok := b.(*ssa.Call); ok && callName(call) == "(time.Time).Format" {
						if isParam(rt, "endTime")(call.Call.Args[0]) {
							lay, _ := constString(call.Call.Args[1])
							return lay
						}
					}
				}
			}
		}
	}
	return ""
}
