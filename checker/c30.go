package main

import (
	"fmt"
	"go/constant"
	"go/token"
	"go/types"
	"sort"
	"strings"

	"golang.org/x/tools/go/ssa"
)

func init() {
	register("C30", runC30,
		"target selection among capable peers (health, load balancing), HTTP proxying fidelity, and runtime registry contents; decided are: which routes consult the forwarding decision before touching the ingest buffer or executing caller SQL, that every decision site handles all three outcomes and never processes an already-forwarded request locally, that outgoing forwards carry the marker and client copies of it are stripped, that capabilities cover every role, and that forwarding targets are taken only from the capable sets")
}

func isBufferWrite(call ssa.CallInstruction) bool {
	n := callName(call)
	return strings.HasPrefix(n, "(*internal/ingest.ArrowBuffer).Write")
}

func isUserSQLExec(call ssa.CallInstruction) bool {
	n := callName(call)
	return strings.HasPrefix(n, "(*internal/api.QueryHandler).getTransformedSQL") || n == "(*internal/api.QueryHandler).executeQueryInternal"
}

func runC30(c *Ctx) {
	c.Rule("C30.ONCE", "PATH: in every function of internal/api that relays a forwarded response (CopyResponse), no path leads from that call to c.Next(): a request answered by a peer is not also processed by the local handler")
	{
		n := 0
		for _, fn := range c.P.FuncsIn("internal/api") {
			for _, call := range findCalls(fn, true, "internal/api.CopyResponse") {
				n++
				reaches := false
				var nextPos token.Pos
				seen := map[*ssa.BasicBlock]bool{}
				var scan func(b *ssa.BasicBlock, from int)
				scan = func(b *ssa.BasicBlock, from int) {
					for i := from; i < len(b.Instrs); i++ {
						if ci, ok := b.Instrs[i].(ssa.CallInstruction); ok && ci != call {
							nm := callName(ci)
							if strings.HasSuffix(nm, "fiber/v2.Ctx).Next") {
								reaches = true
								nextPos = ci.Pos()
								return
							}
						}
					}
					for _, sc := range b.Succs {
						if !seen[sc] {
							seen[sc] = true
							scan(sc, 0)
						}
					}
				}
				idx := instrIndex(call.(ssa.Instruction))
				scan(call.Block(), idx+1)
				_ = nextPos
				c.Check(!reaches, "C30.ONCE", fmt.Sprintf("%s|relay#%d-ends-the-request", call.Parent().Name(), n), call.Pos(), "nothing after the relayed response runs the local handler chain", call.Parent().Name()+" relays the peer's response and then falls through to c.Next(): the node that could not serve the request processes it locally as well (a reader runs the import it just forwarded, a compactor overwrites the peer's query answer)")
			}
		}
		c.Check(n >= 5, "C30.ONCE", "internal/api|relay-sites", 0, fmt.Sprintf("%d relay sites inspected", n), "fewer relay sites than confirmed by hand (5)")
	}
	p := c.P
	c.Rule("C30.ENTRY", "PASS: every registered route whose handler can reach an ingest-buffer write consults WriteForwardDecision (or is restricted to the primary writer through IsPrimaryWriter), and every route whose handler transforms and executes caller SQL consults QueryForwardDecision")
	c.Rule("C30.THREE", "COVER+PASS: every handler that takes the forwarding decision compares it with ForwardAlreadyForwarded and that branch cannot reach local processing; the boolean ShouldForward* helpers (which fold 'already forwarded' into 'handle locally') are not used by handlers")
	c.Rule("C30.MARK", "PASS+WHO: doForward sets X-Arc-Forwarded-By before the only httpClient.Do, and BuildHTTPRequest copies a client header only where isClientForwardingHeader (whose table contains the marker) said no")
	c.Rule("C30.CAPS", "COVER: GetCapabilities has an arm for every NodeRole constant and its default arm grants nothing")
	c.Rule("C30.TARGET", "FLOW: the node RouteWrite forwards to comes only from GetPrimaryWriter/GetWriters, and the node RouteQuery forwards to only from GetReaders/GetWriters — never from an all-healthy-nodes listing")

	routes := routeTable(p, "internal/api")
	nW, nQ := 0, 0
	for _, r := range routes {
		if r.Handler == nil {
			continue
		}
		write := reaches(r.Handler, isBufferWrite, 5, nil)
		query := recvTypeName(r.Handler) == "QueryHandler" && reaches(r.Handler, isUserSQLExec, 4, nil)
		construct := fmt.Sprintf("%s %s|%s", r.Method, r.Path, r.Handler.Name())
		if write {
			nW++
			dec := c30Decides(r, true)
			primary := reaches(r.Handler, func(call ssa.CallInstruction) bool { return strings.HasSuffix(callName(call), ").IsPrimaryWriter") }, 2, nil)
			switch {
			case dec:
				c.OK("C30.ENTRY", construct, r.Pos, "write route takes the forwarding decision")
			case primary:
				c.OK("C30.ENTRY", construct, r.Pos, "route writes only on the primary writer (IsPrimaryWriter gate)")
			default:
				c.Bad("C30.ENTRY", construct, r.Pos, "route %s %s reaches an ingest-buffer write but %s never consults the forwarding decision (the handler has no router): on a reader or compactor node the request is ingested locally instead of being forwarded or refused", r.Method, r.Path, r.Handler.Name())
			}
		}
		if query {
			nQ++
			dec := c30Decides(r, false)
			if dec {
				c.OK("C30.ENTRY", construct, r.Pos, "query route takes the forwarding decision")
			} else {
				c.Bad("C30.ENTRY", construct, r.Pos, "route %s %s transforms and executes caller SQL but %s never consults the forwarding decision: a node whose role cannot query (compactor) serves it locally", r.Method, r.Path, r.Handler.Name())
			}
		}
	}
	c.Floor("C30.ENTRY", 8, "write and query routes")

	// ---- THREE
	nD := 0
	for _, fn := range p.FuncsIn("internal/api") {
		if fn.Name() == "decideForward" || strings.HasPrefix(fn.Name(), "ShouldForward") || strings.HasSuffix(fn.Name(), "ForwardDecision") {
			continue
		}
		for _, call := range callsIn(fn, false) {
			n := callName(call)
			if n == "internal/api.ShouldForwardWrite" || n == "internal/api.ShouldForwardQuery" {
				nD++
				c.Bad("C30.THREE", recvTypeName(fn)+"."+fn.Name()+"|uses-boolean-helper", call.Pos(), "%s decides with %s, which answers false both for 'serve locally' and for 'already forwarded': a request carrying X-Arc-Forwarded-By on a node that cannot serve it falls through to local processing", fn.Name(), n[strings.LastIndex(n, ".")+1:])
				continue
			}
			if n != "internal/api.WriteForwardDecision" && n != "internal/api.QueryForwardDecision" && n != "internal/api.decideForward" {
				continue
			}
			nD++
			dv := callValue(call)
			construct := recvTypeName(fn) + "." + fn.Name() + "|" + n[strings.LastIndex(n, ".")+1:]
			// find comparison with ForwardAlreadyForwarded
			var rejectSucc *ssa.BasicBlock
			for _, r := range *dv.Referrers() {
				bo, ok := r.(*ssa.BinOp)
				if !ok || bo.Op != token.EQL {
					continue
				}
				k, ok := bo.Y.(*ssa.Const)
				if !ok || k.Value == nil {
					continue
				}
				if v, _ := constant.Int64Val(k.Value); v != c30Const(p, "ForwardAlreadyForwarded") {
					continue
				}
				for _, r2 := range *bo.Referrers() {
					if ifi, ok := r2.(*ssa.If); ok {
						rejectSucc = ifi.Block().Succs[0]
					}
				}
			}
			if rejectSucc == nil {
				c.Bad("C30.THREE", construct, call.Pos(), "%s never distinguishes ForwardAlreadyForwarded: an already-forwarded request that this node cannot serve is processed locally or forwarded again", fn.Name())
				continue
			}
			local := false
			for _, e := range pathsAvoidingTo(fn, nil, rejectSucc, func(ssa.Instruction) bool { return false }, func(x ssa.Instruction) bool {
				cc, ok := x.(ssa.CallInstruction)
				if !ok {
					return false
				}
				if isBufferWrite(cc) || isUserSQLExec(cc) || callName(cc) == "(*github.com/gofiber/fiber/v2.Ctx).Next" {
					return true
				}
				cal := cc.Common().StaticCallee()
				return cal != nil && cal.Pkg != nil && relPkg(cal.Pkg.Pkg.Path()) == "internal/api" && (reaches(cal, isBufferWrite, 3, nil) || reaches(cal, isUserSQLExec, 3, nil)) && cal.Name() != "RespondAlreadyForwarded"
			}) {
				if _, isRet := e.Instr.(*ssa.Return); !isRet {
					local = true
				}
			}
			c.Check(!local, "C30.THREE", construct, call.Pos(), "the already-forwarded branch returns without local processing", "the ForwardAlreadyForwarded branch can reach local processing")
		}
	}
	c.Floor("C30.THREE", 5, "msgpack, line protocol, TLE and query decision sites and the shared middleware")

	// ---- WIRE
	c.Rule("C30.WIRE", "COVER: every internal/api handler type that holds a *cluster.Router gets it from cmd/arc's wiring (SetRouter is called on it): a handler whose router stays nil always decides 'local'")
	mainFns := p.FuncsIn("cmd/arc")
	for _, tn := range c30RouterHolders(p) {
		setter := p.Func("(*internal/api." + tn + ").SetRouter")
		called := false
		if setter != nil {
			for _, fn := range mainFns {
				for _, call := range callsIn(fn, true) {
					if call.Common().StaticCallee() == setter {
						called = true
					}
				}
			}
		}
		c.Check(called, "C30.WIRE", tn+"|SetRouter-called", 0, "cmd/arc hands the cluster router to "+tn, tn+" holds a router field that cmd/arc never sets: in a cluster its endpoints always process locally, whatever the node's role")
	}
	c.Floor("C30.WIRE", 5, "msgpack, line protocol, TLE, import and query handlers")

	// ---- DECIDE
	c.Rule("C30.DECIDE", "DOM+FLOW: decideForward answers ForwardLocal only where there is no router or CanRouteLocally(isWrite) returned true, reads the client-settable marker only after CanRouteLocally returned false, and CanRouteLocally answers from CanIngest for writes and CanQuery for queries")
	if dfn := c.MustFunc("C30.DECIDE", "internal/api.decideForward"); dfn != nil {
		var can *ssa.Call
		for _, call := range findCalls(dfn, false, "(*internal/cluster.Router).CanRouteLocally") {
			can, _ = call.(*ssa.Call)
		}
		localV := c30Const(p, "ForwardLocal")
		nRet := 0
		for _, in := range instrs(dfn, false) {
			ret, ok := in.(*ssa.Return)
			if !ok {
				continue
			}
			var vals []ssa.Value
			if phi, ok := ret.Results[0].(*ssa.Phi); ok {
				vals = phi.Edges
			} else {
				vals = []ssa.Value{ret.Results[0]}
			}
			for i, v := range vals {
				k, ok := v.(*ssa.Const)
				if !ok || k.Value == nil {
					c.Unk("C30.DECIDE", "decideForward|return", ret.Pos(), "non-constant decision")
					continue
				}
				if iv, _ := constant.Int64Val(k.Value); iv != localV {
					continue
				}
				nRet++
				var at ssa.Instruction = ret
				okLocal := false
				var fs []fact
				if _, isPhi := ret.Results[0].(*ssa.Phi); isPhi {
					pred := ret.Block().Preds[i]
					fs = append(factsAtBlock(pred), blockEdgeFactsDirect(pred, ret.Block())...)
				} else {
					fs = factsAt(at)
				}
				for _, f := range fs {
					if f.Kind == factNil && isParam(dfn, "router")(f.Val) {
						okLocal = true
					}
					if f.Kind == factTrue && can != nil && f.Val == ssa.Value(can) {
						okLocal = true
					}
				}
				c.Check(okLocal, "C30.DECIDE", fmt.Sprintf("decideForward|local-only-when-capable#%d", nRet), ret.Pos(), "ForwardLocal only without a router or with a capable local role", "decideForward can answer ForwardLocal although the local role cannot serve the request")
			}
		}
		if nRet == 0 {
			c.Unk("C30.DECIDE", "decideForward|local-only-when-capable", dfn.Pos(), "no ForwardLocal return found")
		}
		if can != nil {
			c.Check(isParam(dfn, "isWrite")(can.Call.Args[1]), "C30.DECIDE", "decideForward|capability-kind", can.Pos(), "capability asked for the request's own kind", "decideForward asks CanRouteLocally about a different request kind than the one being decided")
		}
		for _, call := range callsIn(dfn, false) {
			if callName(call) == "(*github.com/gofiber/fiber/v2.Ctx).Get" {
				c.Check(can != nil && guardedFalse(call.(ssa.Instruction), can), "C30.DECIDE", "decideForward|marker-read-only-when-incapable", call.Pos(), "the marker is read only after CanRouteLocally returned false", "decideForward consults the client-settable forwarded-by marker on a node that could serve the request: a client header changes the capable-node path")
			}
		}
	}
	if crl := c.MustFunc("C30.DECIDE", "(*internal/cluster.Router).CanRouteLocally"); crl != nil {
		n := 0
		for _, in := range instrs(crl, false) {
			ret, ok := in.(*ssa.Return)
			if !ok {
				continue
			}
			if k, ok := ret.Results[0].(*ssa.Const); ok && k.Value != nil && !constant.BoolVal(k.Value) {
				continue // "cannot" is always safe
			}
			src := fieldSources(ret.Results[0], 4)
			isW, isQ := false, false
			for _, f := range factsAt(ret) {
				if isParam(crl, "isWrite")(f.Val) {
					isW = f.Kind == factTrue
					isQ = f.Kind == factFalse
				}
			}
			n++
			switch {
			case isW:
				c.Check(src["RoleCapabilities.CanIngest"] && !src["RoleCapabilities.CanQuery"], "C30.DECIDE", "CanRouteLocally|write-capability", ret.Pos(), "writes are answered from CanIngest", "CanRouteLocally answers a write from something other than CanIngest")
			case isQ:
				c.Check(src["RoleCapabilities.CanQuery"] && !src["RoleCapabilities.CanIngest"], "C30.DECIDE", "CanRouteLocally|query-capability", ret.Pos(), "queries are answered from CanQuery", "CanRouteLocally answers a query from something other than CanQuery")
			default:
				c.Bad("C30.DECIDE", fmt.Sprintf("CanRouteLocally|return#%d", n), ret.Pos(), "CanRouteLocally can answer true without regard to the request kind")
			}
		}
	}
	c.Floor("C30.DECIDE", 5, "decideForward returns, marker read, capability kind, CanRouteLocally arms")

	// ---- SETS
	c.Rule("C30.SETS", "DOM: the registry listings forwarding draws from admit a node only under the role comparison that makes it capable (GetWriters/GetPrimaryWriter: Role == writer; GetReaders: Role == reader), and RouteWrite/RouteQuery answer ErrLocalNodeCanHandle only where the local role's CanIngest/CanQuery is true")
	for _, g := range []struct{ fn, role string }{{"GetWriters", "writer"}, {"GetReaders", "reader"}, {"GetPrimaryWriter", "writer"}} {
		fn := c.MustFunc("C30.SETS", "(*internal/cluster.Registry)."+g.fn)
		if fn == nil {
			continue
		}
		target := fn
		if len(fn.AnonFuncs) == 1 {
			target = fn.AnonFuncs[0]
		}
		n, ok := c30TrueReturnsGuarded(target, g.role)
		if n == 0 {
			c.Unk("C30.SETS", g.fn+"|role-filter", fn.Pos(), "no admitting return found")
			continue
		}
		c.Check(ok, "C30.SETS", g.fn+"|role-filter", fn.Pos(), "a node is admitted only where Role == "+g.role, g.fn+" can return a node whose role is not "+g.role+": requests are forwarded to a peer that cannot serve them (and that peer, seeing the marker, refuses)")
	}
	for _, g := range []struct{ fn, field string }{{"RouteWrite", "RoleCapabilities.CanIngest"}, {"RouteQuery", "RoleCapabilities.CanQuery"}} {
		fn := c.MustFunc("C30.SETS", "(*internal/cluster.Router)."+g.fn)
		if fn == nil {
			continue
		}
		n := 0
		for _, in := range instrs(fn, false) {
			ret, ok := in.(*ssa.Return)
			if !ok || len(ret.Results) < 2 {
				continue
			}
			ld, ok := ret.Results[1].(*ssa.UnOp)
			if !ok {
				continue
			}
			gl, ok := ld.X.(*ssa.Global)
			if !ok || gl.Name() != "ErrLocalNodeCanHandle" {
				continue
			}
			n++
			c.Check(hasFieldFact(ret, factTrue, g.field), "C30.SETS", g.fn+"|local-only-when-capable", ret.Pos(), "ErrLocalNodeCanHandle only where "+g.field+" is true", g.fn+" can answer ErrLocalNodeCanHandle (the handler then processes locally) without the local role's "+g.field+" being true")
		}
		if n == 0 {
			c.Triv("C30.SETS", g.fn+"|local-only-when-capable", fn.Pos(), "never answers ErrLocalNodeCanHandle")
		}
	}
	c.Floor("C30.SETS", 5, "three listings and two local answers")

	// ---- MARK
	df := c.MustFunc("C30.MARK", "(*internal/cluster.Router).doForward")
	if df != nil {
		var do ssa.CallInstruction
		nDo := 0
		for _, call := range callsIn(df, false) {
			if callName(call) == "(*net/http.Client).Do" {
				do = call
				nDo++
			}
		}
		var set ssa.CallInstruction
		for _, call := range callsIn(df, false) {
			if callName(call) == "(net/http.Header).Set" {
				if s, ok := constString(call.Common().Args[1]); ok && strings.EqualFold(s, "X-Arc-Forwarded-By") {
					set = call
				}
			}
		}
		ok := do != nil && set != nil && nDo == 1 && instrDominates(set.(ssa.Instruction), do.(ssa.Instruction))
		c.Check(ok, "C30.MARK", "doForward|marker-before-send", df.Pos(), "X-Arc-Forwarded-By is set before the single httpClient.Do", "an outgoing forward can be sent without X-Arc-Forwarded-By: the receiving node forwards it again")
		if set != nil {
			c.Check(fieldSources(set.Common().Args[2], 5)["Node.ID"], "C30.MARK", "doForward|marker-value", set.Pos(), "marker carries the local node id (non-empty)", "the forwarded-by marker is not the local node id")
		}
	}
	// table contains the marker
	hasMarker := false
	if pkg := p.SSAPkgs["internal/api"]; pkg != nil {
		if init := pkg.Func("init"); init != nil {
			for _, in := range instrs(init, false) {
				if mu, ok := in.(*ssa.MapUpdate); ok {
					if s, ok := constString(mu.Key); ok && strings.EqualFold(s, "X-Arc-Forwarded-By") {
						// which map? stored into clientForwardingHeaders
						if derivesToGlobal(init, mu.Map, "clientForwardingHeaders") {
							hasMarker = true
						}
					}
				}
			}
		}
	}
	c.Check(hasMarker, "C30.MARK", "clientForwardingHeaders|contains-marker", 0, "the strip table lists X-Arc-Forwarded-By", "X-Arc-Forwarded-By is not in the table of client headers stripped before forwarding: a client can pre-mark a request")
	bh := c.MustFunc("C30.MARK", "internal/api.BuildHTTPRequest")
	if bh != nil {
		okStrip := false
		for _, a := range bh.AnonFuncs {
			var chk *ssa.Call
			for _, call := range callsIn(a, false) {
				if callName(call) == "internal/api.isClientForwardingHeader" {
					chk, _ = call.(*ssa.Call)
				}
			}
			if chk == nil {
				continue
			}
			all := true
			n := 0
			for _, in := range instrs(a, false) {
				if mu, ok := in.(*ssa.MapUpdate); ok {
					n++
					if !guardedFalse(mu, chk) {
						all = false
					}
				}
			}
			if n > 0 && all {
				okStrip = true
			}
		}
		c.Check(okStrip, "C30.MARK", "BuildHTTPRequest|strips-client-marker", bh.Pos(), "a header is copied only where isClientForwardingHeader returned false", "BuildHTTPRequest copies client headers without excluding the forwarding markers")
	}

	// ---- CAPS
	gc := c.MustFunc("C30.CAPS", "(internal/cluster.NodeRole).GetCapabilities")
	if gc != nil {
		roles := map[string]string{}
		if pkg := p.Pkgs["internal/cluster"]; pkg != nil {
			sc := pkg.Types.Scope()
			for _, n := range sc.Names() {
				if k, ok := sc.Lookup(n).(*types.Const); ok {
					if nt, ok := k.Type().(*types.Named); ok && nt.Obj().Name() == "NodeRole" {
						roles[constant.StringVal(k.Val())] = n
					}
				}
			}
		}
		handled := map[string]bool{}
		for _, in := range instrs(gc, false) {
			if bo, ok := in.(*ssa.BinOp); ok && bo.Op == token.EQL {
				if s, ok := constString(bo.Y); ok {
					handled[s] = true
				}
			}
		}
		var names []string
		for v := range roles {
			names = append(names, v)
		}
		sort.Strings(names)
		for _, v := range names {
			c.Check(handled[v], "C30.CAPS", "GetCapabilities|"+roles[v], gc.Pos(), "role has an arm", "role "+roles[v]+" has no arm in GetCapabilities and silently gets the default")
		}
		// default arm: the return reached when every comparison failed stores nothing true
		defOK := false
		for _, in := range instrs(gc, false) {
			r, ok := in.(*ssa.Return)
			if !ok {
				continue
			}
			if k, ok := r.Results[0].(*ssa.Const); ok && k.Value == nil {
				defOK = true // zero value struct constant
			}
			if ld, ok := r.Results[0].(*ssa.UnOp); ok {
				if a, ok := ld.X.(*ssa.Alloc); ok {
					stores := 0
					for _, rf := range *a.Referrers() {
						if fa, ok := rf.(*ssa.FieldAddr); ok {
							for _, r2 := range *fa.Referrers() {
								if st, ok := r2.(*ssa.Store); ok {
									if k, ok := st.Val.(*ssa.Const); ok && k.Value != nil && k.Value.Kind() == constant.Bool && constant.BoolVal(k.Value) {
										stores++
									}
								}
							}
						}
					}
					// the default literal is the one with no true field and reached from the last failed comparison
					if stores == 0 && len(factsAt(r)) >= len(names) {
						defOK = true
					}
				}
			}
		}
		c.Check(defOK, "C30.CAPS", "GetCapabilities|default-none", gc.Pos(), "an unknown role gets no capability", "the default arm of GetCapabilities grants a capability to unknown roles")
	}

	// ---- TARGET
	for fnName, allowed := range map[string][]string{
		"RouteWrite": {"(*internal/cluster.Registry).GetPrimaryWriter", "(*internal/cluster.Registry).GetWriters"},
		"RouteQuery": {"(*internal/cluster.Registry).GetReaders", "(*internal/cluster.Registry).GetWriters"},
	} {
		fn := c.MustFunc("C30.TARGET", "(*internal/cluster.Router)."+fnName)
		if fn == nil {
			continue
		}
		ok := map[string]bool{}
		for _, a := range allowed {
			ok[a] = true
		}
		for _, call := range findCalls(fn, false, "(*internal/cluster.Router).forwardRequest") {
			node := call.Common().Args[2]
			var bad []string
			n := 0
			backSlice(node, 12, func(v ssa.Value) bool {
				if cl, ok2 := v.(*ssa.Call); ok2 && strings.HasPrefix(callName(cl), "(*internal/cluster.Registry).") {
					n++
					if !ok[callName(cl)] {
						bad = append(bad, callName(cl)[strings.LastIndex(callName(cl), ".")+1:])
					}
					return false
				}
				return true
			})
			switch {
			case len(bad) > 0:
				c.Bad("C30.TARGET", fnName+"|target-source", call.Pos(), "%s can forward to a node taken from Registry.%s, which is not restricted to nodes whose role can serve the request", fnName, strings.Join(uniq(bad), ","))
			case n == 0:
				c.Unk("C30.TARGET", fnName+"|target-source", call.Pos(), "cannot trace the forwarding target to a registry listing")
			default:
				c.OK("C30.TARGET", fnName+"|target-source", call.Pos(), "targets come only from %s", strings.Join(allowed, ", "))
			}
		}
	}
}

// c30Decides: the route's handler, or a middleware registered before it, takes
// the forwarding decision for the given request kind (isWrite constant checked
// where decideForward is called directly).
func c30Decides(r route, isWrite bool) bool {
	want := "internal/api.QueryForwardDecision"
	if isWrite {
		want = "internal/api.WriteForwardDecision"
	}
	pred := func(call ssa.CallInstruction) bool {
		n := callName(call)
		if n == want {
			return true
		}
		if n == "internal/api.decideForward" || n == "internal/api.forwardOrNext" {
			args := call.Common().Args
			if k, ok := args[len(args)-1].(*ssa.Const); ok && k.Value != nil && k.Value.Kind() == constant.Bool {
				return constant.BoolVal(k.Value) == isWrite
			}
		}
		return false
	}
	if reaches(r.Handler, pred, 3, nil) {
		return true
	}
	for _, m := range r.MiddlewareFns {
		if m != nil && reaches(m, pred, 2, nil) {
			return true
		}
	}
	return false
}

// c30RouterHolders: struct types in internal/api with a field of type *cluster.Router.
func c30RouterHolders(p *Prog) []string {
	var out []string
	pkg := p.Pkgs["internal/api"]
	if pkg == nil {
		return nil
	}
	sc := pkg.Types.Scope()
	for _, n := range sc.Names() {
		tn, ok := sc.Lookup(n).(*types.TypeName)
		if !ok {
			continue
		}
		st, ok := tn.Type().Underlying().(*types.Struct)
		if !ok {
			continue
		}
		for i := 0; i < st.NumFields(); i++ {
			if strings.HasSuffix(st.Field(i).Type().String(), "internal/cluster.Router") {
				out = append(out, n)
				break
			}
		}
	}
	sort.Strings(out)
	return out
}

// c30RoleGuard: the facts include Node.Role == <role constant value>.
func c30RoleGuard(fs []fact, role string) bool {
	for _, f := range fs {
		if f.Kind != factCmp || f.Op != token.EQL {
			continue
		}
		x, y := f.X, f.Y
		if _, ok := x.(*ssa.Const); ok {
			x, y = y, x
		}
		if s, ok := constString(y); ok && s == role && fieldSources(x, 3)["Node.Role"] {
			return true
		}
	}
	return false
}

// c30TrueReturnsGuarded: every path on which fn returns something other than
// false/nil carries the role comparison.
func c30TrueReturnsGuarded(fn *ssa.Function, role string) (n int, ok bool) {
	ok = true
	for _, in := range instrs(fn, false) {
		ret, isRet := in.(*ssa.Return)
		if !isRet || len(ret.Results) == 0 || ret.Block() == fn.Recover {
			continue
		}
		res0 := unspill(ret, ret.Results[0])
		type cand struct {
			v  ssa.Value
			fs []fact
		}
		var cs []cand
		if phi, isPhi := res0.(*ssa.Phi); isPhi && phi.Block() == ret.Block() {
			for i, e := range phi.Edges {
				pred := ret.Block().Preds[i]
				cs = append(cs, cand{e, append(factsAtBlock(pred), blockEdgeFactsDirect(pred, ret.Block())...)})
			}
		} else {
			cs = append(cs, cand{res0, factsAt(ret)})
		}
		for _, cd := range cs {
			if k, isK := cd.v.(*ssa.Const); isK && (k.Value == nil || (k.Value.Kind() == constant.Bool && !constant.BoolVal(k.Value))) {
				continue
			}
			n++
			if !c30RoleGuard(cd.fs, role) {
				ok = false
			}
		}
	}
	return
}

// unspill: with a defer in the function, results are stored to a local and
// reloaded after rundefers; return the value stored in the return's own block.
func unspill(ret *ssa.Return, v ssa.Value) ssa.Value {
	ld, ok := v.(*ssa.UnOp)
	if !ok || ld.Op != token.MUL {
		return v
	}
	a, ok := ld.X.(*ssa.Alloc)
	if !ok {
		return v
	}
	var last ssa.Value
	for _, in := range ret.Block().Instrs {
		if st, ok := in.(*ssa.Store); ok && st.Addr == a {
			last = st.Val
		}
	}
	if last != nil {
		return last
	}
	return v
}

func c30Const(p *Prog, name string) int64 {
	if pkg := p.Pkgs["internal/api"]; pkg != nil {
		if k, ok := pkg.Types.Scope().Lookup(name).(*types.Const); ok {
			v, _ := constant.Int64Val(k.Val())
			return v
		}
	}
	return -1
}

// derivesToGlobal: map value m (a MakeMap in init) is stored into the named package-level variable.
func derivesToGlobal(init *ssa.Function, m ssa.Value, global string) bool {
	for _, in := range instrs(init, false) {
		if st, ok := in.(*ssa.Store); ok && st.Val == m {
			if g, ok := st.Addr.(*ssa.Global); ok && g.Name() == global {
				return true
			}
		}
	}
	return false
}
