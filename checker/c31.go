package main

import (
	"fmt"
	"go/constant"
	"go/token"
	"go/types"
	"sort"
	"strings"

	"golang.org/x/tools/go/ssa"
)

func init() {
	register("C31", runC31,
		"value-level fidelity of string-to-number parsing, float rounding of fractional epochs, magnitude auto-detection of unit-less epochs, and what the ingest pipeline does after the buffer write; decided are: that a file import stores nothing until every parse/convert step has succeeded and then stores all rows in one write, that the CSV read loop counts and keeps every row in every column, that column names and column data are paired by one index and the time column is the one the request named, that a literal time column cannot be overwritten by the renamed one, that every epoch/TIMESTAMP unit is scaled by exactly its factor (partial evaluation of the scaling functions for each unit constant), that numeric scaling is only reached with a validated time_format, that no integer narrowing is unguarded, and that each Arrow chunk element is written to exactly one output slot")
}

const ih = "(*internal/api.ImportHandler)."

func runC31(c *Ctx) {
	c.Rule("C31.SLAB", "WHO: in the in-process importers a window cut out of a shared backing slice is appended to only if it was cut with a full slice expression (s[lo:hi:max]); a 2-index window keeps the slab's remaining capacity, so an append past the estimate writes into the next column's cells instead of reallocating")
	{
		n := 0
		for _, fn := range c.P.FuncsIn("internal/api") {
			if !strings.Contains(c.P.Pos(fn.Pos()), "import_inprocess.go") {
				continue
			}
			for _, in := range instrs(fn, true) {
				sl, ok := in.(*ssa.Slice)
				if !ok || sl.Max != nil || (sl.Low == nil && sl.High == nil) {
					continue
				}
				if _, isSlice := sl.X.Type().Underlying().(*types.Slice); !isSlice {
					continue
				}
				if _, made := sl.X.(*ssa.MakeSlice); !made {
					continue
				}
				// does the window (possibly via a container) get appended to?
				appended := false
				var follow func(v ssa.Value, d int)
				seen := map[ssa.Value]bool{}
				follow = func(v ssa.Value, d int) {
					if v == nil || seen[v] || d > 6 {
						return
					}
					seen[v] = true
					refs := v.Referrers()
					if refs == nil {
						return
					}
					for _, r := range *refs {
						switch x := r.(type) {
						case *ssa.Call:
							if b, ok := x.Call.Value.(*ssa.Builtin); ok && b.Name() == "append" && x.Call.Args[0] == v {
								appended = true
							}
						case *ssa.Store:
							if x.Val == v {
								// stored into a slice-of-slices element: any append on an element of that container counts
								if ia, ok := x.Addr.(*ssa.IndexAddr); ok {
									for _, in2 := range instrs(sl.Parent(), false) {
										if ap, ok := in2.(*ssa.Call); ok {
											if b, ok := ap.Call.Value.(*ssa.Builtin); ok && b.Name() == "append" {
												if ld, ok := ap.Call.Args[0].(*ssa.UnOp); ok {
													if ia2, ok := ld.X.(*ssa.IndexAddr); ok && ia2.X == ia.X {
														appended = true
													}
												}
											}
										}
									}
								}
							}
						case *ssa.Phi:
							follow(x, d+1)
						}
					}
				}
				follow(sl, 0)
				if !appended {
					continue
				}
				n++
				c.Bad("C31.SLAB", fmt.Sprintf("%s|shared-window#%d", fn.Name(), n), sl.Pos(), "%s cuts a 2-index window out of a shared slab and appends to it: once a file has more rows than the estimate the append writes in place over the neighbouring column's early rows — the import reports success with the right row count and stores other rows' cells", fn.Name())
			}
		}
		if n == 0 {
			c.Triv("C31.SLAB", "import_inprocess|shared-windows", 0, "no appended-to window of a shared slab (the self-validation mutant keeps this rule exercised)")
		}
	}
	c.Rule("C31.LATTICE", "DOM: in the CSV column type inference a candidate type is ruled out by a cell's own text, and its test may be skipped because another candidate is still alive only where that candidate's literals are a subset of its own (float may wait for int; int and bool wait for nobody) — otherwise cells seen while the other candidate was alive never get to rule it out, and a column such as `2,3,true,false` is stored as booleans")
	if fn := c.MustFunc("C31.LATTICE", "internal/api.inferAndConvertColumn"); fn != nil {
		allowed := map[string]map[string]bool{"isInt": {}, "isFloat": {"isInt": true}, "isBool": {}}
		flags := map[*ssa.Phi]string{}
		for _, in := range instrs(fn, false) {
			ph, ok := in.(*ssa.Phi)
			if !ok || ph.Type().String() != "bool" {
				continue
			}
			if _, ok := allowed[ph.Comment]; !ok {
				continue
			}
			header := false
			for _, pr := range ph.Block().Preds {
				if ph.Block().Dominates(pr) {
					header = true
				}
			}
			if header {
				flags[ph] = ph.Comment
			}
		}
		n := 0
		for ph, name := range flags {
			// where does `false` enter this flag? any phi (transitively, inside the loop) that feeds ph
			seen := map[*ssa.Phi]bool{}
			var walk func(x *ssa.Phi)
			walk = func(x *ssa.Phi) {
				if seen[x] {
					return
				}
				seen[x] = true
				for k, e := range x.Edges {
					switch v := e.(type) {
					case *ssa.Phi:
						if v != ph {
							walk(v)
						}
					case *ssa.Const:
						if v.Value != nil && v.Value.String() == "false" && blockInCycle(x.Block()) {
							n++
							var deps []string
							pred := x.Block().Preds[k]
							for _, f := range append(factsAtBlock(pred), blockEdgeFactsDirect(pred.Idom(), pred)...) {
								if f.Kind != factTrue && f.Kind != factFalse {
									continue
								}
								if g, ok := f.Val.(*ssa.Phi); ok {
									// the current value of a flag inside the loop body is a merge phi fed by the header phi
									var root *ssa.Phi
									seenG := map[*ssa.Phi]bool{}
									var up func(y *ssa.Phi)
									up = func(y *ssa.Phi) {
										if seenG[y] || root != nil {
											return
										}
										seenG[y] = true
										if _, isFlag := flags[y]; isFlag {
											root = y
											return
										}
										for _, e2 := range y.Edges {
											if z, ok := e2.(*ssa.Phi); ok {
												up(z)
											}
										}
									}
									up(g)
									if root != nil && root != ph {
										if gn := flags[root]; !allowed[name][gn] {
											deps = append(deps, gn)
										}
									}
								}
							}
							sort.Strings(deps)
							c.Check(len(deps) == 0, "C31.LATTICE", fmt.Sprintf("inferAndConvertColumn|%s-ruled-out#%d", name, n), x.Pos(), name+" is ruled out by the cell alone (or waits only for a subset type)", "the test that rules out "+name+" runs only while "+strings.Join(deps, ", ")+" has a particular value: cells seen before that never get to rule "+name+" out, so a column mixing integer codes and boolean words is stored as BOOLEAN and the codes are lost")
						}
					}
				}
			}
			walk(ph)
		}
		c.Check(len(flags) == 3 && n >= 3, "C31.LATTICE", "inferAndConvertColumn|candidates", fn.Pos(), fmt.Sprintf("%d candidate flags, %d elimination sites", len(flags), n), fmt.Sprintf("expected the three candidate flags isInt/isFloat/isBool with an elimination site each; found %d flags, %d sites", len(flags), n))
	}
	c.Rule("C31.ATOMIC", "ORDER: importCSV/importParquet contain exactly one buffer write; no read, header validation or conversion step can execute after it (so a file that fails to parse or convert has stored nothing), and its row count is the count of rows read")
	c.Rule("C31.ROWS", "PASS: in the CSV read loop every successfully read record reaches the next read only through the row counter increment and through a loop that appends one cell to every column")
	c.Rule("C31.ALIGN", "FLOW: each non-time column is stored under header[i] with data converted from column i (one index value), the \"time\" entry is the conversion of the column whose index validateImportHeader returned for the requested time column, with the requested time_format")
	c.Rule("C31.HEADER", "DOM: validateImportHeader accepts only when no other column is literally named \"time\" (decided after all names were seen, or by a position-independent in-loop rejection), rejects empty and duplicate names, and returns the index of the requested column")
	c.Rule("C31.UNITS", "EVAL: partial evaluation of epochToMicros, intTimeToMicros, floatTimeToMicros and arrowTimestampToMicros for each unit constant yields exactly value*1e6 (s), value*1e3 (ms), value (us), value/1e3 (ns) — one exact operation, no widening multiply followed by a divide")
	c.Rule("C31.FORMAT", "DOM: every call that scales a numeric time value by a caller-supplied time_format is dominated by a membership test of that format in the accepted set (or sits under the matching case arm)")
	c.Rule("C31.LOSSY", "DOM: every uint64->int64 conversion of a column value in the Arrow converters is dominated by a range test of that value")
	c.Rule("C31.SLOTS", "PASS: in arrowColumnToTyped every element loop advances the output index exactly once per element on every path, unknown outer types and mixed chunk types return an error")

	c31Atomic(c)
	c31Rows(c)
	c31Align(c)
	c31Header(c)
	c31Units(c)
	c31Format(c)
	c31Lossy(c)
	c31Slots(c)
}

// ---------------------------------------------------------------- ATOMIC

var c31Steps = names(
	"internal/api.stringsToTimeMicros", "internal/api.inferAndConvertColumn", "internal/api.arrowColumnToTyped",
	"internal/api.parquetColumnToTimeMicros", "internal/api.validateImportHeader", "(*encoding/csv.Reader).Read",
	"(*github.com/apache/arrow-go/v18/parquet/pqarrow.FileReader).ReadTable", "github.com/apache/arrow-go/v18/parquet/file.NewParquetReader",
)

func c31Atomic(c *Ctx) {
	for _, name := range []string{"importCSV", "importParquet"} {
		fn := c.MustFunc("C31.ATOMIC", ih+name)
		if fn == nil {
			continue
		}
		ws := bufWritesIn(fn, true)
		if len(ws) != 1 {
			c.Bad("C31.ATOMIC", name+"|single-write", fn.Pos(), "%s contains %d buffer writes (want exactly one: a file is stored whole or not at all)", name, len(ws))
			continue
		}
		w := ws[0]
		at := w.Call.(ssa.Instruction)
		var late []string
		nSteps := 0
		for _, call := range callsIn(fn, false) {
			if c31Steps.hasCall(call.(ssa.Instruction)) {
				nSteps++
			}
		}
		for _, e := range pathsAvoidingTo(fn, at, nil, func(ssa.Instruction) bool { return false }, func(x ssa.Instruction) bool { return x != at && c31Steps.hasCall(x) }) {
			if ci, ok := e.Instr.(ssa.CallInstruction); ok {
				late = append(late, fmt.Sprintf("%s (L%d)", callName(ci)[strings.LastIndex(callName(ci), ".")+1:], c.P.Line(ci.Pos())))
			}
		}
		if nSteps < 3 {
			c.Unk("C31.ATOMIC", name+"|nothing-after-write", w.Call.Pos(), "found only %d read/convert steps in %s", nSteps, name)
		} else {
			c.Check(len(late) == 0, "C31.ATOMIC", name+"|nothing-after-write", w.Call.Pos(), fmt.Sprintf("all %d read/validate/convert steps precede the single write", nSteps), name+" can still run "+strings.Join(uniq(late), ", ")+" after rows were handed to the buffer: a failure there leaves a partial import stored")
		}
		// row count argument
		nrows := w.Call.Common().Args[5]
		okRows := false
		switch name {
		case "importCSV":
			// a phi incremented by one inside the read loop
			derives(nrows, func(v ssa.Value) bool {
				if bo, ok := v.(*ssa.BinOp); ok && bo.Op == token.ADD {
					if k, ok := constInt(bo.Y); ok && k == 1 {
						if _, isPhi := bo.X.(*ssa.Phi); isPhi && blockInCycle(bo.Block()) {
							okRows = true
						}
					}
				}
				return false
			}, false, 6)
		case "importParquet":
			okRows = derives(nrows, func(v ssa.Value) bool {
				cl, ok := v.(*ssa.Call)
				return ok && cl.Call.IsInvoke() && cl.Call.Method.Name() == "NumRows"
			}, false, 6)
		}
		c.Check(okRows, "C31.ATOMIC", name+"|row-count", w.Call.Pos(), "the write is told the number of rows read", "the row count handed to the buffer is not the number of rows read from the file")
	}
}

// ---------------------------------------------------------------- ROWS

func c31Rows(c *Ctx) {
	fn := c.MustFunc("C31.ROWS", ih+"importCSV")
	if fn == nil {
		return
	}
	// the data read: the csv Read call inside a cycle whose result feeds appends
	var reads []ssa.CallInstruction
	for _, call := range findCalls(fn, false, "(*encoding/csv.Reader).Read") {
		if blockInCycle(call.Block()) {
			reads = append(reads, call)
		}
	}
	// the data loop is the one whose record is indexed
	var data ssa.CallInstruction
	for _, r := range reads {
		rec := resultN(r, 0)
		used := false
		for _, in := range instrs(fn, false) {
			if ia, ok := in.(*ssa.IndexAddr); ok && ia.X == rec {
				used = true
			}
			if ix, ok := in.(*ssa.Index); ok && ix.X == rec {
				used = true
			}
		}
		if used {
			data = r
		}
	}
	if data == nil {
		c.Bad("C31.ROWS", "importCSV|read-loop", fn.Pos(), "no CSV read loop whose record is copied into the columns")
		return
	}
	// the counter increment
	var inc *ssa.BinOp
	for _, in := range instrs(fn, false) {
		if bo, ok := in.(*ssa.BinOp); ok && bo.Op == token.ADD && blockInCycle(bo.Block()) {
			if k, ok := constInt(bo.Y); ok && k == 1 {
				if phi, ok := bo.X.(*ssa.Phi); ok && phi.Comment == "rowCount" {
					inc = bo
				}
			}
		}
	}
	if inc == nil {
		c.Bad("C31.ROWS", "importCSV|row-counter", data.Pos(), "no row counter incremented in the read loop")
		return
	}
	at := data.(ssa.Instruction)
	skip := false
	for _, e := range pathsAvoidingTo(fn, at, nil, func(x ssa.Instruction) bool { return x == ssa.Instruction(inc) }, func(x ssa.Instruction) bool { return x == at }) {
		if e.Instr == at {
			skip = true
		}
	}
	c.Check(!skip, "C31.ROWS", "importCSV|every-row-counted", inc.Pos(), "a read record reaches the next read only through rowCount++", "a record can be read and the loop continue without counting it: that row is dropped (or the columns and the count disagree)")
	// every column receives a cell: stores into rawCols[i] on every path of the inner loop body
	var stores []ssa.Instruction
	for _, in := range instrs(fn, false) {
		if st, ok := in.(*ssa.Store); ok && blockInCycle(st.Block()) {
			if ia, ok := st.Addr.(*ssa.IndexAddr); ok && strings.HasPrefix(ia.X.Type().String(), "[][]string") {
				if cl, ok := st.Val.(*ssa.Call); ok && cl.Call.Value.Name() == "append" {
					stores = append(stores, st)
				}
			}
		}
	}
	if len(stores) == 0 {
		c.Bad("C31.ROWS", "importCSV|every-column-gets-a-cell", data.Pos(), "no append into the per-column buffers found")
		return
	}
	// from the read to the increment, no path avoids all the append stores unless header is empty
	isStore := func(x ssa.Instruction) bool {
		for _, s := range stores {
			if s == x {
				return true
			}
		}
		return false
	}
	// inner loop: the index phi over header; every path from the loop body entry to the back edge passes a store
	missed := false
	for _, s := range stores {
		_ = s
	}
	// body blocks: those dominated by the "i < len" true edge. Approximation exact for this shape:
	// take the block of each store; its inner-loop header is the nearest dominating block with a phi named "rangeindex".
	hdr := c31InnerHeader(stores[0].Block())
	if hdr == nil {
		c.Unk("C31.ROWS", "importCSV|every-column-gets-a-cell", stores[0].Pos(), "cannot find the per-column loop")
		return
	}
	body := hdr.Succs[0]
	for _, e := range pathsAvoidingTo(fn, nil, body, isStore, func(x ssa.Instruction) bool { return x.Block() == hdr }) {
		if e.Instr != nil && e.Instr.Block() == hdr {
			missed = true
		}
	}
	c.Check(!missed, "C31.ROWS", "importCSV|every-column-gets-a-cell", stores[0].Pos(), "each iteration over the header appends one cell to its column (short rows are padded)", "an iteration over the header can finish without appending to its column: columns end up with different lengths and rows shift")
}

func c31InnerHeader(b *ssa.BasicBlock) *ssa.BasicBlock {
	for d := b; d != nil; d = d.Idom() {
		if strings.HasPrefix(d.Comment, "rangeindex.loop") || strings.HasPrefix(d.Comment, "for.loop") {
			return d
		}
	}
	return nil
}

// ---------------------------------------------------------------- ALIGN

func c31Align(c *Ctx) {
	for _, name := range []string{"importCSV", "importParquet"} {
		fn := c.MustFunc("C31.ALIGN", ih+name)
		if fn == nil {
			continue
		}
		var vh *ssa.Call
		for _, call := range findCalls(fn, false, "internal/api.validateImportHeader") {
			vh, _ = call.(*ssa.Call)
		}
		if vh == nil {
			c.Bad("C31.ALIGN", name+"|header-validated", fn.Pos(), "%s does not validate the header", name)
			continue
		}
		c.Check(fieldSources(vh.Call.Args[1], 4)["importOptions.timeColumn"], "C31.ALIGN", name+"|requested-time-column", vh.Pos(), "the time index is looked up for opts.timeColumn", "the time column index is not looked up for the requested time_column")
		timeIdx := resultN(vh, 0)
		nData, nTime := 0, 0
		for _, in := range instrs(fn, false) {
			mu, ok := in.(*ssa.MapUpdate)
			if !ok || !strings.HasPrefix(mu.Map.Type().String(), "map[string]interface{}") && !strings.HasPrefix(mu.Map.Type().String(), "map[string]any") {
				continue
			}
			if s, isConst := constString(mu.Key); isConst {
				if s != "time" {
					continue
				}
				nTime++
				// value: conversion of the time column
				var conv *ssa.Call
				derives(mu.Value, func(v ssa.Value) bool {
					if cl, ok := v.(*ssa.Call); ok {
						n := callName(cl)
						if n == "internal/api.stringsToTimeMicros" || n == "internal/api.parquetColumnToTimeMicros" {
							conv = cl
						}
					}
					return false
				}, false, 8)
				if conv == nil {
					c.Bad("C31.ALIGN", name+"|time-entry", mu.Pos(), "the \"time\" entry is not the result of the time conversion")
					continue
				}
				idxOK := c31IndexedBy(conv.Call.Args[0], timeIdx, conv)
				fmtOK := fieldSources(conv.Call.Args[1], 4)["importOptions.timeFormat"]
				c.Check(idxOK && fmtOK, "C31.ALIGN", name+"|time-entry", mu.Pos(), "time = convert(column[timeIdx], opts.timeFormat)", "the \"time\" entry is not converted from the column validateImportHeader identified with the requested time_format")
				continue
			}
			// data column: key derives from header[i], value from convert(col[i])
			var conv *ssa.Call
			derives(mu.Value, func(v ssa.Value) bool {
				if cl, ok := v.(*ssa.Call); ok {
					n := callName(cl)
					if n == "internal/api.inferAndConvertColumn" || n == "internal/api.arrowColumnToTyped" {
						conv = cl
					}
				}
				return false
			}, false, 8)
			if conv == nil {
				continue
			}
			nData++
			ki := c31IndexOf(mu.Key)
			vi := c31IndexOf(conv.Call.Args[0])
			ok = ki != nil && vi != nil && ki == vi
			// the time column is skipped: the update is unreachable when i == timeIdx
			skip := false
			for _, f := range factsAt(mu) {
				if f.Kind == factCmp && f.Op == token.NEQ && ((f.X == ki && f.Y == timeIdx) || (f.Y == ki && f.X == timeIdx)) {
					skip = true
				}
			}
			c.Check(ok && skip, "C31.ALIGN", name+"|data-entry", mu.Pos(), "cols[header[i]] = convert(column[i]) for i != timeIdx", "a data column is stored under a name taken from a different index than its data, or the time column is not excluded")
		}
		if nData == 0 || nTime == 0 {
			c.Bad("C31.ALIGN", name+"|entries", fn.Pos(), "%s: found %d data entries and %d time entries in the column map", name, nData, nTime)
		}
	}
}

// c31IndexOf: the index value i in an expression of the form coll[i] / coll.Column(i) / loop value of range (i, name).
func c31IndexOf(v ssa.Value) ssa.Value {
	var idx ssa.Value
	derives(v, func(x ssa.Value) bool {
		switch y := x.(type) {
		case *ssa.IndexAddr:
			if idx == nil {
				idx = y.Index
			}
		case *ssa.Index:
			if idx == nil {
				idx = y.Index
			}
		case *ssa.Call:
			if idx == nil && y.Call.IsInvoke() && y.Call.Method.Name() == "Column" && len(y.Call.Args) == 1 {
				idx = y.Call.Args[0]
			}
		}
		return idx != nil
	}, false, 6)
	return idx
}

func c31IndexedBy(v ssa.Value, idx ssa.Value, at ssa.Instruction) bool {
	i := c31IndexOf(v)
	if i == nil {
		return false
	}
	if i == idx {
		return true
	}
	// i == timeIdx established by a dominating comparison
	for _, f := range factsAt(at) {
		if f.Kind == factCmp && f.Op == token.EQL && ((f.X == i && f.Y == idx) || (f.Y == i && f.X == idx)) {
			return true
		}
	}
	return false
}

// ---------------------------------------------------------------- HEADER

func c31Header(c *Ctx) {
	fn := c.MustFunc("C31.HEADER", "internal/api.validateImportHeader")
	if fn == nil {
		return
	}
	// accepting returns: error result is the nil constant
	for _, in := range instrs(fn, false) {
		ret, ok := in.(*ssa.Return)
		if !ok {
			continue
		}
		k, isK := ret.Results[1].(*ssa.Const)
		if !isK || !k.IsNil() {
			continue
		}
		// (1) returns the index found by comparing names with the timeColumn parameter
		idxOK := false
		derives(ret.Results[0], func(v ssa.Value) bool {
			if phi, ok := v.(*ssa.Phi); ok && phi.Comment == "timeIdx" {
				idxOK = true
			}
			return false
		}, false, 4)
		c.Check(idxOK, "C31.HEADER", "validateImportHeader|returns-found-index", ret.Pos(), "accepting return yields the loop's timeIdx", "the accepting return does not yield the index at which the requested time column was found")
		// (2) "time" collision excluded
		ok1 := false
		for _, f := range factsAt(ret) {
			// timeColumn == "time"
			if f.Kind == factCmp && f.Op == token.EQL {
				if s, isS := constString(f.Y); isS && s == "time" && isParam(fn, "timeColumn")(f.X) {
					ok1 = true
				}
			}
			// _, has := seen["time"]; has == false, looked up after the loop
			if f.Kind == factFalse {
				if ex, isEx := f.Val.(*ssa.Extract); isEx {
					if lk, isLk := ex.Tuple.(*ssa.Lookup); isLk {
						if s, isS := constString(lk.Index); isS && s == "time" && !blockInCycle(lk.Block()) && c31SeenComplete(fn, lk.X) {
							ok1 = true
						}
					}
				}
			}
		}
		// alternative: position-independent in-loop rejection
		if !ok1 {
			ok1 = c31InLoopTimeReject(fn)
		}
		// the two facts arrive on different edges (timeColumn=="time" OR not seen): evaluate per predecessor edge
		if !ok1 && len(ret.Block().Preds) > 1 {
			ok1 = true
			for _, pb := range ret.Block().Preds {
				okp := false
				for _, f := range append(factsAtBlock(pb), blockEdgeFactsDirect(pb, ret.Block())...) {
					if f.Kind == factCmp && f.Op == token.EQL {
						if s, isS := constString(f.Y); isS && s == "time" && isParam(fn, "timeColumn")(f.X) {
							okp = true
						}
					}
					if f.Kind == factFalse {
						if ex, isEx := f.Val.(*ssa.Extract); isEx {
							if lk, isLk := ex.Tuple.(*ssa.Lookup); isLk {
								if s, isS := constString(lk.Index); isS && s == "time" && !blockInCycle(lk.Block()) && c31SeenComplete(fn, lk.X) {
									okp = true
								}
							}
						}
					}
				}
				if !okp {
					ok1 = false
				}
			}
		}
		c.Check(ok1, "C31.HEADER", "validateImportHeader|no-second-time-column", ret.Pos(), "accepted only when the requested column is \"time\" itself or no column is literally named \"time\" (decided over all names)", "a header can be accepted although another column is literally named \"time\": the renamed time column then overwrites that column's data — its position relative to the time column decides")
		// (3) found: timeIdx != -1
		found := false
		for _, f := range factsAt(ret) {
			if f.Kind == factCmp && f.Op == token.NEQ {
				if k, isK := constInt(f.Y); isK && k == -1 {
					found = true
				}
			}
		}
		c.Check(found, "C31.HEADER", "validateImportHeader|time-column-found", ret.Pos(), "accepted only when the time column was found", "the header can be accepted although the requested time column is absent")
	}
	// duplicates and empty names rejected in the loop
	dup, empty := false, false
	for _, in := range instrs(fn, false) {
		ret, ok := in.(*ssa.Return)
		if !ok {
			continue
		}
		if k, isK := ret.Results[1].(*ssa.Const); isK && k.IsNil() {
			continue
		}
		for _, f := range factsAt(ret) {
			if f.Kind == factTrue {
				if ex, isEx := f.Val.(*ssa.Extract); isEx {
					if lk, isLk := ex.Tuple.(*ssa.Lookup); isLk {
						if _, isConst := lk.Index.(*ssa.Const); !isConst {
							dup = true
						}
					}
				}
			}
			if f.Kind == factCmp && f.Op == token.EQL {
				if s, isS := constString(f.Y); isS && s == "" {
					empty = true
				}
			}
		}
	}
	c.Check(dup, "C31.HEADER", "validateImportHeader|duplicates-rejected", fn.Pos(), "a repeated column name is rejected", "duplicate column names are not rejected: one column's data overwrites the other's")
	c.Check(empty, "C31.HEADER", "validateImportHeader|empty-name-rejected", fn.Pos(), "an empty column name is rejected", "empty column names are not rejected")
}

// c31SeenComplete: the map receives every header name (a MapUpdate keyed by the range value inside the loop).
func c31SeenComplete(fn *ssa.Function, m ssa.Value) bool {
	for _, in := range instrs(fn, false) {
		if mu, ok := in.(*ssa.MapUpdate); ok && mu.Map == m && blockInCycle(mu.Block()) {
			return true
		}
	}
	return false
}

// c31InsideLoop: the block is dominated by a block that lies on a cycle (it is
// in, or exits from, a loop body).
func c31InsideLoop(b *ssa.BasicBlock) bool {
	for d := b.Idom(); d != nil; d = d.Idom() {
		if blockInCycle(d) && strings.Contains(d.Comment, "body") {
			return true
		}
	}
	return false
}

// c31InLoopTimeReject: inside the loop, name == "time" leads to a rejecting return under
// loop-invariant extra conditions only (parameters / constants), so the decision does not
// depend on where the time column sits.
func c31InLoopTimeReject(fn *ssa.Function) bool {
	for _, in := range instrs(fn, false) {
		ret, ok := in.(*ssa.Return)
		if !ok || !c31InsideLoop(ret.Block()) {
			continue
		}
		if k, isK := ret.Results[1].(*ssa.Const); isK && k.IsNil() {
			continue
		}
		hasName, variant := false, false
		for _, f := range factsAt(ret) {
			if f.Kind != factCmp {
				continue
			}
			if s, isS := constString(f.Y); isS && s == "time" && !isParam(fn, "timeColumn")(f.X) && f.Op == token.EQL {
				hasName = true
				continue
			}
			for _, v := range []ssa.Value{f.X, f.Y} {
				switch v.(type) {
				case *ssa.Const, *ssa.Parameter:
				default:
					if _, isPhi := v.(*ssa.Phi); isPhi {
						variant = true
					}
				}
			}
		}
		if hasName && !variant {
			return true
		}
	}
	return false
}

// ---------------------------------------------------------------- UNITS (partial evaluation)

type sym struct {
	k     constant.Value // constant, or nil
	v     string         // variable name when not constant
	ops   []string       // operations applied to the variable, in order
	undec string
}

func (s sym) String() string {
	if s.undec != "" {
		return "?(" + s.undec + ")"
	}
	if s.k != nil {
		return s.k.ExactString()
	}
	return s.v + strings.Join(s.ops, "")
}

func fmtConst(k constant.Value) string {
	if k.Kind() == constant.Float || k.Kind() == constant.Int {
		f, _ := constant.Float64Val(k)
		if f == float64(int64(f)) {
			return fmt.Sprint(int64(f))
		}
		return fmt.Sprint(f)
	}
	return k.ExactString()
}

// partialEval evaluates fn with some parameters bound to constants; returns the symbolic result #0.
func partialEval(fn *ssa.Function, bind map[string]constant.Value, depth int) sym {
	if depth > 4 || len(fn.Blocks) == 0 {
		return sym{undec: "depth"}
	}
	var prev *ssa.BasicBlock
	b := fn.Blocks[0]
	env := map[ssa.Value]sym{}
	var val func(v ssa.Value) sym
	val = func(v ssa.Value) sym {
		if s, ok := env[v]; ok {
			return s
		}
		switch x := v.(type) {
		case *ssa.Const:
			if x.Value == nil {
				return sym{undec: "nil const"}
			}
			return sym{k: x.Value}
		case *ssa.Parameter:
			if k, ok := bind[x.Name()]; ok {
				return sym{k: k}
			}
			return sym{v: x.Name()}
		case *ssa.Convert:
			s := val(x.X)
			if s.k != nil {
				// numeric conversion of a constant
				if bt, ok := x.Type().Underlying().(*types.Basic); ok {
					switch {
					case bt.Info()&types.IsInteger != 0:
						return sym{k: constant.ToInt(s.k)}
					case bt.Info()&types.IsFloat != 0:
						return sym{k: constant.ToFloat(s.k)}
					}
				}
			}
			return s
		case *ssa.ChangeType:
			return val(x.X)
		case *ssa.BinOp:
			a, bb := val(x.X), val(x.Y)
			if a.undec != "" {
				return a
			}
			if bb.undec != "" {
				return bb
			}
			if a.k != nil && bb.k != nil {
				switch x.Op {
				case token.EQL, token.NEQ, token.LSS, token.LEQ, token.GTR, token.GEQ:
					return sym{k: constant.MakeBool(constant.Compare(a.k, x.Op, bb.k))}
				case token.QUO:
					if a.k.Kind() == constant.Int && bb.k.Kind() == constant.Int {
						return sym{k: constant.BinaryOp(a.k, token.QUO_ASSIGN, bb.k)}
					}
				}
				return sym{k: constant.BinaryOp(a.k, x.Op, bb.k)}
			}
			if a.k == nil && bb.k != nil {
				op := map[token.Token]string{token.MUL: "*", token.QUO: "/", token.ADD: "+", token.SUB: "-"}[x.Op]
				if op == "" {
					return sym{undec: "operator " + x.Op.String() + " on a variable"}
				}
				return sym{v: a.v, ops: append(append([]string{}, a.ops...), op+fmtConst(bb.k))}
			}
			if a.k != nil && bb.k == nil && x.Op == token.MUL {
				return sym{v: bb.v, ops: append(append([]string{}, bb.ops...), "*"+fmtConst(a.k))}
			}
			return sym{undec: "non-linear expression"}
		case *ssa.Call:
			if x.Call.IsInvoke() {
				return sym{undec: "interface call"}
			}
			callee := x.Call.StaticCallee()
			if callee == nil {
				return sym{undec: "dynamic call"}
			}
			if callee.Name() == "Multiplier" && strings.Contains(callee.String(), "arrow.TimeUnit") {
				u := val(x.Call.Args[0])
				if u.k != nil {
					i, _ := constant.Int64Val(u.k)
					tbl := []int64{1e9, 1e6, 1e3, 1}
					if i >= 0 && int(i) < len(tbl) {
						return sym{k: constant.MakeInt64(tbl[i])}
					}
				}
				return sym{undec: "Multiplier of a non-constant unit"}
			}
			if callee.Pkg == nil || !strings.HasPrefix(callee.Pkg.Pkg.Path(), modulePath) {
				return sym{undec: "call " + callee.String()}
			}
			nb := map[string]constant.Value{}
			rename := map[string]sym{}
			for i, p := range callee.Params {
				a := val(x.Call.Args[i])
				if a.k != nil {
					nb[p.Name()] = a.k
				} else {
					rename[p.Name()] = a
				}
			}
			r := partialEval(callee, nb, depth+1)
			if r.k == nil && r.undec == "" {
				if a, ok := rename[r.v]; ok {
					if a.undec != "" {
						return a
					}
					return sym{v: a.v, ops: append(append([]string{}, a.ops...), r.ops...)}
				}
			}
			return r
		case *ssa.Phi:
			for i, p := range x.Block().Preds {
				if p == prev {
					return val(x.Edges[i])
				}
			}
			return sym{undec: "phi"}
		}
		return sym{undec: fmt.Sprintf("%T", v)}
	}
	for steps := 0; steps < 200; steps++ {
		for _, in := range b.Instrs {
			switch x := in.(type) {
			case *ssa.Phi:
				env[x] = val(x)
			case *ssa.If:
				cnd := val(x.Cond)
				if cnd.k == nil || cnd.k.Kind() != constant.Bool {
					return sym{undec: "branch on a value that is not constant for this unit: " + cnd.String()}
				}
				prev = b
				if constant.BoolVal(cnd.k) {
					b = b.Succs[0]
				} else {
					b = b.Succs[1]
				}
			case *ssa.Jump:
				prev = b
				b = b.Succs[0]
			case *ssa.Return:
				return val(x.Results[0])
			case ssa.Value:
				// evaluated lazily
			}
		}
	}
	return sym{undec: "no return reached"}
}

func c31Units(c *Ctx) {
	p := c.P
	want := map[string]string{"epoch_s": "*1000000", "epoch_ms": "*1000", "epoch_us": "", "epoch_ns": "/1000"}
	fmts := []string{"epoch_s", "epoch_ms", "epoch_us", "epoch_ns"}
	for _, fname := range []string{"epochToMicros", "intTimeToMicros", "floatTimeToMicros"} {
		fn := c.MustFunc("C31.UNITS", "internal/api."+fname)
		if fn == nil {
			continue
		}
		fparam := fn.Params[1].Name()
		vparam := fn.Params[0].Name()
		for _, f := range fmts {
			r := partialEval(fn, map[string]constant.Value{fparam: constant.MakeString(f)}, 0)
			got := r.String()
			c.Check(r.undec == "" && r.k == nil && got == vparam+want[f], "C31.UNITS", fname+"|"+f, fn.Pos(), fmt.Sprintf("%s(%s, %q) = %s", fname, vparam, f, got), fmt.Sprintf("%s(%s, %q) evaluates to %s, want %s%s", fname, vparam, f, got, vparam, want[f]))
		}
	}
	// arrow units
	at := c.MustFunc("C31.UNITS", "internal/api.arrowTimestampToMicros")
	if at != nil {
		units := c31ArrowUnits(p)
		if len(units) != 4 {
			c.Unk("C31.UNITS", "arrowTimestampToMicros|unit-constants", at.Pos(), "cannot find arrow.Second..Nanosecond")
		}
		wantU := map[string]string{"Second": "*1000000", "Millisecond": "*1000", "Microsecond": "", "Nanosecond": "/1000"}
		var un []string
		for n := range units {
			un = append(un, n)
		}
		sort.Strings(un)
		for _, n := range un {
			r := partialEval(at, map[string]constant.Value{at.Params[1].Name(): units[n]}, 0)
			got := r.String()
			c.Check(r.undec == "" && r.k == nil && got == at.Params[0].Name()+wantU[n], "C31.UNITS", "arrowTimestampToMicros|"+n, at.Pos(), fmt.Sprintf("arrowTimestampToMicros(v, %s) = %s", n, got), fmt.Sprintf("arrowTimestampToMicros(v, arrow.%s) evaluates to %s, want v%s (a wider intermediate product overflows int64 for timestamps the result could represent)", n, got, wantU[n]))
		}
	}
	c.Floor("C31.UNITS", 16, "three epoch scalers x four formats + four arrow units")
}

func c31ArrowUnits(p *Prog) map[string]constant.Value {
	out := map[string]constant.Value{}
	pkg := p.Pkgs["internal/api"]
	if pkg == nil {
		return out
	}
	for _, imp := range pkg.Types.Imports() {
		if strings.HasSuffix(imp.Path(), "/arrow") && strings.Contains(imp.Path(), "arrow-go") {
			for _, n := range []string{"Second", "Millisecond", "Microsecond", "Nanosecond"} {
				if k, ok := imp.Scope().Lookup(n).(*types.Const); ok {
					out[n] = k.Val()
				}
			}
		}
	}
	return out
}

// ---------------------------------------------------------------- FORMAT

func c31Format(c *Ctx) {
	accepted := map[string]bool{"": true, "epoch_s": true, "epoch_ms": true, "epoch_us": true, "epoch_ns": true}
	n := 0
	for _, fn := range c.P.FuncsIn("internal/api") {
		for _, call := range callsIn(fn, false) {
			nm := callName(call)
			if nm != "internal/api.intTimeToMicros" && nm != "internal/api.floatTimeToMicros" && nm != "internal/api.epochToMicros" {
				continue
			}
			f := call.Common().Args[1]
			if _, isConst := f.(*ssa.Const); isConst {
				continue
			}
			// pass-through wrappers: the format is this function's own parameter and the function is itself one of the scalers
			if fn.Name() == "floatTimeToMicros" || fn.Name() == "intTimeToMicros" || fn.Name() == "epochToMicros" {
				continue
			}
			n++
			construct := fmt.Sprintf("%s|%s#%s", fn.Name(), nm[strings.LastIndex(nm, ".")+1:], siteOrdinal(fn, call))
			ok := c31FormatValidated(fn, call.(ssa.Instruction), f, accepted)
			c.Check(ok, "C31.FORMAT", construct, call.Pos(), "the format was tested against the accepted set before scaling", fn.Name()+" scales a numeric time value by a time_format that was never validated: an unrecognized format is silently treated as auto/microseconds instead of being rejected")
		}
	}
	c.Floor("C31.FORMAT", 8, "numeric time arms of parquetColumnToTimeMicros and oneTimeValueToMicros")
}

// c31FormatValidated: at `at`, either a dominating fact says format == <accepted constant>, or the
// function computes an error from a membership switch over the same format value and `at` is
// dominated by that error being nil.
func c31FormatValidated(fn *ssa.Function, at ssa.Instruction, f ssa.Value, accepted map[string]bool) bool {
	f = resolveParam(f)
	okFacts := func(fs []fact) bool {
		for _, fc := range fs {
			if fc.Kind == factCmp && fc.Op == token.EQL && resolveParam(fc.X) == f {
				if s, ok := constString(fc.Y); ok && accepted[s] {
					return true
				}
			}
			// formatErr == nil where formatErr is a phi: nil on the accepted arms, an error on the default arm
			if fc.Kind == factNil {
				if phi, ok := fc.Val.(*ssa.Phi); ok && c31MembershipPhi(phi, f, accepted) {
					return true
				}
			}
		}
		return false
	}
	return okFacts(factsAt(at)) || holdsOnAllPaths(at.Block(), okFacts, 16, map[*ssa.BasicBlock]bool{})
}

func c31MembershipPhi(phi *ssa.Phi, f ssa.Value, accepted map[string]bool) bool {
	nNil, nErr := 0, 0
	for i, e := range phi.Edges {
		pred := phi.Block().Preds[i]
		fs := append(factsAtBlock(pred), blockEdgeFactsDirect(pred, phi.Block())...)
		if k, ok := e.(*ssa.Const); ok && k.IsNil() {
			// must arrive with format == accepted
			okF := func(fs []fact) bool {
				for _, fc := range fs {
					if fc.Kind == factCmp && fc.Op == token.EQL && resolveParam(fc.X) == f {
						if s, ok := constString(fc.Y); ok && accepted[s] {
							return true
						}
					}
				}
				return false
			}
			if !okF(fs) && !holdsOnAllPaths(pred, okF, 6, map[*ssa.BasicBlock]bool{}) {
				return false
			}
			nNil++
			continue
		}
		if classifyErr(e, nil, pred, 0) != errNonNil {
			return false
		}
		nErr++
	}
	return nNil > 0 && nErr > 0
}

// holdsOnAllPaths: ok() holds for the facts that dominate block b, or on every
// incoming edge of b (recursively through predecessors that add nothing).
func holdsOnAllPaths(b *ssa.BasicBlock, ok func([]fact) bool, depth int, seen map[*ssa.BasicBlock]bool) bool {
	memo := map[*ssa.BasicBlock]int{} // 1 = in progress, 2 = true, 3 = false
	var rec func(b *ssa.BasicBlock, d int) bool
	rec = func(b *ssa.BasicBlock, d int) bool {
		switch memo[b] {
		case 1, 2:
			return true // a cycle adds no new way in
		case 3:
			return false
		}
		if ok(factsAtBlock(b)) {
			memo[b] = 2
			return true
		}
		if d <= 0 || len(b.Preds) == 0 {
			memo[b] = 3
			return false
		}
		memo[b] = 1
		for _, p := range b.Preds {
			if ok(blockEdgeFactsDirect(p, b)) {
				continue
			}
			if !rec(p, d-1) {
				memo[b] = 3
				return false
			}
		}
		memo[b] = 2
		return true
	}
	return rec(b, depth)
}

// ---------------------------------------------------------------- LOSSY

func c31Lossy(c *Ctx) {
	n := 0
	for _, name := range []string{"arrowColumnToTyped", "parquetColumnToTimeMicros"} {
		fn := c.MustFunc("C31.LOSSY", "internal/api."+name)
		if fn == nil {
			continue
		}
		for _, in := range instrs(fn, false) {
			cv, ok := in.(*ssa.Convert)
			if !ok {
				continue
			}
			from, ok1 := cv.X.Type().Underlying().(*types.Basic)
			to, ok2 := cv.Type().Underlying().(*types.Basic)
			if !ok1 || !ok2 || from.Kind() != types.Uint64 || to.Kind() != types.Int64 {
				continue
			}
			n++
			okF := func(fs []fact) bool {
				for _, f := range fs {
					if f.Kind == factCmp && (f.Op == token.LEQ || f.Op == token.LSS) && f.X == cv.X {
						return true
					}
					// the slot is null: its value is not data
					if f.Kind == factTrue {
						if cl, ok := f.Val.(*ssa.Call); ok && !cl.Call.IsInvoke() && cl.Call.StaticCallee() != nil && cl.Call.StaticCallee().Name() == "IsNull" {
							return true
						}
					}
				}
				return false
			}
			guarded := okF(factsAt(cv)) || holdsOnAllPaths(cv.Block(), okF, 4, map[*ssa.BasicBlock]bool{})
			c.Check(guarded, "C31.LOSSY", fmt.Sprintf("%s|uint64-to-int64@%s", name, c31Ordinal(fn, cv)), cv.Pos(), "the value was range-tested before the narrowing conversion", "a uint64 column value is converted to int64 without a range test: values above MaxInt64 are stored as negative numbers")
		}
	}
	if n < 2 {
		c.Unk("C31.LOSSY", "uint64-conversions", 0, "found %d uint64->int64 conversions, expected the column and the time path", n)
	}
}

func c31Ordinal(fn *ssa.Function, target ssa.Instruction) string {
	k := 0
	for _, in := range instrs(fn, false) {
		if cv, ok := in.(*ssa.Convert); ok {
			if from, ok := cv.X.Type().Underlying().(*types.Basic); ok && from.Kind() == types.Uint64 {
				k++
				if in == target {
					return fmt.Sprint(k)
				}
			}
		}
	}
	return "?"
}

// ---------------------------------------------------------------- SLOTS

func c31Slots(c *Ctx) {
	fn := c.MustFunc("C31.SLOTS", "internal/api.arrowColumnToTyped")
	if fn == nil {
		return
	}
	// element loops: blocks "for.loop" whose condition compares with a Len() call; in the body every path to the
	// post/back edge passes exactly one increment of an idx phi and at most... we check "at least one" and "not two"
	n := 0
	for _, b := range fn.Blocks {
		if !strings.HasPrefix(b.Comment, "for.loop") {
			continue
		}
		ifi, ok := b.Instrs[len(b.Instrs)-1].(*ssa.If)
		if !ok {
			continue
		}
		cmp, ok := ifi.Cond.(*ssa.BinOp)
		if !ok {
			continue
		}
		isLen := false
		if cl, ok := cmp.Y.(*ssa.Call); ok && (cl.Call.IsInvoke() || cl.Call.StaticCallee() != nil) {
			nm := ""
			if cl.Call.IsInvoke() {
				nm = cl.Call.Method.Name()
			} else {
				nm = cl.Call.StaticCallee().Name()
			}
			isLen = nm == "Len"
		}
		if !isLen {
			continue
		}
		// the output index increments in this loop: BinOp ADD 1 on a phi named idx*
		var incs []ssa.Instruction
		body := b.Succs[0]
		seen := map[*ssa.BasicBlock]bool{b: true}
		st := []*ssa.BasicBlock{body}
		for len(st) > 0 {
			x := st[len(st)-1]
			st = st[:len(st)-1]
			if seen[x] {
				continue
			}
			seen[x] = true
			for _, in := range x.Instrs {
				if bo, ok := in.(*ssa.BinOp); ok && bo.Op == token.ADD {
					if k, ok := constInt(bo.Y); ok && k == 1 {
						if phi, ok := bo.X.(*ssa.Phi); ok && strings.HasPrefix(phi.Comment, "idx") {
							incs = append(incs, bo)
						}
					}
				}
			}
			for _, s := range x.Succs {
				if s != b && edgeStaysInLoop(s, b) {
					st = append(st, s)
				}
			}
		}
		if len(incs) == 0 {
			continue // the validity loop indexes through its own counter; handled below
		}
		n++
		isInc := func(x ssa.Instruction) bool {
			for _, i := range incs {
				if i == x {
					return true
				}
			}
			return false
		}
		miss := false
		for _, e := range pathsAvoidingTo(fn, nil, body, isInc, func(x ssa.Instruction) bool { return x.Block() == b }) {
			if e.Instr != nil && e.Instr.Block() == b {
				miss = true
			}
		}
		twice := false
		for _, i := range incs {
			for _, e := range pathsAvoidingTo(fn, i, nil, func(x ssa.Instruction) bool { return x.Block() == b }, func(x ssa.Instruction) bool { return x != i && isInc(x) }) {
				if e.Instr != nil && isInc(e.Instr) {
					twice = true
				}
			}
		}
		c.Check(!miss && !twice, "C31.SLOTS", fmt.Sprintf("arrowColumnToTyped|element-loop@%d", n), ifi.Pos(), "each element advances the output index exactly once", "an element loop can advance the output index zero or two times for one element: following rows shift or are dropped")
	}
	if n < 10 {
		c.Unk("C31.SLOTS", "arrowColumnToTyped|element-loops", fn.Pos(), "found only %d element loops", n)
	}
	// default arms return errors
	nDef, bad := c31SwitchDefaults(fn)
	for _, b := range bad {
		c.Bad("C31.SLOTS", "arrowColumnToTyped|default-errors", b.Pos(), "a type switch in arrowColumnToTyped has a default path that does not return an error: a column (or chunk) of an unhandled Arrow type is accepted")
	}
	if len(bad) == 0 {
		c.Check(nDef >= 3, "C31.SLOTS", "arrowColumnToTyped|default-errors", fn.Pos(), fmt.Sprintf("all %d type switches refuse unhandled types", nDef), "arrowColumnToTyped does not refuse unknown or mixed chunk types")
	}
	if pt := c.MustFunc("C31.SLOTS", "internal/api.parquetColumnToTimeMicros"); pt != nil {
		n2, bad2 := c31SwitchDefaults(pt)
		c.Check(n2 >= 1 && len(bad2) == 0, "C31.SLOTS", "parquetColumnToTimeMicros|default-errors", pt.Pos(), "an unhandled time column type is refused", "parquetColumnToTimeMicros accepts a chunk of a type it has no arm for")
	}
}

// c31SwitchDefaults: for each type switch (comma-ok type assertions on one operand), the path taken
// when every assertion fails must end in a return whose error is non-nil. Returns the number of
// switches with a refusing default and the offending instructions.
func c31SwitchDefaults(fn *ssa.Function) (int, []ssa.Instruction) {
	groups := map[ssa.Value][]*ssa.TypeAssert{}
	for _, in := range instrs(fn, false) {
		if ta, ok := in.(*ssa.TypeAssert); ok && ta.CommaOk {
			groups[ta.X] = append(groups[ta.X], ta)
		}
	}
	n := 0
	var bad []ssa.Instruction
	for _, tas := range groups {
		if len(tas) < 2 {
			continue
		}
		// chains: a type assertion whose failure edge does not lead to another assertion of the group
		for _, ta := range tas {
			ifi, ok := ta.Block().Instrs[len(ta.Block().Instrs)-1].(*ssa.If)
			if !ok {
				continue
			}
			fb := ifi.Block().Succs[1]
			next := false
			for _, in := range fb.Instrs {
				if t2, ok := in.(*ssa.TypeAssert); ok && t2.X == ta.X {
					next = true
				}
			}
			if next {
				continue
			}
			// fb is the default body
			for len(fb.Instrs) == 1 {
				if _, isJ := fb.Instrs[0].(*ssa.Jump); !isJ {
					break
				}
				fb = fb.Succs[0]
			}
			ret, isRet := fb.Instrs[len(fb.Instrs)-1].(*ssa.Return)
			if isRet && classifyErr(ret.Results[len(ret.Results)-1], ret, nil, 0) == errNonNil {
				n++
			} else {
				bad = append(bad, ta)
			}
		}
	}
	return n, bad
}

func edgeStaysInLoop(s, header *ssa.BasicBlock) bool {
	// s is in the loop if it can reach header
	seen := map[*ssa.BasicBlock]bool{}
	st := []*ssa.BasicBlock{s}
	for len(st) > 0 {
		x := st[len(st)-1]
		st = st[:len(st)-1]
		if x == header {
			return true
		}
		if seen[x] {
			continue
		}
		seen[x] = true
		st = append(st, x.Succs...)
	}
	return false
}
