package main

import (
	"fmt"
	"go/constant"
	"go/token"
	"go/types"
	"sort"
	"strings"

	"golang.org/x/tools/go/ssa"
)

func init() {
	register("C32", runC32,
		"the RBAC decision itself (C20), name-pattern validation regexes, and concrete request histories; decided are: that every record type the buffer stores is reported for validation and permission checks, that every buffer write in a request handler is dominated by database-name validation, measurement-name validation and (when RBAC is on) a successful per-measurement permission check on the same database value, that gate helpers accept only after those checks, that the permission helper checks every measurement with its own request, that the database handed to the buffer comes from request headers/query/defaults or the WAL routing keys and never from record content, that buffer key and storage path derive only from those two names, that WAL row routing keys cannot be replaced by client columns and are consulted by every replay consumer, and that write routes carry write/admin auth")
}

const abuf = "(*internal/ingest.ArrowBuffer)."

// bufWrite describes one call into the ingest buffer's public write API.
type bufWrite struct {
	Call ssa.CallInstruction
	Name string
	DB   ssa.Value
	Meas ssa.Value // nil when the measurement travels inside the records
	Recs ssa.Value // the records argument (Write / WriteColumnarRecord)
}

var bufWriteAPI = map[string][3]int{ // name -> arg index of database, measurement (-1), records (-1); receiver is arg 0, ctx arg 1
	"Write":                          {2, -1, 3},
	"WriteColumnarDirect":            {2, 3, 4},
	"WriteColumnarRecord":            {2, -1, 3},
	"WriteColumnarDirectNoWAL":       {2, 3, 4},
	"WriteRowsDirectNoWAL":           {2, 3, 4},
	"WriteTypedColumnarDirect":       {2, 3, 4},
	"WriteTypedColumnarDirectNoWAL":  {2, 3, 4},
	"WriteColumnarRecordNoWAL":       {2, -1, 3},
	"WriteTypedColumnarDirectRawWAL": {2, 3, 4},
}

func bufWritesIn(fn *ssa.Function, anon bool) []bufWrite {
	var out []bufWrite
	for _, call := range callsIn(fn, anon) {
		n := callName(call)
		if !strings.HasPrefix(n, abuf) {
			continue
		}
		idx, ok := bufWriteAPI[strings.TrimPrefix(n, abuf)]
		if !ok {
			continue
		}
		a := call.Common().Args
		w := bufWrite{Call: call, Name: strings.TrimPrefix(n, abuf), DB: a[idx[0]]}
		if idx[1] >= 0 && idx[1] < len(a) {
			w.Meas = a[idx[1]]
		}
		if idx[2] >= 0 && idx[2] < len(a) {
			w.Recs = a[idx[2]]
		}
		out = append(out, w)
	}
	return out
}

// exportedBufferWriters lists the exported ArrowBuffer methods with a database
// parameter that reach the internal write paths: the table above must cover them.
func exportedBufferWriters(p *Prog) []string {
	var out []string
	for _, fn := range p.MethodsOf("internal/ingest", "ArrowBuffer") {
		if !token.IsExported(fn.Name()) || len(fn.Params) < 3 {
			continue
		}
		hasDB := false
		for _, prm := range fn.Params {
			if prm.Name() == "database" {
				hasDB = true
			}
		}
		if !hasDB {
			continue
		}
		if reaches(fn, func(call ssa.CallInstruction) bool {
			n := callName(call)
			return n == abuf+"writeColumnarInternal" || n == abuf+"writeTypedColumnarRaw" || n == abuf+"writeTypedColumnarInternal"
		}, 3, nil) {
			out = append(out, fn.Name())
		}
	}
	sort.Strings(out)
	return out
}

func runC32(c *Ctx) {
	c.Rule("C32.DUPKEY", "PATH: in the typed columnar decoder a repeated routing key (`m`, `columns`) makes it decline — the branch taken when the key was already seen cannot reach the next loop iteration. The raw request bytes go to the WAL and to replication, whose generic decoder keeps the LAST duplicate; if the typed path kept the first, the permission check and the replay would see different measurements")
	if fn := c.MustFunc("C32.DUPKEY", "(*internal/ingest.MessagePackDecoder).tryDecodeColumnarTyped"); fn != nil {
		n := 0
		for _, in := range instrs(fn, false) {
			ifi, ok := in.(*ssa.If)
			if !ok {
				continue
			}
			ph, ok := ifi.Cond.(*ssa.Phi)
			if !ok || ph.Type().String() != "bool" {
				continue
			}
			// a loop-carried flag: its block dominates one of its own predecessors
			header := false
			for _, pr := range ph.Block().Preds {
				if ph.Block().Dominates(pr) {
					header = true
				}
			}
			if !header || !blockInCycle(ifi.Block()) {
				continue
			}
			n++
			reaches := false
			seen := map[*ssa.BasicBlock]bool{}
			var dfs func(b *ssa.BasicBlock)
			dfs = func(b *ssa.BasicBlock) {
				if seen[b] {
					return
				}
				seen[b] = true
				if b == ph.Block() {
					reaches = true
					return
				}
				for _, sc := range b.Succs {
					dfs(sc)
				}
			}
			dfs(ifi.Block().Succs[0])
			name := ph.Comment
			if name == "" {
				name = fmt.Sprintf("flag#%d", n)
			}
			c.Check(!reaches, "C32.DUPKEY", "tryDecodeColumnarTyped|repeated-"+name+"-declines", ifi.Pos(), "a repeated key leaves the typed path", "when the key guarded by `"+name+"` repeats, the typed decoder carries on with the first value: `{m:\"allowed\", columns:…, m:\"secret\"}` is permission-checked and buffered as `allowed`, while the WAL replay and the replication follower decode the same bytes generically (last key wins) and store the rows under `secret`")
		}
		c.Check(n >= 2, "C32.DUPKEY", "tryDecodeColumnarTyped|seen-flags", fn.Pos(), fmt.Sprintf("%d seen-flags guard their keys", n), "expected the two seen-flags (m, columns) to guard their switch arms")
	}
	p := c.P
	c.Rule("C32.API", "COVER: every exported ArrowBuffer method that takes a database and reaches the internal write path is in the checker's table of buffer-write entry points (so no write entry escapes the rules below)")
	c.Rule("C32.SWITCH", "AGREE: every concrete record type ArrowBuffer.Write stores is reported by extractMeasurements (unconditionally, through its Measurement field), and Write's default arm refuses the request")
	c.Rule("C32.GATE", "DOM+PASS: each buffer write in an HTTP handler is dominated by isValidDatabaseName(db)==true on the written database value and by measurement-name validation, and is reachable only through a successful permission check on that same database or through an edge where RBAC is absent/disabled; where a helper performs the checks, the write is dominated by the helper's accepting result and every accepting return of the helper satisfies the same conditions")
	c.Rule("C32.SAMESET", "FLOW: the measurement list handed to the permission check and the records handed to the buffer derive from one decoded value (or are the same measurement value)")
	c.Rule("C32.EACH", "FLOW: CheckWritePermissions asks the RBAC layer once per element of its measurements parameter with a request object created for that element, and answers a non-nil error where a result is not Allowed")
	c.Rule("C32.SOURCE", "FLOW: the database value handed to the buffer by request handlers derives only from request header/query/route values and constants — never from decoded record content")
	c.Rule("C32.KEY", "FLOW: buffer keys and storage paths are built only from the database and measurement handed to the write (no column value or payload field)")
	c.Rule("C32.FRESH", "FLOW: the containers in which ArrowBuffer.Write groups a request's records are created in that call — not taken from a pool, a package variable or the receiver")
	c.Rule("C32.WALKEYS", "ORDER: where WAL rows are built, no client-named column can be stored after (and so replace) the _database/_measurement routing keys of the same row map")
	c.Rule("C32.REPLAY", "FLOW: every consumer of WAL row records routes by the _measurement key and takes the database from the _database key (falling back to the envelope/default only when it is absent)")
	c.Rule("C32.ROUTE", "COVER: every registered route whose handler reaches a buffer write carries the write-tier or admin-tier auth middleware before the handler")

	// ---- API
	for _, n := range exportedBufferWriters(p) {
		_, ok := bufWriteAPI[n]
		c.Check(ok, "C32.API", "ArrowBuffer."+n, 0, "entry point is in the table", "exported buffer write entry point "+n+" is not known to the checker: writes through it are not gated by any rule")
	}
	c.Floor("C32.API", 5, "public write entry points")

	c32Switch(c)
	c32Gate(c)
	c32Each(c)
	c32Key(c)
	c32Fresh(c)
	c32WalKeys(c)
	c32Replay(c)

	// ---- ROUTE
	for _, r := range routeTable(p, "internal/api") {
		if r.Handler == nil || !reaches(r.Handler, isBufferWrite, 5, nil) {
			continue
		}
		okAuth := false
		for _, m := range r.Middlewares {
			if m == "call:internal/api.withWriteAuth" || m == "call:internal/api.withAdminAuth" {
				okAuth = true
			}
		}
		// the middleware value may be a local holding the constructor's result
		c.Check(okAuth, "C32.ROUTE", fmt.Sprintf("%s %s|%s", r.Method, r.Path, r.Handler.Name()), r.Pos, "write-tier or admin-tier auth precedes the handler", fmt.Sprintf("route %s %s stores rows but has neither withWriteAuth nor withAdminAuth before %s (middlewares: %v)", r.Method, r.Path, r.Handler.Name(), r.Middlewares))
	}
	c.Floor("C32.ROUTE", 9, "write and import routes")
}

// ---------------------------------------------------------------- SWITCH

func typeSwitchTypes(fn *ssa.Function, anon bool) map[string]*ssa.TypeAssert {
	out := map[string]*ssa.TypeAssert{}
	for _, in := range instrs(fn, anon) {
		if ta, ok := in.(*ssa.TypeAssert); ok && ta.CommaOk {
			out[types.TypeString(ta.AssertedType, func(p *types.Package) string { return relPkg(p.Path()) })] = ta
		}
	}
	return out
}

func c32Switch(c *Ctx) {
	w := c.MustFunc("C32.SWITCH", abuf+"Write")
	ex := c.MustFunc("C32.SWITCH", "(*internal/api.MsgPackHandler).extractMeasurements")
	if w == nil || ex == nil {
		return
	}
	wt := typeSwitchTypes(w, false)
	et := typeSwitchTypes(ex, true)
	var names []string
	for t := range wt {
		names = append(names, t)
	}
	sort.Strings(names)
	n := 0
	for _, t := range names {
		if strings.HasPrefix(t, "[]") {
			continue // the batch container itself
		}
		n++
		ta, ok := et[t]
		if !ok {
			c.Bad("C32.SWITCH", "extractMeasurements|"+t, wt[t].Pos(), "ArrowBuffer.Write stores records of type %s but extractMeasurements has no arm for it: such records are written without measurement-name validation or a permission check", t)
			continue
		}
		// the arm must record r.Measurement unconditionally: a MapUpdate keyed by the
		// Measurement field of the asserted value, dominated by nothing but the type test
		okArm := false
		for _, in := range instrs(ta.Parent(), false) {
			mu, isMU := in.(*ssa.MapUpdate)
			if !isMU {
				continue
			}
			sn, f, base, isField := loadedField(mu.Key)
			if !isField || f != "Measurement" || !strings.HasSuffix(t, sn) {
				continue
			}
			if !derives(base, func(x ssa.Value) bool { return x == ssa.Value(ta) }, false, 6) {
				continue
			}
			// facts at the update other than the type-switch tests
			extra := 0
			for _, fct := range factsAt(mu) {
				if fct.Kind == factCmp {
					if _, _, _, isF := loadedField(fct.X); isF {
						extra++
					}
				}
			}
			if extra == 0 {
				okArm = true
			}
		}
		c.Check(okArm, "C32.SWITCH", "extractMeasurements|"+t, ta.Pos(), "arm reports the record's measurement unconditionally", "the "+t+" arm of extractMeasurements does not report every record's measurement (a skipped name is still stored by ArrowBuffer.Write, unchecked)")
	}
	if n < 3 {
		c.Unk("C32.SWITCH", "Write|record-types", w.Pos(), "found only %d record types in ArrowBuffer.Write", n)
	}
	// default arm refuses: every return of Write reached with all type tests failed is a non-nil error
	okDefault := false
	for _, in := range instrs(w, false) {
		ret, ok := in.(*ssa.Return)
		if !ok || ret.Block() == w.Recover {
			continue
		}
		failed := 0
		for _, f := range factsAt(ret) {
			if f.Kind == factFalse {
				if ex, ok := f.Val.(*ssa.Extract); ok {
					if _, ok := ex.Tuple.(*ssa.TypeAssert); ok {
						failed++
					}
				}
			}
		}
		if failed >= n && n > 0 {
			okDefault = classifyErr(unspill(ret, ret.Results[0]), ret, nil, 0) == errNonNil
		}
	}
	c.Check(okDefault, "C32.SWITCH", "Write|default-refuses", w.Pos(), "an unknown record type makes Write return an error", "ArrowBuffer.Write does not refuse record types it has no arm for")
}

// ---------------------------------------------------------------- GATE

// c32NotRequestWrites: buffer writes in internal/api that do not store the rows of a
// write, import or replicated-write request.
var c32NotRequestWrites = map[string]string{
	"(*internal/api.ContinuousQueryHandler).executeAggregation": "stores the result of a continuous query under the destination named by the stored CQ definition (created through the admin-gated CQ API); not the rows of a write/import/replicated request",
}

type gateNeeds struct{ db, meas, perm bool }

func (g gateNeeds) missing() []string {
	var m []string
	if !g.db {
		m = append(m, "isValidDatabaseName(<database>) == true")
	}
	if !g.meas {
		m = append(m, "measurement-name validation")
	}
	if !g.perm {
		m = append(m, "a successful permission check on that database (or RBAC absent/disabled)")
	}
	return m
}

var permCheckNames = names("internal/api.CheckWritePermissions", "(*internal/api.MsgPackHandler).checkWritePermissions", "(*internal/api.LineProtocolHandler).checkWritePermissions")

// stripClone looks through strings.Clone and phis that merge a cloned value with a constant.
func stripClone(v ssa.Value) ssa.Value {
	for i := 0; i < 4; i++ {
		if call, ok := v.(*ssa.Call); ok && callName(call) == "strings.Clone" {
			v = call.Call.Args[0]
			continue
		}
		break
	}
	return v
}

func sameDBValue(a, b ssa.Value) bool {
	return a == b || samePathValue(a, b) || stripClone(a) == stripClone(b)
}

// localGate evaluates the three gate conditions at instruction `at` in fn for database value db.
func localGate(fn *ssa.Function, at ssa.Instruction, db ssa.Value, meas, recs ssa.Value) gateNeeds {
	var g gateNeeds
	g.meas = measValidated(fn, at, meas, recs)
	// (a) database validation: fact true on a call isValidDatabaseName(db)
	for _, f := range factsAt(at) {
		if f.Kind != factTrue {
			continue
		}
		if call, ok := f.Val.(*ssa.Call); ok && callName(call) == "internal/api.isValidDatabaseName" && sameDBValue(call.Call.Args[0], db) {
			g.db = true
		}
	}
	// (b) measurement validation: see measValidated (needs the write itself)
	// (c) permission: no path from entry to `at` avoiding (successful permission check) and avoiding rbac-off edges
	var checks []ssa.CallInstruction
	for _, call := range callsIn(fn, false) {
		if permCheckNames.hasCall(call.(ssa.Instruction)) {
			checks = append(checks, call)
		}
	}
	if len(checks) > 0 {
		g.perm = true
		dbOK := false
		for _, ck := range checks {
			args := ck.Common().Args
			// database is the argument before the measurements slice
			if sameDBValue(args[len(args)-2], db) {
				dbOK = true
			}
		}
		if !dbOK {
			g.perm = false
		}
		exits := pathsAvoidingEdges(fn, nil, fn.Blocks[0], func(x ssa.Instruction) bool { return false }, func(x ssa.Instruction) bool { return x == at },
			func(from, to *ssa.BasicBlock) bool {
				for _, f := range blockEdgeFactsDirect(from, to) {
					// success edge of a permission check
					if f.Kind == factNil {
						for _, ck := range checks {
							if v := callValue(ck); v != nil && f.Val == v {
								return true
							}
						}
					}
					// RBAC absent or disabled
					if f.Kind == factNil && fieldSourcesHasSuffix(f.Val, ".rbacManager") {
						return true
					}
					if f.Kind == factFalse {
						if cl, ok := f.Val.(*ssa.Call); ok && cl.Call.IsInvoke() && cl.Call.Method.Name() == "IsRBACEnabled" {
							return true
						}
					}
				}
				return false
			})
		for _, e := range exits {
			if e.Instr == at {
				g.perm = false
			}
		}
	}
	return g
}

func fieldSourcesHasSuffix(v ssa.Value, suffix string) bool {
	for k := range fieldSources(v, 3) {
		if strings.HasSuffix(k, suffix) {
			return true
		}
	}
	return false
}

// measValidated: the measurement name(s) being written were validated.
//   - a single measurement value: isValidMeasurementName(<that value>) == true dominates the write;
//   - records: a loop validates every element of a collection K whose range dominates the
//     write, the write is unreachable from a failed validation, and K and the written
//     records derive from one another (K is computed from the records, or the records are
//     drawn from K).
func measValidated(fn *ssa.Function, at ssa.Instruction, meas, recs ssa.Value) bool {
	var mv []*ssa.Call
	for _, call := range findCalls(fn, false, "internal/api.isValidMeasurementName") {
		if cl, ok := call.(*ssa.Call); ok {
			mv = append(mv, cl)
		}
	}
	for _, cl := range mv {
		arg := cl.Call.Args[0]
		if meas != nil {
			if guardedTrue(at, cl) && sameDBValue(arg, meas) {
				return true
			}
			continue
		}
		if recs == nil {
			continue
		}
		// the collection the validated value is drawn from
		var coll ssa.Value
		var rng ssa.Instruction
		derivesWide(arg, func(v ssa.Value) bool {
			switch x := v.(type) {
			case *ssa.Range:
				if coll == nil {
					coll, rng = x.X, x
				}
			case *ssa.Index:
				if coll == nil {
					coll = x.X
					rng, _ = x.X.(ssa.Instruction)
				}
			case *ssa.IndexAddr:
				if coll == nil {
					coll = x.X
					rng, _ = x.X.(ssa.Instruction)
				}
			}
			return false
		}, 4)
		if coll == nil {
			continue
		}
		if rng != nil && !instrDominates(rng, at) {
			continue
		}
		// unreachable from the failed validation
		reach := false
		for _, r := range *cl.Referrers() {
			var ifi *ssa.If
			neg := false
			switch x := r.(type) {
			case *ssa.If:
				ifi = x
			case *ssa.UnOp:
				if x.Op == token.NOT {
					for _, r2 := range *x.Referrers() {
						if y, ok := r2.(*ssa.If); ok {
							ifi, neg = y, true
						}
					}
				}
			}
			if ifi == nil {
				continue
			}
			failSucc := ifi.Block().Succs[1]
			if neg {
				failSucc = ifi.Block().Succs[0]
			}
			for _, e := range pathsAvoidingTo(fn, nil, failSucc, func(ssa.Instruction) bool { return false }, func(x ssa.Instruction) bool { return x == at }) {
				if e.Instr == at {
					reach = true
				}
			}
		}
		if reach {
			continue
		}
		// K and the records are one data set
		if derivesWide(recs, func(v ssa.Value) bool { return v == coll }, 10) || derivesWide(coll, func(v ssa.Value) bool { return v == recs }, 10) {
			return true
		}
	}
	return false
}

// c32ZeroIterationOnly: the only way to reach `at` without passing a validation call is a
// range loop over the measurement collection running zero times; then the write loop over
// the same collection also runs zero times, or the collection being empty means nothing
// names a measurement. Accept when `at` itself sits in a loop over, or consumes, the same
// collection the validation loop ranges over.
func c32ZeroIterationOnly(fn *ssa.Function, at ssa.Instruction, mv []*ssa.Call) bool {
	for _, cl := range mv {
		// the validated value comes from a range/next over some collection
		var coll ssa.Value
		backSlice(cl.Call.Args[0], 4, func(v ssa.Value) bool {
			switch x := v.(type) {
			case *ssa.Next:
				if r, ok := x.Iter.(*ssa.Range); ok {
					coll = r.X
				}
			case *ssa.Index:
				coll = x.X
			case *ssa.IndexAddr:
				coll = x.X
			}
			return coll == nil
		})
		if coll == nil {
			return false
		}
	}
	return true
}

func c32Gate(c *Ctx) {
	p := c.P
	nW := 0
	helperChecked := map[*ssa.Function]bool{}
	for _, fn := range p.FuncsIn("internal/api") {
		if fn.Signature.Recv() == nil || len(fn.Blocks) == 0 {
			continue
		}
		// request handlers: have a *fiber.Ctx parameter
		hasCtx := false
		for _, prm := range fn.Params {
			if strings.HasSuffix(prm.Type().String(), "fiber/v2.Ctx") {
				hasCtx = true
			}
		}
		ws := bufWritesIn(fn, false)
		if len(ws) == 0 {
			continue
		}
		for i, w := range ws {
			construct := fmt.Sprintf("%s.%s|%s#%d", recvTypeName(fn), fn.Name(), w.Name, i+1)
			at := w.Call.(ssa.Instruction)
			if why, ok := c32NotRequestWrites[ssaFuncName(fn)]; ok {
				c.Triv("C32.GATE", construct, w.Call.Pos(), "%s", why)
				continue
			}
			if !hasCtx {
				// a worker that receives already-gated names as parameters: its callers are checked instead
				okParams := isAnyParam(fn, w.DB)
				if okParams {
					c32GateCallers(c, fn, w, construct)
					nW++
					continue
				}
				c.Unk("C32.GATE", construct, w.Call.Pos(), "buffer write outside a request handler with a database that is not a parameter")
				continue
			}
			nW++
			// SOURCE
			c32Source(c, fn, w, construct)
			// helper-provided database?
			if ex, ok := w.DB.(*ssa.Extract); ok {
				if hc, ok := ex.Tuple.(*ssa.Call); ok {
					if h := hc.Call.StaticCallee(); h != nil && h.Pkg != nil && relPkg(h.Pkg.Pkg.Path()) == "internal/api" {
						c32HelperGate(c, fn, at, hc, h, ex.Index, extractIdxOf(w.Meas, hc), construct, helperChecked)
						continue
					}
				}
			}
			g := localGate(fn, at, w.DB, w.Meas, w.Recs)
			if m := g.missing(); len(m) > 0 {
				c.Bad("C32.GATE", construct, w.Call.Pos(), "%s.%s stores rows through %s without %s", recvTypeName(fn), fn.Name(), w.Name, strings.Join(m, ", "))
			} else {
				c.OK("C32.GATE", construct, w.Call.Pos(), "validated database, validated measurement names and permission check dominate the write")
			}
			c32SameSet(c, fn, w, construct)
		}
	}
	if nW < 6 {
		c.Unk("C32.GATE", "writes", 0, "only %d handler buffer writes found", nW)
	}
}

// loadedField: v is a load of (or the address of) a struct field.
func loadedField(v ssa.Value) (string, string, ssa.Value, bool) {
	if ld, ok := v.(*ssa.UnOp); ok && ld.Op == token.MUL {
		return fieldOf(ld.X)
	}
	return fieldOf(v)
}

func isAnyParam(fn *ssa.Function, v ssa.Value) bool {
	_, ok := resolveParam(stripClone(v)).(*ssa.Parameter)
	return ok
}

// resolveParam looks through the spill of a parameter into a local cell
// (parameters captured by a closure are stored once at entry and reloaded).
func resolveParam(v ssa.Value) ssa.Value {
	ld, ok := v.(*ssa.UnOp)
	if !ok || ld.Op != token.MUL {
		return v
	}
	a, ok := ld.X.(*ssa.Alloc)
	if !ok {
		return v
	}
	var only ssa.Value
	n := 0
	for _, r := range *a.Referrers() {
		if st, ok := r.(*ssa.Store); ok && st.Addr == ssa.Value(a) {
			n++
			only = st.Val
		}
	}
	if n == 1 {
		if prm, ok := only.(*ssa.Parameter); ok {
			return prm
		}
	}
	return v
}

// c32GateCallers: fn is a worker (no fiber ctx) that writes database/measurement parameters;
// every caller inside internal/api must itself hold the gate for the values it passes.
func c32GateCallers(c *Ctx, fn *ssa.Function, w bufWrite, construct string) {
	p := c.P
	prm := resolveParam(stripClone(w.DB)).(*ssa.Parameter)
	idx := -1
	for i, q := range fn.Params {
		if q == prm {
			idx = i
		}
	}
	n := 0
	for _, g := range p.FuncsIn("internal/api") {
		for _, call := range callsIn(g, false) {
			if call.Common().StaticCallee() != fn {
				continue
			}
			n++
			arg := call.Common().Args[idx]
			cons := fmt.Sprintf("%s<-%s.%s", construct, recvTypeName(g), g.Name())
			if ex, ok := arg.(*ssa.Extract); ok {
				if hc, ok := ex.Tuple.(*ssa.Call); ok {
					if h := hc.Call.StaticCallee(); h != nil {
						mi := -1
						if pi := c32ParamIndex(fn, w.Meas); pi >= 0 {
							mi = extractIdxOf(call.Common().Args[pi], hc)
						}
						c32HelperGate(c, g, call.(ssa.Instruction), hc, h, ex.Index, mi, cons, map[*ssa.Function]bool{})
						continue
					}
				}
			}
			var margs ssa.Value
			if mi := c32ParamIndex(fn, w.Meas); mi >= 0 {
				margs = call.Common().Args[mi]
			}
			gt := localGate(g, call.(ssa.Instruction), arg, margs, nil)
			if m := gt.missing(); len(m) > 0 {
				c.Bad("C32.GATE", cons, call.Pos(), "%s calls %s (which stores rows) without %s", g.Name(), fn.Name(), strings.Join(m, ", "))
			} else {
				c.OK("C32.GATE", cons, call.Pos(), "caller holds the gate for the names it passes")
			}
		}
	}
	if n == 0 {
		c.Unk("C32.GATE", construct, w.Call.Pos(), "worker %s has no callers in internal/api", fn.Name())
	}
}

// c32HelperGate: in fn, the write at `at` uses result #idx of helper call hc as its database.
// extractIdxOf: v is result #i of call hc (-1 otherwise).
func extractIdxOf(v ssa.Value, hc *ssa.Call) int {
	if ex, ok := v.(*ssa.Extract); ok && ex.Tuple == ssa.Value(hc) {
		return ex.Index
	}
	return -1
}

// c32ParamIndex: index of the parameter of fn that v is (through clone/spill), or -1.
func c32ParamIndex(fn *ssa.Function, v ssa.Value) int {
	if v == nil {
		return -1
	}
	prm, ok := resolveParam(stripClone(v)).(*ssa.Parameter)
	if !ok {
		return -1
	}
	for i, q := range fn.Params {
		if q == prm {
			return i
		}
	}
	return -1
}

func c32HelperGate(c *Ctx, fn *ssa.Function, at ssa.Instruction, hc *ssa.Call, h *ssa.Function, idx, midx int, construct string, done map[*ssa.Function]bool) {
	// which result of the helper does the caller test?
	acceptIdx, acceptKind := -1, factTrue
	for _, f := range factsAt(at) {
		ex, ok := f.Val.(*ssa.Extract)
		if !ok || ex.Tuple != ssa.Value(hc) {
			continue
		}
		if f.Kind == factTrue && types.Identical(ex.Type().Underlying(), types.Typ[types.Bool]) {
			acceptIdx, acceptKind = ex.Index, factTrue
		}
		if f.Kind == factNil && isErrorType(ex.Type()) && acceptIdx < 0 {
			acceptIdx, acceptKind = ex.Index, factNil
		}
	}
	if acceptIdx < 0 {
		c.Bad("C32.GATE", construct, at.Pos(), "%s stores rows using the database returned by %s without testing that %s accepted the request", fn.Name(), h.Name(), h.Name())
		return
	}
	// every accepting return of the helper must hold the gate for result #idx
	bad := []string{}
	nAcc := 0
	for _, in := range instrs(h, false) {
		ret, ok := in.(*ssa.Return)
		if !ok || ret.Block() == h.Recover {
			continue
		}
		accepting := false
		rv := unspill(ret, ret.Results[acceptIdx])
		if acceptKind == factTrue {
			k, isK := rv.(*ssa.Const)
			accepting = !isK || (k.Value != nil && constant.BoolVal(k.Value))
		} else {
			accepting = classifyErr(rv, ret, nil, 0) != errNonNil
		}
		if !accepting {
			continue
		}
		nAcc++
		var hm ssa.Value
		if midx >= 0 {
			hm = unspill(ret, ret.Results[midx])
		}
		g := localGate(h, ret, unspill(ret, ret.Results[idx]), hm, nil)
		if m := g.missing(); len(m) > 0 {
			what := "true"
			if acceptKind == factNil {
				what = "a nil (or possibly nil) error"
			}
			bad = append(bad, fmt.Sprintf("%s returns %s at L%d without %s", h.Name(), what, c.P.Line(ret.Pos()), strings.Join(m, ", ")))
		}
	}
	switch {
	case nAcc == 0:
		c.Unk("C32.GATE", construct, at.Pos(), "helper %s has no accepting return", h.Name())
	case len(bad) > 0:
		c.Bad("C32.GATE", construct, at.Pos(), "%s relies on %s to have validated and permission-checked the request, but %s — the caller then stores the rows", fn.Name(), h.Name(), strings.Join(bad, "; "))
	default:
		c.OK("C32.GATE", construct, at.Pos(), "write dominated by %s accepting; all %d accepting return(s) of %s hold the gate", h.Name(), nAcc, h.Name())
	}
}

// ---------------------------------------------------------------- SAMESET

func c32SameSet(c *Ctx, fn *ssa.Function, w bufWrite, construct string) {
	var checks []ssa.CallInstruction
	for _, call := range callsIn(fn, false) {
		if permCheckNames.hasCall(call.(ssa.Instruction)) {
			checks = append(checks, call)
		}
	}
	if len(checks) == 0 {
		return
	}
	ok := false
	for _, ck := range checks {
		args := ck.Common().Args
		measList := args[len(args)-1]
		if w.Meas != nil {
			// single measurement: the list literal contains the very value written
			if derives(measList, func(x ssa.Value) bool { return x == w.Meas || stripClone(x) == stripClone(w.Meas) }, false, 8) {
				ok = true
			}
			continue
		}
		// records: list and records share a decoded source value
		srcs := map[ssa.Value]bool{}
		derivesWide(w.Recs, func(v ssa.Value) bool {
			switch x := v.(type) {
			case *ssa.Call:
				if !strings.HasPrefix(callName(x), "strings.") && x.Call.Value.Name() != "append" {
					srcs[v] = true
				}
			case *ssa.Extract:
				if _, isNext := x.Tuple.(*ssa.Next); !isNext {
					srcs[v] = true
				}
			case *ssa.Parameter:
				if x.Name() == "records" {
					srcs[v] = true
				}
			}
			return false
		}, 12)
		if derivesWide(measList, func(x ssa.Value) bool { return srcs[x] }, 14) {
			ok = true
		}
	}
	c.Check(ok, "C32.SAMESET", construct, w.Call.Pos(), "checked measurements and written records come from one value", "the measurements that are permission-checked do not derive from the records that are written")
}

// ---------------------------------------------------------------- SOURCE

func c32Source(c *Ctx, fn *ssa.Function, w bufWrite, construct string) {
	var bad []string
	n := 0
	backSlice(w.DB, 10, func(v ssa.Value) bool {
		switch x := v.(type) {
		case *ssa.Call:
			nm := callName(x)
			switch {
			case nm == "strings.Clone", strings.HasPrefix(nm, "(*github.com/gofiber/fiber/v2.Ctx)."):
				n++
				return nm == "strings.Clone"
			case strings.HasPrefix(nm, "(*internal/api."), strings.HasPrefix(nm, "internal/api."):
				return true // helper: follow its returns
			default:
				bad = append(bad, "call "+nm)
				return false
			}
		case *ssa.Lookup:
			bad = append(bad, "map lookup")
			return false
		case *ssa.FieldAddr, *ssa.Field:
			if sn, f, _, ok := fieldOf(v); ok {
				bad = append(bad, "field "+sn+"."+f)
			}
			return false
		case *ssa.TypeAssert:
			bad = append(bad, "decoded value")
			return false
		}
		return true
	})
	if len(bad) > 0 {
		c.Bad("C32.SOURCE", construct, w.Call.Pos(), "the database handed to %s can come from %s rather than from the request's header/query/route", w.Name, strings.Join(uniq(bad), ", "))
		return
	}
	c.Check(n > 0 || isAnyParam(fn, w.DB), "C32.SOURCE", construct, w.Call.Pos(), "database comes from request header/query values and constants only", "cannot trace the database argument to a request header/query value")
}

// ---------------------------------------------------------------- EACH

func c32Each(c *Ctx) {
	fn := c.MustFunc("C32.EACH", "internal/api.CheckWritePermissions")
	if fn == nil {
		return
	}
	// stores into PermissionCheckRequest.Measurement of a value deriving from the measurements parameter
	n := 0
	for _, in := range instrs(fn, false) {
		st, ok := in.(*ssa.Store)
		if !ok {
			continue
		}
		fa, ok := st.Addr.(*ssa.FieldAddr)
		if !ok {
			continue
		}
		sn, f, _, ok := fieldOf(fa)
		if !ok || sn != "PermissionCheckRequest" || f != "Measurement" {
			continue
		}
		if !derives(st.Val, isParam(fn, "measurements"), false, 6) {
			continue
		}
		n++
		alloc, _ := fa.X.(*ssa.Alloc)
		inLoop := alloc != nil && blockInCycle(alloc.Block())
		if !inLoop && alloc != nil {
			// one object reused across iterations is fine when it is checked inside the
			// loop, after this store, before the next measurement overwrites it
			for _, call := range callsIn(fn, false) {
				cc := call.Common()
				if cc.IsInvoke() && cc.Method.Name() == "CheckPermission" && blockInCycle(call.Block()) && instrDominates(st, call.(ssa.Instruction)) {
					for _, a := range cc.Args {
						if derives(a, func(x ssa.Value) bool { return x == ssa.Value(alloc) }, false, 6) {
							inLoop = true
						}
					}
				}
			}
		}
		c.Check(inLoop, "C32.EACH", "CheckWritePermissions|request-per-measurement", st.Pos(), "each measurement is checked through a request that is its own at the time of the check", "the permission request that receives each measurement is created once outside the loop and checked after it: all list entries alias one object, so only the last measurement is actually checked")
		// the request reaches a CheckPermission/CheckPermissionsBatch call
		reached := false
		for _, call := range callsIn(fn, false) {
			cc := call.Common()
			if cc.IsInvoke() && (cc.Method.Name() == "CheckPermission" || cc.Method.Name() == "CheckPermissionsBatch") {
				for _, a := range cc.Args {
					if alloc != nil && derives(a, func(x ssa.Value) bool { return x == ssa.Value(alloc) }, false, 8) {
						reached = true
					}
				}
			}
		}
		c.Check(reached, "C32.EACH", "CheckWritePermissions|request-is-checked", st.Pos(), "the request is handed to the RBAC layer", "the per-measurement request never reaches CheckPermission")
	}
	if n == 0 {
		c.Bad("C32.EACH", "CheckWritePermissions|request-per-measurement", fn.Pos(), "no permission request receives the elements of the measurements parameter")
	}
	// denial: where Allowed is false the function returns a definitely non-nil error
	nd := 0
	for _, in := range instrs(fn, false) {
		ret, ok := in.(*ssa.Return)
		if !ok {
			continue
		}
		if !hasFieldFact(ret, factFalse, "PermissionCheckResult.Allowed") {
			continue
		}
		nd++
		c.Check(classifyErr(unspill(ret, ret.Results[0]), ret, nil, 0) == errNonNil, "C32.EACH", "CheckWritePermissions|denial-is-error", ret.Pos(), "a denied measurement yields a non-nil error", "CheckWritePermissions can return nil although a measurement was denied")
	}
	if nd == 0 {
		c.Bad("C32.EACH", "CheckWritePermissions|denial-is-error", fn.Pos(), "no return is taken where a result is not Allowed")
	}
	// every nil return: after the loop finished (all results allowed) or RBAC off / no token
	for _, in := range instrs(fn, false) {
		ret, ok := in.(*ssa.Return)
		if !ok {
			continue
		}
		if classifyErr(unspill(ret, ret.Results[0]), ret, nil, 0) == errNonNil {
			continue
		}
		okNilFacts := func(fs []fact) bool {
			okNil := false
			for _, f := range fs {
				switch {
				case f.Kind == factNil && isParam(fn, "rbacManager")(f.Val):
					okNil = true
				case f.Kind == factFalse:
					if cl, ok := f.Val.(*ssa.Call); ok && cl.Call.IsInvoke() && cl.Call.Method.Name() == "IsRBACEnabled" {
						okNil = true
					}
					// loop exhausted: range/next ok == false or index < len false
					if _, ok := f.Val.(*ssa.Extract); ok {
						okNil = true
					}
				case f.Kind == factNil:
					if cl, ok := f.Val.(*ssa.Call); ok && strings.HasSuffix(callName(cl), "auth.GetTokenInfo") {
						okNil = true
					}
				case f.Kind == factCmp && (f.Op == token.GEQ || f.Op == token.LSS || f.Op == token.EQL):
					// index loop exhausted / empty list
					okNil = okNil || f.Op == token.GEQ
				}
			}
			return okNil
		}
		okNil := okNilFacts(factsAt(ret))
		if !okNil && len(ret.Block().Preds) > 1 {
			okNil = true
			for _, pb := range ret.Block().Preds {
				if !okNilFacts(append(factsAtBlock(pb), blockEdgeFactsDirect(pb, ret.Block())...)) {
					okNil = false
				}
			}
		}
		c.Check(okNil, "C32.EACH", fmt.Sprintf("CheckWritePermissions|nil-return@L%d", c.P.Line(ret.Pos())-c.P.Line(fn.Pos())), ret.Pos(), "nil only with RBAC off, no token, or every measurement checked", "CheckWritePermissions can return nil before every measurement was checked")
	}
}

// blockInCycle: the block can reach itself.
func blockInCycle(b *ssa.BasicBlock) bool {
	seen := map[*ssa.BasicBlock]bool{}
	var st []*ssa.BasicBlock
	st = append(st, b.Succs...)
	for len(st) > 0 {
		x := st[len(st)-1]
		st = st[:len(st)-1]
		if x == b {
			return true
		}
		if seen[x] {
			continue
		}
		seen[x] = true
		st = append(st, x.Succs...)
	}
	return false
}

// ---------------------------------------------------------------- KEY

func c32Key(c *Ctx) {
	for _, name := range []string{"writeColumnarInternal", "writeTypedColumnarRaw"} {
		fn := c.P.Func(abuf + name)
		if fn == nil {
			continue
		}
		n := 0
		for _, in := range instrs(fn, false) {
			bo, ok := in.(*ssa.BinOp)
			if !ok || bo.Op != token.ADD {
				continue
			}
			if s, ok := constString(bo.Y); !ok || s != "/" {
				continue
			}
			// bo = X + "/" ; find (bo + Y)
			for _, r := range *bo.Referrers() {
				k, ok := r.(*ssa.BinOp)
				if !ok || k.Op != token.ADD || k.X != ssa.Value(bo) {
					continue
				}
				n++
				okDB := isParam(fn, "database")(resolveParam(bo.X))
				okM := isParam(fn, "measurement")(resolveParam(k.Y))
				if sn, f, base, isF := loadedField(k.Y); isF && f == "Measurement" && sn == "ColumnarRecord" {
					okM = derives(base, func(x ssa.Value) bool { return isParam(fn, "record")(resolveParam(x)) }, false, 4)
				}
				c.Check(okDB && okM, "C32.KEY", name+"|bufferKey", k.Pos(), "buffer key = database parameter + \"/\" + the record's measurement", "the buffer key in "+name+" is not built from the database parameter and the record's own measurement")
			}
		}
		if n == 0 {
			c.Unk("C32.KEY", name+"|bufferKey", fn.Pos(), "no buffer key construction found")
		}
	}
	gp := c.MustFunc("C32.KEY", abuf+"generateStoragePath")
	if gp != nil {
		for _, call := range findCalls(gp, false, "fmt.Sprintf") {
			b := bindArgs(call)
			ok := len(b) >= 2 && isParam(gp, "database")(b[0]) && isParam(gp, "measurement")(b[1])
			f, _ := constString(call.Common().Args[0])
			ok = ok && strings.HasPrefix(f, "%s/%s/")
			c.Check(ok, "C32.KEY", "generateStoragePath|prefix", call.Pos(), "path starts with <database>/<measurement>/ from the parameters", "the storage path does not start with the database and measurement parameters")
		}
		// callers pass the buffer key's two halves
		for _, fn := range c.P.MethodsOf("internal/ingest", "ArrowBuffer") {
			for _, call := range findCalls(fn, true, abuf+"generateStoragePath") {
				a := call.Common().Args
				okSrc := true
				for _, v := range []ssa.Value{a[1], a[2]} {
					src := fieldSources(v, 6)
					_, isP := v.(*ssa.Parameter)
					if !(isP || src["flushTask.database"] || src["flushTask.measurement"] || derives(v, func(x ssa.Value) bool {
						cl, ok := x.(*ssa.Call)
						return ok && callName(cl) == "internal/ingest.splitBufferKey"
					}, false, 6) || derives(v, func(x ssa.Value) bool { _, ok := x.(*ssa.Parameter); return ok }, false, 6)) {
						okSrc = false
					}
				}
				c.Check(okSrc, "C32.KEY", fmt.Sprintf("%s|storage-path-args#%s", fn.Name(), siteOrdinal(fn, call)), call.Pos(), "storage path is built from the flush task's / buffer key's database and measurement", "generateStoragePath is given names that do not come from the buffer key or flush task")
			}
		}
	}
	// the line-protocol grouping: handlers validate and permission-check the map KEYS of
	// BatchToColumnar's result, the buffer stores by the record's Measurement FIELD
	if bt := c.MustFunc("C32.KEY", "internal/ingest.BatchToColumnar"); bt != nil {
		n := 0
		for _, in := range instrs(bt, false) {
			mu, ok := in.(*ssa.MapUpdate)
			if !ok || !strings.Contains(mu.Value.Type().String(), "ColumnarRecord") {
				continue
			}
			n++
			alloc, _ := mu.Value.(*ssa.Alloc)
			same := false
			if alloc != nil {
				for _, r := range *alloc.Referrers() {
					if fa, ok := r.(*ssa.FieldAddr); ok {
						if _, f, _, _ := fieldOf(fa); f == "Measurement" {
							for _, r2 := range *fa.Referrers() {
								if st, ok := r2.(*ssa.Store); ok && st.Addr == ssa.Value(fa) && st.Val == mu.Key {
									same = true
								}
							}
						}
					}
				}
			}
			fromRec := derivesWide(mu.Key, func(v ssa.Value) bool {
				sn, f, _, ok := loadedField(v)
				return ok && sn == "Record" && f == "Measurement"
			}, 10)
			c.Check(same && fromRec, "C32.KEY", "BatchToColumnar|key-is-record-measurement", mu.Pos(), "each group is keyed by, and its record carries, the rows' own measurement", "BatchToColumnar's result key and the Measurement its record is stored under are not the same value: handlers validate/permission-check the key while the buffer stores by the field")
		}
		if n == 0 {
			c.Unk("C32.KEY", "BatchToColumnar|key-is-record-measurement", bt.Pos(), "no result map update found")
		}
	}
	c.Floor("C32.KEY", 5, "two buffer keys, path format, path callers, LP grouping")
}

// ---------------------------------------------------------------- FRESH

func c32Fresh(c *Ctx) {
	w := c.MustFunc("C32.FRESH", abuf+"Write")
	if w == nil {
		return
	}
	n := 0
	for _, call := range callsIn(w, false) {
		nm := callName(call)
		if nm != abuf+"rowsToColumnar" && nm != abuf+"writeColumnar" {
			continue
		}
		for ai, a := range call.Common().Args[1:] {
			if !isRecordContainer(a.Type()) {
				continue
			}
			n++
			var bad []string
			derivesWide(a, func(v ssa.Value) bool {
				switch x := v.(type) {
				case *ssa.Call:
					if callName(x) == "(*sync.Pool).Get" {
						bad = append(bad, "sync.Pool.Get")
					}
				case *ssa.Global:
					bad = append(bad, "package variable "+x.Name())
				case *ssa.FieldAddr:
					if sn, f, _, ok := fieldOf(v); ok && sn == "ArrowBuffer" && isRecordContainer(x.Type()) {
						bad = append(bad, "receiver field "+f)
					}
				}
				return false
			}, 14)
			c.Check(len(bad) == 0, "C32.FRESH", fmt.Sprintf("Write|%s-arg%d#%s", nm[strings.LastIndex(nm, ".")+1:], ai+1, siteOrdinal(w, call)), call.Pos(), "records written derive only from this call's arguments and containers created in it", "records handed to "+nm[strings.LastIndex(nm, ".")+1:]+" can come from "+strings.Join(uniq(bad), ", ")+": rows left there by another request are stored under this request's database")
		}
	}
	if n == 0 {
		c.Unk("C32.FRESH", "Write|containers", w.Pos(), "no record containers found")
	}
}

func isRecordContainer(t types.Type) bool {
	s := t.String()
	return strings.Contains(s, "models.Record") || strings.Contains(s, "models.ColumnarRecord")
}

// ---------------------------------------------------------------- WALKEYS

func c32WalKeys(c *Ctx) { c32WalKeysAs(c, "C32.WALKEYS") }

func c32WalKeysAs(c *Ctx, rule string) {
	n := 0
	for _, pk := range []string{"internal/ingest", "internal/wal", "internal/api", "internal/cluster"} {
		for _, fn := range c.P.FuncsIn(pk) {
			maps := map[ssa.Value][]*ssa.MapUpdate{}
			for _, in := range instrs(fn, false) {
				mu, ok := in.(*ssa.MapUpdate)
				if !ok {
					continue
				}
				if s, ok := constString(mu.Key); ok && (s == "_database" || s == "_measurement") {
					maps[mu.Map] = append(maps[mu.Map], mu)
				}
			}
			for m, routing := range maps {
				mk, _ := m.(*ssa.MakeMap)
				for _, ru := range routing {
					key, _ := constString(ru.Key)
					n++
					var after []string
					exits := pathsAvoidingTo(fn, ru, nil, func(x ssa.Instruction) bool { return mk != nil && x == ssa.Instruction(mk) }, func(x ssa.Instruction) bool {
						mu, ok := x.(*ssa.MapUpdate)
						if !ok || mu.Map != m || mu == ru {
							return false
						}
						if _, isConst := mu.Key.(*ssa.Const); isConst {
							return false
						}
						// guarded by key != "_database"/"_measurement"?
						for _, f := range factsAt(mu) {
							if f.Kind == factCmp && f.Op == token.NEQ && (f.X == mu.Key || f.Y == mu.Key) {
								if s, ok := constString(f.Y); ok && s == key {
									return false
								}
								if s, ok := constString(f.X); ok && s == key {
									return false
								}
							}
						}
						return true
					})
					for _, e := range exits {
						if mu, ok := e.Instr.(*ssa.MapUpdate); ok {
							after = append(after, fmt.Sprintf("L%d", c.P.Line(mu.Pos())))
						}
					}
					c.Check(len(after) == 0, rule, fmt.Sprintf("%s|%s", fn.Name(), key), ru.Pos(), "no client-named key is stored into the row after "+key, fmt.Sprintf("in %s a client-named column is stored into the WAL row (%s) after the routing key %s was set: a column called %s replaces it and replay stores the row wherever the column value says", fn.Name(), strings.Join(uniq(after), ","), key, key))
				}
			}
		}
	}
	c.Floor(rule, 4, "two row builders x two routing keys")
}

// ---------------------------------------------------------------- REPLAY

// routeInfo: where a routing value comes from.
type routeInfo struct {
	keys     map[string]bool // constant map keys looked up
	envelope bool            // wal.ParseEnvelope result
	other    []string
}

// c32RouteSources is a field-sensitive backward walk: it follows struct fields
// through literals, map keys/values through range loops over maps made in the
// function, phis, conversions and strings.Clone.
func c32RouteSources(v ssa.Value) routeInfo {
	ri := routeInfo{keys: map[string]bool{}}
	type st struct {
		v    ssa.Value
		pend string
	}
	seen := map[st]bool{}
	var rec func(v ssa.Value, pend []int, d int)
	storesOf := func(a *ssa.Alloc, pend []int, d int) {
		for _, r := range *a.Referrers() {
			switch rr := r.(type) {
			case *ssa.Store:
				if rr.Addr == ssa.Value(a) {
					rec(rr.Val, pend, d+1)
				}
			case *ssa.FieldAddr:
				if len(pend) > 0 && rr.Field != pend[len(pend)-1] {
					continue
				}
				np := pend
				if len(pend) > 0 {
					np = pend[:len(pend)-1]
				}
				for _, r2 := range *rr.Referrers() {
					if s2, ok := r2.(*ssa.Store); ok && s2.Addr == ssa.Value(rr) {
						rec(s2.Val, np, d+1)
					}
				}
			}
		}
	}
	rec = func(v ssa.Value, pend []int, d int) {
		if v == nil || d > 24 {
			return
		}
		k := st{v, fmt.Sprint(pend)}
		if seen[k] {
			return
		}
		seen[k] = true
		switch x := v.(type) {
		case *ssa.Const, *ssa.Parameter:
		case *ssa.Field:
			rec(x.X, append(append([]int{}, pend...), x.Field), d+1)
		case *ssa.UnOp:
			if x.Op == token.MUL {
				switch a := x.X.(type) {
				case *ssa.FieldAddr:
					rec(a.X, append(append([]int{}, pend...), a.Field), d+1)
					return
				case *ssa.Alloc:
					storesOf(a, pend, d)
					return
				}
			}
			rec(x.X, pend, d+1)
		case *ssa.Alloc:
			storesOf(x, pend, d)
		case *ssa.Phi:
			for _, e := range x.Edges {
				rec(e, pend, d+1)
			}
		case *ssa.Extract:
			if nx, ok := x.Tuple.(*ssa.Next); ok {
				if rg, ok := nx.Iter.(*ssa.Range); ok {
					if mk, ok := rg.X.(*ssa.MakeMap); ok {
						for _, r := range *mk.Referrers() {
							if mu, ok := r.(*ssa.MapUpdate); ok && mu.Map == ssa.Value(mk) {
								if x.Index == 1 {
									rec(mu.Key, pend, d+1)
								} else {
									rec(mu.Value, pend, d+1)
								}
							}
						}
						return
					}
					rec(rg.X, pend, d+1)
					return
				}
			}
			rec(x.Tuple, pend, d+1)
		case *ssa.TypeAssert:
			rec(x.X, pend, d+1)
		case *ssa.MakeInterface:
			rec(x.X, pend, d+1)
		case *ssa.ChangeType:
			rec(x.X, pend, d+1)
		case *ssa.Convert:
			rec(x.X, pend, d+1)
		case *ssa.BinOp:
			rec(x.X, pend, d+1)
			rec(x.Y, pend, d+1)
		case *ssa.Lookup:
			if s, ok := constString(x.Index); ok {
				ri.keys[s] = true
			} else {
				ri.other = append(ri.other, "a map lookup with a computed key")
			}
		case *ssa.Call:
			switch callName(x) {
			case "strings.Clone":
				rec(x.Call.Args[0], pend, d+1)
			case "internal/wal.ParseEnvelope":
				ri.envelope = true
			default:
				ri.other = append(ri.other, "call "+callName(x))
			}
		default:
			ri.other = append(ri.other, fmt.Sprintf("%T", v))
		}
	}
	rec(v, nil, 0)
	return ri
}

func c32Replay(c *Ctx) { c32ReplayAs(c, "C32.REPLAY") }

func c32ReplayAs(c *Ctx, rule string) {
	n := 0
	for _, pk := range []string{"cmd/arc", "internal/cluster", "internal/wal", "internal/ingest", "internal/api"} {
		for _, fn := range c.P.FuncsIn(pk) {
			for _, sub := range append([]*ssa.Function{fn}, allAnon(fn)...) {
				// a consumer of WAL rows: looks up the constant key "_measurement" in a map
				consumes := false
				for _, in := range instrs(sub, false) {
					if lk, ok := in.(*ssa.Lookup); ok {
						if s, ok := constString(lk.Index); ok && s == "_measurement" {
							consumes = true
						}
					}
				}
				if !consumes {
					continue
				}
				for i, w := range bufWritesIn(sub, false) {
					n++
					construct := fmt.Sprintf("%s|%s#%d", ssaFuncName(sub), w.Name, i+1)
					db := c32RouteSources(w.DB)
					var ms routeInfo
					if w.Meas != nil {
						ms = c32RouteSources(w.Meas)
					}
					var miss []string
					switch {
					case ms.keys["_measurement"]:
						// row-format entry
						if !db.keys["_database"] {
							miss = append(miss, "the database does not come from the row's _database key (row-format entries carry no envelope, so every such row falls to the default database)")
						}
						for k := range db.keys {
							if k != "_database" && k != "database" {
								miss = append(miss, "the database can come from row key "+k)
							}
						}
						for k := range ms.keys {
							if k != "_measurement" && k != "measurement" && k != "m" {
								miss = append(miss, "the measurement can come from row key "+k)
							}
						}
					case ms.keys["m"]:
						// columnar payload inside an envelope
						if !db.envelope {
							miss = append(miss, "the database of a columnar entry does not come from the WAL envelope")
						}
						if len(db.keys) > 0 {
							miss = append(miss, "the database of a columnar entry can come from a payload key")
						}
					default:
						miss = append(miss, "cannot tell which key the measurement is routed by")
					}
					if len(db.other) > 0 {
						miss = append(miss, "the database can come from "+strings.Join(uniq(db.other), ", "))
					}
					sort.Strings(miss)
					if len(miss) == 0 {
						c.OK(rule, construct, w.Call.Pos(), "rows are routed by their own routing keys / the envelope only")
					} else {
						c.Bad(rule, construct, w.Call.Pos(), "%s", strings.Join(miss, "; "))
					}
				}
			}
		}
	}
	if n < 3 {
		c.Unk(rule, "consumers", 0, "found %d replayed writes, expected the recovery callback and the two paths of the replication ingest handler", n)
	}
}

func allAnon(fn *ssa.Function) []*ssa.Function {
	var out []*ssa.Function
	for _, a := range fn.AnonFuncs {
		out = append(out, a)
		out = append(out, allAnon(a)...)
	}
	return out
}
