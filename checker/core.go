package main

import (
	"encoding/json"
	"fmt"
	"go/ast"
	"go/token"
	"go/types"
	"os"
	"path/filepath"
	"sort"
	"strings"
	"time"

	"golang.org/x/tools/go/callgraph"
	"golang.org/x/tools/go/callgraph/cha"
	"golang.org/x/tools/go/callgraph/vta"
	"golang.org/x/tools/go/packages"
	"golang.org/x/tools/go/ssa"
	"golang.org/x/tools/go/ssa/ssautil"
)

const modulePath = "github.com/basekick-labs/arc"

// ---------------------------------------------------------------------------
// Program loading
// ---------------------------------------------------------------------------

// Prog is one type-checked + SSA-built configuration of the repository.
type Prog struct {
	Config  string // "prod" or "base"
	RepoDir string
	Fset    *token.FileSet
	Pkgs    map[string]*packages.Package // by path relative to module ("internal/auth")
	SSA     *ssa.Program
	SSAPkgs map[string]*ssa.Package

	funcs    map[string]*ssa.Function // canonical name -> function (source functions only)
	decls    map[string]*ast.FuncDecl // canonical name -> declaration
	declPkg  map[string]*packages.Package
	allFuncs []*ssa.Function // source functions incl. anonymous ones
	cg       *callgraph.Graph
	callers  map[*ssa.Function][]*ssa.Function

	NumPkgs  int
	NumFuncs int
}

func relPkg(path string) string {
	if path == modulePath {
		return "."
	}
	return strings.TrimPrefix(path, modulePath+"/")
}

// canon strips the module prefix from a types.Func full name, so that
//
//	(*github.com/basekick-labs/arc/internal/auth.RBACManager).InvalidateAllCache
//
// becomes (*internal/auth.RBACManager).InvalidateAllCache
func canon(s string) string {
	return strings.ReplaceAll(s, modulePath+"/", "")
}

func funcName(f *types.Func) string {
	if f == nil {
		return ""
	}
	return canon(f.FullName())
}

// LoadProg loads ./... of repoDir with the given build tags. overlay maps
// absolute file names to replacement contents (used for mutants).
func LoadProg(repoDir, config string, overlay map[string][]byte) (*Prog, error) {
	var flags []string
	switch config {
	case "prod":
		flags = []string{"-tags=duckdb_arrow"}
	case "base":
	default:
		return nil, fmt.Errorf("unknown config %q", config)
	}
	env := []string{}
	for _, e := range os.Environ() {
		if strings.HasPrefix(e, "GOWORK=") || strings.HasPrefix(e, "GOFLAGS=") || strings.HasPrefix(e, "GOPROXY=") ||
			strings.HasPrefix(e, "GOTOOLCHAIN=") || strings.HasPrefix(e, "GOSUMDB=") {
			continue
		}
		env = append(env, e)
	}
	env = append(env, "GOWORK=off", "GOFLAGS=-mod=mod", "GOPROXY=off")
	cfg := &packages.Config{
		Mode: packages.NeedName | packages.NeedFiles | packages.NeedCompiledGoFiles | packages.NeedImports |
			packages.NeedTypes | packages.NeedSyntax | packages.NeedTypesInfo | packages.NeedTypesSizes | packages.NeedModule,
		Dir:        repoDir,
		Env:        env,
		BuildFlags: flags,
		Overlay:    overlay,
	}
	pkgs, err := packages.Load(cfg, "./...")
	if err != nil {
		return nil, fmt.Errorf("load: %w", err)
	}
	if len(pkgs) == 0 {
		return nil, fmt.Errorf("load: zero packages matched ./... in %s", repoDir)
	}
	var errs []string
	for _, p := range pkgs {
		for _, e := range p.Errors {
			errs = append(errs, e.Error())
		}
	}
	if len(errs) > 0 {
		if len(errs) > 8 {
			errs = errs[:8]
		}
		return nil, fmt.Errorf("load/type errors (config %s): %s", config, strings.Join(errs, "; "))
	}
	p := &Prog{
		Config: config, RepoDir: repoDir,
		Pkgs: map[string]*packages.Package{}, SSAPkgs: map[string]*ssa.Package{},
		funcs: map[string]*ssa.Function{}, decls: map[string]*ast.FuncDecl{}, declPkg: map[string]*packages.Package{},
	}
	p.Fset = pkgs[0].Fset
	prog, spkgs := ssautil.Packages(pkgs, ssa.InstantiateGenerics)
	prog.Build()
	p.SSA = prog
	for i, pk := range pkgs {
		rp := relPkg(pk.PkgPath)
		p.Pkgs[rp] = pk
		p.SSAPkgs[rp] = spkgs[i]
		p.NumPkgs++
		for _, f := range pk.Syntax {
			for _, d := range f.Decls {
				fd, ok := d.(*ast.FuncDecl)
				if !ok {
					continue
				}
				obj, _ := pk.TypesInfo.Defs[fd.Name].(*types.Func)
				if obj == nil {
					continue
				}
				name := funcName(obj)
				p.decls[name] = fd
				p.declPkg[name] = pk
				if sf := prog.FuncValue(obj); sf != nil {
					p.funcs[name] = sf
				}
			}
		}
	}
	for _, sf := range p.funcs {
		p.collect(sf)
	}
	// package initialisers (needed for package-level var initial values)
	for _, sp := range spkgs {
		if sp == nil {
			continue
		}
		if init := sp.Func("init"); init != nil {
			p.collect(init)
		}
	}
	sort.Slice(p.allFuncs, func(i, j int) bool { return p.allFuncs[i].Pos() < p.allFuncs[j].Pos() })
	p.NumFuncs = len(p.allFuncs)
	return p, nil
}

func (p *Prog) collect(f *ssa.Function) {
	p.allFuncs = append(p.allFuncs, f)
	for _, a := range f.AnonFuncs {
		p.collect(a)
	}
}

// Func returns the SSA function with the canonical name, or nil.
func (p *Prog) Func(name string) *ssa.Function { return p.funcs[name] }

// Decl returns the AST declaration with the canonical name.
func (p *Prog) Decl(name string) (*ast.FuncDecl, *packages.Package) {
	return p.decls[name], p.declPkg[name]
}

// FuncsIn returns the named source functions (not closures) of a package, sorted.
func (p *Prog) FuncsIn(pkg string) []*ssa.Function {
	var out []*ssa.Function
	for name, f := range p.funcs {
		if f.Pkg != nil && relPkg(f.Pkg.Pkg.Path()) == pkg {
			_ = name
			out = append(out, f)
		}
	}
	sort.Slice(out, func(i, j int) bool { return out[i].Pos() < out[j].Pos() })
	return out
}

// MethodsOf returns the source methods declared on the named type (pointer or
// value receiver) in package pkg.
func (p *Prog) MethodsOf(pkg, typ string) []*ssa.Function {
	var out []*ssa.Function
	for _, f := range p.FuncsIn(pkg) {
		if recvTypeName(f) == typ {
			out = append(out, f)
		}
	}
	return out
}

func recvTypeName(f *ssa.Function) string {
	sig := f.Signature
	if sig.Recv() == nil {
		return ""
	}
	t := sig.Recv().Type()
	if pt, ok := t.(*types.Pointer); ok {
		t = pt.Elem()
	}
	if n, ok := t.(*types.Named); ok {
		return n.Obj().Name()
	}
	return ""
}

// Pos renders a position relative to the repository root.
func (p *Prog) Pos(pos token.Pos) string {
	if !pos.IsValid() {
		return "-"
	}
	ps := p.Fset.Position(pos)
	rel, err := filepath.Rel(p.RepoDir, ps.Filename)
	if err != nil {
		rel = ps.Filename
	}
	return fmt.Sprintf("%s:%d:%d", rel, ps.Line, ps.Column)
}

func (p *Prog) Line(pos token.Pos) int { return p.Fset.Position(pos).Line }

// CallGraph builds (once) a VTA call graph seeded with CHA.
func (p *Prog) CallGraph() *callgraph.Graph {
	if p.cg != nil {
		return p.cg
	}
	all := ssautil.AllFunctions(p.SSA)
	p.cg = vta.CallGraph(all, cha.CallGraph(p.SSA))
	return p.cg
}

// Callees returns the possible source-level callees of a call instruction:
// the static callee if there is one, otherwise the VTA targets.
func (p *Prog) Callees(call ssa.CallInstruction) []*ssa.Function {
	if f := call.Common().StaticCallee(); f != nil {
		return []*ssa.Function{f}
	}
	cg := p.CallGraph()
	n := cg.Nodes[call.Parent()]
	if n == nil {
		return nil
	}
	var out []*ssa.Function
	for _, e := range n.Out {
		if e.Site == call {
			out = append(out, e.Callee.Func)
		}
	}
	return out
}

// ---------------------------------------------------------------------------
// Obligations
// ---------------------------------------------------------------------------

type Ob struct {
	Rule       string `json:"rule"`
	Construct  string `json:"construct"`
	Pos        string `json:"pos"`
	Verdict    string `json:"verdict"` // discharged | violated | undecided | known
	Detail     string `json:"detail"`
	Config     string `json:"config"`
	Nontrivial bool   `json:"nontrivial"`
}

func (o Ob) Key() string { return o.Rule + "|" + o.Construct }

type floorReq struct {
	rule string
	n    int
	why  string
}

// Ctx collects the obligations of one property run.
type Ctx struct {
	Prop   string
	Tier   string
	P      *Prog // current config
	Obs    []Ob
	floors []floorReq
	needs  map[string]string // rule|constructPrefix -> why
	Rules  map[string]string // rule id -> description (for evidence)
	order  []string
}

func (c *Ctx) Rule(id, desc string) {
	if c.Rules == nil {
		c.Rules = map[string]string{}
	}
	if _, ok := c.Rules[id]; !ok {
		c.order = append(c.order, id)
	}
	c.Rules[id] = desc
}

func (c *Ctx) add(rule, construct string, pos token.Pos, verdict, detail string, nontrivial bool) {
	c.Obs = append(c.Obs, Ob{Rule: rule, Construct: construct, Pos: c.P.Pos(pos), Verdict: verdict, Detail: detail, Config: c.P.Config, Nontrivial: nontrivial})
}

// OK records a discharged obligation whose discharge needed an argument
// (dominance, flow, lock, agreement).
func (c *Ctx) OK(rule, construct string, pos token.Pos, format string, a ...any) {
	c.add(rule, construct, pos, "discharged", fmt.Sprintf(format, a...), true)
}

// Triv records a discharged obligation that was a plain presence check.
func (c *Ctx) Triv(rule, construct string, pos token.Pos, format string, a ...any) {
	c.add(rule, construct, pos, "discharged", fmt.Sprintf(format, a...), false)
}

func (c *Ctx) Bad(rule, construct string, pos token.Pos, format string, a ...any) {
	c.add(rule, construct, pos, "violated", fmt.Sprintf(format, a...), true)
}

func (c *Ctx) Unk(rule, construct string, pos token.Pos, format string, a ...any) {
	c.add(rule, construct, pos, "undecided", fmt.Sprintf(format, a...), true)
}

// Check is a convenience: OK when cond, Bad otherwise.
func (c *Ctx) Check(cond bool, rule, construct string, pos token.Pos, okMsg, badMsg string) bool {
	if cond {
		c.OK(rule, construct, pos, "%s", okMsg)
	} else {
		c.Bad(rule, construct, pos, "%s", badMsg)
	}
	return cond
}

// Floor requires at least n obligations of the rule to have been evaluated.
func (c *Ctx) Floor(rule string, n int, why string) {
	c.floors = append(c.floors, floorReq{rule, n, why})
}

// Need requires an obligation whose construct starts with prefix to exist.
func (c *Ctx) Need(rule, constructPrefix, why string) {
	if c.needs == nil {
		c.needs = map[string]string{}
	}
	c.needs[rule+"|"+constructPrefix] = why
}

// MustFunc resolves an anchor; an unresolved anchor is a violation (fail closed).
func (c *Ctx) MustFunc(rule, name string) *ssa.Function {
	f := c.P.Func(name)
	if f == nil {
		c.add(rule, "anchor:"+name, token.NoPos, "undecided", "unresolved anchor: function "+name+" not found in config "+c.P.Config, true)
	}
	return f
}

func (c *Ctx) MustDecl(rule, name string) (*ast.FuncDecl, *packages.Package) {
	d, pk := c.P.Decl(name)
	if d == nil {
		c.add(rule, "anchor:"+name, token.NoPos, "undecided", "unresolved anchor: declaration "+name+" not found in config "+c.P.Config, true)
	}
	return d, pk
}

func (c *Ctx) finishFloors() {
	count := map[string]int{}
	for _, o := range c.Obs {
		count[o.Rule]++
	}
	for _, f := range c.floors {
		if count[f.rule] < f.n {
			c.add(f.rule, fmt.Sprintf("floor:%d", f.n), token.NoPos, "undecided",
				fmt.Sprintf("rule matched %d instance(s), below the hand-confirmed floor of %d (%s): an anchor vanished or the rule no longer recognises the code", count[f.rule], f.n, f.why), true)
		}
	}
	keys := make([]string, 0, len(c.needs))
	for k := range c.needs {
		keys = append(keys, k)
	}
	sort.Strings(keys)
	for _, k := range keys {
		found := false
		for _, o := range c.Obs {
			if strings.HasPrefix(o.Key(), k) {
				found = true
				break
			}
		}
		if !found {
			parts := strings.SplitN(k, "|", 2)
			c.add(parts[0], "need:"+parts[1], token.NoPos, "undecided", "expected instance not evaluated: "+c.needs[k], true)
		}
	}
}

// ---------------------------------------------------------------------------
// Known findings
// ---------------------------------------------------------------------------

type KnownFinding struct {
	Property  string `json:"property"`
	Rule      string `json:"rule"`
	Construct string `json:"construct"`
	WhatFails string `json:"what_fails"`
}

type KnownFile struct {
	Open  []KnownFinding `json:"open"`
	Fixed []string       `json:"fixed"`
}

func loadKnown(path string) (*KnownFile, error) {
	b, err := os.ReadFile(path)
	if err != nil {
		if os.IsNotExist(err) {
			return &KnownFile{}, nil
		}
		return nil, err
	}
	var k KnownFile
	if err := json.Unmarshal(b, &k); err != nil {
		return nil, err
	}
	return &k, nil
}

// ---------------------------------------------------------------------------
// Evidence
// ---------------------------------------------------------------------------

type runResult struct {
	Prop          string
	Tier          string
	Seed          int
	Obs           []Ob
	Rules         map[string]string
	RuleOrder     []string
	Configs       []string
	NumPkgs       int
	NumFuncs      int
	CGNodes       int
	NotDecided    string
	Extra         map[string]any
	Start         time.Time
	KnownMatched  []string
	Violations    int
	ReplayFiles   []string
	FatalMessages []string
}

func mergeObs(obs []Ob) []Ob {
	// One obligation per key; across configs keep the worst verdict.
	rank := map[string]int{"discharged": 0, "known": 1, "undecided": 2, "violated": 3}
	idx := map[string]int{}
	var out []Ob
	for _, o := range obs {
		k := o.Key()
		if i, ok := idx[k]; ok {
			if rank[o.Verdict] > rank[out[i].Verdict] {
				cfgs := out[i].Config
				out[i] = o
				out[i].Config = cfgs + "," + o.Config
			} else if !strings.Contains(out[i].Config, o.Config) {
				out[i].Config += "," + o.Config
			}
			continue
		}
		idx[k] = len(out)
		out = append(out, o)
	}
	return out
}

func writeEvidence(dir string, r *runResult) error {
	obs := r.Obs
	discharged, nontriv := 0, 0
	seen := map[string]bool{}
	for _, o := range obs {
		if o.Verdict == "discharged" {
			discharged++
		}
		if o.Nontrivial && !seen[o.Key()] {
			seen[o.Key()] = true
			nontriv++
		}
	}
	var expl []string
	for _, id := range r.RuleOrder {
		expl = append(expl, id+": "+r.Rules[id])
	}
	explanation := "Static analysis of /repo's working tree (go/packages type-checked syntax + go/ssa, configs " + strings.Join(r.Configs, "+") +
		"). Each rule yields obligations keyed by rule+construct; the property's check passes iff none is violated or undecided. Rules: " + strings.Join(expl, " || ")
	if r.NotDecided != "" {
		explanation += " || NOT decided by this check: " + r.NotDecided
	}
	// samples: up to 3 per rule, violated/undecided/known first
	perRule := map[string]int{}
	var samples []Ob
	sorted := append([]Ob(nil), obs...)
	rank := map[string]int{"violated": 0, "undecided": 1, "known": 2, "discharged": 3}
	sort.SliceStable(sorted, func(i, j int) bool { return rank[sorted[i].Verdict] < rank[sorted[j].Verdict] })
	for _, o := range sorted {
		if perRule[o.Rule] >= 3 && o.Verdict == "discharged" {
			continue
		}
		perRule[o.Rule]++
		samples = append(samples, o)
		if len(samples) >= 60 {
			break
		}
	}
	perRuleCount := map[string]map[string]int{}
	for _, o := range obs {
		if perRuleCount[o.Rule] == nil {
			perRuleCount[o.Rule] = map[string]int{}
		}
		perRuleCount[o.Rule][o.Verdict]++
	}
	cov := map[string]any{
		"explanation":            explanation,
		"obligations":            len(obs),
		"discharged":             discharged,
		"evaluations":            len(obs),
		"distinct_nontrivial":    nontriv,
		"rule":                   "one obligation per (rule id, construct) found by resolving the rule's anchors in the type-checked program; non-trivial = discharge needed a dominance, path, flow, lock-scope or table-agreement argument rather than mere presence; distinct = distinct rule+construct keys",
		"samples":                samples,
		"configs":                r.Configs,
		"packages_loaded":        r.NumPkgs,
		"functions_analysed":     r.NumFuncs,
		"call_graph_nodes":       r.CGNodes,
		"per_rule":               perRuleCount,
		"unanalysed_build_tags":  []string{"fips", "simdutf", "non-linux GOOS files"},
		"known_findings_matched": r.KnownMatched,
		"checker_cmd":            "bin/arccheck -prop " + r.Prop + " -tier " + r.Tier,
		"trusted_base":           []string{"go/types, go/ssa (x/tools v0.29.0)", "the rule tables in /verif/checker", "third-party packages behave as documented"},
		"exhaustive":             false,
	}
	for k, v := range r.Extra {
		cov[k] = v
	}
	if len(r.FatalMessages) > 0 {
		cov["fatal"] = r.FatalMessages
	}
	ev := map[string]any{
		"property_id": r.Prop,
		"tier":        r.Tier,
		"seed":        r.Seed,
		"level":       "other",
		"coverage":    cov,
		"assumptions": []string{
			"the decided clauses are necessary structural conditions of the property, not the behaviour itself",
			"callees in third-party modules behave as their documentation says",
			"reflection and unsafe are not used to reach the anchored state (none found in the anchored packages)",
		},
		"wall_s":     time.Since(r.Start).Seconds(),
		"violations": r.Violations,
	}
	if err := os.MkdirAll(dir, 0o755); err != nil {
		return err
	}
	b, err := json.MarshalIndent(ev, "", " ")
	if err != nil {
		return err
	}
	return os.WriteFile(filepath.Join(dir, r.Prop+".json"), b, 0o644)
}
