package main

import (
	"go/token"
	"sort"
	"strings"

	"golang.org/x/tools/go/ssa"
)

// addrKey renders a canonical name for an address/value expression rooted at a
// parameter, free variable, global or local: "f.mu", "(*s.shard).mu", …
// Returns "" for shapes it does not understand.
func addrKey(v ssa.Value) string {
	switch x := v.(type) {
	case *ssa.Parameter:
		return x.Name()
	case *ssa.FreeVar:
		return x.Name()
	case *ssa.Global:
		return x.Name()
	case *ssa.Alloc:
		if x.Comment != "" {
			return "local:" + x.Comment
		}
		return "local:" + x.Name()
	case *ssa.FieldAddr:
		b := addrKey(x.X)
		if b == "" {
			return ""
		}
		_, f, _, _ := fieldOf(x)
		return b + "." + f
	case *ssa.Field:
		b := addrKey(x.X)
		if b == "" {
			return ""
		}
		_, f, _, _ := fieldOf(x)
		return b + "." + f
	case *ssa.UnOp:
		if x.Op == token.MUL {
			b := addrKey(x.X)
			if b == "" {
				return ""
			}
			// loading a pointer-typed field and then selecting through it reads
			// like x.f.g in source; keep it flat.
			return b
		}
	case *ssa.IndexAddr:
		b := addrKey(x.X)
		if b == "" {
			return ""
		}
		return b + "[]"
	case *ssa.Phi:
		// same key on all edges
		k := ""
		for i, e := range x.Edges {
			ek := addrKey(e)
			if i == 0 {
				k = ek
			} else if ek != k {
				return ""
			}
		}
		return k
	case *ssa.Call:
		// accessor returning a pointer: key by callee + receiver
		if callee := x.Call.StaticCallee(); callee != nil && len(x.Call.Args) > 0 {
			b := addrKey(x.Call.Args[0])
			if b != "" {
				return b + "." + callee.Name() + "()"
			}
		}
	case *ssa.Extract:
		return addrKey(x.Tuple)
	case *ssa.Lookup:
		b := addrKey(x.X)
		if b == "" {
			return ""
		}
		return b + "[]"
	}
	return ""
}

var lockOps = map[string]struct {
	acquire bool
	mode    string
}{
	"(*sync.Mutex).Lock":      {true, "W"},
	"(*sync.Mutex).Unlock":    {false, "W"},
	"(*sync.RWMutex).Lock":    {true, "W"},
	"(*sync.RWMutex).Unlock":  {false, "W"},
	"(*sync.RWMutex).RLock":   {true, "R"},
	"(*sync.RWMutex).RUnlock": {false, "R"},
	"(*sync.Mutex).TryLock":   {false, ""}, // not modelled
}

// lockState maps lock key -> mode ("W" or "R").
type lockState map[string]string

func (s lockState) clone() lockState {
	n := lockState{}
	for k, v := range s {
		n[k] = v
	}
	return n
}

func meetLocks(a, b lockState) lockState {
	out := lockState{}
	for k, v := range a {
		if w, ok := b[k]; ok {
			if v == w {
				out[k] = v
			} else {
				out[k] = "R" // held at least for reading on both
			}
		}
	}
	return out
}

func equalLocks(a, b lockState) bool {
	if len(a) != len(b) {
		return false
	}
	for k, v := range a {
		if b[k] != v {
			return false
		}
	}
	return true
}

// lockInfo is the result of the must-hold analysis of one function.
type lockInfo struct {
	fn    *ssa.Function
	in    map[*ssa.BasicBlock]lockState
	entry lockState
}

// analyzeLocks runs a forward must-hold dataflow. entry is the set of locks
// assumed held on entry (for "...Locked" helpers).
func analyzeLocks(fn *ssa.Function, entry lockState) *lockInfo {
	li := &lockInfo{fn: fn, in: map[*ssa.BasicBlock]lockState{}, entry: entry}
	if len(fn.Blocks) == 0 {
		return li
	}
	if entry == nil {
		entry = lockState{}
	}
	li.in[fn.Blocks[0]] = entry.clone()
	work := []*ssa.BasicBlock{fn.Blocks[0]}
	out := map[*ssa.BasicBlock]lockState{}
	for len(work) > 0 {
		b := work[0]
		work = work[1:]
		st := li.in[b].clone()
		for _, in := range b.Instrs {
			applyLockInstr(st, in)
		}
		if prev, ok := out[b]; ok && equalLocks(prev, st) {
			continue
		}
		out[b] = st
		for _, s := range b.Succs {
			var ns lockState
			if cur, ok := li.in[s]; ok {
				ns = meetLocks(cur, st)
				if equalLocks(ns, cur) {
					continue
				}
			} else {
				ns = st.clone()
			}
			li.in[s] = ns
			work = append(work, s)
		}
	}
	return li
}

func applyLockInstr(st lockState, in ssa.Instruction) {
	call, ok := in.(*ssa.Call)
	if !ok {
		return
	}
	op, ok := lockOps[callName(call)]
	if !ok || op.mode == "" {
		return
	}
	k := addrKey(call.Call.Args[0])
	if k == "" {
		return
	}
	if op.acquire {
		st[k] = op.mode
	} else {
		delete(st, k)
	}
}

// heldAt returns the locks that are certainly held just before instruction in.
func (li *lockInfo) heldAt(in ssa.Instruction) lockState {
	b := in.Block()
	st, ok := li.in[b]
	if !ok {
		return lockState{}
	}
	st = st.clone()
	for _, x := range b.Instrs {
		if x == in {
			break
		}
		applyLockInstr(st, x)
	}
	return st
}

func (s lockState) String() string {
	var ks []string
	for k, v := range s {
		ks = append(ks, k+":"+v)
	}
	sort.Strings(ks)
	return "{" + strings.Join(ks, ",") + "}"
}

// fieldAccess describes one read or write of a struct field (or of the
// map/slice stored in it).
type fieldAccess struct {
	In     ssa.Instruction
	Struct string
	Field  string
	Write  bool
	Base   string // addrKey of the struct value
}

// fieldAccesses lists accesses to fields of the named struct type in fn
// (closures excluded): loads/stores of the field itself and updates of the
// map held in it.
func fieldAccesses(fn *ssa.Function, structName string) []fieldAccess {
	var out []fieldAccess
	for _, b := range fn.Blocks {
		for _, in := range b.Instrs {
			fa, ok := in.(*ssa.FieldAddr)
			if !ok {
				continue
			}
			sn, f, base, ok := fieldOf(fa)
			if !ok || sn != structName {
				continue
			}
			bk := addrKey(base)
			for _, r := range *fa.Referrers() {
				switch x := r.(type) {
				case *ssa.Store:
					if x.Addr == fa {
						out = append(out, fieldAccess{In: x, Struct: sn, Field: f, Write: true, Base: bk})
					}
				case *ssa.UnOp:
					if x.Op != token.MUL {
						continue
					}
					// a load: is the loaded map/slice then mutated?
					w := false
					for _, r2 := range *x.Referrers() {
						switch y := r2.(type) {
						case *ssa.MapUpdate:
							if y.Map == x {
								w = true
								out = append(out, fieldAccess{In: y, Struct: sn, Field: f, Write: true, Base: bk})
							}
						case *ssa.Call:
							if bi, ok := y.Call.Value.(*ssa.Builtin); ok && (bi.Name() == "delete" || bi.Name() == "clear") && len(y.Call.Args) > 0 && y.Call.Args[0] == x {
								w = true
								out = append(out, fieldAccess{In: y, Struct: sn, Field: f, Write: true, Base: bk})
							}
						}
					}
					if !w {
						out = append(out, fieldAccess{In: x, Struct: sn, Field: f, Write: false, Base: bk})
					} else {
						out = append(out, fieldAccess{In: x, Struct: sn, Field: f, Write: false, Base: bk})
					}
				default:
					// address escapes (atomic ops, method calls on the field): treat as read
					if ri, ok := r.(ssa.Instruction); ok {
						out = append(out, fieldAccess{In: ri, Struct: sn, Field: f, Write: false, Base: bk})
					}
				}
			}
		}
	}
	return out
}
