package main

import (
	"encoding/json"
	"flag"
	"fmt"
	"io/fs"
	"os"
	"os/exec"
	"path/filepath"
	"runtime/debug"
	"sort"
	"strconv"
	"strings"
	"sync"
	"time"
)

type propDef struct {
	ID         string
	Run        func(c *Ctx)
	NotDecided string
	Configs    []string // configs evaluated in the thorough tier (quick: first only)
}

var registry = map[string]*propDef{}

func register(id string, run func(c *Ctx), notDecided string, configs ...string) {
	if len(configs) == 0 {
		configs = []string{"prod", "base"}
	}
	registry[id] = &propDef{ID: id, Run: run, NotDecided: notDecided, Configs: configs}
}

type mutant struct {
	Name   string `json:"name"`
	File   string `json:"file"` // relative to repo root
	Old    string `json:"old"`
	New    string `json:"new"`
	Old2   string `json:"old2,omitempty"` // optional second edit in the same file
	New2   string `json:"new2,omitempty"`
	Expect string `json:"expect"` // rule id expected to fire
	Why    string `json:"why"`
}

func main() {
	var (
		prop       = flag.String("prop", "", "property id (C01..C32)")
		tier       = flag.String("tier", "quick", "quick|thorough")
		repo       = flag.String("repo", "/repo", "repository root")
		verifDir   = flag.String("verif", "", "verif root (default: parent of the binary's directory)")
		replay     = flag.String("replay", "", "replay file: re-evaluate one obligation")
		overlayDir = flag.String("overlaydir", "", "directory mirroring repo-relative paths whose files replace the repo's (seeded variants)")
		mutName    = flag.String("mutant", "", "apply the named mutant from mutants/<prop>.json as an overlay")
		noEvidence = flag.Bool("noevidence", false, "do not write evidence / replay files")
		listRules  = flag.Bool("list", false, "list registered properties")
		verbose    = flag.Bool("v", false, "print every obligation")
	)
	flag.Parse()
	if *listRules {
		ids := make([]string, 0, len(registry))
		for id := range registry {
			ids = append(ids, id)
		}
		sort.Strings(ids)
		fmt.Println(strings.Join(ids, " "))
		return
	}
	vdir := *verifDir
	if vdir == "" {
		exe, err := os.Executable()
		if err == nil {
			vdir = filepath.Dir(filepath.Dir(exe))
		} else {
			vdir = "/verif"
		}
	}
	if *replay != "" {
		b, err := os.ReadFile(*replay)
		if err != nil {
			fmt.Fprintln(os.Stderr, "replay:", err)
			os.Exit(2)
		}
		var rp struct {
			Property string `json:"property"`
			Ob       Ob     `json:"obligation"`
		}
		if err := json.Unmarshal(b, &rp); err != nil {
			fmt.Fprintln(os.Stderr, "replay:", err)
			os.Exit(2)
		}
		*prop = rp.Property
		*noEvidence = true
		os.Exit(runProp(*prop, "quick", *repo, vdir, nil, true, *verbose, rp.Ob.Key()))
	}
	if *prop == "" {
		fmt.Fprintln(os.Stderr, "usage: arccheck -prop Cnn [-tier quick|thorough]")
		os.Exit(2)
	}
	overlay := map[string][]byte{}
	if *overlayDir != "" {
		err := filepath.WalkDir(*overlayDir, func(path string, d fs.DirEntry, err error) error {
			if err != nil || d.IsDir() || !strings.HasSuffix(path, ".go") {
				return err
			}
			rel, _ := filepath.Rel(*overlayDir, path)
			b, err := os.ReadFile(path)
			if err != nil {
				return err
			}
			overlay[filepath.Join(*repo, rel)] = b
			return nil
		})
		if err != nil {
			fmt.Fprintln(os.Stderr, "overlaydir:", err)
			os.Exit(2)
		}
	}
	if *mutName != "" {
		ms, err := loadMutants(vdir, *prop)
		if err != nil {
			fmt.Fprintln(os.Stderr, "mutants:", err)
			os.Exit(2)
		}
		found := false
		for _, m := range ms {
			if m.Name == *mutName {
				found = true
				ov, err := applyMutant(*repo, m)
				if err != nil {
					fmt.Println("MUTANT-INAPPLICABLE", m.Name, err)
					os.Exit(3)
				}
				for k, v := range ov {
					overlay[k] = v
				}
			}
		}
		if !found {
			fmt.Fprintln(os.Stderr, "no such mutant", *mutName)
			os.Exit(2)
		}
	}
	if len(overlay) == 0 {
		overlay = nil
	}
	os.Exit(runProp(*prop, *tier, *repo, vdir, overlay, *noEvidence, *verbose, ""))
}

func loadMutants(vdir, prop string) ([]mutant, error) {
	b, err := os.ReadFile(filepath.Join(vdir, "checker", "mutants", prop+".json"))
	if err != nil {
		if os.IsNotExist(err) {
			return nil, nil
		}
		return nil, err
	}
	var ms []mutant
	if err := json.Unmarshal(b, &ms); err != nil {
		return nil, fmt.Errorf("%s: %w", prop, err)
	}
	return ms, nil
}

func applyMutant(repo string, m mutant) (map[string][]byte, error) {
	path := filepath.Join(repo, m.File)
	b, err := os.ReadFile(path)
	if err != nil {
		return nil, err
	}
	s := string(b)
	if n := strings.Count(s, m.Old); n != 1 {
		return nil, fmt.Errorf("anchor text occurs %d times in %s (need exactly 1)", n, m.File)
	}
	s = strings.Replace(s, m.Old, m.New, 1)
	if m.Old2 != "" {
		if n := strings.Count(s, m.Old2); n != 1 {
			return nil, fmt.Errorf("second anchor text occurs %d times in %s (need exactly 1)", n, m.File)
		}
		s = strings.Replace(s, m.Old2, m.New2, 1)
	}
	return map[string][]byte{path: []byte(s)}, nil
}

func runProp(prop, tier, repo, vdir string, overlay map[string][]byte, noEvidence, verbose bool, onlyKey string) (exit int) {
	start := time.Now()
	def := registry[prop]
	seed, _ := strconv.Atoi(os.Getenv("VERIF_SEED"))
	res := &runResult{Prop: prop, Tier: tier, Seed: seed, Start: start, Extra: map[string]any{}}
	evDir := filepath.Join(vdir, "evidence")
	fatal := func(msg string) int {
		res.FatalMessages = append(res.FatalMessages, msg)
		res.Violations = 1
		path := filepath.Join(evDir, "replay", prop+"-fatal.json")
		if !noEvidence {
			os.MkdirAll(filepath.Dir(path), 0o755)
			b, _ := json.MarshalIndent(map[string]any{"property": prop, "fatal": msg}, "", " ")
			os.WriteFile(path, b, 0o644)
			writeEvidence(evDir, res)
		}
		fmt.Printf("FATAL %s: %s\n", prop, msg)
		fmt.Printf("VIOLATION property=%s replay=%s\n", prop, path)
		return 1
	}
	if def == nil {
		return fatal("no checker registered for property " + prop)
	}
	defer func() {
		if r := recover(); r != nil {
			exit = fatal(fmt.Sprintf("checker panic: %v\n%s", r, debug.Stack()))
		}
	}()
	configs := def.Configs
	if tier == "quick" {
		configs = configs[:1]
	}
	res.Configs = configs
	res.NotDecided = def.NotDecided
	var all []Ob
	var ctx0 *Ctx
	for _, cfgName := range configs {
		p, err := LoadProg(repo, cfgName, overlay)
		if err != nil {
			return fatal(err.Error())
		}
		c := &Ctx{Prop: prop, Tier: tier, P: p}
		def.Run(c)
		c.finishFloors()
		all = append(all, c.Obs...)
		res.NumPkgs += p.NumPkgs
		res.NumFuncs += p.NumFuncs
		if p.cg != nil {
			res.CGNodes += len(p.cg.Nodes)
		}
		if ctx0 == nil {
			ctx0 = c
		}
	}
	res.Rules = ctx0.Rules
	res.RuleOrder = ctx0.order
	obs := mergeObs(all)
	sort.SliceStable(obs, func(i, j int) bool { return obs[i].Key() < obs[j].Key() })

	known, err := loadKnown(filepath.Join(vdir, "known_findings.json"))
	if err != nil {
		return fatal("known_findings.json: " + err.Error())
	}
	knownSet := map[string]KnownFinding{}
	for _, k := range known.Open {
		if k.Property == prop {
			knownSet[k.Rule+"|"+k.Construct] = k
		}
	}
	viol := 0
	k := 0
	if len(obs) == 0 {
		return fatal("checker produced no obligations (vacuous)")
	}
	for i := range obs {
		o := &obs[i]
		if onlyKey != "" && o.Key() != onlyKey {
			continue
		}
		if verbose || onlyKey != "" {
			fmt.Printf("%-10s %-11s %s  [%s] %s\n", o.Rule, o.Verdict, o.Construct, o.Pos, o.Detail)
		}
		if o.Verdict != "violated" && o.Verdict != "undecided" {
			continue
		}
		if kf, ok := knownSet[o.Key()]; ok && o.Verdict == "violated" {
			o.Verdict = "known"
			fmt.Printf("KNOWN-FINDING: property=%s %s %s at %s — %s\n", prop, o.Rule, o.Construct, o.Pos, kf.WhatFails)
			res.KnownMatched = append(res.KnownMatched, o.Key())
			continue
		}
		viol++
		k++
		path := filepath.Join(evDir, "replay", fmt.Sprintf("%s-%d.json", prop, k))
		if !noEvidence {
			os.MkdirAll(filepath.Dir(path), 0o755)
			b, _ := json.MarshalIndent(map[string]any{"property": prop, "obligation": o}, "", " ")
			os.WriteFile(path, b, 0o644)
		}
		fmt.Printf("%s %s: %s %s at %s: %s\n", strings.ToUpper(o.Verdict), prop, o.Rule, o.Construct, o.Pos, o.Detail)
		fmt.Printf("VIOLATION property=%s replay=%s\n", prop, path)
	}
	res.Obs = obs
	res.Violations = viol

	if tier == "thorough" && overlay == nil && onlyKey == "" {
		runMutants(prop, repo, vdir, res)
	}
	if !noEvidence {
		if err := writeEvidence(evDir, res); err != nil {
			fmt.Fprintln(os.Stderr, "evidence:", err)
			return 1
		}
	}
	nd := 0
	for _, o := range obs {
		if o.Verdict == "discharged" {
			nd++
		}
	}
	fmt.Printf("%s tier=%s configs=%s obligations=%d discharged=%d known=%d violations=%d wall=%.1fs\n",
		prop, tier, strings.Join(configs, "+"), len(obs), nd, len(res.KnownMatched), viol, time.Since(start).Seconds())
	if viol > 0 {
		return 1
	}
	return 0
}

// runMutants is the checker's self-validation: each mutant is a small edit of
// one repo file, applied as a go/packages overlay in a separate process; the
// property's check must fire with the expected rule. Results are recorded in
// the evidence; they are not a verdict about /repo.
func runMutants(prop, repo, vdir string, res *runResult) {
	ms, err := loadMutants(vdir, prop)
	if err != nil {
		res.Extra["mutants_error"] = err.Error()
		return
	}
	if len(ms) == 0 {
		return
	}
	exe, _ := os.Executable()
	type mres struct {
		Name, Status, Expect string
	}
	out := make([]mres, len(ms))
	sem := make(chan struct{}, 4)
	var wg sync.WaitGroup
	for i, m := range ms {
		wg.Add(1)
		go func(i int, m mutant) {
			defer wg.Done()
			sem <- struct{}{}
			defer func() { <-sem }()
			cmd := exec.Command(exe, "-prop", prop, "-tier", "quick", "-repo", repo, "-verif", vdir, "-mutant", m.Name, "-noevidence")
			b, _ := cmd.CombinedOutput()
			s := string(b)
			st := "undetected"
			switch {
			case strings.Contains(s, "MUTANT-INAPPLICABLE"):
				st = "inapplicable"
			case strings.Contains(s, "FATAL"):
				st = "fatal: " + firstLine(s)
			case m.Expect == "" && strings.Contains(s, "VIOLATION property="+prop):
				// behaviour-preserving variant: any report is a false alarm
				st = "false-alarm: " + firstLine(s)
			case m.Expect == "":
				st = "silent-as-required"
			case strings.Contains(s, " "+m.Expect+" ") && strings.Contains(s, "VIOLATION property="+prop):
				st = "detected"
			case strings.Contains(s, "VIOLATION property="+prop):
				st = "detected-by-other-rule"
			}
			out[i] = mres{m.Name, st, m.Expect}
		}(i, m)
	}
	wg.Wait()
	det, app, neg, negOK := 0, 0, 0, 0
	for _, r := range out {
		if r.Expect == "" {
			if r.Status != "inapplicable" {
				neg++
				if r.Status == "silent-as-required" {
					negOK++
				}
			}
			continue
		}
		if r.Status != "inapplicable" {
			app++
		}
		if strings.HasPrefix(r.Status, "detected") {
			det++
		}
	}
	res.Extra["equivalent_variants"] = neg
	res.Extra["equivalent_variants_silent"] = negOK
	res.Extra["mutants_total"] = len(ms)
	res.Extra["mutants_applicable"] = app
	res.Extra["mutants_detected"] = det
	res.Extra["mutants"] = out
	fmt.Printf("%s self-validation: %d/%d applicable mutants detected", prop, det, app)
	if neg > 0 {
		fmt.Printf("; %d/%d behaviour-preserving variants left unreported", negOK, neg)
	}
	fmt.Println()
	for _, r := range out {
		if !strings.HasPrefix(r.Status, "detected") && r.Status != "inapplicable" && r.Status != "silent-as-required" {
			fmt.Printf("  SELFTEST-WEAK mutant %s expected %s: %s\n", r.Name, r.Expect, r.Status)
		}
	}
}

func firstLine(s string) string {
	if i := strings.IndexByte(s, '\n'); i >= 0 {
		return s[:i]
	}
	return s
}
