package main

import (
	"fmt"
	"go/token"

	"golang.org/x/tools/go/ssa"
)

// Map idioms whose two halves must name the same map and key:
//
//	get-or-create:      s, ok := m[k1]; if !ok { s = make(…); m[k2] = s }      → k1 ≡ k2
//	delete-when-empty:  s := m1[k1]; …; if len(s) == 0 { delete(m2, k2) }       → m1 ≡ m2, k1 ≡ k2
//
// A copy-paste slip in either leaves an index that disagrees with the primary records.

type mapIdiomIssue struct {
	pos  token.Pos
	what string
	kind string
}

// sameFieldLoad: two loads of the same field of the same base value, or the same SSA value.
func sameRef(a, b ssa.Value) bool {
	if a == b {
		return true
	}
	la, ok1 := a.(*ssa.UnOp)
	lb, ok2 := b.(*ssa.UnOp)
	if ok1 && ok2 && la.Op == token.MUL && lb.Op == token.MUL {
		fa, ok1 := la.X.(*ssa.FieldAddr)
		fb, ok2 := lb.X.(*ssa.FieldAddr)
		if ok1 && ok2 && fa.Field == fb.Field && sameRef(fa.X, fb.X) {
			return true
		}
	}
	// value-struct field extraction
	xa, ok1 := a.(*ssa.Field)
	xb, ok2 := b.(*ssa.Field)
	if ok1 && ok2 && xa.Field == xb.Field && sameRef(xa.X, xb.X) {
		return true
	}
	return false
}

func refString(v ssa.Value) string {
	if ld, ok := v.(*ssa.UnOp); ok && ld.Op == token.MUL {
		if sn, f, _, ok := fieldOf(ld.X); ok {
			return sn + "." + f
		}
	}
	if f, ok := v.(*ssa.Field); ok {
		return c16FieldName(f)
	}
	return v.Name()
}

func mapIdiomIssues(fn *ssa.Function) (issues []mapIdiomIssue, nChecked int) {
	for _, in := range instrs(fn, true) {
		switch x := in.(type) {
		case *ssa.MapUpdate:
			// value freshly made?
			fresh := false
			switch x.Value.(type) {
			case *ssa.MakeMap, *ssa.MakeSlice, *ssa.Alloc:
				fresh = true
			}
			if !fresh {
				continue
			}
			// guarded by a miss on a lookup of the same map
			for _, f := range factsAt(x) {
				var lk *ssa.Lookup
				switch {
				case f.Kind == factFalse:
					if ex, ok := f.Val.(*ssa.Extract); ok && ex.Index == 1 {
						lk, _ = ex.Tuple.(*ssa.Lookup)
					}
				case f.Kind == factNil:
					lk, _ = f.Val.(*ssa.Lookup)
				}
				if lk == nil || !sameRef(lk.X, x.Map) {
					continue
				}
				nChecked++
				if !sameRef(lk.Index, x.Key) {
					issues = append(issues, mapIdiomIssue{x.Pos(), fmt.Sprintf("get-or-create on %s looks the set up under %s but stores the new one under %s: the lookup never hits, every entry allocates a fresh set and overwrites the previous one", refString(x.Map), refString(lk.Index), refString(x.Key)), "get-or-create"})
				}
			}
		case *ssa.Call:
			b, ok := x.Call.Value.(*ssa.Builtin)
			if !ok || b.Name() != "delete" {
				continue
			}
			m, k := x.Call.Args[0], x.Call.Args[1]
			for _, f := range factsAt(x) {
				if f.Kind != factCmp || f.Op != token.EQL {
					continue
				}
				if z, ok := constInt(f.Y); !ok || z != 0 {
					continue
				}
				ln, ok := f.X.(*ssa.Call)
				if !ok {
					continue
				}
				if lb, ok := ln.Call.Value.(*ssa.Builtin); !ok || lb.Name() != "len" {
					continue
				}
				set := ln.Call.Args[0]
				var lk *ssa.Lookup
				switch s := set.(type) {
				case *ssa.Lookup:
					lk = s
				case *ssa.Extract:
					lk, _ = s.Tuple.(*ssa.Lookup)
				}
				if lk == nil {
					continue
				}
				nChecked++
				if !sameRef(lk.X, m) || !sameRef(lk.Index, k) {
					issues = append(issues, mapIdiomIssue{x.Pos(), fmt.Sprintf("delete(%s, %s) is decided by the emptiness of a set looked up from %s[%s]: the entry is removed while its own set may still have members (or kept when it is empty)", refString(m), refString(k), refString(lk.X), refString(lk.Index)), "delete-when-empty"})
				}
			}
		}
	}
	return
}
