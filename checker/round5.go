package main

// Rules added after the fifth (blind) seeding round: C01.SAMEBATCH,
// C22.LENUNIT, C28.TOTAL. All three work on the type-checked syntax tree.

import (
	"go/ast"
	"go/token"
	"go/types"
	"strings"
)

func namedTypeName(t types.Type) string {
	if p, ok := t.(*types.Pointer); ok {
		t = p.Elem()
	}
	if n, ok := t.(*types.Named); ok {
		return n.Obj().Name()
	}
	return ""
}

// c01SameBatch: every call in internal/ingest that receives two or more
// fields of TypedColumnBatch values (x.Data, y.Validity, …) takes them from
// one and the same batch variable. The sort permutes Data and Validity
// together; pairing the sorted Data with the unsorted Validity moves NULLs
// onto other rows.
func c01SameBatch(c *Ctx) {
	const rule = "C01.SAMEBATCH"
	c.Rule(rule, "PAIR: every call in internal/ingest that is handed two or more fields of a TypedColumnBatch (Data, Validity, TagColumns, DedupTime) takes all of them from the same batch variable — the sort permutes values and null bitmaps together, so sorted.Data with another batch's Validity attaches NULLs to the wrong rows")
	pk := c.P.Pkgs["internal/ingest"]
	if pk == nil {
		c.Unk(rule, "package", 0, "internal/ingest not loaded")
		return
	}
	perFn := map[string]int{}
	for _, f := range pk.Syntax {
		if strings.HasSuffix(c.P.Fset.Position(f.Pos()).Filename, "_test.go") {
			continue
		}
		for _, d := range f.Decls {
			fd, ok := d.(*ast.FuncDecl)
			if !ok || fd.Body == nil {
				continue
			}
			ast.Inspect(fd.Body, func(n ast.Node) bool {
				call, ok := n.(*ast.CallExpr)
				if !ok {
					return true
				}
				var bases []types.Object
				var fields []string
				for _, a := range call.Args {
					sel, ok := a.(*ast.SelectorExpr)
					if !ok {
						continue
					}
					id, ok := sel.X.(*ast.Ident)
					if !ok {
						continue
					}
					tv, ok := pk.TypesInfo.Types[sel.X]
					if !ok || namedTypeName(tv.Type) != "TypedColumnBatch" {
						continue
					}
					if s := pk.TypesInfo.Selections[sel]; s == nil || s.Kind() != types.FieldVal {
						continue
					}
					bases = append(bases, pk.TypesInfo.ObjectOf(id))
					fields = append(fields, id.Name+"."+sel.Sel.Name)
				}
				if len(bases) < 2 {
					return true
				}
				same := true
				for _, b := range bases[1:] {
					if b != bases[0] {
						same = false
					}
				}
				perFn[fd.Name.Name]++
				construct := fd.Name.Name + "|" + types.ExprString(call.Fun) + "#" + itoa(perFn[fd.Name.Name])
				c.Check(same, rule, construct, call.Pos(),
					"all batch fields come from one variable: "+strings.Join(fields, ", "),
					"batch fields of different variables are mixed in one call: "+strings.Join(fields, ", "))
				return true
			})
		}
	}
	c.Floor(rule, 2, "the single-hour and the multi-hour Parquet writes of flushPartitionedData")
	c.Need(rule, "flushPartitionedData|", "the flush core writes Parquet from a sorted batch")
}

func itoa(n int) string {
	if n == 0 {
		return "0"
	}
	s := ""
	for n > 0 {
		s = string(rune('0'+n%10)) + s
		n /= 10
	}
	return s
}

// c22LenUnit: in the cluster FSM, every comparison against one of the RBAC
// length limits measures the value with the builtin len (bytes). Apply-time
// validators and the Restore-time validator share the constants; if one of
// them counts runes, a value accepted by Apply is quarantined by Restore and
// a restored node diverges from a replaying one.
func c22LenUnit(c *Ctx) {
	const rule = "C22.LENUNIT"
	c.Rule(rule, "AGREE: every comparison against an rbac…MaxLen limit in internal/cluster/raft measures its operand with the builtin len (bytes) — the apply-time checks and the Restore-time validator share the limits, and a different unit in one of them makes Restore quarantine an entry that Apply accepted")
	pk := c.P.Pkgs["internal/cluster/raft"]
	if pk == nil {
		c.Unk(rule, "package", 0, "internal/cluster/raft not loaded")
		return
	}
	isLimit := func(e ast.Expr) (string, bool) {
		id, ok := ast.Unparen(e).(*ast.Ident)
		if !ok {
			return "", false
		}
		obj, ok := pk.TypesInfo.ObjectOf(id).(*types.Const)
		if !ok || obj.Pkg() != pk.Types {
			return "", false
		}
		if strings.HasPrefix(obj.Name(), "rbac") && strings.HasSuffix(obj.Name(), "MaxLen") {
			return obj.Name(), true
		}
		return "", false
	}
	// resolve an operand to its defining expression when it is a local
	// assigned exactly once (n := len(x))
	perFn := map[string]int{}
	for _, f := range pk.Syntax {
		if strings.HasSuffix(c.P.Fset.Position(f.Pos()).Filename, "_test.go") {
			continue
		}
		for _, d := range f.Decls {
			fd, ok := d.(*ast.FuncDecl)
			if !ok || fd.Body == nil {
				continue
			}
			defs := map[types.Object][]ast.Expr{}
			ast.Inspect(fd.Body, func(n ast.Node) bool {
				if as, ok := n.(*ast.AssignStmt); ok && len(as.Lhs) == len(as.Rhs) {
					for i, l := range as.Lhs {
						if id, ok := l.(*ast.Ident); ok {
							if o := pk.TypesInfo.ObjectOf(id); o != nil {
								defs[o] = append(defs[o], as.Rhs[i])
							}
						}
					}
				}
				return true
			})
			var isLen func(e ast.Expr, depth int) bool
			isLen = func(e ast.Expr, depth int) bool {
				e = ast.Unparen(e)
				if call, ok := e.(*ast.CallExpr); ok {
					if id, ok := call.Fun.(*ast.Ident); ok {
						if b, ok := pk.TypesInfo.ObjectOf(id).(*types.Builtin); ok && b.Name() == "len" {
							return true
						}
					}
					return false
				}
				if id, ok := e.(*ast.Ident); ok && depth < 3 {
					ds := defs[pk.TypesInfo.ObjectOf(id)]
					if len(ds) == 0 {
						return false
					}
					for _, d := range ds {
						if !isLen(d, depth+1) {
							return false
						}
					}
					return true
				}
				return false
			}
			ast.Inspect(fd.Body, func(n ast.Node) bool {
				be, ok := n.(*ast.BinaryExpr)
				if !ok {
					return true
				}
				switch be.Op {
				case token.GTR, token.GEQ, token.LSS, token.LEQ:
				default:
					return true
				}
				var other ast.Expr
				var lim string
				if l, ok := isLimit(be.Y); ok {
					other, lim = be.X, l
				} else if l, ok := isLimit(be.X); ok {
					other, lim = be.Y, l
				} else {
					return true
				}
				perFn[fd.Name.Name+lim]++
				construct := fd.Name.Name + "|" + lim + "#" + itoa(perFn[fd.Name.Name+lim])
				c.Check(isLen(other, 0), rule, construct, be.Pos(),
					"operand is len(…): "+types.ExprString(other),
					"operand compared with "+lim+" is not the builtin len of the value: "+types.ExprString(other)+" — the sibling validators count bytes")
				return true
			})
		}
	}
	c.Floor(rule, 6, "name and description limits in the create/update appliers and in the entry validators")
	c.Need(rule, "applyUpdateTeam|", "the update applier re-checks the limits")
	c.Need(rule, "validateTeamEntry|", "the validator shared by create and Restore")
}

// c28Total: the sliding-window counter keeps total == sum(slots). Every
// statement that writes the total is either the reset to zero next to a slot
// reset, or an increment/decrement in a function that writes a slot too.
func c28Total(c *Ctx) {
	const rule = "C28.TOTAL"
	c.Rule(rule, "PAIR: slidingWindowCounter.total is the running sum of its slots — every write of total is `= 0`, `++`, `--`, `+=` or `-=` inside a method that also writes a slot; a method that overwrites total without touching the slots (e.g. a cap on a lowered limit) lets expiry subtract more than was counted, total goes negative and a burst above the limit is admitted")
	pk := c.P.Pkgs["internal/governance"]
	if pk == nil {
		c.Unk(rule, "package", 0, "internal/governance not loaded")
		return
	}
	isField := func(e ast.Expr, name string) bool {
		sel, ok := ast.Unparen(e).(*ast.SelectorExpr)
		if !ok || sel.Sel.Name != name {
			return false
		}
		tv, ok := pk.TypesInfo.Types[sel.X]
		return ok && namedTypeName(tv.Type) == "slidingWindowCounter"
	}
	isSlot := func(e ast.Expr) bool {
		ix, ok := ast.Unparen(e).(*ast.IndexExpr)
		return ok && isField(ix.X, "slots")
	}
	n := 0
	for _, f := range pk.Syntax {
		if strings.HasSuffix(c.P.Fset.Position(f.Pos()).Filename, "_test.go") {
			continue
		}
		for _, d := range f.Decls {
			fd, ok := d.(*ast.FuncDecl)
			if !ok || fd.Body == nil {
				continue
			}
			writesSlot := false
			type tw struct {
				pos  token.Pos
				form string
				ok   bool
			}
			var tws []tw
			ast.Inspect(fd.Body, func(nd ast.Node) bool {
				switch s := nd.(type) {
				case *ast.IncDecStmt:
					if isSlot(s.X) {
						writesSlot = true
					}
					if isField(s.X, "total") {
						tws = append(tws, tw{s.Pos(), s.Tok.String(), true})
					}
				case *ast.AssignStmt:
					for i, l := range s.Lhs {
						if isSlot(l) {
							writesSlot = true
						}
						if isField(l, "total") {
							ok := s.Tok == token.ADD_ASSIGN || s.Tok == token.SUB_ASSIGN
							if s.Tok == token.ASSIGN && i < len(s.Rhs) {
								if bl, isLit := ast.Unparen(s.Rhs[i]).(*ast.BasicLit); isLit && bl.Value == "0" {
									ok = true
								}
							}
							tws = append(tws, tw{s.Pos(), s.Tok.String(), ok})
						}
					}
				}
				return true
			})
			for i, w := range tws {
				n++
				construct := fd.Name.Name + "|total-write#" + itoa(i+1)
				switch {
				case !w.ok:
					c.Bad(rule, construct, w.pos, "total is overwritten with a value that is not derived from the slots (%s)", w.form)
				case !writesSlot:
					c.Bad(rule, construct, w.pos, "total is changed in a method that writes no slot: total and sum(slots) part")
				default:
					c.OK(rule, construct, w.pos, "total changed by %s in a method that updates a slot as well", w.form)
				}
			}
		}
	}
	_ = n
	c.Floor(rule, 3, "reset, expiry subtraction and admission increment")
}
