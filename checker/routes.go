package main

import (
	"go/token"
	"strings"

	"golang.org/x/tools/go/ssa"
)

// route is one fiber route registration.
type route struct {
	Method        string
	Path          string
	Middlewares   []string        // callee names of middleware constructors / bound middleware methods
	MiddlewareFns []*ssa.Function // resolved middleware functions (nil entries where unresolved)
	Handler       *ssa.Function   // the final handler (bound method unwrapped), nil if unresolved
	HandlerName   string
	Pos           token.Pos
	In            *ssa.Function
}

var fiberVerbs = map[string]string{
	"(*github.com/gofiber/fiber/v2.App).Get": "GET", "(*github.com/gofiber/fiber/v2.App).Post": "POST",
	"(*github.com/gofiber/fiber/v2.App).Put": "PUT", "(*github.com/gofiber/fiber/v2.App).Delete": "DELETE",
	"(*github.com/gofiber/fiber/v2.App).Patch": "PATCH", "(*github.com/gofiber/fiber/v2.App).All": "ALL",
	"(*github.com/gofiber/fiber/v2.App).Head": "HEAD",
}

// describeHandlerValue resolves a fiber.Handler value to (function, name).
func describeHandlerValue(v ssa.Value, depth int) (*ssa.Function, string) {
	if v == nil || depth > 6 {
		return nil, ""
	}
	switch x := v.(type) {
	case *ssa.MakeClosure:
		fn, _ := x.Fn.(*ssa.Function)
		if fn == nil {
			return nil, ""
		}
		// bound method wrapper: (*T).m$bound
		if strings.HasSuffix(fn.Name(), "$bound") {
			// find the method it wraps: its single call
			for _, call := range callsIn(fn, false) {
				if cal := call.Common().StaticCallee(); cal != nil {
					return cal, ssaFuncName(cal)
				}
			}
		}
		return fn, ssaFuncName(fn)
	case *ssa.Function:
		return x, ssaFuncName(x)
	case *ssa.Call:
		// middleware constructor: withReadAuth(...)
		return nil, "call:" + callName(x)
	case *ssa.ChangeType:
		return describeHandlerValue(x.X, depth+1)
	case *ssa.MakeInterface:
		return describeHandlerValue(x.X, depth+1)
	case *ssa.Phi:
		for _, e := range x.Edges {
			if f, n := describeHandlerValue(e, depth+1); n != "" {
				return f, n
			}
		}
	case *ssa.UnOp:
		if a, ok := x.X.(*ssa.Alloc); ok {
			for _, r := range *a.Referrers() {
				if st, ok := r.(*ssa.Store); ok && st.Addr == a {
					return describeHandlerValue(st.Val, depth+1)
				}
			}
		}
	}
	return nil, ""
}

// routeTable extracts every route registered in the given packages.
func routeTable(p *Prog, pkgs ...string) []route {
	var out []route
	for _, pk := range pkgs {
		for _, fn := range p.FuncsIn(pk) {
			for _, call := range callsIn(fn, true) {
				verb, ok := fiberVerbs[callName(call)]
				if !ok {
					continue
				}
				args := call.Common().Args
				if len(args) < 3 {
					continue
				}
				path, _ := constString(args[1])
				r := route{Method: verb, Path: path, Pos: call.Pos(), In: fn}
				// variadic handlers: a slice over a local array
				var elems []ssa.Value
				if sl, ok := args[2].(*ssa.Slice); ok {
					if arr, ok := sl.X.(*ssa.Alloc); ok {
						m := map[int64]ssa.Value{}
						max := int64(-1)
						for _, rf := range *arr.Referrers() {
							if ia, ok := rf.(*ssa.IndexAddr); ok {
								if idx, isC := constInt(ia.Index); isC {
									for _, r2 := range *ia.Referrers() {
										if st, ok := r2.(*ssa.Store); ok && st.Addr == ia {
											m[idx] = st.Val
											if idx > max {
												max = idx
											}
										}
									}
								}
							}
						}
						for i := int64(0); i <= max; i++ {
							elems = append(elems, m[i])
						}
					}
				}
				for i, e := range elems {
					f, name := describeHandlerValue(e, 0)
					if i == len(elems)-1 {
						r.Handler, r.HandlerName = f, name
					} else {
						r.Middlewares = append(r.Middlewares, name)
						r.MiddlewareFns = append(r.MiddlewareFns, f)
					}
				}
				out = append(out, r)
			}
		}
	}
	return out
}

// reaches reports whether fn (following static calls inside module packages,
// bounded depth) contains a call satisfying pred.
func reaches(fn *ssa.Function, pred func(ssa.CallInstruction) bool, depth int, seen map[*ssa.Function]bool) bool {
	if fn == nil || depth < 0 {
		return false
	}
	if seen == nil {
		seen = map[*ssa.Function]bool{}
	}
	if seen[fn] {
		return false
	}
	seen[fn] = true
	for _, call := range callsIn(fn, true) {
		if pred(call) {
			return true
		}
		cal := call.Common().StaticCallee()
		if cal != nil && cal.Pkg != nil && strings.HasPrefix(cal.Pkg.Pkg.Path(), modulePath) && len(cal.Blocks) > 0 {
			if reaches(cal, pred, depth-1, seen) {
				return true
			}
		}
	}
	return false
}
