package main

import (
	"go/token"
	"go/types"
	"regexp"
	"strings"

	"golang.org/x/tools/go/ssa"
)

// resolveStrings returns the possible compile-time templates of a string
// value: constants, fmt.Sprintf formats (verbs kept), concatenations and phis.
// Unknown fragments are rendered as "\x00". ok is false if nothing constant
// could be recovered at all.
func resolveStrings(v ssa.Value, depth int) (out []string, ok bool) {
	if v == nil || depth > 8 {
		return []string{"\x00"}, false
	}
	if s, isC := constString(v); isC {
		return []string{s}, true
	}
	switch x := v.(type) {
	case *ssa.Phi:
		any := false
		for _, e := range x.Edges {
			ss, k := resolveStrings(e, depth+1)
			out = append(out, ss...)
			any = any || k
		}
		return out, any
	case *ssa.BinOp:
		if x.Op == token.ADD {
			l, lk := resolveStrings(x.X, depth+1)
			r, rk := resolveStrings(x.Y, depth+1)
			for _, a := range l {
				for _, b := range r {
					out = append(out, a+b)
				}
			}
			return out, lk || rk
		}
	case *ssa.Call:
		switch callName(x) {
		case "fmt.Sprintf":
			return resolveStrings(x.Call.Args[0], depth+1)
		case "strings.TrimSpace", "strings.ToLower", "strings.ToUpper":
			return resolveStrings(x.Call.Args[0], depth+1)
		}
	case *ssa.UnOp:
		if x.Op == token.MUL {
			switch a := x.X.(type) {
			case *ssa.IndexAddr:
				// element of a local array/slice literal: collect every element store
				base := a.X
				if sl, isSl := base.(*ssa.Slice); isSl {
					base = sl.X
				}
				if al, isAl := base.(*ssa.Alloc); isAl {
					any := false
					for _, r := range *al.Referrers() {
						ia, isIA := r.(*ssa.IndexAddr)
						if !isIA {
							continue
						}
						for _, r2 := range *ia.Referrers() {
							if st, isSt := r2.(*ssa.Store); isSt && st.Addr == ia {
								ss, k := resolveStrings(st.Val, depth+1)
								out = append(out, ss...)
								any = any || k
							}
						}
					}
					if len(out) > 0 {
						return out, any
					}
				}
			case *ssa.Alloc:
				any := false
				for _, r := range *a.Referrers() {
					if st, isSt := r.(*ssa.Store); isSt && st.Addr == a {
						ss, k := resolveStrings(st.Val, depth+1)
						out = append(out, ss...)
						any = any || k
					}
				}
				if len(out) > 0 {
					return out, any
				}
			case *ssa.Global:
				// package-level string var with a constant initialiser
				if init := a.Pkg.Func("init"); init != nil {
					for _, in := range instrs(init, false) {
						if st, isSt := in.(*ssa.Store); isSt && st.Addr == a {
							return resolveStrings(st.Val, depth+1)
						}
					}
				}
			}
		}
	case *ssa.Convert:
		return resolveStrings(x.X, depth+1)
	}
	return []string{"\x00"}, false
}

// firstStringArg returns the first argument of string type of a call
// (skipping the receiver), i.e. the SQL text of Exec/Query style calls.
func firstStringArg(c ssa.CallInstruction) ssa.Value {
	for _, a := range c.Common().Args {
		if b, ok := a.Type().Underlying().(*types.Basic); ok && b.Kind() == types.String {
			return a
		}
	}
	return nil
}

var sqlExecNames = names(
	"(*database/sql.DB).Exec", "(*database/sql.DB).ExecContext",
	"(*database/sql.Tx).Exec", "(*database/sql.Tx).ExecContext",
	"(*database/sql.Conn).ExecContext",
	"(*database/sql.Stmt).Exec", "(*database/sql.Stmt).ExecContext",
)

var sqlQueryNames = names(
	"(*database/sql.DB).Query", "(*database/sql.DB).QueryContext",
	"(*database/sql.DB).QueryRow", "(*database/sql.DB).QueryRowContext",
	"(*database/sql.Tx).Query", "(*database/sql.Tx).QueryContext",
	"(*database/sql.Tx).QueryRow", "(*database/sql.Tx).QueryRowContext",
)

var sqlMutRe = regexp.MustCompile(`(?is)^\s*(INSERT(?:\s+OR\s+\w+)?\s+INTO|REPLACE\s+INTO|UPDATE|DELETE\s+FROM)\s+([A-Za-z_][A-Za-z0-9_]*)`)

// sqlMutation classifies a statement template: verb in {INSERT,UPDATE,DELETE}
// and the table it mutates. ok=false for non-mutating / unrecognised text.
func sqlMutation(tmpl string) (verb, table string, ok bool) {
	m := sqlMutRe.FindStringSubmatch(tmpl)
	if m == nil {
		return "", "", false
	}
	v := strings.ToUpper(strings.Fields(m[1])[0])
	if v == "REPLACE" {
		v = "INSERT"
	}
	return v, strings.ToLower(m[2]), true
}

type sqlSite struct {
	Call   ssa.CallInstruction
	Tmpls  []string
	Known  bool
	IsExec bool
}

// sqlSites lists the database/sql statement executions in fn (and closures).
func sqlSites(fn *ssa.Function) []sqlSite {
	var out []sqlSite
	for _, c := range callsIn(fn, true) {
		n := callName(c)
		if !sqlExecNames[n] && !sqlQueryNames[n] {
			continue
		}
		arg := firstStringArg(c)
		t, k := resolveStrings(arg, 0)
		out = append(out, sqlSite{Call: c, Tmpls: t, Known: k, IsExec: sqlExecNames[n]})
	}
	return out
}
