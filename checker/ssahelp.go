package main

import (
	"go/constant"
	"go/token"
	"go/types"
	"strings"

	"golang.org/x/tools/go/ssa"
)

// ---------------------------------------------------------------------------
// calls
// ---------------------------------------------------------------------------

// instrs returns every instruction of fn (and, if anon, of the closures it
// defines, recursively).
func instrs(fn *ssa.Function, anon bool) []ssa.Instruction {
	var out []ssa.Instruction
	for _, b := range fn.Blocks {
		out = append(out, b.Instrs...)
	}
	if anon {
		for _, a := range fn.AnonFuncs {
			out = append(out, instrs(a, true)...)
		}
	}
	return out
}

func callsIn(fn *ssa.Function, anon bool) []ssa.CallInstruction {
	var out []ssa.CallInstruction
	for _, in := range instrs(fn, anon) {
		if c, ok := in.(ssa.CallInstruction); ok {
			out = append(out, c)
		}
	}
	return out
}

// callName is the canonical name of what a call instruction calls: the
// resolved static callee, or the interface method for dynamic dispatch, or
// "builtin.<name>", or "" for calls through function values.
func callName(c ssa.CallInstruction) string {
	cc := c.Common()
	if cc.IsInvoke() {
		return funcName(cc.Method)
	}
	switch v := cc.Value.(type) {
	case *ssa.Function:
		return ssaFuncName(v)
	case *ssa.Builtin:
		return "builtin." + v.Name()
	case *ssa.MakeClosure:
		if f, ok := v.Fn.(*ssa.Function); ok {
			return ssaFuncName(f)
		}
	}
	return ""
}

func ssaFuncName(f *ssa.Function) string {
	if f == nil {
		return ""
	}
	if o, ok := f.Object().(*types.Func); ok && o != nil {
		return funcName(o)
	}
	if f.Origin() != nil {
		return ssaFuncName(f.Origin())
	}
	// closure or synthetic: parent name + $n
	return canon(f.String())
}

func isCallTo(c ssa.CallInstruction, names ...string) bool {
	n := callName(c)
	if n == "" {
		return false
	}
	for _, x := range names {
		if n == x {
			return true
		}
	}
	return false
}

type nameSet map[string]bool

func names(xs ...string) nameSet {
	s := nameSet{}
	for _, x := range xs {
		s[x] = true
	}
	return s
}

func (s nameSet) hasCall(in ssa.Instruction) bool {
	c, ok := in.(ssa.CallInstruction)
	if !ok {
		return false
	}
	return s[callName(c)]
}

// findCalls returns the calls in fn (incl. closures if anon) to any of names.
func findCalls(fn *ssa.Function, anon bool, nm ...string) []ssa.CallInstruction {
	var out []ssa.CallInstruction
	for _, c := range callsIn(fn, anon) {
		if isCallTo(c, nm...) {
			out = append(out, c)
		}
	}
	return out
}

// callValue returns the ssa.Value of a call instruction (nil for go/defer).
func callValue(c ssa.CallInstruction) ssa.Value {
	if v, ok := c.(*ssa.Call); ok {
		return v
	}
	return nil
}

// resultN returns the value holding result i of a call: the call itself for
// single-result functions, else the matching Extract.
func resultN(c ssa.CallInstruction, i int) ssa.Value {
	v := callValue(c)
	if v == nil {
		return nil
	}
	sig := c.Common().Signature()
	if sig.Results().Len() == 1 {
		if i == 0 {
			return v
		}
		return nil
	}
	for _, r := range *v.Referrers() {
		if e, ok := r.(*ssa.Extract); ok && e.Index == i {
			return e
		}
	}
	return nil
}

// errResult returns the value of the last result if it is of type error.
func errResult(c ssa.CallInstruction) ssa.Value {
	sig := c.Common().Signature()
	n := sig.Results().Len()
	if n == 0 {
		return nil
	}
	if !isErrorType(sig.Results().At(n - 1).Type()) {
		return nil
	}
	return resultN(c, n-1)
}

func isErrorType(t types.Type) bool {
	return types.Identical(t, types.Universe.Lookup("error").Type())
}

// ---------------------------------------------------------------------------
// dominance and guards
// ---------------------------------------------------------------------------

func instrIndex(in ssa.Instruction) int {
	for i, x := range in.Block().Instrs {
		if x == in {
			return i
		}
	}
	return -1
}

// instrDominates reports whether a executes before b on every path reaching b
// (same function).
func instrDominates(a, b ssa.Instruction) bool {
	if a.Parent() != b.Parent() {
		return false
	}
	if a.Block() == b.Block() {
		return instrIndex(a) < instrIndex(b)
	}
	return a.Block().Dominates(b.Block())
}

type factKind int

const (
	factNil factKind = iota
	factNotNil
	factTrue
	factFalse
	factCmp // comparison X op Y held (Op, X, Y recorded)
)

type fact struct {
	Kind factKind
	Val  ssa.Value // the value the fact is about (factNil..factFalse)
	Op   token.Token
	X, Y ssa.Value
	If   *ssa.If
}

func isNilConst(v ssa.Value) bool {
	c, ok := v.(*ssa.Const)
	return ok && c.IsNil()
}

func negateOp(op token.Token) token.Token {
	switch op {
	case token.EQL:
		return token.NEQ
	case token.NEQ:
		return token.EQL
	case token.LSS:
		return token.GEQ
	case token.GEQ:
		return token.LSS
	case token.GTR:
		return token.LEQ
	case token.LEQ:
		return token.GTR
	}
	return token.ILLEGAL
}

// condFacts lists what is known when cond evaluates to branch.
func condFacts(cond ssa.Value, branch bool, ifi *ssa.If) []fact {
	var out []fact
	switch v := cond.(type) {
	case *ssa.UnOp:
		if v.Op == token.NOT {
			return condFacts(v.X, !branch, ifi)
		}
	case *ssa.BinOp:
		op := v.Op
		if !branch {
			op = negateOp(op)
		}
		if op != token.ILLEGAL {
			out = append(out, fact{Kind: factCmp, Op: op, X: v.X, Y: v.Y, If: ifi})
			if op == token.EQL || op == token.NEQ {
				var other ssa.Value
				if isNilConst(v.Y) {
					other = v.X
				} else if isNilConst(v.X) {
					other = v.Y
				}
				if other != nil {
					k := factNil
					if op == token.NEQ {
						k = factNotNil
					}
					out = append(out, fact{Kind: k, Val: other, If: ifi})
				}
				// comparisons with boolean constants
				if c, ok := v.Y.(*ssa.Const); ok && c.Value != nil && c.Value.Kind() == constant.Bool {
					b := constant.BoolVal(c.Value)
					if op == token.NEQ {
						b = !b
					}
					if b {
						out = append(out, fact{Kind: factTrue, Val: v.X, If: ifi})
					} else {
						out = append(out, fact{Kind: factFalse, Val: v.X, If: ifi})
					}
				}
			}
		}
	}
	k := factTrue
	if !branch {
		k = factFalse
	}
	out = append(out, fact{Kind: k, Val: cond, If: ifi})
	return out
}

// edgeDominates reports whether the CFG edge from->to dominates block x, i.e.
// every path to x goes through that edge.
func edgeDominates(from, to, x *ssa.BasicBlock) bool {
	if !to.Dominates(x) {
		return false
	}
	// every other predecessor of `to` must itself be dominated by `to` (loop back-edges)
	for _, p := range to.Preds {
		if p == from {
			continue
		}
		if !to.Dominates(p) {
			return false
		}
	}
	// the from->to edge must not be duplicated on both branches
	return true
}

// factsAt returns the branch facts that hold whenever instruction in executes.
func factsAt(in ssa.Instruction) []fact {
	return factsAtBlock(in.Block())
}

func factsAtBlock(x *ssa.BasicBlock) []fact {
	var out []fact
	for d := x.Idom(); d != nil; d = d.Idom() {
		out = append(out, blockEdgeFacts(d, x)...)
	}
	return out
}

func blockEdgeFacts(d, x *ssa.BasicBlock) []fact {
	if len(d.Instrs) == 0 {
		return nil
	}
	ifi, ok := d.Instrs[len(d.Instrs)-1].(*ssa.If)
	if !ok {
		return nil
	}
	if d.Succs[0] == d.Succs[1] {
		return nil
	}
	t := edgeDominates(d, d.Succs[0], x)
	f := edgeDominates(d, d.Succs[1], x)
	if t && !f {
		return condFacts(ifi.Cond, true, ifi)
	}
	if f && !t {
		return condFacts(ifi.Cond, false, ifi)
	}
	return nil
}

func sameVal(a, b ssa.Value) bool {
	if a == b {
		return true
	}
	if a == nil || b == nil {
		return false
	}
	// loads of the same non-escaping cell
	la, ok1 := a.(*ssa.UnOp)
	lb, ok2 := b.(*ssa.UnOp)
	if ok1 && ok2 && la.Op == token.MUL && lb.Op == token.MUL && la.X == lb.X {
		if _, ok := la.X.(*ssa.Alloc); ok {
			return noStoreBetween(la, lb)
		}
	}
	// change of interface type / conversions that preserve nil-ness
	if ci, ok := a.(*ssa.ChangeInterface); ok {
		return sameVal(ci.X, b)
	}
	if ci, ok := b.(*ssa.ChangeInterface); ok {
		return sameVal(a, ci.X)
	}
	return false
}

// noStoreBetween: conservative — both loads in one block without a store to
// the cell or a call between them, or the later load dominated by the earlier
// one with no store to the cell anywhere except before the earlier load.
func noStoreBetween(a, b *ssa.UnOp) bool {
	cell := a.X
	if a.Block() == b.Block() {
		i, j := instrIndex(a), instrIndex(b)
		if i > j {
			i, j = j, i
		}
		for _, in := range a.Block().Instrs[i:j] {
			if st, ok := in.(*ssa.Store); ok && st.Addr == cell {
				return false
			}
		}
		return true
	}
	// cross-block: require that the only stores to the cell dominate both loads
	for _, r := range *cell.Referrers() {
		if st, ok := r.(*ssa.Store); ok && st.Addr == cell {
			if !(instrDominates(st, a) && instrDominates(st, b)) {
				return false
			}
			// a store inside a loop could still run between: require store block not dominated by either load
			if a.Block().Dominates(st.Block()) || b.Block().Dominates(st.Block()) {
				return false
			}
		}
	}
	return true
}

func hasFact(fs []fact, k factKind, v ssa.Value) bool {
	for _, f := range fs {
		if f.Kind == k && sameVal(f.Val, v) {
			return true
		}
	}
	return false
}

// guardedNil reports whether instruction in only executes when v == nil.
func guardedNil(in ssa.Instruction, v ssa.Value) bool {
	return hasFact(factsAt(in), factNil, v)
}

func guardedTrue(in ssa.Instruction, v ssa.Value) bool {
	return hasFact(factsAt(in), factTrue, v)
}

func guardedFalse(in ssa.Instruction, v ssa.Value) bool {
	return hasFact(factsAt(in), factFalse, v)
}

// callSucceededBefore reports whether in is dominated by call c AND lies on
// the err == nil side of c's error result (or c has no error result).
func callSucceededBefore(c ssa.CallInstruction, in ssa.Instruction) bool {
	if !instrDominates(c, in) {
		return false
	}
	e := errResult(c)
	if e == nil {
		// no error result, or error result unused/discarded
		sig := c.Common().Signature()
		n := sig.Results().Len()
		if n > 0 && isErrorType(sig.Results().At(n-1).Type()) {
			return false // error discarded: success not established
		}
		return true
	}
	return guardedNil(in, e)
}

// ---------------------------------------------------------------------------
// error classification of returns
// ---------------------------------------------------------------------------

type errClass int

const (
	errNil errClass = iota
	errNonNil
	errMaybe
)

func (e errClass) String() string {
	return [...]string{"nil", "non-nil", "maybe-nil"}[e]
}

var nonNilErrCtors = names(
	"errors.New", "fmt.Errorf", "errors.Join",
	"github.com/gofiber/fiber/v2.NewError",
)

// classifyErr classifies error value v as observed by instruction at, reached
// over edge pred->at.Block() (pred may be nil).
func classifyErr(v ssa.Value, at ssa.Instruction, pred *ssa.BasicBlock, depth int) errClass {
	if v == nil || depth > 6 {
		return errMaybe
	}
	if isNilConst(v) {
		return errNil
	}
	var facts []fact
	if at != nil {
		facts = factsAt(at)
		if pred != nil {
			facts = append(facts, blockEdgeFactsDirect(pred, at.Block())...)
		}
	}
	if hasFact(facts, factNotNil, v) {
		return errNonNil
	}
	if hasFact(facts, factNil, v) {
		return errNil
	}
	switch x := v.(type) {
	case *ssa.Phi:
		if pred != nil && at != nil && x.Block() == at.Block() {
			for i, p := range x.Block().Preds {
				if p == pred {
					// classify the edge value at the end of pred
					var last ssa.Instruction
					if len(p.Instrs) > 0 {
						last = p.Instrs[len(p.Instrs)-1]
					}
					return classifyErr(x.Edges[i], last, nil, depth+1)
				}
			}
		}
		allNil, allNon := true, true
		for i, e := range x.Edges {
			var last ssa.Instruction
			p := x.Block().Preds[i]
			if len(p.Instrs) > 0 {
				last = p.Instrs[len(p.Instrs)-1]
			}
			c := classifyErr(e, last, nil, depth+1)
			if c != errNil {
				allNil = false
			}
			if c != errNonNil {
				allNon = false
			}
		}
		if allNil {
			return errNil
		}
		if allNon {
			return errNonNil
		}
		return errMaybe
	case *ssa.Call:
		if nonNilErrCtors[callName(x)] {
			return errNonNil
		}
		if callName(x) == "(context.Context).Err" {
			// `return ctx.Err()` is the cancellation idiom: taken after ctx.Done()
			// fired (or ctx.Err() != nil was tested); treat as a failure return.
			return errNonNil
		}
		if callee := x.Call.StaticCallee(); callee != nil && len(callee.Blocks) > 0 {
			sum := errSummaryOf(callee)
			switch {
			case sum.alwaysNonNil:
				return errNonNil
			case sum.nilIffParam >= 0 && sum.nilIffParam < len(x.Call.Args):
				return classifyErr(x.Call.Args[sum.nilIffParam], at, pred, depth+1)
			}
		}
		return errMaybe
	case *ssa.MakeInterface:
		// a concrete non-pointer value, or the address of a fresh allocation
		switch xv := x.X.(type) {
		case *ssa.Alloc:
			return errNonNil
		case *ssa.Const:
			if xv.IsNil() {
				return errMaybe // typed nil pointer in interface: non-nil interface, but treat as maybe
			}
			return errNonNil
		}
		if _, ok := x.X.Type().Underlying().(*types.Pointer); !ok {
			return errNonNil
		}
		return errMaybe
	case *ssa.UnOp:
		if x.Op == token.MUL {
			if a, ok := x.X.(*ssa.Alloc); ok {
				// defer-spilled result: *t1 = v; rundefers; t = *t1; return t
				blk := x.Block()
				idx := instrIndex(x)
				for i := idx - 1; i >= 0; i-- {
					if st, ok := blk.Instrs[i].(*ssa.Store); ok && st.Addr == a {
						return classifyErr(st.Val, st, pred, depth+1)
					}
				}
				// no store in this block: all stores must agree
				var cls []errClass
				for _, r := range *a.Referrers() {
					if st, ok := r.(*ssa.Store); ok && st.Addr == a {
						cls = append(cls, classifyErr(st.Val, st, nil, depth+1))
					}
				}
				if len(cls) > 0 {
					all := cls[0]
					for _, c := range cls {
						if c != all {
							return errMaybe
						}
					}
					return all
				}
			}
			if g, ok := x.X.(*ssa.Global); ok {
				// package-level sentinel: ErrFoo = errors.New(...)
				if strings.HasPrefix(g.Name(), "Err") || strings.HasPrefix(g.Name(), "err") || g.Name() == "EOF" {
					return errNonNil
				}
			}
		}
	case *ssa.ChangeInterface:
		return classifyErr(x.X, at, pred, depth+1)
	case *ssa.Extract:
		// result of a call: unknown
		return errMaybe
	}
	return errMaybe
}

// blockEdgeFactsDirect: facts known on the edge pred->succ itself.
func blockEdgeFactsDirect(pred, succ *ssa.BasicBlock) []fact {
	if len(pred.Instrs) == 0 {
		return nil
	}
	ifi, ok := pred.Instrs[len(pred.Instrs)-1].(*ssa.If)
	if !ok || pred.Succs[0] == pred.Succs[1] {
		return nil
	}
	if pred.Succs[0] == succ {
		return condFacts(ifi.Cond, true, ifi)
	}
	if pred.Succs[1] == succ {
		return condFacts(ifi.Cond, false, ifi)
	}
	return nil
}

// returnErrOperand returns the error-typed last operand of a return, if any.
func returnErrOperand(r *ssa.Return) ssa.Value {
	if len(r.Results) == 0 {
		return nil
	}
	last := r.Results[len(r.Results)-1]
	if isErrorType(last.Type()) {
		return last
	}
	return nil
}

// ---------------------------------------------------------------------------
// path search
// ---------------------------------------------------------------------------

type exitInfo struct {
	Instr ssa.Instruction
	Pred  *ssa.BasicBlock
	Trail []int // block indices walked
}

// pathsAvoiding walks forward from the instruction after start (or from the
// function entry when start is nil, fn given) and returns every exit
// instruction (Return; Panic is ignored) that can be reached without
// executing an instruction for which stop returns true. Deferred calls
// matching stop that were registered on the way also block the path.
func pathsAvoiding(fn *ssa.Function, start ssa.Instruction, stop func(ssa.Instruction) bool) []exitInfo {
	return pathsAvoidingTo(fn, start, nil, stop, nil)
}

// pathsAvoidingTo is pathsAvoiding with two extensions: the walk may start at
// the head of startBlock (when start is nil and startBlock is not), and
// instructions satisfying sink are reported like exits (the path ends there).
func pathsAvoidingTo(fn *ssa.Function, start ssa.Instruction, startBlock *ssa.BasicBlock, stop func(ssa.Instruction) bool, sink func(ssa.Instruction) bool) []exitInfo {
	return pathsAvoidingEdges(fn, start, startBlock, stop, sink, nil)
}

// pathsAvoidingEdges additionally refuses to traverse CFG edges for which
// blockEdge returns true (used to exclude branches taken only under a
// condition that makes the obligation moot, e.g. "manifest manager is nil").
func pathsAvoidingEdges(fn *ssa.Function, start ssa.Instruction, startBlock *ssa.BasicBlock, stop func(ssa.Instruction) bool, sink func(ssa.Instruction) bool, blockEdge func(from, to *ssa.BasicBlock) bool) []exitInfo {
	var exits []exitInfo
	type edge struct{ from, to *ssa.BasicBlock }
	visited := map[edge]bool{}
	var walk func(b *ssa.BasicBlock, from int, pred *ssa.BasicBlock, trail []int)
	walk = func(b *ssa.BasicBlock, from int, pred *ssa.BasicBlock, trail []int) {
		trail = append(trail, b.Index)
		for i := from; i < len(b.Instrs); i++ {
			in := b.Instrs[i]
			if stop(in) {
				return
			}
			if sink != nil && sink(in) {
				exits = append(exits, exitInfo{Instr: in, Pred: pred, Trail: append([]int(nil), trail...)})
				return
			}
			if d, ok := in.(*ssa.Defer); ok {
				if stopDefer(d, stop) {
					return
				}
			}
			switch in.(type) {
			case *ssa.Return:
				exits = append(exits, exitInfo{Instr: in, Pred: pred, Trail: append([]int(nil), trail...)})
				return
			case *ssa.Panic:
				return
			}
		}
		for _, s := range b.Succs {
			e := edge{b, s}
			if visited[e] {
				continue
			}
			visited[e] = true
			if blockEdge != nil && blockEdge(b, s) {
				continue
			}
			walk(s, 0, b, trail)
		}
	}
	if start != nil {
		walk(start.Block(), instrIndex(start)+1, nil, nil)
	} else if startBlock != nil {
		walk(startBlock, 0, nil, nil)
	} else if len(fn.Blocks) > 0 {
		walk(fn.Blocks[0], 0, nil, nil)
	}
	return exits
}

// stopDefer: a deferred call counts as passing through the target when the
// deferred function is itself a target, or is a closure all of whose paths
// reach a target.
func stopDefer(d *ssa.Defer, stop func(ssa.Instruction) bool) bool {
	if stop(d) {
		return true
	}
	if mc, ok := d.Call.Value.(*ssa.MakeClosure); ok {
		if f, ok := mc.Fn.(*ssa.Function); ok {
			return len(pathsAvoiding(f, nil, stop)) == 0
		}
	}
	return false
}

// successExits filters exits to those whose error operand may be nil (or that
// return no error at all).
func successExits(exits []exitInfo) []exitInfo {
	var out []exitInfo
	for _, e := range exits {
		r, ok := e.Instr.(*ssa.Return)
		if !ok {
			continue
		}
		op := returnErrOperand(r)
		if op == nil {
			out = append(out, e)
			continue
		}
		if classifyErr(op, r, e.Pred, 0) != errNonNil {
			out = append(out, e)
		}
	}
	return out
}

// alwaysCalls reports whether every path through fn to a possibly-successful
// return executes a call whose name is in targets, looking through callees up
// to depth levels.
func (p *Prog) alwaysCalls(fn *ssa.Function, targets nameSet, depth int, seen map[*ssa.Function]bool) bool {
	if fn == nil || len(fn.Blocks) == 0 {
		return false
	}
	if seen == nil {
		seen = map[*ssa.Function]bool{}
	}
	if seen[fn] {
		return false
	}
	seen[fn] = true
	defer delete(seen, fn)
	stop := p.stopFn(targets, depth, seen)
	return len(successExits(pathsAvoiding(fn, nil, stop))) == 0
}

// stopFn builds the "passes through target" predicate: a direct call to a
// target, or a static call to a source function that always calls a target.
func (p *Prog) stopFn(targets nameSet, depth int, seen map[*ssa.Function]bool) func(ssa.Instruction) bool {
	memo := map[*ssa.Function]bool{}
	return func(in ssa.Instruction) bool {
		c, ok := in.(ssa.CallInstruction)
		if !ok {
			return false
		}
		if _, isGo := in.(*ssa.Go); isGo {
			return false
		}
		if targets[callName(c)] {
			return true
		}
		if depth <= 0 {
			return false
		}
		callee := c.Common().StaticCallee()
		if callee == nil || len(callee.Blocks) == 0 {
			return false
		}
		if v, ok := memo[callee]; ok {
			return v
		}
		r := p.alwaysCalls(callee, targets, depth-1, seen)
		memo[callee] = r
		return r
	}
}

// ---------------------------------------------------------------------------
// value flow
// ---------------------------------------------------------------------------

// derives reports whether v is computed (through phis, field/index reads,
// slices, conversions, binary ops, and calls' arguments when throughCalls)
// from some value satisfying src.
func derives(v ssa.Value, src func(ssa.Value) bool, throughCalls bool, depth int) bool {
	return derivesOpt(v, src, throughCalls, depth, false)
}

// derivesWide is derives through calls and additionally through containers:
// range iteration (Next/Range) and the keys and values stored into a map made
// in the function.
func derivesWide(v ssa.Value, src func(ssa.Value) bool, depth int) bool {
	return derivesOpt(v, src, true, depth, true)
}

func derivesOpt(v ssa.Value, src func(ssa.Value) bool, throughCalls bool, depth int, containers bool) bool {
	seen := map[ssa.Value]bool{}
	var rec func(v ssa.Value, d int) bool
	rec = func(v ssa.Value, d int) bool {
		if v == nil || d > depth || seen[v] {
			return false
		}
		seen[v] = true
		if src(v) {
			return true
		}
		switch x := v.(type) {
		case *ssa.Phi:
			for _, e := range x.Edges {
				if rec(e, d+1) {
					return true
				}
			}
		case *ssa.UnOp:
			if x.Op == token.MUL {
				// load: look at stores into the cell
				if a, ok := x.X.(*ssa.Alloc); ok {
					for _, r := range *a.Referrers() {
						if st, ok := r.(*ssa.Store); ok && st.Addr == a {
							if rec(st.Val, d+1) {
								return true
							}
						}
					}
				}
			}
			return rec(x.X, d+1)
		case *ssa.BinOp:
			return rec(x.X, d+1) || rec(x.Y, d+1)
		case *ssa.Alloc:
			// aggregate built in place: element / field stores
			for _, r := range *x.Referrers() {
				switch rr := r.(type) {
				case *ssa.Store:
					if rr.Addr == x && rec(rr.Val, d+1) {
						return true
					}
				case *ssa.IndexAddr:
					for _, r2 := range *rr.Referrers() {
						if st, ok := r2.(*ssa.Store); ok && st.Addr == rr && rec(st.Val, d+1) {
							return true
						}
					}
				case *ssa.FieldAddr:
					for _, r2 := range *rr.Referrers() {
						if st, ok := r2.(*ssa.Store); ok && st.Addr == rr && rec(st.Val, d+1) {
							return true
						}
					}
				}
			}
		case *ssa.FieldAddr:
			return rec(x.X, d+1)
		case *ssa.Field:
			return rec(x.X, d+1)
		case *ssa.IndexAddr:
			return rec(x.X, d+1)
		case *ssa.Index:
			return rec(x.X, d+1)
		case *ssa.Lookup:
			return rec(x.X, d+1)
		case *ssa.Slice:
			return rec(x.X, d+1)
		case *ssa.Convert:
			return rec(x.X, d+1)
		case *ssa.ChangeType:
			return rec(x.X, d+1)
		case *ssa.ChangeInterface:
			return rec(x.X, d+1)
		case *ssa.MakeInterface:
			return rec(x.X, d+1)
		case *ssa.TypeAssert:
			return rec(x.X, d+1)
		case *ssa.Extract:
			return rec(x.Tuple, d+1)
		case *ssa.FreeVar:
			if containers {
				// the value bound at the closure's creation
				fn := x.Parent()
				if fn != nil && fn.Parent() != nil {
					idx := -1
					for i, fv := range fn.FreeVars {
						if fv == x {
							idx = i
						}
					}
					for _, b := range fn.Parent().Blocks {
						for _, in := range b.Instrs {
							if mc, ok := in.(*ssa.MakeClosure); ok && mc.Fn == ssa.Value(fn) && idx >= 0 && idx < len(mc.Bindings) {
								if rec(mc.Bindings[idx], d+1) {
									return true
								}
							}
						}
					}
				}
			}
		case *ssa.Next:
			if containers {
				return rec(x.Iter, d+1)
			}
		case *ssa.Range:
			if containers {
				return rec(x.X, d+1)
			}
		case *ssa.MakeMap:
			if containers {
				for _, r := range *x.Referrers() {
					if mu, ok := r.(*ssa.MapUpdate); ok && mu.Map == ssa.Value(x) {
						if rec(mu.Key, d+1) || rec(mu.Value, d+1) {
							return true
						}
					}
				}
			}
		case *ssa.Call:
			if throughCalls {
				for _, a := range x.Call.Args {
					if rec(a, d+1) {
						return true
					}
				}
				if x.Call.IsInvoke() {
					return rec(x.Call.Value, d+1)
				}
			}
		}
		return false
	}
	return rec(v, 0)
}

// isResultOf returns a source predicate: value is (an extract of) a call to name.
func isResultOf(nm ...string) func(ssa.Value) bool {
	set := names(nm...)
	return func(v ssa.Value) bool {
		switch x := v.(type) {
		case *ssa.Call:
			return set[callName(x)]
		case *ssa.Extract:
			if c, ok := x.Tuple.(*ssa.Call); ok {
				return set[callName(c)]
			}
		}
		return false
	}
}

func isParam(fn *ssa.Function, name string) func(ssa.Value) bool {
	return func(v ssa.Value) bool {
		p, ok := v.(*ssa.Parameter)
		return ok && p.Parent() == fn && p.Name() == name
	}
}

// constString returns the compile-time string value of v, if any.
func constString(v ssa.Value) (string, bool) {
	c, ok := v.(*ssa.Const)
	if !ok || c.Value == nil || c.Value.Kind() != constant.String {
		return "", false
	}
	return constant.StringVal(c.Value), true
}

func constInt(v ssa.Value) (int64, bool) {
	c, ok := v.(*ssa.Const)
	if !ok || c.Value == nil {
		return 0, false
	}
	if c.Value.Kind() != constant.Int {
		if c.Value.Kind() == constant.Float {
			f, _ := constant.Float64Val(c.Value)
			return int64(f), float64(int64(f)) == f
		}
		return 0, false
	}
	i, exact := constant.Int64Val(c.Value)
	return i, exact
}

// fieldOf: if v is a FieldAddr/Field, the field's name and the struct type name.
func fieldOf(v ssa.Value) (structName, field string, base ssa.Value, ok bool) {
	switch x := v.(type) {
	case *ssa.FieldAddr:
		t := x.X.Type().Underlying().(*types.Pointer).Elem()
		st := t.Underlying().(*types.Struct)
		name := ""
		if n, ok := t.(*types.Named); ok {
			name = n.Obj().Name()
		}
		return name, st.Field(x.Field).Name(), x.X, true
	case *ssa.Field:
		t := x.X.Type()
		st := t.Underlying().(*types.Struct)
		name := ""
		if n, ok := t.(*types.Named); ok {
			name = n.Obj().Name()
		}
		return name, st.Field(x.Field).Name(), x.X, true
	}
	return "", "", nil, false
}

// ---------------------------------------------------------------------------
// interprocedural error summaries
// ---------------------------------------------------------------------------

type errSummary struct {
	alwaysNonNil bool
	nilIffParam  int // index into Params (== call Args incl. receiver) or -1
}

var errSummaryMemo = map[*ssa.Function]*errSummary{}

// errSummaryOf summarises the nil-ness of fn's error result: always non-nil,
// or nil exactly on paths where one parameter was tested nil (wrappers such as
// tagError(sentinel, err)), or unknown.
func errSummaryOf(fn *ssa.Function) errSummary {
	if s, ok := errSummaryMemo[fn]; ok {
		if s == nil {
			return errSummary{nilIffParam: -1} // recursion in progress
		}
		return *s
	}
	errSummaryMemo[fn] = nil
	sum := errSummary{alwaysNonNil: true, nilIffParam: -1}
	unknown := false
	nrets := 0
	for _, b := range fn.Blocks {
		if len(b.Instrs) == 0 {
			continue
		}
		r, ok := b.Instrs[len(b.Instrs)-1].(*ssa.Return)
		if !ok {
			continue
		}
		op := returnErrOperand(r)
		if op == nil {
			unknown = true
			break
		}
		nrets++
		preds := b.Preds
		if _, isPhi := op.(*ssa.Phi); !isPhi || len(preds) == 0 {
			preds = []*ssa.BasicBlock{nil}
		}
		for _, pred := range preds {
			switch classifyErr(op, r, pred, 0) {
			case errNonNil:
			case errNil:
				sum.alwaysNonNil = false
				// which parameter is known nil here?
				found := -1
				facts := factsAt(r)
				if pred != nil {
					facts = append(facts, factsAtBlock(pred)...)
					facts = append(facts, blockEdgeFactsDirect(pred, b)...)
				}
				for _, f := range facts {
					if f.Kind == factNil {
						if p, ok := f.Val.(*ssa.Parameter); ok && isErrorType(p.Type()) {
							for i, q := range fn.Params {
								if q == p {
									found = i
								}
							}
						}
					}
				}
				if found < 0 || (sum.nilIffParam >= 0 && sum.nilIffParam != found) {
					unknown = true
				} else {
					sum.nilIffParam = found
				}
			default:
				// maybe-nil: a plain pass-through of an error parameter is fine
				pi := -1
				if p, isP := op.(*ssa.Parameter); isP {
					for i, q := range fn.Params {
						if q == p {
							pi = i
						}
					}
				}
				if pi >= 0 && (sum.nilIffParam < 0 || sum.nilIffParam == pi) {
					sum.nilIffParam = pi
					sum.alwaysNonNil = false
					continue
				}
				unknown = true
			}
		}
	}
	if unknown || nrets == 0 {
		sum = errSummary{nilIffParam: -1}
	} else if sum.alwaysNonNil {
		sum.nilIffParam = -1
	}
	errSummaryMemo[fn] = &sum
	return sum
}

// fieldSources performs a backward slice from v and returns the set of
// "Struct.Field" reads it reaches, looking through composite literals
// (stores into the fields of a local), phis, conversions, string/arith
// operations, call arguments, and into statically resolved source callees
// (return values, with parameters mapped back to the call's arguments).
func fieldSources(v ssa.Value, maxDepth int) map[string]bool {
	out := map[string]bool{}
	backSlice(v, maxDepth, func(x ssa.Value) bool {
		if sn, f, _, ok := fieldOf(x); ok {
			out[sn+"."+f] = true
		}
		return true
	})
	return out
}

// backSlice walks the backward slice of v (same edges as fieldSources: phis,
// composite-literal stores, loads, arithmetic, conversions, call arguments,
// and into statically resolved module callees with parameters bound to the
// call's arguments). visit is called once per value; returning false prunes
// the walk below that value.
func backSlice(v ssa.Value, maxDepth int, visit func(ssa.Value) bool) {
	seen := map[ssa.Value]bool{}
	var rec func(v ssa.Value, d int, bind map[*ssa.Parameter]ssa.Value)
	rec = func(v ssa.Value, d int, bind map[*ssa.Parameter]ssa.Value) {
		if v == nil || d > maxDepth || seen[v] {
			return
		}
		seen[v] = true
		if !visit(v) {
			return
		}
		if _, _, base, ok := fieldOf(v); ok {
			// follow the access path (x.a.b[i].c) but not the provenance of the
			// base pointer itself: where the struct came from says nothing about
			// which of its fields this value reads.
			for base != nil {
				switch b := base.(type) {
				case *ssa.UnOp:
					base = b.X
					continue
				case *ssa.IndexAddr:
					base = b.X
					continue
				case *ssa.FieldAddr, *ssa.Field:
					if !seen[base] {
						seen[base] = true
						visit(base)
					}
					_, _, nb, _ := fieldOf(base)
					base = nb
					continue
				case *ssa.Parameter:
					if bind != nil {
						if a, ok := bind[b]; ok {
							base = a
							bind = nil
							continue
						}
					}
				}
				break
			}
			return
		}
		switch x := v.(type) {
		case *ssa.Parameter:
			if bind != nil {
				if a, ok := bind[x]; ok {
					rec(a, d+1, nil)
				}
			}
		case *ssa.Phi:
			for _, e := range x.Edges {
				rec(e, d+1, bind)
			}
		case *ssa.Alloc:
			for _, r := range *x.Referrers() {
				switch rr := r.(type) {
				case *ssa.Store:
					if rr.Addr == x {
						rec(rr.Val, d+1, bind)
					}
				case *ssa.FieldAddr:
					for _, r2 := range *rr.Referrers() {
						if st, ok := r2.(*ssa.Store); ok && st.Addr == rr {
							rec(st.Val, d+1, bind)
						}
					}
				case *ssa.IndexAddr:
					for _, r2 := range *rr.Referrers() {
						if st, ok := r2.(*ssa.Store); ok && st.Addr == rr {
							rec(st.Val, d+1, bind)
						}
					}
				}
			}
		case *ssa.UnOp:
			rec(x.X, d+1, bind)
		case *ssa.BinOp:
			rec(x.X, d+1, bind)
			rec(x.Y, d+1, bind)
		case *ssa.Convert:
			rec(x.X, d+1, bind)
		case *ssa.ChangeType:
			rec(x.X, d+1, bind)
		case *ssa.MakeInterface:
			rec(x.X, d+1, bind)
		case *ssa.ChangeInterface:
			rec(x.X, d+1, bind)
		case *ssa.Slice:
			rec(x.X, d+1, bind)
		case *ssa.Index:
			rec(x.X, d+1, bind)
		case *ssa.IndexAddr:
			rec(x.X, d+1, bind)
		case *ssa.Lookup:
			rec(x.X, d+1, bind)
		case *ssa.Extract:
			rec(x.Tuple, d+1, bind)
		case *ssa.TypeAssert:
			rec(x.X, d+1, bind)
		case *ssa.Call:
			callee := x.Call.StaticCallee()
			if callee != nil && len(callee.Blocks) > 0 && callee.Pkg != nil && strings.HasPrefix(callee.Pkg.Pkg.Path(), modulePath) {
				nb := map[*ssa.Parameter]ssa.Value{}
				for i, p := range callee.Params {
					if i < len(x.Call.Args) {
						nb[p] = x.Call.Args[i]
					}
				}
				for _, b := range callee.Blocks {
					if len(b.Instrs) == 0 {
						continue
					}
					if r, ok := b.Instrs[len(b.Instrs)-1].(*ssa.Return); ok {
						for _, res := range r.Results {
							rec(res, d+1, nb)
						}
					}
				}
				return
			}
			for _, a := range x.Call.Args {
				rec(a, d+1, bind)
			}
		}
	}
	rec(v, 0, nil)
}
