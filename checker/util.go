package main

import "regexp"

func regexpMust(s string) *regexp.Regexp { return regexp.MustCompile(s) }

var createTableRe = regexp.MustCompile(`(?is)CREATE\s+TABLE\s+(?:IF\s+NOT\s+EXISTS\s+)?([A-Za-z_][A-Za-z0-9_]*)`)
var referencesRe = regexp.MustCompile(`(?is)REFERENCES\s+([A-Za-z_][A-Za-z0-9_]*)\s*\([^)]*\)\s*`)
