# Executed by gen_manifest.py. One claim() per property with a registered checker.
NA = {}

claim("C20",
  "Decides four structural necessary conditions of 'permission decisions reflect the current RBAC state': (INV) in every RBACManager method each Exec that mutates a decision-relevant rbac_* table reaches a nil-error return only through InvalidateAllCache/InvalidateTokenCache (path search over the SSA CFG with error-nil-ness classification of returns); (READS) the tables read by the decision closure are exactly those the relevance table covers; (KEY/TOKEN) every permCache key derives, interprocedurally, from every request and token input the decision closure reads, or else the token mutators must reach an RBAC invalidation; (CASCADE) child tables declare ON DELETE CASCADE and the DSN enables foreign keys.",
  "Not decided: correctness of policy evaluation (pattern matching, precedence), TTL expiry, concurrent mutation/check interleavings, follower-side apply latency in cluster mode. Trusted: database/sql and SQLite cascade semantics; the relevance table (which mutations can change a decision) was confirmed by reading and is re-checked by READS.",
  "must-pass-through path analysis + SQL-template classification + interprocedural value-flow (go/ssa)", "§3 C20")
