package ingest

// Demonstrations for C01: valid line-protocol points whose names contain an
// escaped equals sign, or a double quote outside a string field value, were
// stored under the wrong key or dropped.
//
// Run from /repo: cp <this> internal/ingest/ && go test ./internal/ingest -run TestC01Demo

import (
	"reflect"
	"testing"
)

func TestC01Demo_EscapedEqualsInKeys(t *testing.T) {
	p := NewLineProtocolParser()
	recs := p.ParseBatchWithPrecision([]byte(`m,a\=b=c,plain=1 f\=g=2,h=3 1000`), "us")
	if len(recs) != 1 {
		t.Fatalf("point dropped: got %d records", len(recs))
	}
	if want := map[string]string{"a=b": "c", "plain": "1"}; !reflect.DeepEqual(recs[0].Tags, want) {
		t.Errorf("tags = %#v, want %#v (tag key a\\=b denotes the key \"a=b\")", recs[0].Tags, want)
	}
	if want := map[string]interface{}{"f=g": 2.0, "h": 3.0}; !reflect.DeepEqual(recs[0].Fields, want) {
		t.Errorf("fields = %#v, want %#v", recs[0].Fields, want)
	}
}

func TestC01Demo_DoubleQuoteOutsideStringFieldIsLiteral(t *testing.T) {
	p := NewLineProtocolParser()
	// In line protocol a double quote is only special around a string FIELD VALUE.
	for _, line := range []string{
		`m,host=a"b v=1 1000`,
		`m"x,host=a v=1 1000`,
		`m,ho"st=a v=1,w="q" 1000`,
	} {
		recs := p.ParseBatchWithPrecision([]byte(line), "us")
		if len(recs) != 1 {
			t.Errorf("valid point dropped: %s", line)
			continue
		}
		if recs[0].Timestamp != 1000 || recs[0].Fields["v"] != 1.0 {
			t.Errorf("%s parsed as %#v", line, recs[0])
		}
	}
	recs := p.ParseBatchWithPrecision([]byte(`m,host=a"b v=1 1000`), "us")
	if len(recs) == 1 && recs[0].Tags["host"] != `a"b` {
		t.Errorf("tag host = %q, want %q", recs[0].Tags["host"], `a"b`)
	}
	// quoting in string field values still works
	recs = p.ParseBatchWithPrecision([]byte(`m,host=a s="x, y=z \" q",v=2 1000`), "us")
	if len(recs) != 1 || recs[0].Fields["s"] != `x, y=z " q` || recs[0].Fields["v"] != 2.0 {
		t.Errorf("string field broken: %#v", recs)
	}
}
