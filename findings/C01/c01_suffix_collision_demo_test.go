package ingest

// Demonstration for C01: a point with tag `a` and fields `a` and `a_value`.
// The field that shares its name with the tag is stored as `a_value` — the
// very column of the other field. Line protocol: one written value silently
// replaced the other. Row format (msgpack rows): the column received two
// entries per row and came out twice as long as `time`.
// (The row-format half was suspected by a seeding agent reading the unmodified tree.)
//
// Run from /repo: cp <this> internal/ingest/ && go test ./internal/ingest -run TestC01Demo_Suffix

import (
	"testing"

	"github.com/basekick-labs/arc/pkg/models"
)

func TestC01Demo_SuffixCollisionKeepsBothFields(t *testing.T) {
	recs := NewLineProtocolParser().ParseBatch([]byte("m,a=x a=1,a_value=2 1000\n"))
	for _, c := range BatchToColumnar(recs) {
		seen := map[interface{}]bool{}
		for name, col := range c.Columns {
			if name == "time" || name == "a" {
				continue
			}
			for _, v := range col {
				seen[v] = true
			}
		}
		if !seen[1.0] || !seen[2.0] {
			t.Errorf("line protocol: both field values (1 and 2) must be stored; stored field values: %v", seen)
		}
	}
	b := &ArrowBuffer{}
	rec := b.rowsToColumnar("m", []*models.Record{{Measurement: "m", Timestamp: 1, Tags: map[string]string{"a": "x"}, Fields: map[string]interface{}{"a": 1.0, "a_value": 2.0}}})
	for name, col := range rec.Columns {
		if len(col) != len(rec.Columns["time"]) {
			t.Errorf("row format: column %q has %d entries for %d row(s)", name, len(col), len(rec.Columns["time"]))
		}
	}
}
