package ingest

import (
	"bytes"
	"testing"

	"github.com/Basekick-Labs/msgpack/v6"
	"github.com/rs/zerolog"

	"github.com/basekick-labs/arc/pkg/models"
)

// Demonstration for C02: `columns` with a repeated key whose first value is an
// array and whose later value is not. The generic decoder keeps the last value
// and drops the column; the typed fast path kept the first array. (Reported by
// a seeding agent on the unmodified tree.)
func TestC02Demo_DuplicateColumnKeyDecodesTheSameOnBothPaths(t *testing.T) {
	var buf bytes.Buffer
	enc := msgpack.NewEncoder(&buf)
	enc.EncodeMapLen(2)
	enc.EncodeString("m")
	enc.EncodeString("cpu")
	enc.EncodeString("columns")
	enc.EncodeMapLen(3)
	enc.EncodeString("time")
	enc.EncodeArrayLen(2)
	enc.EncodeInt64(1700000000000000)
	enc.EncodeInt64(1700000000000001)
	enc.EncodeString("v")
	enc.EncodeArrayLen(2)
	enc.EncodeInt64(1)
	enc.EncodeInt64(2)
	enc.EncodeString("v")
	enc.EncodeInt64(5)
	cols := func(typed bool) int {
		d := NewMessagePackDecoder(zerolog.Nop())
		d.SetTypedDecodeEnabled(typed)
		out, err := d.Decode(buf.Bytes())
		if err != nil {
			return -1
		}
		items, ok := out.([]interface{})
		if !ok {
			items = []interface{}{out}
		}
		if len(items) == 1 {
			switch r := items[0].(type) {
			case *TypedColumnarRecord:
				return len(r.Batch.Data)
			case *models.ColumnarRecord:
				return len(r.Columns)
			}
		}
		t.Fatalf("unexpected decode result %T", out)
		return -2
	}
	a, b := cols(true), cols(false)
	if a != b {
		t.Errorf("typed path stores %d column(s), generic path stores %d", a, b)
	}
}
