package ingest

// Demonstrations for C04 (no request payload can crash the server).
//
//  A. Two accepted writes to one measurement whose underscore-prefixed column
//     changes type: getColumnSignature skips such columns, so both batches share
//     a buffer, and mergeBatches' unchecked type assertion panics in the flush
//     path (a flush worker goroutine in production: the process dies after both
//     requests were answered 204).
//  B. A column with the empty name: getSchema / inferSchema index name[0].
//
// Run from /repo: cp <this> internal/ingest/ && go test ./internal/ingest -run TestC04Demo

import (
	"context"
	"fmt"
	"testing"

	"github.com/basekick-labs/arc/internal/config"
	"github.com/basekick-labs/arc/internal/metrics"
	"github.com/rs/zerolog"
)

func c04Buffer() *ArrowBuffer {
	metrics.Init(zerolog.Nop())
	return NewArrowBuffer(&config.IngestConfig{MaxBufferSize: 1000000, MaxBufferAgeMS: 600000, FlushWorkers: 1, FlushQueueSize: 8, ShardCount: 1, Compression: "snappy"}, &mockStorageBackend{}, zerolog.Nop())
}

func c04NoPanic(t *testing.T, what string, f func()) {
	t.Helper()
	defer func() {
		if r := recover(); r != nil {
			t.Errorf("%s: the flush path panicked: %v", what, r)
		}
	}()
	f()
}

func TestC04Demo_A_UnderscoreColumnTypeChange(t *testing.T) {
	b := c04Buffer()
	ctx := context.Background()
	w := func(x interface{}) error {
		return b.WriteColumnarDirect(ctx, "db", "cpu", map[string][]interface{}{"time": {int64(1700000000000000)}, "v": {1.0}, "_x": {x}})
	}
	if err := w(int64(1)); err != nil {
		t.Fatal(err)
	}
	err2 := w("one") // same column, now a string
	c04NoPanic(t, fmt.Sprintf("both writes accepted (second: err=%v)", err2), func() { _ = b.FlushAll(ctx) })
}

func TestC04Demo_B_EmptyColumnName(t *testing.T) {
	b := c04Buffer()
	ctx := context.Background()
	err := b.WriteColumnarDirect(ctx, "db", "cpu", map[string][]interface{}{"time": {int64(1700000000000000)}, "v": {1.0}, "": {2.0}})
	c04NoPanic(t, fmt.Sprintf("write with an empty column name (err=%v)", err), func() { _ = b.FlushAll(ctx) })
}
