package ingest

// Demonstration for C04: a TLE body whose "line 1" is shorter than 7 bytes
// made ParseTLEFile slice out of range (found by a seeding agent on the
// unmodified tree). The request handlers run behind fiber's recover
// middleware, so the process survived, but the request ended in a panic
// instead of a per-entry warning.
//
// Run from /repo: cp <this> internal/ingest/ && go test ./internal/ingest -run TestC04Demo_TLE

import "testing"

func TestC04Demo_TLEShortLineDoesNotPanic(t *testing.T) {
	p := NewTLEParser()
	for _, body := range []string{"1 x\nfoo\n", "1 \n2 \n", "1 1234\n2 1234\n"} {
		func() {
			defer func() {
				if r := recover(); r != nil {
					t.Errorf("ParseTLEFile(%q) panicked: %v", body, r)
				}
			}()
			if recs, _ := p.ParseTLEFile([]byte(body)); len(recs) != 0 {
				t.Errorf("ParseTLEFile(%q) = %d records; want none", body, len(recs))
			}
		}()
	}
}
