package main

import (
	"github.com/basekick-labs/arc/internal/ingest"
	"github.com/basekick-labs/arc/internal/wal"
)

// As cmd/arc wires it: replayed rows are flushed before their WAL file is deleted.
func c05SetDurabilityHook(opts *wal.RecoveryOptions, buf *ingest.ArrowBuffer) {
	opts.BeforeDelete = buf.FlushAll
}
