package main

import (
	"github.com/basekick-labs/arc/internal/ingest"
	"github.com/basekick-labs/arc/internal/wal"
)

// On the tree before the fix RecoveryOptions has no durability hook.
func c05SetDurabilityHook(opts *wal.RecoveryOptions, buf *ingest.ArrowBuffer) {}
