package main

// Demonstrations for C05 (WAL crash recovery), all through the real WAL writer,
// the real recovery and the production recovery callbacks:
//
//  A. Recovery deleted each WAL file as soon as its entries had been re-buffered
//     IN MEMORY (NoWAL). A second crash before the next buffer flush lost the rows
//     for good: they were neither in storage nor in any WAL file.
//  B. Replay dropped client columns named measurement / m / database (they were
//     filtered as if they were routing keys, although routing uses the
//     underscore-prefixed keys).
//  C. Row-format WAL entries hold timestamps that are ALREADY microseconds, but
//     replay ran the magnitude-based unit detection over them again: a 1970-era
//     or pre-1970 timestamp is rescaled and lands in another partition.
//     (All three are fixed; with the fixed tree use c05_hook_fixed_test.go, with the
//     tree before 184254f use c05_hook_unfixed_test.go.)
//
// Run from /repo: cp <this> cmd/arc/ && go test ./cmd/arc -run TestC05Demo

import (
	"bytes"
	"context"
	"os"
	"path/filepath"
	"sort"
	"strings"
	"testing"
	"time"

	"github.com/apache/arrow-go/v18/arrow/memory"
	"github.com/apache/arrow-go/v18/parquet/file"
	"github.com/apache/arrow-go/v18/parquet/pqarrow"
	"github.com/basekick-labs/arc/internal/config"
	"github.com/basekick-labs/arc/internal/ingest"
	"github.com/basekick-labs/arc/internal/metrics"
	"github.com/basekick-labs/arc/internal/storage"
	"github.com/basekick-labs/arc/internal/wal"
	"github.com/rs/zerolog"
)

var c05Cfg = &config.IngestConfig{MaxBufferSize: 1000000, MaxBufferAgeMS: 600000, FlushWorkers: 1, FlushQueueSize: 8, ShardCount: 4, Compression: "snappy"}

func c05Files(dir, suffix string) []string {
	var out []string
	_ = filepath.Walk(dir, func(p string, info os.FileInfo, err error) error {
		if err == nil && !info.IsDir() && strings.HasSuffix(p, suffix) {
			rel, _ := filepath.Rel(dir, p)
			out = append(out, filepath.ToSlash(rel))
		}
		return nil
	})
	sort.Strings(out)
	return out
}

// c05FirstLife accepts one write into a WAL-backed buffer and "crashes".
func c05FirstLife(t *testing.T, walDir string, cols map[string][]interface{}) {
	t.Helper()
	w, err := wal.NewWriter(&wal.WriterConfig{WALDir: walDir, SyncMode: wal.SyncModeFsync, Logger: zerolog.Nop()})
	if err != nil {
		t.Fatal(err)
	}
	be, _ := storage.NewLocalBackend(t.TempDir(), zerolog.Nop())
	buf := ingest.NewArrowBuffer(c05Cfg, be, zerolog.Nop())
	buf.SetWAL(w)
	if err := buf.WriteColumnarDirect(context.Background(), "tenant", "cpu", cols); err != nil {
		t.Fatal(err)
	}
	time.Sleep(300 * time.Millisecond)
	w.Close()
}

func c05Recover(t *testing.T, walDir string, buf *ingest.ArrowBuffer) {
	t.Helper()
	rec := wal.NewRecovery(walDir, zerolog.Nop())
	opts := &wal.RecoveryOptions{ColumnarCallback: createColumnarRecoveryCallback(buf, zerolog.Nop())}
	c05SetDurabilityHook(opts, buf)
	if _, err := rec.RecoverWithOptions(context.Background(), createWALRecoveryCallback(buf, zerolog.Nop()), opts); err != nil {
		t.Fatal(err)
	}
}

func TestC05Demo_A_CrashRightAfterRecoveryLosesNothing(t *testing.T) {
	metrics.Init(zerolog.Nop())
	walDir := t.TempDir()
	c05FirstLife(t, walDir, map[string][]interface{}{"time": {int64(1700000000000000)}, "v": {float64(1)}})

	// second life: recovery runs, then the process dies before any buffer flush
	dir2 := t.TempDir()
	be2, _ := storage.NewLocalBackend(dir2, zerolog.Nop())
	buf2 := ingest.NewArrowBuffer(c05Cfg, be2, zerolog.Nop())
	c05Recover(t, walDir, buf2)
	// (buf2 is abandoned without Close/FlushAll: that is the crash)

	inStorage := c05Files(dir2, ".parquet")
	inWAL := c05Files(walDir, ".wal")
	if len(inStorage) == 0 && len(inWAL) == 0 {
		t.Errorf("after recovery and an immediate second crash the acknowledged row exists neither in storage (%v) nor in a WAL file (%v): it is lost", inStorage, inWAL)
	}
}

func c05Columns(t *testing.T, dir string) []string {
	t.Helper()
	seen := map[string]bool{}
	for _, f := range c05Files(dir, ".parquet") {
		data, _ := os.ReadFile(filepath.Join(dir, f))
		pf, err := file.NewParquetReader(bytes.NewReader(data))
		if err != nil {
			t.Fatal(err)
		}
		fr, _ := pqarrow.NewFileReader(pf, pqarrow.ArrowReadProperties{}, memory.DefaultAllocator)
		sc, _ := fr.Schema()
		for _, fld := range sc.Fields() {
			seen[fld.Name] = true
		}
		pf.Close()
	}
	var out []string
	for k := range seen {
		out = append(out, k)
	}
	sort.Strings(out)
	return out
}

func TestC05Demo_B_ReplayKeepsEveryColumn(t *testing.T) {
	metrics.Init(zerolog.Nop())
	walDir := t.TempDir()
	c05FirstLife(t, walDir, map[string][]interface{}{
		"time": {int64(1700000000000000)}, "v": {float64(1)},
		"measurement": {"x"}, "m": {"y"}, "database": {"z"},
	})
	dir2 := t.TempDir()
	be2, _ := storage.NewLocalBackend(dir2, zerolog.Nop())
	buf2 := ingest.NewArrowBuffer(c05Cfg, be2, zerolog.Nop())
	c05Recover(t, walDir, buf2)
	_ = buf2.Close()
	got := strings.Join(c05Columns(t, dir2), ",")
	for _, want := range []string{"measurement", "m", "database", "v", "time"} {
		if !strings.Contains(","+got+",", ","+want+",") {
			t.Errorf("column %q was accepted and acknowledged but is missing after WAL replay (replayed columns: %s)", want, got)
		}
	}
	for _, f := range c05Files(dir2, ".parquet") {
		if !strings.HasPrefix(f, "tenant/cpu/") {
			t.Errorf("replayed into %s", f)
		}
	}
}

func TestC05Demo_C_ReplayDoesNotRescaleMicrosecondTimestamps(t *testing.T) {
	metrics.Init(zerolog.Nop())
	walDir := t.TempDir()
	// 1970-01-01T00:00:01Z in microseconds — what the line-protocol parser hands over
	c05FirstLife(t, walDir, map[string][]interface{}{"time": {int64(1000000)}, "v": {float64(1)}})
	dir2 := t.TempDir()
	be2, _ := storage.NewLocalBackend(dir2, zerolog.Nop())
	buf2 := ingest.NewArrowBuffer(c05Cfg, be2, zerolog.Nop())
	c05Recover(t, walDir, buf2)
	_ = buf2.Close()
	for _, f := range c05Files(dir2, ".parquet") {
		if !strings.HasPrefix(f, "tenant/cpu/1970/01/01/00/") {
			t.Errorf("row with time=1970-01-01T00:00:01Z was replayed into %s (its microsecond timestamp was taken for seconds and rescaled)", f)
		}
	}
}
