package ingest

// Demonstrations for C07 (backpressure / shutdown never lose acknowledged writes).
//
//  A. WAL disabled, flush queue full: the batch taken out of the buffer was
//     dropped and the write still returned nil — acknowledged rows that exist
//     nowhere. (Now: with no WAL a full queue is backpressure; the writer waits.)
//  B. WAL enabled, flush queue full / tasks still queued at Close: the dropped
//     rows live only in the WAL, but nothing flagged it — HasFlushFailure()
//     stayed false, so the periodic maintenance purged the WAL instead of
//     replaying it and cmd/arc's shutdown hook ran PurgeAll. (Now: the flag is
//     set, and the hook keeps the WAL while it is set.)
//
// Run from /repo: cp <this> internal/ingest/ && go test ./internal/ingest -run TestC07Demo

import (
	"bytes"
	"context"
	"io"
	"sync"
	"testing"
	"time"

	"github.com/apache/arrow-go/v18/parquet/file"
	"github.com/basekick-labs/arc/internal/config"
	"github.com/basekick-labs/arc/internal/metrics"
	"github.com/rs/zerolog"
)

// c07Storage blocks every Write until released and counts the rows it stored.
type c07Storage struct {
	mockStorageBackend
	gate chan struct{}
	mu   sync.Mutex
	rows int64
}

func (s *c07Storage) Write(ctx context.Context, path string, data []byte) error {
	select {
	case <-s.gate:
	case <-ctx.Done():
		return ctx.Err()
	}
	pf, err := file.NewParquetReader(bytes.NewReader(data))
	if err != nil {
		return err
	}
	defer pf.Close()
	s.mu.Lock()
	s.rows += pf.NumRows()
	s.mu.Unlock()
	return nil
}
func (s *c07Storage) WriteReader(ctx context.Context, path string, r io.Reader, size int64) error {
	b, _ := io.ReadAll(r)
	return s.Write(ctx, path, b)
}

type c07WAL struct{ entries int }

func (w *c07WAL) Append(records []map[string]interface{}) error { w.entries++; return nil }
func (w *c07WAL) AppendRaw(p []byte) error                      { w.entries++; return nil }
func (w *c07WAL) AppendRawWithMeta(db string, p []byte) error   { w.entries++; return nil }
func (w *c07WAL) Stats() map[string]interface{}                 { return nil }
func (w *c07WAL) Close() error                                  { return nil }

func c07Buffer(st *c07Storage) *ArrowBuffer {
	metrics.Init(zerolog.Nop())
	return NewArrowBuffer(&config.IngestConfig{MaxBufferSize: 1, MaxBufferAgeMS: 600000, FlushWorkers: 1, FlushQueueSize: 1, ShardCount: 1, Compression: "snappy", FlushTimeoutSeconds: 20}, st, zerolog.Nop())
}

func c07Write(t *testing.T, b *ArrowBuffer, i int) error {
	return b.WriteColumnarDirect(context.Background(), "db", "cpu", map[string][]interface{}{"time": {int64(1700000000000000 + i)}, "v": {float64(i)}})
}

func TestC07Demo_A_NoWAL_QueueFull_AcknowledgedRowsAreStored(t *testing.T) {
	st := &c07Storage{gate: make(chan struct{})}
	b := c07Buffer(st)
	// storage is stuck; release it after the writers have piled up
	go func() { time.Sleep(1500 * time.Millisecond); close(st.gate) }()
	acked := 0
	for i := 0; i < 6; i++ {
		if err := c07Write(t, b, i); err == nil {
			acked++
		}
	}
	_ = b.Close()
	if st.rows != int64(acked) {
		t.Errorf("%d writes were acknowledged with the WAL disabled, but only %d rows were ever stored", acked, st.rows)
	}
}

func TestC07Demo_B_WAL_DroppedBatchIsFlaggedForReplay(t *testing.T) {
	st := &c07Storage{gate: make(chan struct{})}
	b := c07Buffer(st)
	w := &c07WAL{}
	b.SetWAL(w)
	for i := 0; i < 6; i++ {
		if err := c07Write(t, b, i); err != nil {
			t.Fatal(err)
		}
	}
	// one batch is with the (stuck) worker, one sits in the queue, the rest were dropped
	if !b.HasFlushFailure() {
		t.Errorf("batches were dropped on a full flush queue (their rows live only in the WAL now) but HasFlushFailure() is false: the maintenance loop purges the WAL instead of replaying it, and the shutdown hook purges it too")
	}
	close(st.gate)
	_ = b.Close()
}
