package main

// Demonstration for the OPEN C07 finding (C07.PURGE cmd/arc.main$7|PurgeOlderThan#2):
// when the periodic WAL maintenance sees HasFlushFailure(), it first purges every
// rotated WAL file older than safeAge (30 s by default) and only then replays the
// WAL. With the default 300 s maintenance interval the file that holds the rows
// whose flush failed is usually rotated and older than that by the time the tick
// fires, so the only copy of those acknowledged rows is deleted just before the
// replay that was supposed to restore them.
//
// The maintenance body is inline in main(); this test performs the same calls in
// the same order against the real WAL writer, buffer and recovery.
//
// Run from /repo: cp <this> cmd/arc/ && go test ./cmd/arc -run TestC07Demo

import (
	"context"
	"errors"
	"io"
	"os"
	"path/filepath"
	"testing"
	"time"

	"github.com/basekick-labs/arc/internal/config"
	"github.com/basekick-labs/arc/internal/ingest"
	"github.com/basekick-labs/arc/internal/metrics"
	"github.com/basekick-labs/arc/internal/storage"
	"github.com/basekick-labs/arc/internal/wal"
	"github.com/rs/zerolog"
)

type c07DownStorage struct{ storage.Backend }

func (c07DownStorage) Write(context.Context, string, []byte) error { return errors.New("storage down") }
func (c07DownStorage) WriteReader(context.Context, string, io.Reader, int64) error {
	return errors.New("storage down")
}

func TestC07Demo_MaintenancePurgesTheWALItIsAboutToReplay(t *testing.T) {
	metrics.Init(zerolog.Nop())
	walDir := t.TempDir()
	w, err := wal.NewWriter(&wal.WriterConfig{WALDir: walDir, SyncMode: wal.SyncModeFsync, MaxSizeBytes: 512, Logger: zerolog.Nop()})
	if err != nil {
		t.Fatal(err)
	}
	defer w.Close()
	buf := ingest.NewArrowBuffer(&config.IngestConfig{MaxBufferSize: 4, MaxBufferAgeMS: 600000, FlushWorkers: 1, FlushQueueSize: 8, ShardCount: 1, Compression: "snappy"}, c07DownStorage{}, zerolog.Nop())
	buf.SetWAL(w)
	acked := 0
	for i := 0; i < 40; i++ { // enough to rotate the 512-byte WAL several times
		if err := buf.WriteColumnarDirect(context.Background(), "db", "cpu", map[string][]interface{}{"time": {int64(1700000000000000 + i)}, "v": {float64(i)}}); err == nil {
			acked++
		}
	}
	deadline := time.Now().Add(5 * time.Second)
	for !buf.HasFlushFailure() && time.Now().Before(deadline) {
		time.Sleep(50 * time.Millisecond)
	}
	if !buf.HasFlushFailure() {
		t.Fatal("expected flush failures with storage down")
	}
	// the outage has lasted a few minutes when the 300 s maintenance tick fires
	old := time.Now().Add(-4 * time.Minute)
	files, _ := filepath.Glob(filepath.Join(walDir, "*.wal"))
	for _, f := range files {
		if f != w.CurrentFile() {
			os.Chtimes(f, old, old)
		}
	}

	// ---- the body of the maintenance tick in cmd/arc/main.go, failure branch ----
	safeAge := 30 * time.Second
	deleted, _ := w.PurgeOlderThan(safeAge)
	replayed := 0
	rec := wal.NewRecovery(walDir, zerolog.Nop())
	stats, err := rec.RecoverWithOptions(context.Background(),
		func(ctx context.Context, records []map[string]interface{}) error { replayed += len(records); return nil },
		&wal.RecoveryOptions{SkipActiveFile: w.CurrentFile(), MinFileAge: 5 * time.Second})
	if err != nil {
		t.Fatal(err)
	}
	_ = stats
	// -------------------------------------------------------------------------------
	if deleted > 0 {
		t.Errorf("%d writes were acknowledged and none was ever stored (storage is down); the maintenance tick deleted %d rotated WAL file(s) before replaying and then replayed %d rows: the rows in the deleted files exist nowhere", acked, deleted, replayed)
	}
}
