package storage

import (
	"bytes"
	"context"
	"os"
	"path/filepath"
	"testing"

	"github.com/rs/zerolog"
)

func TestC08Demo_RootKeyDoesNotStageOutsideTheRoot(t *testing.T) {
	parent := t.TempDir()
	root := filepath.Join(parent, "data")
	b, err := NewLocalBackend(root, zerolog.Nop())
	if err != nil {
		t.Fatal(err)
	}
	for _, key := range []string{"", ".", "/"} {
		_ = b.WriteReader(context.Background(), key, bytes.NewReader([]byte("payload")), 7)
		_ = b.AppendReader(context.Background(), key, bytes.NewReader([]byte("payload")), 7)
		_ = b.Write(context.Background(), key, []byte("payload"))
	}
	entries, _ := os.ReadDir(parent)
	for _, e := range entries {
		if e.Name() != "data" {
			t.Errorf("a write with a key naming the root left %q next to the storage root (outside it)", e.Name())
		}
	}
}
