package api

// Demonstration for property C10 (copy into /repo/internal/api):
//
//	go test -vet=off -count=1 -run TestC10Demo ./internal/api/
//
// "rows where the predicate is false or NULL stay untouched": a delete with
// predicate `value > 5` over a file whose `value` column is NULL in some rows.

import (
	"bytes"
	"encoding/json"
	"fmt"
	"io"
	"net/http/httptest"
	"os"
	"path/filepath"
	"testing"

	"github.com/basekick-labs/arc/internal/config"
	"github.com/basekick-labs/arc/internal/database"
	"github.com/basekick-labs/arc/internal/storage"
	"github.com/gofiber/fiber/v2"
	"github.com/rs/zerolog"
)

func TestC10Demo_RowsWithNullPredicateSurviveDelete(t *testing.T) {
	root := t.TempDir()
	logger := zerolog.New(io.Discard).Level(zerolog.Disabled)
	backend, err := storage.NewLocalBackend(root, logger)
	if err != nil {
		t.Fatal(err)
	}
	db, err := database.New(&database.Config{MemoryLimit: "256MB", ThreadCount: 2, MaxConnections: 2, LocalStorageRoot: root}, logger)
	if err != nil {
		t.Fatal(err)
	}
	defer db.Close()
	h := NewDeleteHandler(db, backend, &config.DeleteConfig{Enabled: true, ConfirmationThreshold: 1000000, MaxRowsPerDelete: 1000000}, nil, root, logger)
	app := fiber.New()
	h.RegisterRoutes(app)

	write := func(rel, sel string) {
		full := filepath.Join(root, rel)
		if err := os.MkdirAll(filepath.Dir(full), 0o755); err != nil {
			t.Fatal(err)
		}
		if _, err := db.DB().Exec(fmt.Sprintf("COPY (%s) TO '%s' (FORMAT PARQUET)", sel, full)); err != nil {
			t.Fatal(err)
		}
	}
	count := func(filter string) int {
		var n int
		q := fmt.Sprintf("SELECT COUNT(*) FROM read_parquet('%s/db/cpu/**/*.parquet', union_by_name=true) WHERE %s", root, filter)
		if err := db.DB().QueryRow(q).Scan(&n); err != nil {
			return -1 // no files left
		}
		return n
	}
	// file 1: value 1..10 plus three NULL-valued rows; file 2: only values > 5 and two NULL rows
	write("db/cpu/2026/01/01/00/f1.parquet", "SELECT TIMESTAMP '2026-01-01 00:00:00' + INTERVAL (i) SECOND AS time, 'a' AS host, CASE WHEN i > 10 THEN NULL ELSE i END AS value FROM range(1, 14) t(i)")
	write("db/cpu/2026/01/01/01/f2.parquet", "SELECT TIMESTAMP '2026-01-01 01:00:00' + INTERVAL (i) SECOND AS time, 'b' AS host, CASE WHEN i > 8 THEN NULL ELSE i END AS value FROM range(6, 11) t(i)")

	nullBefore, falseBefore, trueBefore := count("value IS NULL"), count("value <= 5"), count("value > 5")
	if nullBefore != 5 || falseBefore != 5 || trueBefore != 8 {
		t.Fatalf("setup: null=%d false=%d true=%d", nullBefore, falseBefore, trueBefore)
	}
	body, _ := json.Marshal(DeleteRequest{Database: "db", Measurement: "cpu", Where: "value > 5", Confirm: true})
	r := httptest.NewRequest("POST", "/api/v1/delete/", bytes.NewReader(body))
	r.Header.Set("Content-Type", "application/json")
	resp, err := app.Test(r, -1)
	if err != nil {
		t.Fatal(err)
	}
	raw, _ := io.ReadAll(resp.Body)
	if resp.StatusCode != 200 {
		t.Fatalf("delete status %d: %s", resp.StatusCode, raw)
	}
	var out DeleteResponse
	_ = json.Unmarshal(raw, &out)

	nullAfter, falseAfter, trueAfter := count("value IS NULL"), count("value <= 5"), count("value > 5")
	if trueAfter > 0 {
		t.Errorf("rows matching the predicate survived: %d", trueAfter)
	}
	if nullAfter != nullBefore || falseAfter != falseBefore {
		t.Fatalf("C10 violated: predicate `value > 5` — rows where it is NULL: %d before, %d after; rows where it is false: %d before, %d after; reported deleted_count=%d (8 rows match)", nullBefore, nullAfter, falseBefore, falseAfter, out.DeletedCount)
	}
	if out.DeletedCount != int64(trueBefore) {
		t.Fatalf("reported deleted_count=%d, but %d rows matched the predicate", out.DeletedCount, trueBefore)
	}
}
