package backup

// Demonstration for property C13 (copy into /repo/internal/backup):
//
//	go test -vet=off -count=1 -run TestC13Demo ./internal/backup/
//
// Fault: during restore, writing ONE of the backed-up data files into data
// storage fails. The property says the restore must then not report success.

import (
	"context"
	"errors"
	"io"
	"strings"
	"testing"

	"github.com/basekick-labs/arc/internal/storage"
	"github.com/rs/zerolog"
)

type c13FailingWrites struct {
	storage.Backend
	failSubstr string
	failed     int
}

func (b *c13FailingWrites) WriteReader(ctx context.Context, path string, r io.Reader, size int64) error {
	if strings.Contains(path, b.failSubstr) {
		b.failed++
		return errors.New("injected: disk full")
	}
	return b.Backend.WriteReader(ctx, path, r, size)
}

func TestC13Demo_RestoreReportsSuccessWithFilesMissing(t *testing.T) {
	ctx := context.Background()
	src, err := storage.NewLocalBackend(t.TempDir(), zerolog.Nop())
	if err != nil {
		t.Fatal(err)
	}
	files := map[string]string{
		"db/cpu/2026/01/01/00/a.parquet": "AAAA",
		"db/cpu/2026/01/01/01/b.parquet": "BBBB",
		"db/mem/2026/01/01/00/c.parquet": "CCCC",
	}
	for p, body := range files {
		if err := src.Write(ctx, p, []byte(body)); err != nil {
			t.Fatal(err)
		}
	}
	backupDir := t.TempDir()
	m1, err := NewManager(&ManagerConfig{DataStorage: src, BackupPath: backupDir, Logger: zerolog.Nop()})
	if err != nil {
		t.Fatal(err)
	}
	res, err := m1.CreateBackup(ctx, BackupOptions{})
	if err != nil {
		t.Fatalf("backup: %v", err)
	}

	// restore into empty storage whose writes fail for one file
	dstInner, err := storage.NewLocalBackend(t.TempDir(), zerolog.Nop())
	if err != nil {
		t.Fatal(err)
	}
	dst := &c13FailingWrites{Backend: dstInner, failSubstr: "b.parquet"}
	m2, err := NewManager(&ManagerConfig{DataStorage: dst, BackupPath: backupDir, Logger: zerolog.Nop()})
	if err != nil {
		t.Fatal(err)
	}
	_, rerr := m2.RestoreBackup(ctx, RestoreOptions{BackupID: res.Manifest.BackupID, RestoreData: true})
	if dst.failed == 0 {
		t.Fatal("setup: the injected write failure never triggered")
	}
	missing := 0
	for p := range files {
		if ok, _ := dstInner.Exists(ctx, p); !ok {
			missing++
		}
	}
	if rerr == nil && missing > 0 {
		t.Fatalf("C13 violated: RestoreBackup reported success although %d of %d backed-up files could not be restored", missing, len(files))
	}
}
