package api

// Demonstration for C14: statements that read a file named by a string
// or quoted identifier WITHOUT a FROM/JOIN keyword in front of it.
// Uses the environment of the seeded C14-A demo (copied below under new names).

import (
	"context"
	"encoding/json"
	"fmt"
	"io"
	"net/http/httptest"
	"net/url"
	"os"
	"path/filepath"
	"strings"
	"testing"

	"github.com/basekick-labs/arc/internal/database"
	"github.com/basekick-labs/arc/internal/metrics"
	"github.com/basekick-labs/arc/internal/storage"
	"github.com/gofiber/fiber/v2"
	"github.com/rs/zerolog"
)

const c14Canary = "CANARY-C14-5b1e"

func c14Env(t *testing.T) (*fiber.App, string) {
	t.Helper()
	metrics.Init(zerolog.Nop())
	tmp := t.TempDir()
	root := filepath.Join(tmp, "data")
	os.MkdirAll(root, 0o700)
	db, err := database.New(&database.Config{MaxConnections: 4, MemoryLimit: "256MB", LocalStorageRoot: root, TempDirectory: tmp}, zerolog.Nop())
	if err != nil {
		t.Fatalf("database.New: %v", err)
	}
	t.Cleanup(func() { db.Close() })
	plant := func(dbName, host string) {
		dir := filepath.Join(root, dbName, "cpu", "2026", "01", "01", "00")
		os.MkdirAll(dir, 0o700)
		q := fmt.Sprintf("COPY (SELECT '%s' AS host, 1 AS v) TO '%s' (FORMAT PARQUET)", host, filepath.Join(dir, "f.parquet"))
		if _, err := db.DB().ExecContext(context.Background(), q); err != nil {
			t.Fatalf("plant: %v", err)
		}
	}
	plant("tenant", "ok")
	plant("secretdb", c14Canary)
	backend, _ := storage.NewLocalBackend(root, zerolog.Nop())
	h := NewQueryHandler(db, backend, zerolog.Nop(), 0, 0)
	h.SetAuthAndRBAC(nil, &mockRBACChecker{enabled: true, allowedDBs: map[string]bool{"tenant": true}, deniedReason: "no read permission"})
	app := fiber.New(fiber.Config{DisableStartupMessage: true})
	app.Use(tokenMiddleware(7, "tenant-only"))
	h.RegisterRoutes(app)
	return app, backend.GetBasePath()
}

func c14Post(t *testing.T, app *fiber.App, path, sql string) (int, string) {
	payload, _ := json.Marshal(map[string]string{"sql": sql})
	req := httptest.NewRequest("POST", path, strings.NewReader(string(payload)))
	req.Header.Set("Content-Type", "application/json")
	resp, err := app.Test(req, -1)
	if err != nil {
		t.Fatalf("app.Test: %v", err)
	}
	body, _ := io.ReadAll(resp.Body)
	return resp.StatusCode, string(body)
}

func TestC14Demo_FileReadsWithoutFromKeyword(t *testing.T) {
	app, root := c14Env(t)
	glob := root + "/secretdb/cpu/**/*.parquet"
	q := func(s string) string { return strings.ReplaceAll(s, "@", glob) }
	// the caller may read database "tenant" only; every statement below names
	// secretdb's files without a FROM/JOIN keyword in front of the path, or
	// through a function the I/O denylist did not know
	for _, sql := range []string{
		q("TABLE '@'"),
		q("TABLE \"@\""),
		q("SELECT * FROM (TABLE '@')"),
		q("SELECT * FROM tenant.cpu t, (TABLE '@') s"),
		q("SELECT * FROM tenant.cpu UNION ALL BY NAME TABLE '@'"),
		q("WITH x AS (SELECT 1) TABLE '@'"),
		q("SUMMARIZE '@'"),
		q("SUMMARIZE \"@\""),
		q("SUMMARIZE TABLE '@'"),
		q("DESCRIBE '@'"),
		q("DESCRIBE TABLE '@'"),
		q("SHOW '@'"),
		q("PIVOT '@' ON host USING sum(v)"),
		q("UNPIVOT '@' ON v INTO NAME n VALUE x"),
		q("SELECT * FROM query_table('@')"),
		q("SELECT * FROM query('TABLE ''@''')"),
		q("SELECT * FROM query('SELECT * FROM read_parquet(''@'')')"),
		q("SELECT * FROM parquet_full_metadata('@')"),
	} {
		code, body := c14Post(t, app, "/api/v1/query", sql)
		if code == 200 && strings.Contains(body, "\"success\":true") {
			t.Errorf("executed against another database's files (status 200, canary in body: %v): %s", strings.Contains(body, c14Canary), strings.ReplaceAll(sql, glob, "<secretdb files>"))
		}
	}
	// legitimate statements still work
	for _, sql := range []string{"SELECT * FROM tenant.cpu", "SELECT host FROM tenant.cpu ORDER BY v DESC LIMIT 1", "SELECT * FROM \"tenant\".cpu"} {
		if code, body := c14Post(t, app, "/api/v1/query", sql); code != 200 {
			t.Errorf("legitimate query refused: %s -> %d %s", sql, code, body)
		}
	}
}

// The measurement endpoint checked RBAC only for its path parameters; a `where`
// fragment with a subquery over another database was rewritten and executed.
func TestC14Demo_MeasurementEndpointWhereSubquery(t *testing.T) {
	app, _ := c14Env(t)
	// a plain filter on the permitted measurement still works
	if resp, err := app.Test(httptest.NewRequest("GET", "/api/v1/query/cpu?database=tenant&order_by=v&where="+url.QueryEscape("v = 1"), nil), -1); err != nil || resp.StatusCode != 200 {
		t.Errorf("legitimate measurement query refused: %v %v", resp, err)
	}
	for _, where := range []string{
		"v >= (SELECT min(v) FROM secretdb.cpu)",
		"host IN (SELECT host FROM secretdb.cpu) OR v = 1",
		"v = 1 AND EXISTS (SELECT 1 FROM secretdb.cpu s WHERE s.host LIKE 'CANARY%')",
	} {
		u := "/api/v1/query/cpu?database=tenant&order_by=v&where=" + url.QueryEscape(where)
		resp, err := app.Test(httptest.NewRequest("GET", u, nil), -1)
		if err != nil {
			t.Fatal(err)
		}
		body, _ := io.ReadAll(resp.Body)
		t.Logf("%s -> %d %.200s", where, resp.StatusCode, body)
		if resp.StatusCode == 200 && strings.Contains(string(body), "\"success\":true") {
			t.Errorf("where=%q was executed: the statement read secretdb.cpu, for which the caller has no read permission", where)
		}
	}
}

// A string literal whose body has identifier-placeholder shape, next to a quoted
// identifier whose text contains a single quote: UnmaskStringLiterals restored
// the masks one after the other, so the identifier's original was spliced into
// the already restored literal and its tail became live SQL — a read_parquet on
// another database's files that neither the deny-list (it saw a quoted literal)
// nor the permission check ever inspected. (Found by a seeding agent on the
// unmodified tree.)
func TestC14Demo_PlaceholderShapedLiteralDoesNotReexpand(t *testing.T) {
	app, root := c14Env(t)
	glob := root + "/secretdb/cpu/**/*.parquet"
	sql := `SELECT '__IDENT_1__' AS a, host AS "' || (SELECT host FROM read_parquet($$` + glob + `$$)) || '" FROM tenant.cpu`
	code, body := c14Post(t, app, "/api/v1/query", sql)
	if strings.Contains(body, c14Canary) {
		t.Errorf("tenant-only caller received secretdb's canary (status %d)", code)
	}
	if code == 200 && !strings.Contains(body, `"__IDENT_1__"`) {
		t.Errorf("the literal '__IDENT_1__' did not come back as itself: %s", body)
	}
}

// A legal quoted identifier that contains a single quote (`AS "a'b"`) made
// ioDenylistNormalise — which deletes every double quote before masking —
// mis-pair the quotes that follow, so the string literal in table position
// (a DuckDB replacement scan of another database's files) stood outside any
// placeholder and the table-position check did not see it. (Pointed out by a
// seeding agent reading the unmodified tree; the code's own comment called
// the case "not exploitable".)
func TestC14Demo_QuoteInsideIdentifierDoesNotHideAReplacementScan(t *testing.T) {
	app, root := c14Env(t)
	glob := root + "/secretdb/cpu/**/*.parquet"
	for _, sql := range []string{
		`SELECT s.host AS "a'b" FROM tenant.cpu, '` + glob + `' s`,
		`SELECT s.host AS "a'b", 'x' AS y FROM tenant.cpu, '` + glob + `' s`,
		`SELECT "it's" FROM (SELECT host AS "it's" FROM '` + glob + `') t`,
		// the same shift hides a denied I/O function call inside what the deny-list takes for a literal
		`SELECT s.host AS "a'b" FROM tenant.cpu, read_parquet('` + glob + `') s`,
		`SELECT s.host AS "a'b" FROM tenant.cpu, "parquet_scan"('` + glob + `') s`,
	} {
		code, body := c14Post(t, app, "/api/v1/query", sql)
		if code == 200 || strings.Contains(body, c14Canary) {
			t.Errorf("tenant-only caller executed a replacement scan of secretdb's files (status %d, canary %v): %s", code, strings.Contains(body, c14Canary), strings.ReplaceAll(sql, glob, "<secretdb files>"))
		}
	}
	if code, body := c14Post(t, app, "/api/v1/query", `SELECT host AS "a'b" FROM tenant.cpu`); code != 200 {
		t.Errorf("legitimate query with a quote inside an alias refused: %d %s", code, body)
	}
}

// The measurement endpoint assembles `SELECT * FROM <db>.<m> WHERE <where>` and
// transforms it WITHOUT a header database, but its permission check resolved
// unqualified names of the where fragment in the x-arc-database header's
// database. With the header set to a database the caller may read, a subquery
// over an unqualified table was checked there and executed against `default`.
// (Pointed out by a seeding agent reading the unmodified tree.)
func TestC14Demo_MeasurementEndpointHeaderDoesNotMoveTheCheck(t *testing.T) {
	app, root := c14Env(t)
	// a table in `default` the caller (tenant only) must not read
	dir := filepath.Join(root, "default", "cpu", "2026", "01", "01", "00")
	os.MkdirAll(dir, 0o700)
	src := filepath.Join(root, "secretdb", "cpu", "2026", "01", "01", "00", "f.parquet")
	data, err := os.ReadFile(src)
	if err != nil {
		t.Fatal(err)
	}
	if err := os.WriteFile(filepath.Join(dir, "f.parquet"), data, 0o600); err != nil {
		t.Fatal(err)
	}
	req := httptest.NewRequest("GET", "/api/v1/query/cpu?database=tenant&order_by=v&where="+url.QueryEscape("host NOT IN (SELECT host FROM cpu)"), nil)
	req.Header.Set("x-arc-database", "tenant")
	resp, err := app.Test(req, -1)
	if err != nil {
		t.Fatal(err)
	}
	body, _ := io.ReadAll(resp.Body)
	// `cpu` in the subquery is default.cpu for the transform; the caller has no
	// grant on it, so the request must be refused. Before the repair it was
	// checked as tenant.cpu, executed against default.cpu, and answered 200
	// with tenant's row (proving default.cpu was read: tenant's host "ok" is
	// not among default's hosts).
	if resp.StatusCode == 200 {
		t.Errorf("where-subquery over default.cpu executed for a tenant-only caller: %s", body)
	}
}
