package api

// Demonstrations for C15 (and C14): Arc's literal masking must delimit exactly
// the string literals DuckDB sees.
//
//  A. A backslash before a quote: DuckDB gives a backslash no meaning inside a
//     standard '…' literal, so 'a\' is a complete string. Arc's masker treated \'
//     as an escaped quote and ran on to a later quote, hiding the SQL in between
//     — which DuckDB executes — inside a placeholder that no check inspects. A
//     caller allowed one database read another database's Parquet file.
//  B. The same through an E'…' literal ending in an escaped backslash.
//  C. Text that looks like a mask placeholder (__STR_0__) in the query made
//     unmasking restore the literals at the wrong places: the executed statement
//     was not the one sent (columns came back swapped).
//
// Needs the environment of findings/C14/c14_demo_test.go (c14Env, c14Post) in the same package.
// Run from /repo: cp both into internal/api/ && go test -tags duckdb_arrow ./internal/api -run TestC15Demo

import (
	"strings"
	"testing"
)

func TestC15Demo_BackslashBeforeQuoteDoesNotHideSQL(t *testing.T) {
	app, root := c14Env(t)
	file := root + "/secretdb/cpu/2026/01/01/00/f.parquet"
	for _, sql := range []string{
		`SELECT host FROM tenant.cpu WHERE host = 'a\' UNION ALL SELECT host FROM '` + file + `' --'`,
		`SELECT host FROM tenant.cpu WHERE host = E'a\\' UNION ALL SELECT host FROM '` + file + `' --'`,
	} {
		code, body := c14Post(t, app, "/api/v1/query", sql)
		if strings.Contains(body, c14Canary) {
			t.Errorf("caller permitted database tenant only read secretdb's file (status %d): %s", code, strings.ReplaceAll(sql, file, "<secretdb file>"))
		}
	}
	// a literal that ends in a backslash is still a valid, working literal
	if code, body := c14Post(t, app, "/api/v1/query", `SELECT 'a\' AS x FROM tenant.cpu`); code != 200 || !strings.Contains(body, `a\\`) {
		t.Errorf("literal ending in a backslash: %d %s", code, body)
	}
}

func TestC15Demo_PlaceholderShapedTextSurvivesMasking(t *testing.T) {
	app, _ := c14Env(t)
	code, body := c14Post(t, app, "/api/v1/query", `SELECT __STR_0__, 'x' AS lit FROM (SELECT 1 AS __STR_0__)`)
	if code != 200 || !strings.Contains(body, `"columns":["__STR_0__","lit"]`) {
		t.Errorf("statement was not executed as sent (want columns [__STR_0__ lit]): %d %s", code, body)
	}
}

// D. stripSQLComments dropped the single character that follows a block comment
//    closing one byte before the end of the statement.
func TestC15Demo_CommentStrippingKeepsTheByteAfterAComment(t *testing.T) {
	for in, want := range map[string]string{
		"SELECT (1 /* c */)": "SELECT (1  )",
		"SELECT 1 /* c */;":  "SELECT 1  ;",
		"SELECT 1 /* c */ ;": "SELECT 1   ;",
		"SELECT 1 /* open":   "SELECT 1  ",
	} {
		if got := stripSQLComments(in, true); got != want {
			t.Errorf("stripSQLComments(%q) = %q, want %q", in, got, want)
		}
	}
}
