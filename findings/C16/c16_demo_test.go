package api

// Demonstrations for C16: the SQL Arc executes (table references rewritten to
// read_parquet) must give the rows DuckDB gives for the same text with each
// measurement as a view over its files — or both must fail.
//
// Run from /repo: cp <this> internal/api/ && go test -tags=duckdb_arrow ./internal/api -run TestC16Demo

import (
	"context"
	"database/sql"
	"fmt"
	"os"
	"path/filepath"
	"reflect"
	"strings"
	"testing"

	_ "github.com/duckdb/duckdb-go/v2"
	"github.com/rs/zerolog"

	"github.com/basekick-labs/arc/internal/database"
	"github.com/basekick-labs/arc/internal/pruning"
	"github.com/basekick-labs/arc/internal/storage"
)

func c16Rows(db *sql.DB, q string) ([]string, error) {
	rows, err := db.Query(q)
	if err != nil {
		return nil, err
	}
	defer rows.Close()
	out := []string{}
	for rows.Next() {
		var s sql.NullString
		if err := rows.Scan(&s); err != nil {
			return nil, err
		}
		out = append(out, s.String)
	}
	return out, rows.Err()
}

func c16Env(t *testing.T) (*QueryHandler, *sql.DB, *sql.DB) {
	base := t.TempDir()
	backend, _ := storage.NewLocalBackend(base, zerolog.Nop())
	base = backend.GetBasePath()
	db, err := sql.Open("duckdb", "")
	if err != nil {
		t.Fatal(err)
	}
	t.Cleanup(func() { db.Close() })
	for _, m := range []string{"cpu", "mem"} {
		dir := filepath.Join(base, "prod", m, "2024", "03", "15", "05")
		os.MkdirAll(dir, 0o755)
		q := fmt.Sprintf("COPY (SELECT * FROM (VALUES ('a', 'a', 1), ('b', NULL, 2), ('c', 'x', 3)) t(host, region, v)) TO '%s/%s_1.parquet' (FORMAT PARQUET)", dir, m)
		if _, err := db.Exec(q); err != nil {
			t.Fatal(err)
		}
		if _, err := db.Exec(fmt.Sprintf("CREATE VIEW %s AS SELECT * FROM read_parquet('%s/prod/%s/**/*.parquet', union_by_name=true)", m, base, m)); err != nil {
			t.Fatal(err)
		}
	}
	db.Exec("CREATE SCHEMA prod")
	for _, m := range []string{"cpu", "mem"} {
		if _, err := db.Exec(fmt.Sprintf("CREATE VIEW prod.%s AS SELECT * FROM read_parquet('%s/prod/%s/**/*.parquet', union_by_name=true)", m, base, m)); err != nil {
			t.Fatal(err)
		}
	}
	// Arc's rewritten SQL runs in its own instance, which has no views
	arc, err := sql.Open("duckdb", "")
	if err != nil {
		t.Fatal(err)
	}
	t.Cleanup(func() { arc.Close() })
	h := &QueryHandler{storage: backend, pruner: pruning.NewPartitionPruner(zerolog.Nop()), logger: zerolog.Nop()}
	return h, db, arc
}

func TestC16Demo_HeaderDatabasePath(t *testing.T) {
	h, db, arc := c16Env(t)
	for _, q := range []string{
		"SELECT host AS r FROM cpu ORDER BY r",
		// a subquery whose FROM is followed by a newline / tab: the single-table fast path counts "from " only
		"SELECT host AS r FROM cpu WHERE host IN (SELECT host FROM\nmem) ORDER BY r",
		"SELECT host AS r FROM cpu WHERE host IN (SELECT host FROM\tmem WHERE v > 1) ORDER BY r",
		// a join written over several lines
		"SELECT c.host AS r FROM cpu c\nJOIN mem m ON c.host = m.host ORDER BY r",
		"SELECT c.host AS r FROM cpu c JOIN\nmem m ON c.host = m.host ORDER BY r",
		// IS DISTINCT FROM is not a table position
		"SELECT host AS r FROM cpu WHERE host IS DISTINCT FROM region ORDER BY r",
		"SELECT host AS r FROM cpu WHERE region IS NOT DISTINCT FROM host ORDER BY r",
		"SELECT host AS r FROM cpu WHERE region IS DISTINCT FROM 'x' ORDER BY r",
	} {
		want, werr := c16Rows(db, q)
		conv := h.convertSQLToStoragePathsWithHeaderDB(context.Background(), q, "prod")
		got, gerr := c16Rows(arc, conv)
		if (werr != nil) != (gerr != nil) || !reflect.DeepEqual(got, want) {
			t.Errorf("answers differ\n  sql:    %q\n  duckdb: %v %v\n  arc:    %v %v\n  arc sql: %s", q, want, werr, got, gerr, conv)
		}
	}
}

func TestC16Demo_Probes(t *testing.T) {
	h, db, arc := c16Env(t)
	type tc struct{ q string; header bool }
	var cases []tc
	for _, q := range []string{
		"SELECT host AS r FROM cpu ORDER BY r",
		"select host as r from cpu order by r",
		"SELECT host AS r FROM   cpu   ORDER BY r",
		"SELECT host AS r\nFROM\n\tcpu\nORDER BY r",
		"SELECT c.host AS r FROM cpu c LEFT JOIN mem m ON c.host = m.region ORDER BY r",
		"SELECT c.host AS r FROM cpu c LEFT OUTER JOIN mem m ON c.host = m.region ORDER BY r",
		"SELECT m.host AS r FROM cpu c RIGHT JOIN mem m ON c.host = m.region ORDER BY r",
		"SELECT coalesce(c.host, m.host) AS r FROM cpu c FULL OUTER JOIN mem m ON c.host = m.region ORDER BY r",
		"SELECT c.host AS r FROM cpu c CROSS JOIN mem m ORDER BY r",
		"SELECT c.host AS r FROM cpu c SEMI JOIN mem m ON c.host = m.region ORDER BY r",
		"SELECT c.host AS r FROM cpu c ANTI JOIN mem m ON c.host = m.region ORDER BY r",
		"SELECT c.host AS r FROM cpu c NATURAL JOIN mem m ORDER BY r",
		"SELECT c.host AS r FROM cpu c INNER JOIN mem m USING (host) ORDER BY r",
		"WITH x AS (SELECT host FROM cpu WHERE v > 1) SELECT host AS r FROM x ORDER BY r",
		"WITH x AS (SELECT host FROM cpu), y AS (SELECT host FROM mem WHERE v < 3) SELECT x.host AS r FROM x JOIN y ON x.host = y.host ORDER BY r",
		"WITH x(h) AS (SELECT host FROM cpu) SELECT h AS r FROM x ORDER BY r",
		"SELECT host AS r FROM cpu WHERE v > (SELECT min(v) FROM mem) ORDER BY r",
		"SELECT host AS r FROM (SELECT host FROM cpu WHERE v >= 2) t ORDER BY r",
		"SELECT CAST(EXTRACT(year FROM TIMESTAMP '2024-01-01') AS VARCHAR) || host AS r FROM cpu ORDER BY r",
		"SELECT SUBSTRING(host FROM 1 FOR 1) AS r FROM cpu ORDER BY r",
		"SELECT TRIM(BOTH 'a' FROM host) AS r FROM cpu ORDER BY r",
		"SELECT host AS r FROM \"cpu\" ORDER BY r",
		"SELECT \"host\" AS r FROM cpu ORDER BY r",
		"SELECT host AS r FROM cpu -- FROM mem\nORDER BY r",
		"SELECT host AS r /* FROM mem */ FROM cpu ORDER BY r",
		"SELECT host AS r FROM cpu WHERE region = 'FROM mem' OR region = 'x' ORDER BY r",
		"SELECT host AS r FROM cpu UNION ALL SELECT host FROM mem ORDER BY r",
		"SELECT host AS r FROM cpu AS c WHERE c.v > 1 ORDER BY r",
		"SELECT host AS r FROM cpu c JOIN LATERAL (SELECT v FROM mem m WHERE m.host = c.host) s ON true ORDER BY r",
		"SELECT host AS r FROM cpu WHERE host IN (SELECT host FROM mem) ORDER BY r",
		"SELECT DISTINCT host AS r FROM cpu ORDER BY r",
		"SELECT host AS r FROM cpu ORDER BY r LIMIT 2",
		"SELECT host AS r FROM cpu;",
		"SELECT host AS r FROM cpu WHERE v IN (SELECT v FROM mem WHERE v > 1 UNION SELECT 1) ORDER BY r",
		"SELECT host AS r FROM cpu TABLESAMPLE 100% ORDER BY r",
		"SELECT host AS r FROM cpu PIVOT_X ORDER BY r",
	} {
		cases = append(cases, tc{q, true})
	}
	for _, c := range cases {
		want, werr := c16Rows(db, c.q)
		conv := h.convertSQLToStoragePathsWithHeaderDB(context.Background(), c.q, "prod")
		got, gerr := c16Rows(arc, conv)
		if (werr != nil) != (gerr != nil) || !reflect.DeepEqual(got, want) {
			t.Errorf("HEADER answers differ\n  sql:    %q\n  duckdb: %v %v\n  arc:    %v %v\n  arc sql: %s", c.q, want, werr, got, gerr, conv)
		}
		// the same statement with dotted names, no header
		q2 := strings.NewReplacer("FROM cpu", "FROM prod.cpu", "from cpu", "from prod.cpu", "JOIN mem", "JOIN prod.mem", "FROM mem", "FROM prod.mem").Replace(c.q)
		if q2 == c.q {
			continue
		}
		want, werr = c16Rows(db, q2)
		conv = h.convertSQLToStoragePaths(context.Background(), q2)
		got, gerr = c16Rows(arc, conv)
		if (werr != nil) != (gerr != nil) || !reflect.DeepEqual(got, want) {
			t.Errorf("DOTTED answers differ\n  sql:    %q\n  duckdb: %v %v\n  arc:    %v %v\n  arc sql: %s", q2, want, werr, got, gerr, conv)
		}
	}
}

// OPEN findings (these FAIL on the current tree; existing tests pin the rewritten
// text `FROM read_parquet(...)` so neither is repaired here):
//   - no pattern covers the table position after a comma in a FROM list;
//   - the replacement drops the table's own name, so columns qualified by it
//     no longer resolve.
func TestC16Demo_OpenFindings(t *testing.T) {
	h, db, arc := c16Env(t)
	for _, q := range []string{
		"SELECT c.host AS r FROM cpu c, mem m WHERE c.host = m.region ORDER BY r",
		"SELECT host AS r FROM cpu WHERE EXISTS (SELECT 1 FROM mem WHERE mem.host = cpu.host AND mem.v > 2) ORDER BY r",
	} {
		want, werr := c16Rows(db, q)
		conv := h.convertSQLToStoragePathsWithHeaderDB(context.Background(), q, "prod")
		got, gerr := c16Rows(arc, conv)
		if (werr != nil) != (gerr != nil) || !reflect.DeepEqual(got, want) {
			t.Errorf("answers differ\n  sql:    %q\n  duckdb: %v %v\n  arc:    %v %v", q, want, werr, got, gerr)
		}
	}
}

// A string literal or a comment that merely names read_parquet made
// getTransformedSQL return the statement untransformed.
func TestC16Demo_ReadParquetNamedInLiteralOrComment(t *testing.T) {
	h, db, arc := c16Env(t)
	h.queryCache = database.NewQueryCache(database.QueryCacheTTL, 10)
	for _, q := range []string{
		"SELECT host AS r FROM cpu WHERE region = 'read_parquet' OR v > 1 ORDER BY r",
		"SELECT host AS r FROM cpu -- not read_parquet\nORDER BY r",
	} {
		if err := ValidateSQLRequest(q); err != nil {
			t.Fatalf("rejected by validation: %v", err)
		}
		want, werr := c16Rows(db, q)
		conv, _ := h.getTransformedSQL(context.Background(), q, "prod")
		got, gerr := c16Rows(arc, conv)
		if (werr != nil) != (gerr != nil) || !reflect.DeepEqual(got, want) {
			t.Errorf("answers differ\n  sql:    %q\n  duckdb: %v %v\n  arc:    %v %v", q, want, werr, got, gerr)
		}
	}
}

// WITH followed by a line break: the header-database converter looked for
// "with " (with a space) before extracting CTE names, so the CTE was taken for
// a measurement and rewritten to a storage path. (Pointed out by a seeding
// agent reading the unmodified tree; the permission extractor always excludes
// CTE names, so the rewritten reference was also never permission-checked.)
func TestC16Demo_WithFollowedByLineBreak(t *testing.T) {
	h, db, arc := c16Env(t)
	for _, q := range []string{
		"WITH\nx AS (SELECT host FROM cpu WHERE v > 1) SELECT host AS r FROM x ORDER BY r",
		"WITH\tx AS (SELECT host FROM cpu) SELECT x.host AS r FROM x JOIN mem m ON x.host = m.host ORDER BY r",
	} {
		want, werr := c16Rows(db, q)
		conv := h.convertSQLToStoragePathsWithHeaderDB(context.Background(), q, "prod")
		got, gerr := c16Rows(arc, conv)
		if (werr != nil) != (gerr != nil) || !reflect.DeepEqual(got, want) {
			t.Errorf("answers differ\n  sql:    %q\n  duckdb: %v %v\n  arc:    %v %v\n  arc sql: %s", q, want, werr, got, gerr, conv)
		}
	}
}
