package api

// Demonstration for C17: the LIKE predicate reordering runs on the raw
// statement, before literals are masked. Its pattern `WHERE (.*?) AND col <> ''
// (GROUP|ORDER|LIMIT|$)` also matches when the `AND col <> '' ORDER` text is the
// inside of a string literal (with '' an escaped quote); moving it rewrites the
// literal — the statement compares against a different string.
//
// Run from /repo: cp <this> internal/api/ && go test ./internal/api -run TestC17Demo_LikeReorder

import (
	"sort"
	"strings"
	"testing"

	sqlutil "github.com/basekick-labs/arc/internal/sql"
)

func c17Literals(sql string) []string {
	_, masks := sqlutil.MaskStringLiterals(sql, true)
	var out []string
	for _, m := range masks {
		out = append(out, m.Original)
	}
	sort.Strings(out)
	return out
}

func TestC17Demo_LikeReorderKeepsLiteralsIntact(t *testing.T) {
	for _, q := range []string{
		`SELECT count(*) FROM t WHERE host LIKE '%a%' AND region = 'x AND v <> '' ORDER BY v'`,
		`SELECT count(*) FROM t WHERE host LIKE '%a%' AND note = 'it''s AND v <> '''`,
	} {
		out, _ := OptimizeLikePatterns(q)
		if a, b := strings.Join(c17Literals(q), "|"), strings.Join(c17Literals(out), "|"); a != b {
			t.Errorf("the reordering changed a string literal\n  in:  %s\n  out: %s\n  literals before: %s\n  literals after:  %s", q, out, a, b)
		}
	}
	// the intended rewrite still happens
	out, changed := OptimizeLikePatterns(`SELECT * FROM t WHERE Title LIKE '%Google%' AND URL NOT LIKE '%.google.%' AND SearchPhrase <> ''`)
	if !changed || !strings.Contains(out, "WHERE SearchPhrase <> '' AND Title LIKE") {
		t.Errorf("ordinary reordering lost: %s", out)
	}
}
