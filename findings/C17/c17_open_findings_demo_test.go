package api

// Demonstrations for the OPEN C17 findings (performance rewrites that change
// results). Each compares DuckDB evaluating the ORIGINAL expression with DuckDB
// evaluating Arc's rewrite of it, row by row. They FAIL on the current tree:
// the rewritten text is pinned character for character by the existing tests
// (internal/api/query_test.go TestRewriteTimeBucket*/TestRewriteDateTrunc*,
// like_optimizer_test.go, regex_rewriter_test.go), so none of these can be
// repaired without editing those tests; they are recorded in known_findings.json.
//
// Run from /repo: cp <this> internal/api/ && go test ./internal/api -run TestC17Demo

import (
	"context"
	"fmt"
	"strings"
	"testing"

	"github.com/basekick-labs/arc/internal/database"
	"github.com/rs/zerolog"
)

func c17DB(t *testing.T) *database.DuckDB {
	db, err := database.New(&database.Config{MaxConnections: 1, MemoryLimit: "256MB", LocalStorageRoot: t.TempDir(), TempDirectory: t.TempDir()}, zerolog.Nop())
	if err != nil {
		t.Fatal(err)
	}
	t.Cleanup(func() { db.Close() })
	return db
}

func c17Rows(t *testing.T, db *database.DuckDB, q string) []string {
	rows, err := db.DB().QueryContext(context.Background(), q)
	if err != nil {
		t.Fatalf("%s: %v", q, err)
	}
	defer rows.Close()
	var out []string
	for rows.Next() {
		var a, b interface{}
		if err := rows.Scan(&a, &b); err != nil {
			t.Fatal(err)
		}
		out = append(out, fmt.Sprintf("%v|%v", a, b))
	}
	return out
}

const c17Times = `(VALUES (TIMESTAMP '2024-01-10 12:59:59.7'), (TIMESTAMP '2024-01-10 12:00:00'), (TIMESTAMP '2024-01-13 03:00:00'), (TIMESTAMP '1969-12-31 22:30:00')) t(time)`

func TestC17Demo_TimeRewritesKeepTheBucket(t *testing.T) {
	db := c17DB(t)
	for _, expr := range []string{
		"time_bucket(INTERVAL '1 hour', time)",  // 12:59:59.7 -> 13:00 (::BIGINT rounds); 1969 -> next hour (// truncates)
		"time_bucket(INTERVAL '1 week', time)",  // DuckDB buckets weeks from Monday 2000-01-03, the rewrite from Thursday 1970-01-01
		"time_bucket(INTERVAL '7 hours', time)", // 7 h does not divide the distance between the two origins
		"time_bucket(INTERVAL '2 days', time)",
		"date_trunc('week', time)",
		"date_trunc('hour', time)",
		"time_bucket(INTERVAL '1 hour', time, TIMESTAMP '2024-01-01 00:30:00')",
	} {
		rew := rewriteDateTrunc(rewriteTimeBucket(expr))
		if rew == expr {
			continue // not rewritten: nothing to compare
		}
		got := c17Rows(t, db, "SELECT time, "+rew+" FROM "+c17Times+" ORDER BY 1")
		want := c17Rows(t, db, "SELECT time, "+expr+" FROM "+c17Times+" ORDER BY 1")
		for i := range want {
			if got[i] != want[i] {
				t.Errorf("%s\n   DuckDB:  %s\n   rewrite: %s   (%s)", expr, want[i], got[i], rew)
			}
		}
	}
}

func TestC17Demo_LikeReorderKeepsTheFilter(t *testing.T) {
	db := c17DB(t)
	tbl := `(VALUES (1,'x','keep',''), (2,'y','drop','q'), (3,'x','drop','')) t(a, b, s, c)`
	for _, where := range []string{
		"a = 1 OR b LIKE '%y%' AND c <> ''", // AND binds tighter than OR: moving c <> '' to the front regroups the predicate
	} {
		sql := "SELECT a, b FROM " + tbl + " WHERE " + where + " ORDER BY 1"
		opt, _ := OptimizeLikePatterns(sql)
		got, want := strings.Join(c17Rows(t, db, opt), ";"), strings.Join(c17Rows(t, db, sql), ";")
		if got != want {
			t.Errorf("WHERE %s\n   DuckDB:  %s\n   rewrite: %s   (%s)", where, want, got, opt)
		}
	}
}

func TestC17Demo_URLRegexRewriteOnlyForTheDomainPattern(t *testing.T) {
	db := c17DB(t)
	tbl := `(VALUES ('https://a.example.com/x/y'), ('http://b.example.com/z')) t(url)`
	// a pattern that merely CONTAINS "https" and "[^/]": it extracts the first path segment, not the domain
	expr := `regexp_replace(url, '^https?://[^/]+/([^/]+)/.*$', '\1')`
	rew, _ := RewriteRegexToStringFuncs(expr)
	got := c17Rows(t, db, "SELECT url, "+rew+" FROM "+tbl+" ORDER BY 1")
	want := c17Rows(t, db, "SELECT url, "+expr+" FROM "+tbl+" ORDER BY 1")
	for i := range want {
		if got[i] != want[i] {
			t.Errorf("%s\n   DuckDB:  %s\n   rewrite: %s", expr, want[i], got[i])
		}
	}
}
