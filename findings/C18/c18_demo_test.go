package api

// Demonstrations for C18: partition pruning must return exactly the rows the
// same query returns over all files of the measurement. Each case runs the
// query through convertSQLToStoragePaths (pruned) and over the ** glob
// (unpruned) in DuckDB and compares the rows.
//
// Run from /repo: cp <this> internal/api/ && go test ./internal/api -run TestC18Demo

import (
	"context"
	"database/sql"
	"fmt"
	"os"
	"path/filepath"
	"reflect"
	"strings"
	"testing"
	"time"

	_ "github.com/duckdb/duckdb-go/v2"
	"github.com/rs/zerolog"

	"github.com/basekick-labs/arc/internal/pruning"
	"github.com/basekick-labs/arc/internal/storage"
)

func c18File(t *testing.T, db *sql.DB, base string, ts time.Time, host string) {
	c18FileM(t, db, base, "cpu", ts, host)
}

func c18FileM(t *testing.T, db *sql.DB, base, meas string, ts time.Time, host string) {
	t.Helper()
	dir := filepath.Join(base, "default", meas, ts.Format("2006"), ts.Format("01"), ts.Format("02"), ts.Format("15"))
	os.MkdirAll(dir, 0o755)
	file := filepath.Join(dir, fmt.Sprintf("%s_%s_1.parquet", meas, ts.Format("20060102_150405")))
	q := fmt.Sprintf("COPY (SELECT CAST('%s+00' AS TIMESTAMPTZ) AS time, '%s' AS host, '2000-01-01' AS end_time) TO '%s' (FORMAT PARQUET)", ts.Format("2006-01-02 15:04:05"), host, file)
	if _, err := db.Exec(q); err != nil {
		t.Fatal(err)
	}
}

func c18Rows(t *testing.T, db *sql.DB, q string) []string {
	rows, err := db.Query(q)
	if err != nil {
		t.Fatalf("%v\nSQL: %s", err, q)
	}
	defer rows.Close()
	out := []string{}
	for rows.Next() {
		var s string
		rows.Scan(&s)
		out = append(out, s)
	}
	return out
}

func TestC18Demo_PrunedEqualsUnpruned(t *testing.T) {
	base := t.TempDir()
	backend, _ := storage.NewLocalBackend(base, zerolog.Nop())
	base = backend.GetBasePath()
	db, err := sql.Open("duckdb", "")
	if err != nil {
		t.Fatal(err)
	}
	defer db.Close()
	db.Exec("SET TimeZone='UTC'")
	far := time.Now().UTC().Add(72 * time.Hour).Truncate(time.Hour)
	for host, ts := range map[string]time.Time{
		"y2019":  time.Date(2019, 6, 1, 10, 0, 0, 0, time.UTC),
		"y2024a": time.Date(2024, 3, 15, 5, 0, 0, 0, time.UTC),
		"y2024b": time.Date(2024, 3, 16, 5, 0, 0, 0, time.UTC),
		"y2024c": time.Date(2024, 3, 15, 3, 0, 0, 0, time.UTC),
		"future": far,
	} {
		c18File(t, db, base, ts, host)
	}
	h := &QueryHandler{storage: backend, pruner: pruning.NewPartitionPruner(zerolog.Nop()), logger: zerolog.Nop()}
	fullGlob := "FROM read_parquet('" + base + "/default/cpu/**/*.parquet', union_by_name=true)"
	for _, q := range []string{
		// only an upper bound: the pruner invents the lower bound 2020-01-01
		"SELECT host AS r FROM cpu WHERE time < '2024-03-15T12:00:00Z' ORDER BY r",
		// only a lower bound: the pruner invents the upper bound now+24h
		"SELECT host AS r FROM cpu WHERE time >= '2024-03-16T00:00:00Z' ORDER BY r",
		// a disjunction: the time comparison does not bound the result
		"SELECT host AS r FROM cpu WHERE (time >= '2024-03-15T00:00:00Z' AND time < '2024-03-15T12:00:00Z') OR host = 'y2019' ORDER BY r",
		// NOT
		"SELECT host AS r FROM cpu WHERE NOT (time >= '2024-03-15T00:00:00Z' AND time < '2024-03-15T12:00:00Z') ORDER BY r",
		// another column whose name ends in "time": a VARCHAR compared as text
		"SELECT host AS r FROM cpu WHERE end_time < '2019-01-01' AND time >= '2019-01-01T00:00:00Z' AND time < '2025-01-01T00:00:00Z' ORDER BY r",
		// inclusive upper bound on an hour boundary: the row at exactly 05:00:00 lives in partition 05
		"SELECT host AS r FROM cpu WHERE time >= '2024-03-15T00:00:00Z' AND time <= '2024-03-15T05:00:00Z' ORDER BY r",
		"SELECT host AS r FROM cpu WHERE time BETWEEN '2024-03-15T00:00:00Z' AND '2024-03-15T05:00:00Z' ORDER BY r",
	} {
		pruned := h.convertSQLToStoragePaths(context.Background(), q)
		unpruned := strings.Replace(q, "FROM cpu", fullGlob, 1)
		var got, want []string
		func() {
			defer func() { recover() }()
			want = c18Rows(t, db, unpruned)
			got = c18Rows(t, db, pruned)
		}()
		if want == nil {
			continue
		}
		if !reflect.DeepEqual(got, want) {
			t.Errorf("pruning changed the result\n  sql:      %s\n  pruned:   %v\n  unpruned: %v", q, got, want)
		}
	}
}

// OPEN finding: GeneratePartitionPaths clamps the start of the range up to
// 1970-01-01 ("Arc has no data before 1970"), but line protocol accepts
// negative timestamps and the writer stores them under 1969/... partitions.
// TestGeneratePartitionPathsClampsStartToEpoch pins the clamp, so it is not
// repaired here. This test FAILS on the current tree.
func TestC18Demo_PreEpochClamp(t *testing.T) {
	base := t.TempDir()
	backend, _ := storage.NewLocalBackend(base, zerolog.Nop())
	base = backend.GetBasePath()
	db, err := sql.Open("duckdb", "")
	if err != nil {
		t.Fatal(err)
	}
	defer db.Close()
	db.Exec("SET TimeZone='UTC'")
	c18File(t, db, base, time.Date(1969, 12, 31, 23, 0, 0, 0, time.UTC), "y1969")
	c18File(t, db, base, time.Date(1970, 1, 1, 1, 0, 0, 0, time.UTC), "y1970")
	h := &QueryHandler{storage: backend, pruner: pruning.NewPartitionPruner(zerolog.Nop()), logger: zerolog.Nop()}
	q := "SELECT host AS r FROM cpu WHERE time >= '1969-12-31T00:00:00Z' AND time < '1970-01-02T00:00:00Z' ORDER BY r"
	pruned := h.convertSQLToStoragePaths(context.Background(), q)
	unpruned := strings.Replace(q, "FROM cpu", "FROM read_parquet('"+base+"/default/cpu/**/*.parquet', union_by_name=true)", 1)
	got, want := c18Rows(t, db, pruned), c18Rows(t, db, unpruned)
	if !reflect.DeepEqual(got, want) {
		t.Errorf("pruning changed the result\n  sql:      %s\n  pruned:   %v\n  unpruned: %v", q, got, want)
	}
}

// Statements that read more than one source: the range read off the WHERE text
// was applied to every table of the statement.

func TestC18Demo_MultiSource(t *testing.T) {
	base := t.TempDir()
	backend, _ := storage.NewLocalBackend(base, zerolog.Nop())
	base = backend.GetBasePath()
	db, err := sql.Open("duckdb", "")
	if err != nil {
		t.Fatal(err)
	}
	defer db.Close()
	db.Exec("SET TimeZone='UTC'")
	c18FileM(t, db, base, "cpu", time.Date(2024, 3, 10, 5, 0, 0, 0, time.UTC), "a")
	c18FileM(t, db, base, "cpu", time.Date(2024, 3, 16, 5, 0, 0, 0, time.UTC), "b")
	c18FileM(t, db, base, "mem", time.Date(2024, 3, 16, 6, 0, 0, 0, time.UTC), "a")
	c18FileM(t, db, base, "mem", time.Date(2024, 3, 16, 7, 0, 0, 0, time.UTC), "b")
	h := &QueryHandler{storage: backend, pruner: pruning.NewPartitionPruner(zerolog.Nop()), logger: zerolog.Nop()}
	for _, q := range []string{
		"SELECT host AS r FROM cpu WHERE host IN (SELECT host FROM mem WHERE time >= '2024-03-16T00:00:00Z' AND time < '2024-03-17T00:00:00Z') ORDER BY r",
		"SELECT c.host AS r FROM cpu c JOIN mem m ON c.host = m.host WHERE m.time >= '2024-03-16T00:00:00Z' AND m.time < '2024-03-17T00:00:00Z' ORDER BY r",
		"SELECT host AS r FROM cpu WHERE time >= '2024-03-01T00:00:00Z' AND time < '2024-03-20T00:00:00Z' AND host IN (SELECT host FROM mem WHERE time >= '2024-03-16T06:30:00Z' AND time < '2024-03-17T00:00:00Z') ORDER BY r",
		"WITH recent AS (SELECT host FROM mem WHERE time >= '2024-03-16T00:00:00Z' AND time < '2024-03-17T00:00:00Z') SELECT c.host AS r FROM cpu c, recent x WHERE c.host = x.host ORDER BY r",
		"SELECT host AS r FROM cpu WHERE time >= '2024-03-16T00:00:00+05:00' AND time < '2024-03-16T08:00:00+05:00' ORDER BY r",
		"SELECT host AS r FROM cpu WHERE time + INTERVAL '7 days' >= '2024-03-16T00:00:00Z' AND time + INTERVAL '7 days' < '2024-03-18T00:00:00Z' ORDER BY r",
		"SELECT host AS r FROM cpu WHERE '2024-03-16T00:00:00Z' > time ORDER BY r",
		"SELECT host AS r FROM cpu WHERE time >= '2024-03-10' AND time < '2024-03-10 06:00' ORDER BY r",
	} {
		pruned := h.convertSQLToStoragePaths(context.Background(), q)
		unpruned := q
		for _, m := range []string{"cpu", "mem"} {
			unpruned = strings.Replace(unpruned, "FROM "+m, "FROM read_parquet('"+base+"/default/"+m+"/**/*.parquet', union_by_name=true)", 1)
			unpruned = strings.Replace(unpruned, "JOIN "+m, "JOIN read_parquet('"+base+"/default/"+m+"/**/*.parquet', union_by_name=true)", 1)
		}
		want := c18Rows(t, db, unpruned)
		got := c18Rows(t, db, pruned)
		if !reflect.DeepEqual(got, want) {
			t.Errorf("pruning changed the result\n  sql:      %s\n  pruned:   %v\n  unpruned: %v\n %s", q, got, want, pruned)
		}
	}
}

// Time comparisons that are not the statement's WHERE predicate: inside a
// comment, inside an aggregate's FILTER (WHERE …), or after QUALIFY (window
// functions are computed before it, over rows the pruning would remove).
// (The first two were pointed out by a seeding agent on the unmodified tree.)
func TestC18Demo_TimeComparisonOutsideTheWhereClause(t *testing.T) {
	base := t.TempDir()
	backend, _ := storage.NewLocalBackend(base, zerolog.Nop())
	base = backend.GetBasePath()
	db, err := sql.Open("duckdb", "")
	if err != nil {
		t.Fatal(err)
	}
	defer db.Close()
	db.Exec("SET TimeZone='UTC'")
	c18File(t, db, base, time.Date(2024, 3, 10, 5, 0, 0, 0, time.UTC), "a")
	c18File(t, db, base, time.Date(2024, 3, 16, 5, 0, 0, 0, time.UTC), "b")
	h := &QueryHandler{storage: backend, pruner: pruning.NewPartitionPruner(zerolog.Nop()), logger: zerolog.Nop()}
	for _, q := range []string{
		"SELECT host AS r FROM cpu WHERE host <> '' -- AND time >= '2024-03-16T00:00:00Z' AND time < '2024-03-17T00:00:00Z'\nORDER BY r",
		"SELECT host AS r FROM cpu WHERE host <> '' /* AND time >= '2024-03-16T00:00:00Z' AND time < '2024-03-17T00:00:00Z' */ ORDER BY r",
		"SELECT host AS r FROM cpu WHERE host <> $$time < '2024-03-12T00:00:00Z'$$ AND time >= '2024-03-01T00:00:00Z' ORDER BY r",
		"SELECT CAST(count(*) FILTER (WHERE time >= '2024-03-16T00:00:00Z' AND time < '2024-03-17T00:00:00Z') AS VARCHAR) || '/' || CAST(count(*) AS VARCHAR) AS r FROM cpu",
		"SELECT host || ':' || coalesce(lag(host) OVER (ORDER BY time), '-') AS r FROM cpu WHERE host <> '' QUALIFY time >= '2024-03-16T00:00:00Z' AND time < '2024-03-17T00:00:00Z' ORDER BY r",
	} {
		pruned := h.convertSQLToStoragePaths(context.Background(), q)
		unpruned := strings.Replace(q, "FROM cpu", "FROM read_parquet('"+base+"/default/cpu/**/*.parquet', union_by_name=true)", 1)
		got, want := c18Rows(t, db, pruned), c18Rows(t, db, unpruned)
		if !reflect.DeepEqual(got, want) {
			t.Errorf("pruning changed the result\n  sql:      %s\n  pruned:   %v\n  unpruned: %v", q, got, want)
		}
	}
}
