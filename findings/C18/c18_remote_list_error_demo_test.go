package pruning

// Demonstration for C18 (remote storage): a failed listing of a day-level
// prefix dropped that day's path — the compacted day file was silently left
// out of the query — while a failed listing of hour directories keeps every
// path ("assume all exist"). A transient S3 error must not change the rows a
// query returns without the caller hearing of it.
//
// Run from /repo: cp <this> internal/pruning/ && go test ./internal/pruning -run TestC18Demo

import (
	"context"
	"errors"
	"strings"
	"testing"

	"github.com/rs/zerolog"
)

type c18FailingListBackend struct{ mockS3Backend }

func (m *c18FailingListBackend) List(ctx context.Context, prefix string) ([]string, error) {
	return nil, errors.New("transient: 503 SlowDown")
}

func TestC18Demo_DayPathSurvivesAListingError(t *testing.T) {
	p := NewPartitionPruner(zerolog.Nop())
	p.SetStorageBackend(&c18FailingListBackend{mockS3Backend{existingDirs: map[string][]string{
		"db/cpu/2024/03/":    {"db/cpu/2024/03/15/"},
		"db/cpu/2024/03/15/": {"db/cpu/2024/03/15/10/"},
	}}})
	paths := []string{
		"s3://bucket/db/cpu/2024/03/15/10/*.parquet",
		"s3://bucket/db/cpu/2024/03/15/*.parquet", // the compacted day file
	}
	got := p.filterExistingPaths(paths)
	joined := strings.Join(got, " ")
	if !strings.Contains(joined, "2024/03/15/10/*.parquet") {
		t.Fatalf("hour path lost: %v", got)
	}
	if !strings.Contains(joined, "2024/03/15/*.parquet") {
		t.Errorf("the day-level path was dropped because listing it failed: the day's compacted file is silently not read; kept: %v", got)
	}
}
