package api

// Demonstration for C19: a BLOB cell was written into the JSON response as its
// raw bytes. Bytes >= 0x80 that are not valid UTF-8 make the body undecodable
// for strict JSON parsers and lenient ones replace them, so different blobs
// read back as the same text. After the repair the cell carries DuckDB's own
// text form of the blob (CAST(b AS VARCHAR)).
//
// Needs c14Env/c14Post from findings/C14/c14_demo_test.go in the same package.
// Run from /repo: cp both files to internal/api/ && go test -tags=duckdb_arrow ./internal/api -run TestC19Demo

import (
	"encoding/json"
	"testing"
	"unicode/utf8"
)

func TestC19Demo_BlobCellIsFaithfulJSON(t *testing.T) {
	app, _ := c14Env(t)
	code, body := c14Post(t, app, "/api/v1/query", `SELECT CAST('a\x5Cb"c\x7F\x80 \xAA~' AS BLOB) b, CAST(CAST('a\x5Cb"c\x7F\x80 \xAA~' AS BLOB) AS VARCHAR) s, CAST('\xAB' AS BLOB) x, CAST('\xAC' AS BLOB) y`)
	if code != 200 {
		t.Fatalf("status %d: %s", code, body)
	}
	if !utf8.ValidString(body) {
		t.Errorf("response body is not valid UTF-8, so it is not JSON (RFC 8259): %q", body)
	}
	var resp struct {
		Data [][]any `json:"data"`
	}
	if err := json.Unmarshal([]byte(body), &resp); err != nil {
		t.Fatalf("decode: %v", err)
	}
	row := resp.Data[0]
	if row[0] != row[1] {
		t.Errorf("blob cell %q differs from DuckDB's text form %q", row[0], row[1])
	}
	if row[2] == row[3] {
		t.Errorf("two different blobs read back as the same cell: %q", row[2])
	}
}
