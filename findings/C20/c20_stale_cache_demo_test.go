package auth

// Demonstration for property C20 (kept under /verif/findings/C20; copy into
// /repo/internal/auth to run):
//
//	go test -vet=off -count=1 -run 'TestC20Demo' ./internal/auth/
//
// RBAC caching is only active with an enterprise licence; the licence file is
// RSA-signed, so the demo installs an in-memory licence into an otherwise
// empty license.Client through reflection. Everything else is the real code.

import (
	"context"
	"reflect"
	"testing"
	"unsafe"

	"github.com/basekick-labs/arc/internal/license"
)

func c20LicensedClient(t *testing.T) *license.Client {
	t.Helper()
	c := &license.Client{}
	lic := &license.License{Status: "active", Tier: license.TierEnterprise, Features: []string{license.FeatureRBAC}}
	f := reflect.ValueOf(c).Elem().FieldByName("license")
	if !f.IsValid() {
		t.Fatal("license.Client has no field 'license'")
	}
	reflect.NewAt(f.Type(), unsafe.Pointer(f.UnsafeAddr())).Elem().Set(reflect.ValueOf(lic))
	return c
}

// History: grant via org/team/role/membership; check (allowed, now cached);
// delete the organization (cascade removes team, role, membership); check.
func TestC20Demo_DeleteOrganizationLeavesStaleDecision(t *testing.T) {
	rm, am, cleanup := setupTestRBACManager(t)
	defer cleanup()
	rm.licenseClient = c20LicensedClient(t)
	if !rm.IsRBACEnabled() {
		t.Fatal("RBAC not enabled in demo setup")
	}
	ctx := context.Background()
	tok, err := am.CreateToken(ctx, "t1", "", "write", nil) // token-level permissions do not include read
	if err != nil {
		t.Fatal(err)
	}
	info := am.VerifyToken(tok)
	if info == nil {
		t.Fatal("token does not verify")
	}
	org, err := rm.CreateOrganization(ctx, &CreateOrganizationRequest{Name: "acme"})
	if err != nil {
		t.Fatal(err)
	}
	team, err := rm.CreateTeam(ctx, org.ID, &CreateTeamRequest{Name: "eng"})
	if err != nil {
		t.Fatal(err)
	}
	if _, err := rm.CreateRole(ctx, team.ID, &CreateRoleRequest{DatabasePattern: "prod", Permissions: []string{"read"}}); err != nil {
		t.Fatal(err)
	}
	if _, err := rm.AddTokenToTeam(ctx, info.ID, team.ID); err != nil {
		t.Fatal(err)
	}
	req := &PermissionCheckRequest{TokenInfo: info, Database: "prod", Permission: "read"}
	if r := rm.CheckPermission(req); !r.Allowed {
		t.Fatalf("setup: expected access through the role, got %+v", r)
	}
	if err := rm.DeleteOrganization(ctx, org.ID); err != nil {
		t.Fatal(err)
	}
	if teams, _ := rm.GetTokenTeams(info.ID); len(teams) != 0 {
		t.Fatalf("cascade did not remove the membership: %v", teams)
	}
	if r := rm.CheckPermission(req); r.Allowed {
		t.Fatalf("C20 violated: organization (and by cascade the granting role) deleted, yet the very next check is still allowed (source=%s)", r.Source)
	}
}

// History: token with permission "read"; check (allowed by token fallback,
// cached); narrow the token's permissions to "write"; re-verify; check.
func TestC20Demo_NarrowedTokenPermissionsStillAllowed(t *testing.T) {
	rm, am, cleanup := setupTestRBACManager(t)
	defer cleanup()
	rm.licenseClient = c20LicensedClient(t)
	ctx := context.Background()
	tok, err := am.CreateToken(ctx, "t2", "", "read", nil)
	if err != nil {
		t.Fatal(err)
	}
	info := am.VerifyToken(tok)
	if info == nil {
		t.Fatal("token does not verify")
	}
	if r := rm.CheckPermission(&PermissionCheckRequest{TokenInfo: info, Database: "prod", Permission: "read"}); !r.Allowed {
		t.Fatalf("setup: expected token-level read, got %+v", r)
	}
	narrowed := "write"
	if err := am.UpdateToken(ctx, info.ID, nil, nil, &narrowed, nil); err != nil {
		t.Fatal(err)
	}
	info2 := am.VerifyToken(tok)
	if info2 == nil || len(info2.Permissions) != 1 || info2.Permissions[0] != "write" {
		t.Fatalf("token cache not refreshed: %+v", info2)
	}
	if r := rm.CheckPermission(&PermissionCheckRequest{TokenInfo: info2, Database: "prod", Permission: "read"}); r.Allowed {
		t.Fatalf("C20 violated: token permissions narrowed to %v, yet read is still allowed (source=%s)", info2.Permissions, r.Source)
	}
}
