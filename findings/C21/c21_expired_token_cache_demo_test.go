package auth

// Demonstration for property C21 ("a token value authenticates only if it ...
// has not expired"). Copy into /repo/internal/auth and run:
//
//	go test -vet=off -count=1 -run TestC21Demo ./internal/auth/
//
// History: a token expiring shortly is verified once (cached for the 5-minute
// cache TTL), then verified again after its expires_at has passed.

import (
	"context"
	"os"
	"path/filepath"
	"testing"
	"time"

	"github.com/rs/zerolog"
)

func TestC21Demo_ExpiredTokenAuthenticatesFromCache(t *testing.T) {
	dir, err := os.MkdirTemp("", "c21-demo-*")
	if err != nil {
		t.Fatal(err)
	}
	defer os.RemoveAll(dir)
	am, err := NewAuthManager(filepath.Join(dir, "auth.db"), 5*time.Minute, 100, zerolog.Nop())
	if err != nil {
		t.Fatal(err)
	}
	defer am.Close()
	exp := time.Now().Add(400 * time.Millisecond)
	tok, err := am.CreateToken(context.Background(), "short-lived", "", "read", &exp)
	if err != nil {
		t.Fatal(err)
	}
	if am.VerifyToken(tok) == nil {
		t.Fatal("setup: fresh token does not verify")
	}
	time.Sleep(time.Until(exp) + 200*time.Millisecond)
	if info := am.VerifyToken(tok); info != nil {
		t.Fatalf("C21 violated: token expired at %s, now %s, yet it still authenticates (served from the verify cache)", exp.Format(time.RFC3339Nano), time.Now().Format(time.RFC3339Nano))
	}
	// control: a cold cache rejects it, so the acceptance above came from the cache
	am.InvalidateCache()
	if am.VerifyToken(tok) != nil {
		t.Fatal("expired token verifies even with a cold cache")
	}
}
