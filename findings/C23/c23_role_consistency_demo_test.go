package raft

// Demonstration for property C23 (copy into /repo/internal/cluster/raft):
//
//	go test -vet=off -count=1 -run TestC23Demo ./internal/cluster/raft/
//
// Invariant checked after every command: at most one node is marked primary;
// a node named by primaryWriterID exists and is marked primary.

import (
	"testing"

	"github.com/hashicorp/raft"
)

func c23Apply(t *testing.T, fsm *ClusterFSM, typ CommandType, payload interface{}) interface{} {
	t.Helper()
	return fsm.Apply(&raft.Log{Data: makeCommand(t, typ, payload)})
}

func c23Invariant(t *testing.T, fsm *ClusterFSM, after string) {
	t.Helper()
	primaries := 0
	for _, n := range fsm.GetAllNodes() {
		if n.WriterState == "primary" {
			primaries++
		}
	}
	if primaries > 1 {
		t.Errorf("after %s: %d nodes are marked primary", after, primaries)
	}
	if id := fsm.GetPrimaryWriterID(); id != "" {
		n, ok := fsm.GetNode(id)
		switch {
		case !ok:
			t.Errorf("after %s: primaryWriterID names %q, which is not a registered node", after, id)
		case n.WriterState != "primary":
			t.Errorf("after %s: primaryWriterID names %q but that node's writer state is %q", after, id, n.WriterState)
		}
	} else if primaries != 0 {
		t.Errorf("after %s: a node is marked primary but primaryWriterID is empty", after)
	}
}

func c23Writers(t *testing.T, fsm *ClusterFSM, ids ...string) {
	for _, id := range ids {
		if r := c23Apply(t, fsm, CommandAddNode, AddNodePayload{Node: NodeInfo{ID: id, Role: "writer", State: "healthy"}}); r != nil {
			t.Fatalf("add %s: %v", id, r)
		}
	}
}

// A primary that re-registers (restart + join: handleJoinRequest builds a
// NodeInfo without writer state) silently loses the role the cluster recorded.
func TestC23Demo_ReRegisterPrimary(t *testing.T) {
	fsm := newTestFSM()
	c23Writers(t, fsm, "w1", "w2")
	if r := c23Apply(t, fsm, CommandPromoteWriter, PromoteWriterPayload{NodeID: "w1"}); r != nil {
		t.Fatalf("promote: %v", r)
	}
	c23Invariant(t, fsm, "promote w1")
	c23Writers(t, fsm, "w1") // re-join
	c23Invariant(t, fsm, "re-registering w1")
}

// Promoting an unknown node is rejected with an error, yet it has already
// demoted the real primary and recorded the unknown id as primary writer.
func TestC23Demo_PromoteUnknownNode(t *testing.T) {
	fsm := newTestFSM()
	c23Writers(t, fsm, "w1", "w2")
	c23Apply(t, fsm, CommandPromoteWriter, PromoteWriterPayload{NodeID: "w1"})
	if r := c23Apply(t, fsm, CommandPromoteWriter, PromoteWriterPayload{NodeID: "ghost"}); r == nil {
		t.Fatal("promoting an unknown node must be rejected")
	}
	c23Invariant(t, fsm, "rejected promotion of an unknown node")
	if id := fsm.GetPrimaryWriterID(); id != "w1" {
		t.Errorf("a rejected command changed the primary writer from w1 to %q", id)
	}
}

// Removing the primary leaves primaryWriterID naming a node that is gone.
func TestC23Demo_RemovePrimary(t *testing.T) {
	fsm := newTestFSM()
	c23Writers(t, fsm, "w1", "w2")
	c23Apply(t, fsm, CommandPromoteWriter, PromoteWriterPayload{NodeID: "w1"})
	if r := c23Apply(t, fsm, CommandRemoveNode, RemoveNodePayload{NodeID: "w1"}); r != nil {
		t.Fatalf("remove: %v", r)
	}
	c23Invariant(t, fsm, "removing the primary")
}

// A registration payload that claims the primary role must not create a
// second primary.
func TestC23Demo_AddNodeClaimingPrimary(t *testing.T) {
	fsm := newTestFSM()
	c23Writers(t, fsm, "w1")
	c23Apply(t, fsm, CommandPromoteWriter, PromoteWriterPayload{NodeID: "w1"})
	c23Apply(t, fsm, CommandAddNode, AddNodePayload{Node: NodeInfo{ID: "w2", Role: "writer", WriterState: "primary"}})
	c23Invariant(t, fsm, "adding a node whose payload says primary")
}
