package replication

// Demonstration for property C24 (copy into /repo/internal/cluster/replication):
//
//	go test -vet=off -count=1 -run TestC24Demo ./internal/cluster/replication/
//
// Sender.Replicate is called from the WAL replication hook, i.e. from every
// concurrent write request. It assigns the sequence number and then enqueues
// the entry as two separate steps, so two producers can enqueue in the
// opposite order of their sequence numbers. The receiver's strictly-
// increasing sequence check then tears down a healthy connection ("sequence
// regression"), which the property forbids.
//
// The demo fills the queue from 16 goroutines and inspects the queue order
// directly (distribution loop not started, so nothing drains it).

import (
	"sync"
	"testing"

	"github.com/rs/zerolog"
)

func TestC24Demo_ConcurrentReplicateKeepsQueueInSequenceOrder(t *testing.T) {
	const producers, perProducer = 16, 4000
	for round := 0; round < 5; round++ {
		s := NewSender(&SenderConfig{BufferSize: producers*perProducer + 16, Logger: zerolog.Nop()})
		s.running.Store(true)
		var wg sync.WaitGroup
		for p := 0; p < producers; p++ {
			wg.Add(1)
			go func() {
				defer wg.Done()
				for i := 0; i < perProducer; i++ {
					s.Replicate(&ReplicateEntry{Payload: []byte{1}})
				}
			}()
		}
		wg.Wait()
		close(s.entryChan)
		var last uint64
		n := 0
		for e := range s.entryChan {
			n++
			if e.Sequence <= last {
				t.Fatalf("C24 violated (round %d): entry with sequence %d was queued after sequence %d — the reader applies queue order, sees a non-increasing sequence and drops the connection although nothing on the wire was wrong", round, e.Sequence, last)
			}
			last = e.Sequence
		}
		if n != producers*perProducer {
			t.Fatalf("queued %d entries, want %d", n, producers*perProducer)
		}
	}
}
