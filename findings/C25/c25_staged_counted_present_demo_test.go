package filereplication

// Demonstration for property C25 (copy into /repo/internal/cluster/filereplication):
//
//	go test -vet=off -count=1 -run TestC25Demo ./internal/cluster/filereplication/
//
// Fault sequence (real LocalBackend, real Puller, scripted fetcher that
// behaves like FetchClient): attempt 1 delivers a full-length but corrupted
// body, so the fetch ends with ErrChecksumMismatch after every byte has been
// staged. The puller's cleanup (Delete) removes only the final path, and its
// next presence check (StatFile) falls back to the staging file's size — so
// the file is counted as already present although nothing exists at its
// final path, and it is never pulled again.

import (
	"context"
	"crypto/sha256"
	"encoding/hex"
	"hash"
	"io"
	"os"
	"path/filepath"
	"sync/atomic"
	"testing"
	"time"

	"github.com/basekick-labs/arc/internal/cluster/raft"
	"github.com/basekick-labs/arc/internal/storage"
	"github.com/rs/zerolog"
)

type c25Fetcher struct {
	good     []byte
	attempts atomic.Int32
}

func (f *c25Fetcher) Fetch(ctx context.Context, peer string, entry *raft.FileEntry, dst io.Writer, off int64, prefix hash.Hash) (int64, error) {
	n := f.attempts.Add(1)
	body := append([]byte(nil), f.good...)
	if n == 1 {
		body[len(body)/2] ^= 0xFF // full-length, one corrupted byte
	}
	h := sha256.New()
	if prefix != nil {
		h = prefix
	}
	w, err := io.MultiWriter(dst, h).Write(body[off:])
	if err != nil {
		return int64(w), err
	}
	if hex.EncodeToString(h.Sum(nil)) != entry.SHA256 {
		return int64(w), ErrChecksumMismatch // what FetchClient.Fetch returns after streaming the body
	}
	return int64(w), nil
}

func TestC25Demo_CorruptFullLengthTransferThenCountedPresent(t *testing.T) {
	dir := t.TempDir()
	be, err := storage.NewLocalBackend(dir, zerolog.Nop())
	if err != nil {
		t.Fatal(err)
	}
	good := []byte("0123456789abcdefghijklmnopqrstuvwxyz-parquet-bytes")
	sum := sha256.Sum256(good)
	entry := &raft.FileEntry{Path: "db/cpu/2026/01/01/00/f.parquet", SizeBytes: int64(len(good)), SHA256: hex.EncodeToString(sum[:]), OriginNodeID: "writer-1", Database: "db", Measurement: "cpu"}
	f := &c25Fetcher{good: good}
	p, err := New(Config{SelfNodeID: "reader-1", Backend: be, Fetcher: f, PeerResolver: staticResolver{nodeID: "writer-1", addrs: []string{"writer-1:9100"}, ok: true},
		Workers: 1, QueueSize: 8, RetryMaxAttempts: 4, RetryInitialBackoff: 5 * time.Millisecond, FetchTimeout: 2 * time.Second, Logger: zerolog.Nop()})
	if err != nil {
		t.Fatal(err)
	}
	p.Start(context.Background())
	defer p.Stop()
	p.Enqueue(entry)
	deadline := time.Now().Add(3 * time.Second)
	for time.Now().Before(deadline) {
		s := p.Stats()
		if s["pulled"]+s["skipped_local"]+s["failed"] > 0 {
			break
		}
		time.Sleep(10 * time.Millisecond)
	}
	s := p.Stats()
	final := filepath.Join(dir, entry.Path)
	got, rerr := os.ReadFile(final)
	if s["skipped_local"] > 0 && rerr != nil {
		t.Fatalf("C25 violated: the puller counted the file as present (skipped_local=%d, fetch attempts=%d) but nothing exists at its final path (%v); faults stopped after attempt 1, yet the file never converges", s["skipped_local"], f.attempts.Load(), rerr)
	}
	if rerr != nil || string(got) != string(good) {
		t.Fatalf("file did not converge: stats=%v readErr=%v", s, rerr)
	}
}
