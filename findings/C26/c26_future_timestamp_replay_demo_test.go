package security

// Demonstration for property C26 (copy into /repo/internal/cluster/security):
//
//	go test -vet=off -count=1 -run TestC26Demo ./internal/cluster/security/
//
// The validators accept |now - ts| <= tolerance (a window 2*tolerance wide),
// while every production nonce cache is built as
// NewNonceCache(<that same tolerance>). A validly signed request whose
// timestamp lies toward the future edge of the window (sender clock ahead of
// ours, well inside the accepted skew) is accepted on first receipt; once
// `tolerance` has passed its nonce has been forgotten but its timestamp is
// still fresh, so the identical bytes are accepted a second time.
// Virtual time (testing/synctest) replaces a 5-minute wait.

import (
	"testing"
	"testing/synctest"
	"time"
)

func TestC26Demo_FutureEdgeTimestampReplaysAfterNonceExpiry(t *testing.T) {
	synctest.Test(t, func(t *testing.T) {
		const secret, cluster, sender = "s3cret", "c1", "node-a"
		tol := HMACTimestampTolerance
		cache := NewNonceCache(HMACTimestampTolerance) // as coordinator.Start and cmd/arc/main.go construct it

		nonce, err := GenerateNonce()
		if err != nil {
			t.Fatal(err)
		}
		// sender's clock runs 4m50s ahead of ours: inside the accepted skew
		ts := time.Now().Add(tol - 10*time.Second).Unix()
		mac := ComputeCacheInvalidateHMAC(secret, nonce, sender, cluster, ts)

		accept := func() bool {
			if err := ValidateCacheInvalidateHMAC(secret, nonce, sender, cluster, ts, mac, tol); err != nil {
				return false
			}
			return cache.Track(sender, nonce)
		}
		if !accept() {
			t.Fatal("setup: first receipt must be accepted")
		}
		if accept() {
			t.Fatal("an immediate replay must be rejected")
		}
		// both arrival times lie inside the window in which the timestamp is accepted
		time.Sleep(tol + time.Second)
		if err := ValidateCacheInvalidateHMAC(secret, nonce, sender, cluster, ts, mac, tol); err != nil {
			t.Fatalf("setup: timestamp should still be inside the accepted window: %v", err)
		}
		if accept() {
			t.Fatalf("C26 violated: the same (sender, nonce) was accepted twice — first at T0, again at T0+%v — although both arrivals were inside the accepted clock-skew window", tol+time.Second)
		}
	})
}
