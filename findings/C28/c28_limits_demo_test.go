package governance

// Demonstrations for property C28 (copy into /repo/internal/governance):
//
//	go test -vet=off -count=1 -run TestC28Demo ./internal/governance/
//
// Both use testing/synctest's virtual clock; the code under test is unchanged.

import (
	"testing"
	"testing/synctest"
	"time"
)

// Sliding window: the counter sums exactly windowSize/slotDuration slots and
// drops the oldest slot as soon as the cursor enters the slot that reuses its
// position. A burst late in slot k and a burst early in slot k+60 are less
// than one window apart, yet both are admitted in full.
func TestC28Demo_SlidingWindowAdmitsTwiceTheLimitInsideOneWindow(t *testing.T) {
	synctest.Test(t, func(t *testing.T) {
		const limit = 5
		window := time.Minute
		// align to a slot boundary so the arithmetic below is exact
		time.Sleep(time.Until(time.Now().Truncate(time.Second).Add(time.Second)))
		s := newSlidingWindowCounter(window, 60, limit)

		time.Sleep(900 * time.Millisecond) // late in slot 0
		var admitted []time.Time
		for i := 0; i < limit; i++ {
			if s.Allow() {
				admitted = append(admitted, time.Now())
			}
		}
		if s.Allow() {
			t.Fatal("setup: limit not enforced inside the burst")
		}
		time.Sleep(59*time.Second + 150*time.Millisecond) // early in slot 60: 59.15 s after the first burst
		for i := 0; i < limit; i++ {
			if s.Allow() {
				admitted = append(admitted, time.Now())
			}
		}
		span := admitted[len(admitted)-1].Sub(admitted[0])
		if len(admitted) > limit && span < window {
			t.Fatalf("C28 violated: %d queries admitted within %v (< window %v) under a limit of %d", len(admitted), span, window, limit)
		}
	})
}

// Quota: maybeReset uses now.After(resetAt), so a query arriving exactly on
// the hour is charged to the hour that just ended; the new clock hour then
// still has its full quota and ends up with max+1 admitted queries.
func TestC28Demo_QueryExactlyOnTheHourIsNotCharged(t *testing.T) {
	synctest.Test(t, func(t *testing.T) {
		const max = 3
		q := newQuotaTracker(max, 0)
		hourStart := time.Now().Truncate(time.Hour).Add(time.Hour)
		time.Sleep(time.Until(hourStart)) // exactly hh:00:00.000000000
		inHour := 0
		if ok, _ := q.AllowQuery(); ok {
			inHour++
		}
		time.Sleep(time.Minute)
		for i := 0; i < max+2; i++ {
			if ok, _ := q.AllowQuery(); ok {
				inHour++
			}
		}
		if inHour > max {
			t.Fatalf("C28 violated: %d queries admitted inside the clock hour starting %s under an hourly quota of %d", inHour, hourStart.Format(time.RFC3339), max)
		}
	})
}
