package api

// Demonstration for C30: endpoints that never took the forwarding decision.
// A compactor cannot query and a reader cannot ingest. With a spoofed/looped
// X-Arc-Forwarded-By marker such a node must refuse (508 Loop Detected, the
// deterministic answer executeQuery / writeMsgPack give) — before the fix the
// estimate, measurement and arrow query endpoints and the four import
// endpoints ignored the router and went on to process the request locally
// (they answer 400 about the missing body/database: local processing).
//
// Run from /repo:  cp <this> internal/api/ && go test -tags duckdb_arrow ./internal/api -run TestC30Demo

import (
	"net/http/httptest"
	"testing"

	"github.com/basekick-labs/arc/internal/cluster"
	"github.com/gofiber/fiber/v2"
	"github.com/rs/zerolog"
)

// localPanicAsStatus: the bare handlers used here have no DuckDB; a handler that
// goes on to execute locally panics on it. Report that as status 599.
func localPanicAsStatus(c *fiber.Ctx) (err error) {
	defer func() {
		if r := recover(); r != nil {
			err = c.Status(599).SendString("processed locally")
		}
	}()
	return c.Next()
}

func TestC30Demo_QueryEndpointsOnCompactor(t *testing.T) {
	h := &QueryHandler{}
	h.SetRouter(routerForRole(cluster.RoleCompactor))
	app := fiber.New()
	app.Use(localPanicAsStatus)
	h.RegisterRoutes(app)
	for _, r := range [][2]string{
		{"POST", "/api/v1/query"}, // reference: always took the decision
		{"POST", "/api/v1/query/estimate"},
		{"GET", "/api/v1/query/cpu"},
		{"POST", "/api/v1/query/arrow"},
	} {
		req := httptest.NewRequest(r[0], r[1], nil)
		req.Header.Set(ForwardedByHeader, "some-node")
		resp, err := app.Test(req, 5000)
		if err != nil {
			t.Fatalf("%s %s: %v", r[0], r[1], err)
		}
		if resp.StatusCode != fiber.StatusLoopDetected {
			t.Errorf("%s %s on a compactor with the forwarded marker: status %d, want 508 (the node processed the query request locally)", r[0], r[1], resp.StatusCode)
		}
	}
}

func TestC30Demo_ImportEndpointsOnReader(t *testing.T) {
	h := NewImportHandler(zerolog.Nop())
	if s, ok := interface{}(h).(interface{ SetRouter(*cluster.Router) }); ok {
		s.SetRouter(routerForRole(cluster.RoleReader))
	} else {
		t.Errorf("ImportHandler has no SetRouter: import endpoints cannot take the forwarding decision at all")
	}
	app := fiber.New()
	h.RegisterRoutes(app)
	for _, p := range []string{"/api/v1/import/csv", "/api/v1/import/parquet", "/api/v1/import/lp", "/api/v1/import/tle"} {
		req := httptest.NewRequest("POST", p, nil)
		req.Header.Set(ForwardedByHeader, "some-node")
		resp, err := app.Test(req, 5000)
		if err != nil {
			t.Fatalf("%s: %v", p, err)
		}
		if resp.StatusCode != fiber.StatusLoopDetected {
			t.Errorf("POST %s on a reader with the forwarded marker: status %d, want 508 (the node processed the write request locally)", p, resp.StatusCode)
		}
	}
}
