package api

// Demonstrations for C31 (Parquet import):
//  1. a UINT64 column value above MaxInt64 was stored as a negative int64
//     ("converted to its inferred type without loss" broken silently);
//  2. an unrecognized time_format was rejected for string time columns but
//     silently auto-detected (int) or taken as microseconds (float) for numeric
//     time columns ("time converted to microseconds as requested").
//
// Run from /repo: cp <this> internal/api/ && go test ./internal/api -run TestC31Demo

import (
	"math"
	"testing"

	"github.com/apache/arrow-go/v18/arrow"
	"github.com/apache/arrow-go/v18/arrow/array"
	"github.com/apache/arrow-go/v18/arrow/memory"
)

func c31Col(t *testing.T, name string, arr arrow.Array) *arrow.Column {
	t.Helper()
	ch := arrow.NewChunked(arr.DataType(), []arrow.Array{arr})
	return arrow.NewColumn(arrow.Field{Name: name, Type: arr.DataType()}, ch)
}

func TestC31Demo_Uint64AboveInt64IsNotWrapped(t *testing.T) {
	b := array.NewUint64Builder(memory.DefaultAllocator)
	b.AppendValues([]uint64{1, math.MaxInt64 + 5}, nil)
	col := c31Col(t, "counter", b.NewArray())
	vals, _, err := arrowColumnToTyped(col)
	if err == nil {
		t.Errorf("uint64 %d imported as %v: the value was changed instead of the file being rejected", uint64(math.MaxInt64+5), vals)
	}
	tb := array.NewUint64Builder(memory.DefaultAllocator)
	tb.AppendValues([]uint64{math.MaxInt64 + 5}, nil)
	if out, err := parquetColumnToTimeMicros(c31Col(t, "time", tb.NewArray()), "epoch_us"); err == nil {
		t.Errorf("uint64 time %d converted to %v", uint64(math.MaxInt64+5), out)
	}
}

func TestC31Demo_UnknownTimeFormatRejectedForNumericTimeColumns(t *testing.T) {
	ib := array.NewInt64Builder(memory.DefaultAllocator)
	ib.AppendValues([]int64{1609459200}, nil)
	if out, err := parquetColumnToTimeMicros(c31Col(t, "time", ib.NewArray()), "epoch_sec"); err == nil {
		t.Errorf("int64 time column with time_format=epoch_sec: no error, converted to %v (string columns reject this format)", out)
	}
	fb := array.NewFloat64Builder(memory.DefaultAllocator)
	fb.AppendValues([]float64{1609459200.5}, nil)
	if out, err := parquetColumnToTimeMicros(c31Col(t, "time", fb.NewArray()), "epoch_sec"); err == nil {
		t.Errorf("float64 time column with time_format=epoch_sec: no error, converted to %v (1609459200.5 taken as microseconds)", out)
	}
	// reference: the string path has always rejected it
	sb := array.NewStringBuilder(memory.DefaultAllocator)
	sb.AppendValues([]string{"1609459200"}, nil)
	if _, err := parquetColumnToTimeMicros(c31Col(t, "time", sb.NewArray()), "epoch_sec"); err == nil {
		t.Errorf("string time column accepted epoch_sec")
	}
}
