package api

// Demonstration for C32: extractMeasurements skipped records whose measurement
// is the empty string, but ArrowBuffer.Write stored them all the same. A
// MessagePack write with "m": "" therefore bypassed measurement-name validation
// AND the per-measurement RBAC check (the list of measurements to check was
// empty) and its rows were stored under <database>/""/... — on a local or
// object-store backend that is <database>/<year>/..., i.e. inside the database
// the token may not write at all.
//
// Run from /repo: cp <this> and c32_import_preamble_demo_test.go (for c32DenyAll) into internal/api/ && go test ./internal/api -run TestC32Demo_EmptyMeasurement

import (
	"bytes"
	"net/http/httptest"
	"os"
	"path/filepath"
	"strings"
	"testing"

	"github.com/basekick-labs/arc/internal/auth"
	"github.com/basekick-labs/arc/internal/config"
	"github.com/basekick-labs/arc/internal/ingest"
	"github.com/basekick-labs/arc/internal/metrics"
	"github.com/basekick-labs/arc/internal/storage"
	"github.com/gofiber/fiber/v2"
	"github.com/rs/zerolog"
	"github.com/vmihailenco/msgpack/v5"
)

func TestC32Demo_EmptyMeasurementIsNotWrittenUnchecked(t *testing.T) {
	metrics.Init(zerolog.Nop())
	for _, shape := range []string{"columnar", "row"} {
		t.Run(shape, func(t *testing.T) {
			dir := t.TempDir()
			backend, _ := storage.NewLocalBackend(dir, zerolog.Nop())
			defer backend.Close()
			buf := ingest.NewArrowBuffer(&config.IngestConfig{MaxBufferSize: 1000000, MaxBufferAgeMS: 600000, FlushWorkers: 1, FlushQueueSize: 8, ShardCount: 4, Compression: "snappy"}, backend, zerolog.Nop())
			h := NewMsgPackHandler(zerolog.Nop(), buf, 1<<20)
			h.SetAuthAndRBAC(nil, c32DenyAll{}) // the token may write NOTHING
			app := fiber.New(fiber.Config{DisableStartupMessage: true})
			app.Use(func(c *fiber.Ctx) error {
				c.Locals("token_info", &auth.TokenInfo{ID: 7, Name: "nobody", Enabled: true})
				return c.Next()
			})
			h.RegisterRoutes(app)
			var payload interface{}
			if shape == "columnar" {
				payload = map[string]interface{}{"m": "", "columns": map[string]interface{}{"time": []int64{1700000000000}, "v": []float64{1}}}
			} else {
				payload = map[string]interface{}{"m": "", "t": int64(1700000000000), "fields": map[string]interface{}{"v": 1.0}}
			}
			body, _ := msgpack.Marshal(payload)
			req := httptest.NewRequest("POST", "/api/v1/write/msgpack", bytes.NewReader(body))
			req.Header.Set("Content-Type", "application/msgpack")
			req.Header.Set("x-arc-database", "tenant")
			resp, err := app.Test(req, 20000)
			if err != nil {
				t.Fatal(err)
			}
			_ = buf.Close()
			var files []string
			_ = filepath.Walk(dir, func(p string, info os.FileInfo, err error) error {
				if err == nil && !info.IsDir() && strings.HasSuffix(p, ".parquet") {
					rel, _ := filepath.Rel(dir, p)
					files = append(files, filepath.ToSlash(rel))
				}
				return nil
			})
			if resp.StatusCode < 400 || len(files) != 0 {
				t.Errorf("token without any write permission: status %d, stored files %v", resp.StatusCode, files)
			}
		})
	}
}
