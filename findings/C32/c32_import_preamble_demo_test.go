package api

// Demonstration for C32 (also C31/C04): importPreamble's rejecting returns hand
// back the result of c.Status(...).JSON(...), which is nil when the response was
// written; handleCSVImport / handleParquetImport test `errResp != nil`, so a
// request that was REFUSED (RBAC denial, missing/invalid database or
// measurement) carries on and stores the uploaded rows.
//
// Run from /repo: cp <this> internal/api/ && go test ./internal/api -run TestC32Demo

import (
	"bytes"
	"mime/multipart"
	"net/http/httptest"
	"os"
	"path/filepath"
	"strings"
	"testing"

	"github.com/basekick-labs/arc/internal/auth"
	"github.com/basekick-labs/arc/internal/config"
	"github.com/basekick-labs/arc/internal/ingest"
	"github.com/basekick-labs/arc/internal/metrics"
	"github.com/basekick-labs/arc/internal/storage"
	"github.com/gofiber/fiber/v2"
	"github.com/rs/zerolog"
)

type c32DenyAll struct{}

func (c32DenyAll) IsRBACEnabled() bool { return true }
func (c32DenyAll) CheckPermission(*auth.PermissionCheckRequest) *auth.PermissionCheckResult {
	return &auth.PermissionCheckResult{Allowed: false, Source: "rbac", Reason: "denied"}
}
func (d c32DenyAll) CheckPermissionsBatch(reqs []*auth.PermissionCheckRequest) []*auth.PermissionCheckResult {
	out := make([]*auth.PermissionCheckResult, len(reqs))
	for i := range reqs {
		out[i] = d.CheckPermission(reqs[i])
	}
	return out
}

func TestC32Demo_RefusedImportStoresNothing(t *testing.T) {
	metrics.Init(zerolog.Nop())
	dir := t.TempDir()
	backend, err := storage.NewLocalBackend(dir, zerolog.Nop())
	if err != nil {
		t.Fatal(err)
	}
	defer backend.Close()
	buf := ingest.NewArrowBuffer(&config.IngestConfig{MaxBufferSize: 1000000, MaxBufferAgeMS: 600000, FlushWorkers: 1, FlushQueueSize: 8, ShardCount: 4, Compression: "snappy"}, backend, zerolog.Nop())
	h := NewImportHandler(zerolog.Nop())
	h.SetArrowBuffer(buf)
	h.SetAuthAndRBAC(nil, c32DenyAll{})
	app := fiber.New(fiber.Config{DisableStartupMessage: true})
	app.Use(func(c *fiber.Ctx) error {
		c.Locals("token_info", &auth.TokenInfo{ID: 7, Name: "nobody", Enabled: true})
		return c.Next()
	})
	h.RegisterRoutes(app)

	var body bytes.Buffer
	mw := multipart.NewWriter(&body)
	fw, _ := mw.CreateFormFile("file", "x.csv")
	fw.Write([]byte("time,v\n1700000000,1\n1700000001,2\n"))
	mw.Close()
	req := httptest.NewRequest("POST", "/api/v1/import/csv?measurement=secret", &body)
	req.Header.Set("Content-Type", mw.FormDataContentType())
	req.Header.Set("x-arc-database", "tenant")
	resp, err := app.Test(req, 20000)
	if err != nil {
		t.Fatal(err)
	}
	if resp.StatusCode != fiber.StatusForbidden {
		t.Errorf("status %d, want 403", resp.StatusCode)
	}
	_ = buf.Close()
	var files []string
	_ = filepath.Walk(dir, func(p string, info os.FileInfo, err error) error {
		if err == nil && !info.IsDir() && strings.HasSuffix(p, ".parquet") {
			rel, _ := filepath.Rel(dir, p)
			files = append(files, rel)
		}
		return nil
	})
	if len(files) != 0 || h.totalRecords.Load() != 0 {
		t.Errorf("the import was refused by RBAC, yet %d rows were imported and stored: %v", h.totalRecords.Load(), files)
	}
}
