package cluster

// Demonstration for C32: row-format WAL entries (line protocol, TLE, imports:
// every write without raw msgpack bytes) are appended WITHOUT the database
// envelope; their database travels in each row's "_database" key. The
// replication ingest handler took the database only from the envelope
// (default "default") and ignored "_database", so on a follower every
// replicated row-format write landed under database "default" instead of the
// database the request named.
//
// Run from /repo: cp <this> internal/cluster/ && go test ./internal/cluster -run TestC32Demo

import (
	"context"
	"os"
	"path/filepath"
	"strings"
	"testing"

	"github.com/basekick-labs/arc/internal/config"
	"github.com/basekick-labs/arc/internal/ingest"
	"github.com/basekick-labs/arc/internal/metrics"
	"github.com/basekick-labs/arc/internal/storage"
	"github.com/rs/zerolog"
	"github.com/vmihailenco/msgpack/v5"
)

func TestC32Demo_ReplicatedRowsKeepTheirDatabase(t *testing.T) {
	metrics.Init(zerolog.Nop())
	dir := t.TempDir()
	be, _ := storage.NewLocalBackend(dir, zerolog.Nop())
	defer be.Close()
	buf := ingest.NewArrowBuffer(&config.IngestConfig{MaxBufferSize: 1000000, MaxBufferAgeMS: 600000, FlushWorkers: 1, FlushQueueSize: 8, ShardCount: 4, Compression: "snappy"}, be, zerolog.Nop())
	c := &Coordinator{logger: zerolog.Nop()}
	c.ingestBuffer = buf

	// exactly what ArrowBuffer.columnarToWALRecords + wal.Writer.Append produce
	// for a line-protocol write of tenant/cpu
	payload, err := msgpack.Marshal([]map[string]interface{}{
		{"_database": "tenant", "_measurement": "cpu", "time": int64(1700000000000000), "v": float64(1)},
	})
	if err != nil {
		t.Fatal(err)
	}
	if err := c.buildReplicationIngestHandler().ApplyReplicatedEntry(context.Background(), payload); err != nil {
		t.Fatal(err)
	}
	_ = buf.Close()
	n := 0
	_ = filepath.Walk(dir, func(p string, info os.FileInfo, err error) error {
		if err == nil && !info.IsDir() && strings.HasSuffix(p, ".parquet") {
			n++
			rel, _ := filepath.Rel(dir, p)
			if !strings.HasPrefix(filepath.ToSlash(rel), "tenant/cpu/") {
				t.Errorf("replicated write for tenant/cpu was stored as %s", filepath.ToSlash(rel))
			}
		}
		return nil
	})
	if n == 0 {
		t.Fatalf("nothing applied")
	}
}
