package main

// Demonstration for C32: the WAL row format carries its routing in the keys
// "_database" / "_measurement" of each row map. columnarToWALRecords seeded the
// map with those keys and then copied the user's columns over it, so a column
// (line-protocol tag or field) the client names "_database" or "_measurement"
// replaced the routing keys. After a crash, WAL recovery stores the rows under
// the database/measurement named by the *column values* — a place the caller
// was never permission-checked for.
//
// Run from /repo: cp <this> cmd/arc/ && go test ./cmd/arc -run TestC32Demo

import (
	"context"
	"os"
	"path/filepath"
	"strings"
	"testing"
	"time"

	"github.com/basekick-labs/arc/internal/config"
	"github.com/basekick-labs/arc/internal/ingest"
	"github.com/basekick-labs/arc/internal/metrics"
	"github.com/basekick-labs/arc/internal/storage"
	"github.com/basekick-labs/arc/internal/wal"
	"github.com/rs/zerolog"
)

func c32Parquets(dir string) []string {
	var out []string
	_ = filepath.Walk(dir, func(p string, info os.FileInfo, err error) error {
		if err == nil && !info.IsDir() && strings.HasSuffix(p, ".parquet") {
			rel, _ := filepath.Rel(dir, p)
			out = append(out, filepath.ToSlash(rel))
		}
		return nil
	})
	return out
}

func TestC32Demo_ColumnCannotRedirectWALReplay(t *testing.T) {
	metrics.Init(zerolog.Nop())
	walDir := t.TempDir()
	icfg := &config.IngestConfig{MaxBufferSize: 1000000, MaxBufferAgeMS: 600000, FlushWorkers: 1, FlushQueueSize: 8, ShardCount: 4, Compression: "snappy"}

	// --- first life: accept a write for tenant/cpu whose payload has routing-like columns; then "crash"
	w, err := wal.NewWriter(&wal.WriterConfig{WALDir: walDir, SyncMode: wal.SyncModeFsync, Logger: zerolog.Nop()})
	if err != nil {
		t.Fatal(err)
	}
	dir1 := t.TempDir()
	be1, _ := storage.NewLocalBackend(dir1, zerolog.Nop())
	buf1 := ingest.NewArrowBuffer(icfg, be1, zerolog.Nop())
	buf1.SetWAL(w)
	cols := map[string][]interface{}{
		"time":         {int64(1700000000000000)},
		"v":            {float64(1)},
		"_database":    {"other"},
		"_measurement": {"secret"},
	}
	if err := buf1.WriteColumnarDirect(context.Background(), "tenant", "cpu", cols); err != nil {
		t.Fatal(err)
	}
	time.Sleep(300 * time.Millisecond)
	w.Close() // the buffered rows are lost with the process; only the WAL survives

	// --- second life: recovery replays the WAL
	dir2 := t.TempDir()
	be2, _ := storage.NewLocalBackend(dir2, zerolog.Nop())
	defer be2.Close()
	buf2 := ingest.NewArrowBuffer(icfg, be2, zerolog.Nop())
	rec := wal.NewRecovery(walDir, zerolog.Nop())
	if _, err := rec.Recover(context.Background(), createWALRecoveryCallback(buf2, zerolog.Nop())); err != nil {
		t.Fatal(err)
	}
	_ = buf2.Close()
	files := c32Parquets(dir2)
	if len(files) == 0 {
		t.Fatalf("nothing replayed")
	}
	for _, f := range files {
		if !strings.HasPrefix(f, "tenant/cpu/") {
			t.Errorf("the request named tenant/cpu, but its rows were replayed into %s", f)
		}
	}
}
