#!/usr/bin/env python3
"""Assembles /verif/DESIGN.md from design/head.md, generated per-property sections and design/tail.md.

The generated parts are taken from the artefacts themselves so they cannot drift:
  - claims.py                      what each check claims / does not decide / technique
  - evidence/<id>.json             the rule descriptions the checker registers (written by the last run)
  - known_findings.json            fixed and open findings
  - checker/mutants/<id>.json      self-validation mutants and behaviour-preserving variants
  - seeded/<id>-X/meta.json        seeded changes (written by agents without access to /verif) and which rules caught them
  - design/notes/<id>.md           optional hand-written remarks per property
"""
import glob
import json
import os
import re

HERE = os.path.dirname(os.path.abspath(__file__))
J = lambda *a: os.path.join(HERE, *a)

props = [json.loads(l) for l in open(J("properties.jsonl")) if l.strip()]
CLAIMS, NA = {}, {}


def claim(pid, text, note, technique, ref):
    CLAIMS[pid] = dict(text=text, note=note, technique=technique)


exec(open(J("claims.py")).read())
known = json.load(open(J("known_findings.json")))


def rules_of(pid):
    try:
        e = json.load(open(J("evidence", pid + ".json")))
    except Exception:
        return [], None
    ex = e["coverage"].get("explanation", "")
    out = []
    if "Rules: " in ex:
        body = ex.split("Rules: ", 1)[1]
        body = body.split(" || NOT decided by this check:")[0]
        for part in body.split(" || "):
            m = re.match(r"(C\d\d\.[A-Z0-9_]+): (.*)", part.strip(), re.S)
            if m:
                out.append((m.group(1), m.group(2).strip()))
    return out, e["coverage"]


def seeds_of(pid):
    out = []
    for d in sorted(glob.glob(J("seeded", pid + "-*"))):
        try:
            m = json.load(open(os.path.join(d, "meta.json")))
        except Exception:
            continue
        out.append((os.path.basename(d), m))
    return out


def mutants_of(pid):
    try:
        m = json.load(open(J("checker", "mutants", pid + ".json")))
    except Exception:
        return [], []
    return [x for x in m if x.get("expect")], [x for x in m if not x.get("expect")]


def section(p):
    pid = p["id"]
    c = CLAIMS.get(pid)
    L = ["### %s — %s" % (pid, p["title"]), ""]
    if not c:
        L += ["Not claimed: " + NA.get(pid, "no sound static clause found"), ""]
        return L
    L += ["**Decided.** " + c["text"], "", "**Not decided.** " + c["note"], "", "**Technique.** " + c["technique"] + ".", ""]
    rules, cov = rules_of(pid)
    if rules:
        L += ["| rule | kind and statement |", "|---|---|"]
        for rid, desc in rules:
            L.append("| `%s` | %s |" % (rid, desc.replace("|", "\\|").replace("\n", " ")))
        L.append("")
    if cov:
        L += ["Last recorded run (%s): %d obligations in config(s) %s, %d discharged, %d known." % (
            cov.get("checker_cmd", "").split()[-1], cov.get("obligations", 0), "+".join(cov.get("configs", [])),
            cov.get("discharged", 0), len(cov.get("known_findings_matched") or [])), ""]
    fx = [f for f in known.get("fixed", []) if ("property=%s " % pid) in f]
    if fx:
        L.append("**Genuine defects repaired** (`fix:` commits in /repo; each demonstrated by a failing test under `findings/%s/` before the repair):" % pid)
        L.append("")
        for f in fx:
            L.append("* " + f[len("fixed: property=%s " % pid):])
        L.append("")
    op = [o for o in known.get("open", []) if o["property"] == pid]
    if op:
        L.append("**Known findings (open).**")
        L.append("")
        for o in op:
            L.append("* `%s` `%s` — %s" % (o["rule"], o["construct"], o["what_fails"]))
        L.append("")
    det, eq = mutants_of(pid)
    if det or eq:
        by = {}
        for m in det:
            by.setdefault(m["expect"], []).append(m["name"])
        L.append("**Self-validation.** %d mutants that must be reported (%s)%s." % (
            len(det), "; ".join("%s: %s" % (k, ", ".join(v)) for k, v in sorted(by.items())),
            (" and %d behaviour-preserving variant(s) that must stay unreported (%s)" % (len(eq), ", ".join(m["name"] for m in eq))) if eq else ""))
        L.append("")
    sd = seeds_of(pid)
    if sd:
        L.append("**Seeded changes** (written by agents that saw only the property text; confirmed to compile, pass the existing suite and break the property):")
        L.append("")
        for sid, m in sd:
            cb = m.get("caught_by") or "—"
            if isinstance(cb, list):
                cb = ", ".join(cb)
            what = m.get("breaks") or m.get("summary") or ""
            fr = (" First run (before any rule was added for it): %s." % m["first_run"]) if m.get("first_run") else ""
            L.append("* `%s` — %s Caught by: %s.%s%s" % (sid, (what.rstrip(".") + ".") if what else "", cb, fr, (" " + m["note"]) if m.get("note") else ""))
        L.append("")
    notes = J("design", "notes", pid + ".md")
    if os.path.exists(notes):
        L += [open(notes).read().rstrip(), ""]
    return L


out = [open(J("design", "head.md")).read().rstrip(), "", "## 3. Per-property design", "",
       "Each section is generated from the artefacts (see the file header). Rule kinds are those of §2.2; the prefix of a rule's statement names its kind.", ""]
for p in props:
    out += section(p)
    out.append("---")
    out.append("")

tail = open(J("design", "tail.md")).read()
# generated tables for the tail
fixed_rows = []
for f in known.get("fixed", []):
    m = re.match(r"fixed: property=(C\d\d) (\w+) (.*)", f)
    if m:
        fixed_rows.append("| %s | `%s` | %s |" % (m.group(1), m.group(2), m.group(3).replace("|", "\\|")))
open_rows = ["| %s | `%s` `%s` | %s |" % (o["property"], o["rule"], o["construct"].replace("|", "\\|"), o["what_fails"].replace("|", "\\|")) for o in known.get("open", [])]
seed_rows = []
for p in props:
    for sid, m in seeds_of(p["id"]):
        cb = m.get("caught_by") or "—"
        if isinstance(cb, list):
            cb = ", ".join(cb)
        seed_rows.append("| %s | %s | %s%s |" % (sid, (m.get("breaks") or "").replace("|", "\\|"), cb, (" (first run: %s)" % m["first_run"]) if m.get("first_run") else ""))
mut_total = sum(len(mutants_of(p["id"])[0]) for p in props)
eq_total = sum(len(mutants_of(p["id"])[1]) for p in props)
tail = tail.replace("{{FIXED_TABLE}}", "| property | commit | rule, construct — what failed |\n|---|---|---|\n" + "\n".join(fixed_rows))
tail = tail.replace("{{OPEN_TABLE}}", "| property | rule, construct | what fails, why it is not repaired, demonstration |\n|---|---|---|\n" + "\n".join(open_rows))
tail = tail.replace("{{SEED_TABLE}}", "| seed | what it breaks | caught by |\n|---|---|---|\n" + "\n".join(seed_rows))
tail = tail.replace("{{N_FIXED}}", str(len(fixed_rows))).replace("{{N_OPEN}}", str(len(open_rows)))
tail = tail.replace("{{N_MUT}}", str(mut_total)).replace("{{N_EQ}}", str(eq_total)).replace("{{N_SEEDS}}", str(len(seed_rows)))
out.append(tail.rstrip())
open(J("DESIGN.md"), "w").write("\n".join(out) + "\n")
print("DESIGN.md written:", len("\n".join(out).splitlines()), "lines;", len(fixed_rows), "fixed,", len(open_rows), "open,", len(seed_rows), "seeds,", mut_total, "mutants,", eq_total, "variants")
