#!/usr/bin/env python3
"""Regenerates MANIFEST.json from the table below and the set of properties the
checker binary has registered. Run after adding a property's rules."""
import json, subprocess, os

HERE = os.path.dirname(os.path.abspath(__file__))
props = [json.loads(l) for l in open(os.path.join(HERE, "properties.jsonl"))]
registered = subprocess.run([os.path.join(HERE, "bin/arccheck"), "-list"], capture_output=True, text=True).stdout.split()

# per property: (what the static check decides, what is assumed/not decided, technique)
CLAIMS = {}
def claim(pid, text, note, technique, ref):
    CLAIMS[pid] = dict(text=text, note=note, technique=technique, ref=ref)

exec(open(os.path.join(HERE, "claims.py")).read())

BASELINE = json.load(open("/root/.vp/BASELINE.json"))["cmd"]
# the 'fix:' commits in /repo, oldest first (authoritative: read from the repository's own history)
fix_commits = [l.split()[0] for l in reversed(subprocess.run(["git", "-C", "/repo", "log", "--format=%h %s"], capture_output=True, text=True).stdout.splitlines()) if l.split(" ", 1)[1].startswith("fix:")]

checks, na = [], []
for p in props:
    pid = p["id"]
    if pid in registered and pid in CLAIMS:
        c = CLAIMS[pid]
        checks.append({
            "property_id": pid,
            "quick_cmd": f"./run_check.sh {pid} quick",
            "thorough_cmd": f"./run_check.sh {pid} thorough",
            "evidence_file": f"/verif/evidence/{pid}.json",
            "replay_cmd_template": "bin/arccheck -replay {path}",
            "engine": "arccheck",
            "level_claimed": {"category": "other", "text": c["text"], "design_ref": c["ref"]},
            "level_note": c["note"],
            "technique": c["technique"],
        })
    else:
        na.append({"property_id": pid, "reason": NA.get(pid, "static rules for this property are not built yet in this round (work in progress); no verdict is claimed")})

m = {
    "version": 1,
    "setup_cmd": "cd /verif/checker && GOFLAGS=-mod=mod GOPROXY=off go build -o ../bin/arccheck . && cd /repo && GOFLAGS=-mod=mod GOPROXY=off go list -export -deps -tags=duckdb_arrow ./... >/dev/null && GOFLAGS=-mod=mod GOPROXY=off go list -export -deps ./... >/dev/null",
    "hooks": {
        "guard": "verif",
        "enable": "none: static analysis reads the source as it is; no hook or instrumentation commit exists (the tag name is reserved only)",
        "baseline_off_cmd": BASELINE,
        "source_commits": fix_commits,
        "add_only": True,
    },
    "engines": [{
        "name": "arccheck",
        "path": "/verif/checker",
        "serves_properties": [c["property_id"] for c in checks],
        "kind_free_text": "repository-specific static analyser (go/packages + go/types + go/ssa, x/tools v0.29.0): dominance, must-pass-through, who-may-call, exhaustiveness, sibling-agreement, lock-scope, value-flow, SQL-template and constant-relation rules; obligations keyed by rule+construct; fail-closed on undecided shapes",
    }],
    "checks": checks,
    "notes": "Every check is a static analysis of /repo's working tree at level 'other': it decides named structural clauses that are necessary conditions of the property (listed in level_claimed.text), not the behaviour. source_commits are 'fix:' repairs of genuine defects the checks found (see known_findings.json and DESIGN.md §8); there are no hook commits.",
    "not_applicable": na,
}
json.dump(m, open(os.path.join(HERE, "MANIFEST.json"), "w"), indent=1)
print("claimed", len(checks), "not claimed", len(na))
