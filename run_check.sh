#!/bin/sh
# usage: run_check.sh <property-id> <quick|thorough>
# Runs the static checker against /repo's current working tree.
cd "$(dirname "$0")" || exit 2
export GOFLAGS=-mod=mod GOPROXY=off
unset GOWORK GOTOOLCHAIN GOSUMDB
if [ ! -x bin/arccheck ] || [ -n "$(find checker -name '*.go' -newer bin/arccheck 2>/dev/null | head -1)" ]; then
  (cd checker && go build -o ../bin/arccheck .) || { echo "VIOLATION property=$1 replay=/verif/checker (checker build failed)"; exit 1; }
fi
exec bin/arccheck -prop "$1" -tier "${2:-quick}"
