#!/bin/bash
# usage: confirm_seed.sh <prop> <variant> <srcdir>
# Confirms a seeded defect in a scratch worktree: (1) patch applies and the
# tree builds, (2) the existing test suite passes with the patch, (3) the demo
# fails with the patch and (4) passes without it. Writes /verif/seeded/<prop>-<variant>/.
set -u
prop=$1; var=$2; src=$3
id="$prop-$var"
out=/verif/seeded/$id
wt=/var/tmp/confirm/$id
export GOFLAGS=-mod=mod GOPROXY=off
unset GOWORK
mkdir -p "$out" /var/tmp/confirm
cp "$src/patch.diff" "$out/patch.diff"
base=$(git -C /repo rev-parse HEAD)
git -C /repo worktree remove --force "$wt" 2>/dev/null
git -C /repo worktree add -q --detach "$wt" "$base" || exit 2
cd "$wt"
log="$out/confirm.log"; : > "$log"
# demo files
demos=()
while read -r line; do
  [ -z "$line" ] && continue
  for f in "$src"/*_test.go; do
    b=$(basename "$f")
    case "$line" in
      *"->"*)
        # "name -> path": the left side names the demo file, the right side is where it goes
        lhs=$(echo "${line%%->*}" | tr -d '` ' ); rhs=$(echo "${line#*->}" | tr -d '` ')
        [ "$(basename "$lhs")" = "$b" ] || continue
        case "$rhs" in *.go) rel=$rhs;; *) rel="${rhs%/}/$b";; esac
        demos+=("$rel"); cp "$f" "$out/$b";;
      *"$b"*)
        rel=$(echo "$line" | grep -o '[A-Za-z0-9_./-]*'"$b" | tail -1)
        [ "$(basename "$rel")" = "$b" ] || continue
        demos+=("$rel"); cp "$f" "$out/$b";;
    esac
  done
done < "$src/demo_path.txt"
if [ ${#demos[@]} -eq 0 ]; then
  for f in "$src"/*_test.go; do b=$(basename "$f"); d=$(grep -o 'internal/[A-Za-z0-9_/]*' "$src/demo_path.txt" | head -1); d=${d%/}; case "$d" in *.go) d=$(dirname "$d");; esac; demos+=("$d/$b"); cp "$f" "$out/$b"; done
fi
echo "demos: ${demos[*]}" >> "$log"
place_demos() { for d in "${demos[@]}"; do cp "$out/$(basename "$d")" "$wt/$d"; done; }
remove_demos() { for d in "${demos[@]}"; do rm -f "$wt/$d"; done; }
pkgs=$(for d in "${demos[@]}"; do echo "./$(dirname "$d")/"; done | sort -u | tr '\n' ' ')
runpat=$(grep -ho '^func Test[A-Za-z0-9_]*' "$out"/*_test.go | sed 's/func //' | sort -u | paste -sd'|')
# optional build tags for the two demo runs only (e.g. DEMO_TAGS=duckdb_arrow)
demo_tags=""; [ -n "${DEMO_TAGS:-}" ] && demo_tags="-tags=$DEMO_TAGS"
echo "demo tags: ${DEMO_TAGS:-<none>}" >> "$log"
# (4) demo passes without patch
place_demos
go test -vet=off -count=1 $demo_tags -run "^($runpat)\$" $pkgs >> "$log" 2>&1; clean_demo=$?
remove_demos
# apply
git apply "$out/patch.diff" >> "$log" 2>&1 || { echo "APPLY FAILED" >> "$log"; applied=1; }
applied=${applied:-0}
go build ./... >> "$log" 2>&1; build=$?
# (2) existing suite with patch
go test -vet=off -count=1 -timeout 25m ./... > "$out/suite.log" 2>&1; suite=$?
failed=$(grep -E '^(FAIL|---FAIL|--- FAIL)' "$out/suite.log" | head -20)
if [ $suite -ne 0 ]; then
  # rerun failed packages once (known timing flakes under load)
  fp=$(grep -E '^FAIL\s+github.com' "$out/suite.log" | awk '{print $2}' | sed 's#github.com/basekick-labs/arc#.#' | tr '\n' ' ')
  # timing-sensitive tests (raft election, flush timing) fail under heavy machine load: retry the failed packages serially, up to 3 times
  for attempt in 1 2 3; do
    [ -z "$fp" ] && break
    go test -vet=off -count=1 -p 1 -timeout 25m $fp > "$out/suite_rerun.log" 2>&1; suite=$?
    [ $suite -eq 0 ] && break
    fp=$(grep -E '^FAIL\s+github.com' "$out/suite_rerun.log" | awk '{print $2}' | sed 's#github.com/basekick-labs/arc#.#' | tr '\n' ' ')
    sleep 20
  done
fi
# (3) demo fails with patch
place_demos
go test -vet=off -count=1 $demo_tags -run "^($runpat)\$" $pkgs > "$out/demo_with_patch.log" 2>&1; patched_demo=$?
remove_demos
files=$(git diff --name-only | paste -sd, )
cd /; git -C /repo worktree remove --force "$wt"
python3 - "$out" "$prop" "$var" "$applied" "$build" "$suite" "$clean_demo" "$patched_demo" "$files" "$base" "${demos[*]}" <<'PY'
import json,sys,os
out,prop,var,applied,build,suite,clean,patched,files,base,demos=sys.argv[1:12]
notes=""
ok = applied=="0" and build=="0" and suite=="0" and clean=="0" and patched!="0"
meta={"id":f"{prop}-{var}","property":prop,"files_touched":files.split(","),"base_commit":base,
 "demo_files":demos.split(),"confirmed":ok,
 "ran":{"patch_applies":applied=="0","go_build_ok":build=="0","existing_suite_passes_with_patch":suite=="0",
        "demo_passes_without_patch":clean=="0","demo_fails_with_patch":patched!="0"},
 "commands":["git apply patch.diff","go build ./...","go test -vet=off -count=1 -timeout 25m ./...  (failed packages re-run once: timing flakes under load)","go test -run <demo tests> <pkg> with and without the patch"]}
p=os.path.join(out,"meta.json")
old={}
if os.path.exists(p):
    try: old=json.load(open(p))
    except Exception: pass
for k in ("needs","breaks","caught_by"):
    if k in old: meta[k]=old[k]
json.dump(meta,open(p,"w"),indent=1)
print(prop,var,"confirmed" if ok else "NOT CONFIRMED",meta["ran"])
PY
