#!/bin/bash
# usage: eval_new_seed.sh <prop> <variant> <srcdir> <tallyfile>  — copies the patch into seeded/ and runs the property's check blind
cd /verif || exit 2
id=$1-$2; mkdir -p seeded/$id && cp $3/patch.diff seeded/$id/ && r=$(scripts/run_seeded.sh $id) && echo "$r" && printf '%s\t%s\t%s\n' "$id" "$(echo "$r" | awk '{print $2}')" "$(echo "$r" | sed 's/.*by //')" >> $4
