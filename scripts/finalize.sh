#!/bin/bash
# Re-runs every seed against the current checks (recording caught_by), runs all quick checks,
# regenerates MANIFEST.json and DESIGN.md. Run after any change to the checker or to /repo.
cd /verif || exit 2
scripts/run_seeded.sh > /var/tmp/seeded_final.out 2>&1
python3 - <<'PY'
import json,re,os
first={}
import glob
for tsv in glob.glob('/verif/seeded/ROUND*_first_run.tsv'):
    for l in open(tsv):
        p=l.rstrip('\n').split('\t')
        if len(p)>=2: first[p[0]]=p[1]
for line in open('/var/tmp/seeded_final.out'):
    m=re.match(r'(C\d\d-[A-E]) (CAUGHT by (.*)|MISSED|INAPPLICABLE.*)',line.strip())
    if not m: continue
    sid=m.group(1); p=f'/verif/seeded/{sid}/meta.json'
    d=json.load(open(p)) if os.path.exists(p) else {"id":sid,"property":sid[:3]}
    if m.group(3):
        d['caught_by']=sorted(set(r for r in m.group(3).split(',') if r and r!='anchor'))
    elif m.group(2)=='MISSED':
        d['caught_by']=[]
        d['note']=d.get('note') or 'not reported by any rule of this property'
    else:
        d['note']='patch no longer applies to the current tree'
    if sid[-2:] in ('-C','-D','-E'):
        d['round']={'-C':3,'-D':4,'-E':5}[sid[-2:]]
        if sid in first: d['first_run']=first[sid]
    json.dump(d,open(p,'w'),indent=1,ensure_ascii=False)
PY
grep -v CAUGHT /var/tmp/seeded_final.out
scripts/run_all.sh quick > /var/tmp/run_all_quick.out 2>&1; echo "quick: $(grep -c 'violations=0' /var/tmp/run_all_quick.out)/32 clean"; grep -v "violations=0\|KNOWN-FINDING\|evidence validated" /var/tmp/run_all_quick.out | head
python3 gen_manifest.py && python3 gen_design.py | tail -1
