#!/usr/bin/env python3
"""Lists, from the evidence of the last thorough runs, every mutant that was not detected / every variant that was reported."""
import glob, json
for f in sorted(glob.glob('/verif/evidence/C*.json')):
    e = json.load(open(f)); ms = e['coverage'].get('mutants')
    if ms is None:
        print(f[-8:-5], 'no self-validation recorded (last run was tier', e.get('tier'), ')'); continue
    bad = [(m['Name'], m['Status']) for m in ms if not (m['Status'].startswith('detected') or m['Status'] == 'silent-as-required')]
    print(f[-8:-5], len(ms), 'mutants/variants', 'OK' if not bad else bad)
