#!/bin/bash
# usage: run_all.sh [quick|thorough]  — runs every claimed check, validates evidence against the schema
cd /verif || exit 2
tier=${1:-quick}
fail=0
for p in $(python3 -c "import json;print(' '.join(c['property_id'] for c in json.load(open('MANIFEST.json'))['checks']))"); do
  out=$(./run_check.sh $p $tier 2>&1); rc=$?
  echo "$out" | tail -1
  [ $rc -ne 0 ] && { fail=1; echo "$out" | grep -E '^(VIOLATED|UNDECIDED|FATAL)' | head -5; }
done
python3-vt - <<'PY'
import json,jsonschema,glob
s=json.load(open('/root/.vp/EVIDENCE.schema.json'))
m=json.load(open('/verif/MANIFEST.json'))
for c in m['checks']:
    f=c['evidence_file']
    try:
        jsonschema.validate(json.load(open(f)),s)
    except Exception as e:
        print('EVIDENCE INVALID',f,str(e)[:200])
print('evidence validated for',len(m['checks']),'checks')
PY
exit $fail
