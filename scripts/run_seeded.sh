#!/bin/bash
# usage: run_seeded.sh [seed-id ...]   (default: all under /verif/seeded)
# For each seeded defect: builds an overlay (patched copies of the touched
# files, taken from /repo's working tree) under /var/tmp/ov/<id>, runs the
# property's check with -overlaydir, reports CAUGHT (with the rules that
# fired) or MISSED. /repo itself is never modified.
cd /verif || exit 2
export GOFLAGS=-mod=mod GOPROXY=off
ids=("$@"); [ ${#ids[@]} -eq 0 ] && ids=($(ls seeded))
for id in "${ids[@]}"; do
  d=seeded/$id; [ -f $d/patch.diff ] || continue
  prop=${id%%-*}
  ov=/var/tmp/ov/$id; rm -rf $ov; mkdir -p $ov
  files=$(grep '^+++ b/' $d/patch.diff | sed 's#^+++ b/##')
  for f in $files; do mkdir -p $ov/$(dirname $f); cp /repo/$f $ov/$f 2>/dev/null; done
  if ! (cd $ov && patch -p1 -s --no-backup-if-mismatch < /verif/$d/patch.diff >/dev/null 2>&1); then echo "$id INAPPLICABLE (patch does not apply to current /repo)"; rm -rf $ov; continue; fi
  out=$(bin/arccheck -prop $prop -tier quick -overlaydir $ov -noevidence 2>&1)
  rules=$(echo "$out" | grep -E '^(VIOLATED|UNDECIDED|FATAL)' | awk '{print $3}' | sort -u | paste -sd,)
  if echo "$out" | grep -q '^VIOLATION'; then echo "$id CAUGHT by $rules"; else echo "$id MISSED"; fi
  rm -rf $ov
done
