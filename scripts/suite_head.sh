#!/bin/bash
# full existing suite on /repo HEAD in a scratch worktree
export GOFLAGS=-mod=mod GOPROXY=off; unset GOWORK
rm -f /var/tmp/suite_head_rerun.log
wt=/var/tmp/suite_head_wt
git -C /repo worktree remove --force $wt 2>/dev/null
git -C /repo worktree add -q --detach $wt HEAD || exit 2
cd $wt
go test -vet=off -count=1 -timeout 25m ./... > /var/tmp/suite_head.log 2>&1; rc=$?
if [ $rc -ne 0 ]; then
  fp=$(grep -E '^FAIL\s+github.com' /var/tmp/suite_head.log | awk '{print $2}' | sed 's#github.com/basekick-labs/arc#.#' | tr '\n' ' ')
  [ -n "$fp" ] && { go test -vet=off -count=1 -p 1 -timeout 25m $fp > /var/tmp/suite_head_rerun.log 2>&1; rc=$?; }
fi
cd /; git -C /repo worktree remove --force $wt
echo "SUITE rc=$rc head=$(git -C /repo rev-parse --short HEAD)"; grep -E '^(FAIL|--- FAIL)' /var/tmp/suite_head.log | head; [ -f /var/tmp/suite_head_rerun.log ] && grep -E '^(FAIL|--- FAIL|ok)' /var/tmp/suite_head_rerun.log | head
